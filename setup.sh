#!/bin/sh
# Build the checker offline from files on disk only.
set -e
cd "$(dirname "$0")"
export GOFLAGS=-mod=mod GOPROXY=off GOSUMDB=off GOTOOLCHAIN=local
unset GOWORK
mkdir -p bin evidence/replay
(cd checker && go build -o ../bin/rvet .)
# warm the export-data cache so the first check is not the slow one
./bin/rvet list >/dev/null 2>&1 || true
