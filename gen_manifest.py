#!/usr/bin/env python3
"""Regenerates MANIFEST.json from the table below (kept valid at all times)."""
import json
props=[json.loads(l) for l in open('/verif/properties.jsonl')]
# id -> (section, technique, level text, level note)
CLAIMED = {
 "C09": ("7/C09", "typestate dataflow over go/ssa (iterator/response protocol) + CFG edge-cut guard entailment + field provenance",
         "Structural necessary conditions only: the iterator/response typestate of the range generator, the limit guard and counter, the size cut, count bookkeeping and the field-for-field hand-over are decided for all paths of the current sources. Sortedness and value-level paging equality are Pebble's contract and not decided.",
         "go/types+go/ssa (x/tools v0.29.0); pebble.Iterator First/Next/Key/Value contract; paths over-approximate executions"),
 "C01": ("7/C01", "ownership and must-pass-through rules over go/ssa: who-writes (batch vs DB), CFG node-cut (commit, index write, make-indexed before read), key provenance, enum/oneof exhaustiveness",
         "Structural necessary conditions only: single apply batch, commit placement, applied index written with the data from the entry's own index, reads through the indexed batch, read-before-write, key-space discipline of keys/bounds/bookkeeping keys, bounded and exact reads, exhaustive dispatch - decided on all paths of the current sources. Sorted-map semantics of Pebble and response values are not decided.",
         "go/types+go/ssa; pebble Batch/Reader/Iterator API contracts; role-based anchors (DESIGN section 5)"),
 "C02": ("7/C02", "CFG edge-cut guard entailment + backward 'return true only if' reachability + operator-table normalisation + loop append-once rule over go/ssa",
         "Structural necessary conditions only: branch/list/flag agreement on both transaction paths and the table layer, predicates before operations on the same view, failed-predicate edges reach only 'return false', operator table with the stored value on the left, one response per operation arm, one snapshot on the read-only path, read-only classification and its two consumers. Evaluation results and Pebble isolation are not decided.",
         "go/types+go/ssa; bytes.Compare in {-1,0,1}; C01 obligations hold inside a transaction"),
 "C03": ("7/C03", "forward taint (effects) from nondeterministic sources to replicated sinks over the module call graph + carry-field presence-guard rule (edge cut) + provenance of result revisions + snapshot saver loop rules",
         "Structural necessary conditions only: no clock/random/environment/per-replica value or ordering construct reaches batch writes or results; per-entry context fields persisted once per batch are total or presence-guarded; results carry the entry's own index; indexed switch applies the old batch; both snapshot savers carry all keys (flush before checkpoint). Equality of replica contents is not decided.",
         "go/types+go/ssa; blacklist of nondeterministic sources (DESIGN section 4 E6); metrics/logging are not replicated state"),
 "C10": ("7/C10", "value provenance of the revision across state machine, table layer and servers + CFG edge-cut on the linearizable flag + call-site table of the read helper",
         "Structural necessary conditions only: revision provenance Entry.Index -> CommandResult -> Result.Data -> response header (every command kind but the no-op reports its result; nobody else writes the header revision; the forwarding server returns the leader's message) and read-path selection (SyncRead exactly under linearizable, flag sources per call site). Linearizability of dragonboat reads is assumed, not decided.",
         "go/types+go/ssa; dragonboat index assignment and ReadIndex semantics"),
 "C11": ("7/C11", "must-pass-through and path rules over the event loop and its sweep closure (answer/remove pairing in Peek/Pop and omission form), ownership of the heap key and of the callback/listener fields, channel-capacity constant facts, identity-based wiring check",
         "Structural necessary conditions only: forwarding handlers return the queue's answer for the leader's revision; the applied callback follows the commit and prefers the leader index, wired to the same queue object; answered waiters leave the heap and only answered ones do; the heap key is immutable; the waiter channel is buffered and the loop has no other blocking operation; success release only under waiter.revision <= notified. Timeliness and fairness are not decided.",
         "go/types+go/ssa; Go channel semantics (buffered send does not block); iter.Consume is synchronous"),
 "C16": ("7/C16", "CFG edge-cut guard entailment with interval-normalised atoms per RPC handler and table-layer method, interprocedural validator rule, status-code constant facts, registration type facts, crash-surface ownership table, request/response type-table agreement",
         "Structural necessary conditions only: request-shape guards and their codes for all five KV RPCs, size limits on every proposing path including puts nested in both transaction branches, error-edge mapping (unknown table -> NotFound, no swallowed error), read-only/forwarding registration on the follower, and the explicit crash surface (panics, unchecked assertions) on request paths against a reviewed table plus Lookup type-table agreement. Absence of all runtime panics is not decided.",
         "go/types+go/ssa; grpc status/codes API; reviewed crash-surface table in checker/c16.go"),
 "C07": ("7/C07", "decoded-value-must-be-consumed path rule (node cut with presence exemption), ordering rules on the stream handler, provenance of dump reader / terminator index / proposal payload, guard entailment on the checksum comparison",
         "Structural necessary conditions only: no decoded record bypasses the batch, batch cleared only after marshal, final proposal before success, proposal errors returned; dump reads one snapshot; terminator with the dump's index written after the dump and before copy-out and forwarded by the loader; exactly the user pairs are exported; catalogue switch after a successful load into the fresh shard; checksum gate with per-table reset and feed. Content equality is not decided.",
         "go/types+go/ssa; io.Reader contract of the snapshot file; Pebble snapshot semantics"),
 "C04": ("7/C04", "must-pass-through / ordering rules (node cut with deferred-call awareness) over the file-system effect sequence of Open, the two snapshot recoverers and package pebble's 'current' protocol; guard entailment on the cleanup; provenance of Open's result; shared C01.a-c obligations",
         "Structural necessary conditions only: data+index in one batch; Sync/Close flush; temp-file write-sync-rename-dirsync protocol with no dropped error; directory exists before its name is published; install order received-files-synced -> build -> save -> replace -> swap -> close(old) -> cleanup; cleanup spares 'current' and the directory it names; Open returns the persisted index. The crash-point quantifier itself and Pebble's durability are not decided.",
         "go/types+go/ssa; vfs durability semantics; pebble.Open creates its directory, Ingest is durable on return"),
 "C06": ("7/C06", "CFG edge-cut guard entailment with linear integer atoms (interval-normalised) on the stream handler and the log read, loop rules (one command per entry), ownership of the cache buffer, guard entailment on every cache put, event-dispatch reachability, interval fact on the size cut",
         "Structural necessary conditions only: range arithmetic of the stream handler, the four-way decision of the log read and its mapping to error responses, dense/ordered/labelled command construction, cache write hygiene and invalidation wiring, size cut >= 1 entry. Equivalence of cached and uncached answers for every cache state is NOT decided.",
         "go/types+go/ssa; dragonboat ReadonlyLogReader contract; applied index monotone"),
 "C13": ("7/C13", "CFG edge-cut guard entailment on the version gate (per loop iteration), provenance of the stored version, client result mapping, forward taint for determinism, writer-reader agreement of the JSON snapshot, lock-held-until-return rule",
         "Structural necessary conditions only: version gate before every map write with the mismatch edge reporting the stored pair and writing nothing; stored version = entry index; client maps mismatch and proposal errors; no nondeterministic value reaches the map or results; snapshot marshals/decodes the same field and replaces the map; every map access under the (right kind of) lock until return. Glob semantics and JSON round trips are not decided.",
         "go/types+go/ssa; Raft applies entries in index order"),
 "C14": ("7/C14", "CFG edge-cut guard entailment (exists / version-mismatch / membership / reserved-range edges), constant and provenance facts on the id sequence and record ids, directory-name provenance, shard/session targeting of every read and proposal",
         "Structural necessary conditions only: compare-and-set create with version 0 and id from the sequence; sequence writes current+1 with the version read and returns it with the write's error; directory keyed by name and shard id; delete with the version read and NotFound mapping; reconciliation start/stop sets guarded by membership and the reserved range; every ActiveTable read/proposal addresses its own shard. Inter-node races reduce to C13.",
         "go/types+go/ssa; C13 compare-and-set semantics, versions never 0"),
 "C15": ("7/C15", "CFG edge-cut guard entailment on the lease write and delete (three-literal disjunction), version provenance, success-only-after-write rule, worker guard and flag rules",
         "Structural necessary conditions only: lease written only when unclaimed / own / expired, with the version of the inspected lease, success only after the write succeeded; lease deleted only when own with the version read; the worker replicates/recovers only under its leased flag, which follows the lease call's outcome, and requests the lease for longer than the renewal period. Clock skew and the store's atomicity (C13) are not decided.",
         "go/types+go/ssa; C13 compare-and-set semantics"),
 "C19": ("7/C19", "CFG edge-cut guard entailment with linear atoms on the merge function's field stores, pair-travels-together path rule, key/argument provenance and lock rules on the update method, ownership of the view map, feeder call-site table; thorough tier: exhaustive evaluation of the extracted guarded assignment on the finite quotient of orderings",
         "Structural necessary conditions only: leader/term overwritten together and only from an update that names a leader and (current has none or strictly larger term); membership only with larger config-change index; entry keyed by the update's shard and merged with the entry under that key, under the write lock; only update() writes the view and all feeders call it; header copies term/leader of the requested shard. Thorough tier adds order independence, idempotence and term monotonicity on the finite quotient (an enumeration of an extracted abstraction, reported separately). Gossip convergence is not decided.",
         "go/types+go/ssa; Raft election safety (equal terms name equal leaders) for the quotient check"),
 "C12": ("7/C12", "writer-reader agreement of layout constants and offsets (type-checked constants, array widths, slice bounds), ownership of the key bytes (use only as copy source), constant facts on type constants and bookkeeping names, shared key-space/bounds obligations of C01",
         "Structural necessary conditions only: encoder and decoders agree on header width, version position, type-byte and key offsets; key bytes are copied verbatim and decoded as sub-slices; only the version byte of the header varies; user < system; bookkeeping names non-empty and not starting with 0x00; bounds and bookkeeping keys use the same encoder. Injectivity/order preservation then follow from a stated lemma, not from the check.",
         "go/types+go/ssa; lemma: constant prefixing is injective and monotone"),
 "C17": ("7/C17", "type facts from go/types (dynamic type at each registration implements the middleware's own override interface), option-list provenance, token-key provenance per registration, CFG edge-cut guard entailment on the token comparison and on the TLS configuration stores, constant facts (tls.ClientAuthType, grpc codes); thorough tier audits the pinned middleware source",
         "Structural necessary conditions only: both auth interceptors installed; all four protected registrations implement the override, which returns the server's auth result, built from the service's own token key; acceptance only after whole-string equality, rejection with Unauthenticated; TLS server config requires+verifies client certs under CA/flag, ClientCAs from the CA file, peer verification on verified chains with exact CN / VerifyHostname, no InsecureSkipVerify, both servers wired from their own keys. crypto/tls and gRPC behaviour are assumed.",
         "go/types+go/ssa; go-grpc-middleware interceptor contract (audited in thorough tier); crypto/tls semantics"),
 "C18": ("7/C18", "writer-reader agreement (prefix width, byte order, buffer, payload length) extracted from resolved callees, ordering rules, loop rules on the chunk writer/readers, typestate-like pooled-object rules (reset before reuse, no use after return, no escape), type facts for the codec ladder and the vtproto pair of all API messages, per-package pool discipline of the three compressors",
         "Structural necessary conditions only: both framings agree on width/endianness/length; chunking forwards exactly the bytes read, in order, until EOF; pooled vtproto messages are reset in receive loops, not used after return and their bytes do not escape; codec ladders prefer vtproto, all 29 API message types implement the pair, codec named proto and registered; each compressor resets before hand-out, returns writers only after the underlying Close and readers only on EOF. Round trips of generated code and of the compression libraries are not decided.",
         "go/types+go/ssa; encoding/binary, io, sync.Pool, vtproto pool contracts"),
 "C05": ("7/C05", "provenance of the requested index, loop/path rules on the batching loop (append once, tag from the same element, last element proposes, clear after propose, error returns), must-pass-through on the commit function for the leader index, guard entailment on reconciliation membership tests, plus shared obligations C03.b, C06.a-c, C15.c, C07.a/c/e",
         "Structural necessary conditions only: worker asks for recorded+1 through its own shard's session; batching appends each command once, tags with its own index, proposes the tail, clears after the proposal, returns errors; leader index written in the same batch as the data and not erased by entries without one; stream arithmetic/labels; lease gating; restore loads into a fresh shard, forwards the index, switches after success; reconciliation deletes/creates exactly the set differences. Content equality over time and convergence are not decided.",
         "go/types+go/ssa; SEQUENCE applied atomically (C01); dragonboat applies each proposal once"),
 "C08": ("7/C08", "writer-reader agreement of header constants/offsets/byte order and selector table, shared snapshot-saver and install-order rules (C03.e, C04.e), closure-escape analysis (resource captured by a lazily evaluated closure returned from Lookup) with a known finding",
         "Structural necessary conditions only: format dispatch bijection; savers read the prepared view and write everything; install order received-synced/build/save/replace/swap/close(old)/cleanup; no closure capturing a Pebble handle is returned by Lookup - the latter is violated today by the lazy range generator (known finding K1, a genuine defect recorded in known_findings.json), any other escaping closure is still a violation.",
         "go/types+go/ssa; dragonboat's lookup/recover exclusion lasts only for the Lookup call"),
}
# clauses added in later rounds (appended to the level text)
EXTRA = {
 "C01": " Later rounds: every entry and element applied (i), layout obligations of C12 (j), a fresh or fully reset decode target per command (k), only Set/Delete/DeleteRange on the apply batch (l), bytewise comparer (m), directory keyed by table name and shard id (n).",
 "C02": " Later rounds: predicate gate, full traversal of every operation list (g), only plain write operations (h).",
 "C03": " Later rounds: every entry applied (f), recover format from the stream header (g), no entry-loop local carried into results or writes (h), fresh decode target (i), plain write operations (j).",
 "C04": " Later rounds: nothing tears the new DB or its directory down once it is published, not even a deferred clean-up on a late error; the switch of 'current' is one rename and removes nothing; a created directory's parent is synced; created files are complete when synced (h).",
 "C05": " Later rounds: proposals never tagged ahead, leader cache dense (d4), catalogue reconciliation complete (g), recovery image from one snapshot (h).",
 "C06": " Later rounds: cache prepend/append contiguity, producer event types, in-place buffer writes, compaction events sent with a waiting send, read errors of the cached reader returned.",
 "C07": " Later rounds: export unbounded over the key space, maintenance RPC pipeline (restore acknowledged only after the load, spool files rewound) (g), the backup client restores every table of the manifest.",
 "C08": " Later rounds: stream read fully (e), no teardown after publish, publish protocol removes nothing, no error after the swap but the clean-up's, received files complete when synced (f).",
 "C10": " Later rounds: follower index never ahead (e), forwarded writes acknowledged only after the local apply (f), predicates under their own keys (g), one iterator per streamed read (h).",
 "C11": " Later rounds: every started state machine gets a listener, announced index not ahead (f), sweep driven by a ticker, announcements only by the serving shard (g; known finding K2 at Manager.Restore).",
 "C12": " Later rounds: buffer reuse (d3), export covers the key space (e), bytewise comparer (f).",
 "C13": " Later rounds: sibling agreement of the listings (g); the lock rule accepts explicit unlocks after the last access; store operations unconditional (h); fresh decode target and own key only (i).",
 "C14": " Later rounds: names stay inside the catalogue's key space for every Set/Delete (g), snapshot replaces the map (h), reconciliation complete (i), one compare-and-set per sequence advance, delete success only on the nil edge, listing complete (k), restore re-reads its record (l).",
 "C15": " Later rounds: the store's versions (d), snapshot replaces the map (e), the worker is a holder only on the nil edge of the lease call.",
 "C16": " Later rounds: read-only classification (g), NotFound mapping checked along every path, make sizes bounded above, nothing on the apply path makes an error (h).",
 "C17": " Later rounds: secure schemes of resolveURL (g), whole-string token comparison, leaf-certificate identity, non-nil CA pool, no shared session tickets.",
 "C18": " Later rounds: pooled wrappers own their codec object, no shared receive-buffer pool under the aliasing codec, restore streams each table from its own reader (f), stream methods in the method set at io.Copy (g), sizes fit (h).",
 "C19": " Later rounds: merge completeness, whole-list feeders, one view object, headers read from the view per response, read-merge-write in one critical section, feeders feed on every path into a value of their own.",
}
PENDING_REASON = "rules designed (DESIGN.md section 7), check not built yet"
checks=[]; na=[]
for p in props:
    i=p["id"]
    if i in CLAIMED:
        sec,tech,text,note=CLAIMED[i]
        checks.append({"property_id":i,
          "quick_cmd":"./bin/rvet check %s --tier quick"%i,
          "thorough_cmd":"./bin/rvet check %s --tier thorough"%i,
          "evidence_file":"/verif/evidence/%s.json"%i,
          "replay_cmd_template":"cat {path}",
          "engine":"rvet",
          "level_claimed":{"category":"other","text":text+EXTRA.get(i,""),"design_ref":"DESIGN.md section "+sec},
          "level_note":note,"technique":tech})
    else:
        na.append({"property_id":i,"reason":PENDING_REASON})
m={"version":1,"setup_cmd":"./setup.sh",
 "hooks":{"guard":"verif","enable":"none needed: the checker reads /repo's sources only; no hooks or instrumentation exist","baseline_off_cmd":"cd /repo && go test -mod=mod -json -vet=off -count=1 -timeout 25m ./...","source_commits":[],"add_only":True},
 "engines":[{"name":"rvet","path":"/verif/checker","serves_properties":sorted(CLAIMED),"kind_free_text":"repository-specific static analyser over go/packages + go/ssa: CFG edge-cut guard entailment, must-pass-through, typestate dataflow, value provenance, ownership/effects, exhaustiveness and writer-reader agreement rules"}],
 "checks":checks,
 "notes":"Static analysis only (DESIGN.md). Every check re-loads and re-type-checks /repo's working tree on each run. All claims are at level 'other': structural necessary conditions of the property, never the behaviour itself. Genuine defects found are repaired by fix: commits in /repo (F1-F10) and listed in known_findings.json as fixed; two are recorded as known findings instead (K1 under C08, K2 under C11; each check prints a KNOWN-FINDING line for it and exits 0, any other violation of the property is still reported).",
 "not_applicable":na}
json.dump(m,open('/verif/MANIFEST.json','w'),indent=1)
print(len(checks),"claimed",len(na),"not applicable")
