#!/usr/bin/env python3
"""Source of the self-test variants. Each variant is a list of (file, old, new) substitutions
applied as an in-memory overlay (never to /repo). `expect` names the obligation that must
report it, or "none" for behaviour-preserving edits that must stay silent.
Run: python3 gen_variants.py > variants.json"""
import json, sys
V = []
def v(id, prop, expect, edits, note=""):
    V.append({"id": id, "prop": prop, "expect": expect, "note": note,
              "edits": ["%s::%s::%s" % e for e in edits]})

ITER = "storage/table/fsm/iter.go"
# ---------------- C09 ----------------
v("c09-f1-parent", "C09", "C09.a", [(ITER, "response.More = true\n\t\t\t\tyield(response)", "response.More = piter.Next()\n\t\t\t\tyield(response)")], "parent of fix F1")
v("c09-more-false-on-size-cut", "C09", "C09.a", [(ITER, "response.More = true\n\t\t\t\tif !yield", "response.More = false\n\t\t\t\tif !yield")])
v("c09-no-fresh-response", "C09", "C09.a", [(ITER, "\t\t\t\tresponse = &regattapb.ResponseOp_Range{}\n\t\t\t}\n\t\t\ti++", "\t\t\t}\n\t\t\ti++")])
v("c09-limit-gt", "C09", "C09.b", [(ITER, "if i == limit && limit != 0 {", "if i > limit && limit != 0 {")])
v("c09-newiter-per-chunk", "C09", "C09.a", [(ITER, "\t\t\t\tresponse = &regattapb.ResponseOp_Range{}\n\t\t\t}\n\t\t\ti++", "\t\t\t\tresponse = &regattapb.ResponseOp_Range{}\n\t\t\t\tpiter = reader.NewIter(opts)\n\t\t\t}\n\t\t\ti++")])
v("c09-engine-drops-more", "C09", "C09.e", [("storage/engine.go", "\t\t\tMore:   s.More,\n", "")])
v("c09-table-range-more-const", "C09", "C09.e", [("storage/table/table.go", "More:  response.More,", "More:  false,")])
v("c09-counter-not-incremented", "C09", "C09.b", [(ITER, "\t\t\ti++\n", "")])
v("c09-size-test-ignores-pair", "C09", "C09.c", [(ITER, "if (uint64(response.SizeVT()) + sf(k.Key, piter.Value())) >= maxRangeSize {", "_ = sf\n\t\t\tif uint64(response.SizeVT()) >= maxRangeSize {")])
v("c09-cut-constant-too-big", "C09", "C09.c", [("storage/table/fsm/query.go", "const maxRangeSize uint64 = (4 * 1024 * 1024) - 1024", "const maxRangeSize uint64 = (8 * 1024 * 1024) - 1024")])
v("c09-keyonly-count-dropped", "C09", "C09.d", [(ITER, "response.Kvs = append(response.Kvs, kv)\n\tresponse.Count++", "response.Kvs = append(response.Kvs, kv)")])
v("c09-stream-skips-empty", "C09", "C09.e", [("regattaserver/kv.go", "\t\t\tif err := srv.Send(response); err != nil {", "\t\t\tif len(response.Kvs) == 0 {\n\t\t\t\tcontinue\n\t\t\t}\n\t\t\tif err := srv.Send(response); err != nil {")])
v("c09-more-true-when-exhausted", "C09", "C09.a", [(ITER, "if !piter.Next() {\n\t\t\t\tyield(response)", "if !piter.Next() {\n\t\t\t\tresponse.More = true\n\t\t\t\tyield(response)")])
v("c09-consume-after-advance", "C09", "C09.a", [(ITER, "\t\t\tfill(k.Key, piter.Value(), response)\n\t\t\tif !piter.Next() {\n\t\t\t\tyield(response)\n\t\t\t\treturn\n\t\t\t}", "\t\t\tkk, vv := k.Key, piter.Value()\n\t\t\tok := piter.Next()\n\t\t\tfill(kk, vv, response)\n\t\t\tif !ok {\n\t\t\t\tyield(response)\n\t\t\t\treturn\n\t\t\t}")], "consumes bytes of a pair the iterator has already left (Pebble invalidates them)")
# neutral
v("c09-n-hoist-value", "C09", "none", [(ITER, "\t\t\tfill(k.Key, piter.Value(), response)", "\t\t\tval := piter.Value()\n\t\t\tfill(k.Key, val, response)")])
v("c09-n-swap-inc-fill", "C09", "none", [(ITER, "\t\t\ti++\n\t\t\tfill(k.Key, piter.Value(), response)", "\t\t\tfill(k.Key, piter.Value(), response)\n\t\t\ti++")])
v("c09-n-limit-ge", "C09", "none", [(ITER, "if i == limit && limit != 0 {", "if limit != 0 && i >= limit {")])
v("c09-n-limit-gt0", "C09", "none", [(ITER, "if i == limit && limit != 0 {", "if limit > 0 && i == limit {")])
v("c09-n-engine-literal-order", "C09", "none", [("storage/engine.go", "\t\t\tKvs:    s.Kvs,\n\t\t\tMore:   s.More,\n\t\t\tCount:  s.Count,", "\t\t\tCount:  s.Count,\n\t\t\tKvs:    s.Kvs,\n\t\t\tMore:   s.More,")])
v("c09-n-first-into-var", "C09", "none", [(ITER, "if !piter.First() {", "if ok := piter.First(); !ok {")])

json.dump(V, sys.stdout, indent=1)
