#!/usr/bin/env python3
"""Source of the self-test variants. Each variant is a list of (file, old, new) substitutions
applied as an in-memory overlay (never to /repo). `expect` names the obligation that must
report it, or "none" for behaviour-preserving edits that must stay silent.
Run: python3 gen_variants.py > variants.json"""
import json, sys
V = []
def v(id, prop, expect, edits, note=""):
    V.append({"id": id, "prop": prop, "expect": expect, "note": note,
              "edits": ["%s::%s::%s" % e for e in edits]})

ITER = "storage/table/fsm/iter.go"
# ---------------- C09 ----------------
v("c09-f1-parent", "C09", "C09.a", [(ITER, "response.More = true\n\t\t\t\tyield(response)", "response.More = piter.Next()\n\t\t\t\tyield(response)")], "parent of fix F1")
v("c09-more-false-on-size-cut", "C09", "C09.a", [(ITER, "response.More = true\n\t\t\t\tif !yield", "response.More = false\n\t\t\t\tif !yield")])
v("c09-no-fresh-response", "C09", "C09.a", [(ITER, "\t\t\t\tresponse = &regattapb.ResponseOp_Range{}\n\t\t\t}\n\t\t\ti++", "\t\t\t}\n\t\t\ti++")])
v("c09-limit-gt", "C09", "C09.b", [(ITER, "if i == limit && limit != 0 {", "if i > limit && limit != 0 {")])
v("c09-newiter-per-chunk", "C09", "C09.a", [(ITER, "\t\t\t\tresponse = &regattapb.ResponseOp_Range{}\n\t\t\t}\n\t\t\ti++", "\t\t\t\tresponse = &regattapb.ResponseOp_Range{}\n\t\t\t\tpiter = reader.NewIter(opts)\n\t\t\t}\n\t\t\ti++")])
v("c09-engine-drops-more", "C09", "C09.e", [("storage/engine.go", "\t\t\tMore:   s.More,\n", "")])
v("c09-table-range-more-const", "C09", "C09.e", [("storage/table/table.go", "More:  response.More,", "More:  false,")])
v("c09-counter-not-incremented", "C09", "C09.b", [(ITER, "\t\t\ti++\n", "")])
v("c09-size-test-ignores-pair", "C09", "C09.c", [(ITER, "if (uint64(response.SizeVT()) + sf(k.Key, piter.Value())) >= maxRangeSize {", "_ = sf\n\t\t\tif uint64(response.SizeVT()) >= maxRangeSize {")])
v("c09-cut-constant-too-big", "C09", "C09.c", [("storage/table/fsm/query.go", "const maxRangeSize uint64 = (4 * 1024 * 1024) - 1024", "const maxRangeSize uint64 = (8 * 1024 * 1024) - 1024")])
v("c09-keyonly-count-dropped", "C09", "C09.d", [(ITER, "response.Kvs = append(response.Kvs, kv)\n\tresponse.Count++", "response.Kvs = append(response.Kvs, kv)")])
v("c09-stream-skips-empty", "C09", "C09.e", [("regattaserver/kv.go", "\t\t\tif err := srv.Send(response); err != nil {", "\t\t\tif len(response.Kvs) == 0 {\n\t\t\t\tcontinue\n\t\t\t}\n\t\t\tif err := srv.Send(response); err != nil {")])
v("c09-more-true-when-exhausted", "C09", "C09.a", [(ITER, "if !piter.Next() {\n\t\t\t\tyield(response)", "if !piter.Next() {\n\t\t\t\tresponse.More = true\n\t\t\t\tyield(response)")])
v("c09-consume-after-advance", "C09", "C09.a", [(ITER, "\t\t\tfill(k.Key, piter.Value(), response)\n\t\t\tif !piter.Next() {\n\t\t\t\tyield(response)\n\t\t\t\treturn\n\t\t\t}", "\t\t\tkk, vv := k.Key, piter.Value()\n\t\t\tok := piter.Next()\n\t\t\tfill(kk, vv, response)\n\t\t\tif !ok {\n\t\t\t\tyield(response)\n\t\t\t\treturn\n\t\t\t}")], "consumes bytes of a pair the iterator has already left (Pebble invalidates them)")
# neutral
v("c09-n-hoist-value", "C09", "none", [(ITER, "\t\t\tfill(k.Key, piter.Value(), response)", "\t\t\tval := piter.Value()\n\t\t\tfill(k.Key, val, response)")])
v("c09-n-swap-inc-fill", "C09", "none", [(ITER, "\t\t\ti++\n\t\t\tfill(k.Key, piter.Value(), response)", "\t\t\tfill(k.Key, piter.Value(), response)\n\t\t\ti++")])
v("c09-n-limit-ge", "C09", "none", [(ITER, "if i == limit && limit != 0 {", "if limit != 0 && i >= limit {")])
v("c09-n-limit-gt0", "C09", "none", [(ITER, "if i == limit && limit != 0 {", "if limit > 0 && i == limit {")])
v("c09-n-engine-literal-order", "C09", "none", [("storage/engine.go", "\t\t\tKvs:    s.Kvs,\n\t\t\tMore:   s.More,\n\t\t\tCount:  s.Count,", "\t\t\tCount:  s.Count,\n\t\t\tKvs:    s.Kvs,\n\t\t\tMore:   s.More,")])
v("c09-n-first-into-var", "C09", "none", [(ITER, "if !piter.First() {", "if ok := piter.First(); !ok {")])

# ---------------- C01 ----------------
PUT = "storage/table/fsm/command_put.go"; DEL = "storage/table/fsm/command_delete.go"; CMD = "storage/table/fsm/command.go"
FSM = "storage/table/fsm/fsm.go"; TXN = "storage/table/fsm/command_txn.go"; QRY = "storage/table/fsm/query.go"
v("c01-put-prev-reads-db", "C01", "C01.d", [(PUT, "singleLookup(ctx.batch, &regattapb.RequestOp_Range{Key: put.Key})", "singleLookup(ctx.db, &regattapb.RequestOp_Range{Key: put.Key})")])
v("c01-rangedelete-no-ensure-indexed", "C01", "C01.d", [(DEL, "\t\t\tif err := ctx.EnsureIndexed(); err != nil {\n\t\t\t\treturn nil, err\n\t\t\t}\n\t\t\trng, err := rangeLookup(", "\t\t\trng, err := rangeLookup(")])
v("c01-index-written-to-db", "C01", "C01.a", [(CMD, "c.batch.Set(sysLocalIndex, idx, nil)", "c.db.Set(sysLocalIndex, idx, nil)")])
v("c01-wildcard-bound-in-place", "C01", "C01.f", [(DEL, "end = make([]byte, len(maxUserKey))\n\t\t\tcopy(end, maxUserKey)\n\t\t\tend = incrementRightmostByte(end)", "end = incrementRightmostByte(maxUserKey)")])
v("c01-bookkeeping-key-user-type", "C01", "C01.f", [(FSM, "sysLocalIndex = mustEncodeKey(key.Key{\n\t\tKeyType: key.TypeSystem,", "sysLocalIndex = mustEncodeKey(key.Key{\n\t\tKeyType: key.TypeUser,")])
v("c01-single-lookup-seekge", "C01", "C01.g", [(QRY, "iter.SeekPrefixGE(keyBuf.Bytes())", "iter.SeekGE(keyBuf.Bytes())")])
v("c01-no-commit", "C01", "C01.b", [(FSM, "\tif err := ctx.Commit(); err != nil {\n\t\treturn nil, err\n\t}\n", "")])
v("c01-commit-inside-sequence", "C01", "C01.b", [("storage/table/fsm/command_sequence.go", "\treturn ResultSuccess, res, nil\n}", "\t_ = ctx.Commit()\n\treturn ResultSuccess, res, nil\n}")])
v("c01-index-plus-one", "C01", "C01.c", [(CMD, "binary.LittleEndian.PutUint64(idx, c.index)", "binary.LittleEndian.PutUint64(idx, c.index+1)")])
v("c01-index-from-term", "C01", "C01.c", [(CMD, "c.index = entry.Index", "c.index = uint64(len(entry.Cmd))")])
v("c01-ensure-indexed-drops-old", "C01", "C01.d", [(CMD, "\tif err := indexed.Apply(c.batch, nil); err != nil {\n\t\treturn err\n\t}\n", "")])
v("c01-put-write-before-prev-read", "C01", "C01.e", [(PUT, "\tif put.PrevKv {\n\t\tif err := ctx.EnsureIndexed()", "\tif err := ctx.batch.Set(keyBuf.Bytes(), put.Value, nil); err != nil {\n\t\treturn nil, err\n\t}\n\tif put.PrevKv {\n\t\tif err := ctx.EnsureIndexed()"), (PUT, "\tif err := ctx.batch.Set(keyBuf.Bytes(), put.Value, nil); err != nil {\n\t\treturn nil, err\n\t}\n\treturn resp, nil", "\treturn resp, nil")])
v("c01-put-raw-key", "C01", "C01.f", [(PUT, "ctx.batch.Set(keyBuf.Bytes(), put.Value, nil)", "ctx.batch.Set(put.Key, put.Value, nil)")])
v("c01-wildcard-unbounded", "C01", "C01.g", [("storage/table/fsm/iter.go", "iterOptions.UpperBound = make([]byte, len(maxUserKey))\n\t\tcopy(iterOptions.UpperBound, maxUserKey)\n\t\titerOptions.UpperBound = incrementRightmostByte(iterOptions.UpperBound)", "_ = maxUserKey")])
v("c01-dispatcher-missing-case", "C01", "C01.h", [(CMD, "\tcase regattapb.Command_SEQUENCE:\n\t\treturn commandSequence{cmd}\n", "")])
v("c01-wildcard-test-len1", "C01", "C01.g", [("storage/table/fsm/iter.go", "if bytes.Equal(high, wildcard) {", "if len(high) == 1 && !bytes.Equal(high, nil) {")])
v("c01-txnops-read-db", "C01", "C01.d", [(TXN, "lookup(ctx.batch, o.RequestRange)", "lookup(ctx.db, o.RequestRange)")])
v("c01-txn-no-ensure-indexed", "C01", "C01.d", [(TXN, "\tif err := ctx.EnsureIndexed(); err != nil {\n\t\treturn false, nil, err\n\t}\n", "")])
v("c01-delete-key-from-rangeend", "C01", "C01.f", [(DEL, "if err := ctx.batch.Delete(keyBuf.Bytes(), nil); err != nil {", "if err := ctx.batch.Delete(del.Key, nil); err != nil {")])
v("c01-n-encode-after-prev-read", "C01", "none", [(PUT, "\tif err := encodeUserKey(keyBuf, put.Key); err != nil {\n\t\treturn nil, err\n\t}\n\tif put.PrevKv {", "\tif put.PrevKv {"), (PUT, "\tif err := ctx.batch.Set(keyBuf.Bytes(), put.Value, nil); err != nil {", "\tif err := encodeUserKey(keyBuf, put.Key); err != nil {\n\t\treturn nil, err\n\t}\n\tif err := ctx.batch.Set(keyBuf.Bytes(), put.Value, nil); err != nil {")])
v("c01-n-commit-via-local", "C01", "none", [(CMD, "\treturn c.batch.Commit(pebble.NoSync)", "\tb := c.batch\n\treturn b.Commit(pebble.NoSync)")])
v("c01-n-commit-err-var", "C01", "none", [(FSM, "\tif err := ctx.Commit(); err != nil {\n\t\treturn nil, err\n\t}", "\terr := ctx.Commit()\n\tif err != nil {\n\t\treturn nil, err\n\t}")])
v("c01-n-range-loop-update", "C01", "none", [(FSM, "\tfor i := 0; i < len(updates); i++ {\n\t\tcmd, err := parseCommand(ctx, updates[i])", "\tfor i := range updates {\n\t\tcmd, err := parseCommand(ctx, updates[i])")])

# ---------------- C02 ----------------
TBL = "storage/table/table.go"; KV = "regattaserver/kv.go"; EXT = "regattapb/extensions.go"
v("c02-swap-args-at-callsite", "C02", "C02.a", [(TXN, "handleTxn(ctx, c.Txn.Compare, c.Txn.Success, c.Txn.Failure)", "handleTxn(ctx, c.Txn.Compare, c.Txn.Failure, c.Txn.Success)")])
v("c02-swap-branches", "C02", "C02.a", [(TXN, "res, err := handleTxnOps(ctx, success)\n\t\treturn true, res, err", "res, err := handleTxnOps(ctx, fail)\n\t\treturn true, res, err"), (TXN, "res, err := handleTxnOps(ctx, fail)\n\treturn false, res, err", "res, err := handleTxnOps(ctx, success)\n\treturn false, res, err")])
v("c02-flag-always-true", "C02", "C02.a", [(TXN, "res, err := handleTxnOps(ctx, fail)\n\treturn false, res, err", "res, err := handleTxnOps(ctx, fail)\n\treturn true, res, err")])
v("c02-handler-result-inverted", "C02", "C02.a", [(TXN, "\tif !succ {\n\t\tresult = ResultFailure", "\tif succ {\n\t\tresult = ResultFailure")])
v("c02-n-table-succeeded-ne", "C02", "none", [(TBL, "fsm.UpdateResult(res.Value) == fsm.ResultSuccess", "fsm.UpdateResult(res.Value) != fsm.ResultFailure")], "equivalent while there are two result codes")
v("c02-table-succeeded-inverted", "C02", "C02.a", [(TBL, "fsm.UpdateResult(res.Value) == fsm.ResultSuccess", "fsm.UpdateResult(res.Value) == fsm.ResultFailure")])
v("c02-lookup-swapped-lists", "C02", "C02.a", [(FSM, "\t\tif ok {\n\t\t\tfor _, op := range req.Success {", "\t\tif !ok {\n\t\t\tfor _, op := range req.Success {")])
v("c02-lookup-succeeded-const", "C02", "C02.a", [(FSM, "resp := &regattapb.TxnResponse{Succeeded: ok}", "resp := &regattapb.TxnResponse{Succeeded: true}")])
v("c02-compare-after-ops", "C02", "C02.b", [(TXN, "\tok, err := txnCompare(ctx.batch, compare)\n\tif err != nil {\n\t\treturn false, nil, err\n\t}\n\tif ok {", "\tpre, err := handleTxnOps(ctx, nil)\n\t_ = pre\n\tok, err := txnCompare(ctx.batch, compare)\n\tif err != nil {\n\t\treturn false, nil, err\n\t}\n\tif ok {")])
v("c02-no-empty-range-false", "C02", "C02.c", [(TXN, "\t\t\t\tif !iter.First() {\n\t\t\t\t\treturn false, nil\n\t\t\t\t}\n", "")])
v("c02-compare-operands-swapped", "C02", "C02.c", [(TXN, "cmpValue = bytes.Compare(value, cmp.GetValue()) == 1", "cmpValue = bytes.Compare(cmp.GetValue(), value) == 1")])
v("c02-less-uses-le", "C02", "C02.c", [(TXN, "cmpValue = bytes.Compare(value, cmp.GetValue()) == -1", "cmpValue = bytes.Compare(value, cmp.GetValue()) <= 0")])
v("c02-notfound-true", "C02", "C02.c", [(TXN, "\t\t\t\t\tif errors.Is(err, pebble.ErrNotFound) {\n\t\t\t\t\t\treturn false, nil", "\t\t\t\t\tif errors.Is(err, pebble.ErrNotFound) {\n\t\t\t\t\t\treturn len(cmp.GetValue()) == 0, nil")])
v("c02-range-fail-breaks", "C02", "C02.c", [(TXN, "\t\t\t\t\tif !txnCompareSingle(cmp, iter.Value()) {\n\t\t\t\t\t\treturn false, nil\n\t\t\t\t\t}", "\t\t\t\t\tif !txnCompareSingle(cmp, iter.Value()) {\n\t\t\t\t\t\tbreak\n\t\t\t\t\t}")])
v("c02-conjunction-or", "C02", "C02.c", [(TXN, "\t\tif !res {\n\t\t\treturn false, nil\n\t\t}\n\t}\n\treturn true, nil", "\t\tif res {\n\t\t\treturn true, nil\n\t\t}\n\t}\n\treturn len(compare) == 0, nil")])
v("c02-put-arm-no-append", "C02", "C02.d", [(TXN, "\t\t\tresponse, err := handlePut(ctx, o.RequestPut)\n\t\t\tif err != nil {\n\t\t\t\treturn nil, err\n\t\t\t}\n\t\t\tresults = append(results, wrapResponseOp(response))", "\t\t\tresponse, err := handlePut(ctx, o.RequestPut)\n\t\t\tif err != nil {\n\t\t\t\treturn nil, err\n\t\t\t}\n\t\t\tif response.PrevKv != nil {\n\t\t\t\tresults = append(results, wrapResponseOp(response))\n\t\t\t}")])
v("c02-lookup-ops-read-live-db", "C02", "C02.e", [(FSM, "\t\t\trr, err := lookup(snapshot, op)", "\t\t\trr, err := lookup(p.pebble.Load(), op)")])
v("c02-readonly-ignores-failure", "C02", "C02.f", [(EXT, "\tfor _, op := range req.Failure {\n\t\tif _, ok := op.Request.(*RequestOp_RequestRange); !ok {\n\t\t\treturn false\n\t\t}\n\t}\n", "")])
v("c02-readonly-put-counts", "C02", "C02.f", [(EXT, "\tfor _, op := range req.Success {\n\t\tif _, ok := op.Request.(*RequestOp_RequestRange); !ok {\n\t\t\treturn false\n\t\t}", "\tfor _, op := range req.Success {\n\t\tif _, ok := op.Request.(*RequestOp_RequestRange); !ok {\n\t\t\tcontinue\n\t\t}")])
v("c02-table-readpath-unguarded", "C02", "C02.f", [(TBL, "\tif req.IsReadonly() {\n\t\treturn readTable[*regattapb.TxnResponse](t, ctx, true, req)", "\tif req.IsReadonly() || len(req.Success) == 0 {\n\t\treturn readTable[*regattapb.TxnResponse](t, ctx, true, req)")])
v("c02-n-flip-if-else", "C02", "none", [(TXN, "\tif ok {\n\t\tres, err := handleTxnOps(ctx, success)\n\t\treturn true, res, err\n\t}\n\tres, err := handleTxnOps(ctx, fail)\n\treturn false, res, err", "\tif !ok {\n\t\tres, err := handleTxnOps(ctx, fail)\n\t\treturn false, res, err\n\t}\n\tres, err := handleTxnOps(ctx, success)\n\treturn true, res, err")])
v("c02-n-return-ok", "C02", "none", [(TXN, "\t\tres, err := handleTxnOps(ctx, success)\n\t\treturn true, res, err", "\t\tres, err := handleTxnOps(ctx, success)\n\t\treturn ok, res, err")])
v("c02-n-greater-gt0", "C02", "none", [(TXN, "cmpValue = bytes.Compare(value, cmp.GetValue()) == 1", "cmpValue = bytes.Compare(value, cmp.GetValue()) > 0")])
v("c02-n-less-swapped-consistently", "C02", "none", [(TXN, "cmpValue = bytes.Compare(value, cmp.GetValue()) == -1", "cmpValue = bytes.Compare(cmp.GetValue(), value) == 1")])

# ---------------- C03 ----------------
SNAP = "storage/table/fsm/snapshot_snapshot.go"; CKP = "storage/table/fsm/snapshot_checkpoint.go"
v("c03-f5-parent", "C03", "C03.b", [(CMD, "\tif cmd.LeaderIndex != nil {\n\t\tc.leaderIndex = cmd.LeaderIndex\n\t}", "\tc.leaderIndex = cmd.LeaderIndex")], "parent of fix F5")
v("c03-first-entry-wins", "C03", "C03.b", [(CMD, "\tif cmd.LeaderIndex != nil {\n\t\tc.leaderIndex", "\tif c.leaderIndex == nil {\n\t\tc.leaderIndex")])
v("c03-clock-in-value", "C03", "C03.a", [(PUT, "import (\n\t\"github.com/jamf/regatta/regattapb\"\n)", "import (\n\t\"time\"\n\n\t\"github.com/jamf/regatta/regattapb\"\n)"), (PUT, "ctx.batch.Set(keyBuf.Bytes(), put.Value, nil)", "ctx.batch.Set(keyBuf.Bytes(), append(put.Value, byte(time.Now().Unix())), nil)")])
v("c03-nodeid-in-result", "C03", "C03.a", [(FSM, "updates[i].Result.Value = uint64(updateResult)", "updates[i].Result.Value = uint64(updateResult) + p.nodeID*0")])
v("c03-revision-plus-one", "C03", "C03.c", [("storage/table/fsm/command_dummy.go", "Revision: ctx.index}, nil", "Revision: ctx.index + 1}, nil")])
v("c03-no-flush-before-checkpoint", "C03", "C03.e", [(CKP, "\tif err := db.Flush(); err != nil {\n\t\treturn nil, err\n\t}\n\tdir := path.Join", "\tdir := path.Join")])
v("c03-sst-saver-skips-system-keys", "C03", "C03.e", [(SNAP, "\t\t\tif err := sstWriter.Set(iter.Key(), iter.Value()); err != nil {", "\t\t\tif iter.Key()[4] == 2 {\n\t\t\t\tcontinue\n\t\t\t}\n\t\t\tif err := sstWriter.Set(iter.Key(), iter.Value()); err != nil {")])
v("c03-sst-saver-bounded", "C03", "C03.e", [(SNAP, "iter := snapshot.NewIter(nil)", "iter := snapshot.NewIter(&pebble.IterOptions{UpperBound: maxUserKey})")])
v("c03-ensure-indexed-drops-old", "C03", "C03.d", [(CMD, "\tif err := indexed.Apply(c.batch, nil); err != nil {\n\t\treturn err\n\t}\n", "")])
v("c03-n-timing-log", "C03", "none", [(FSM, "\t\"sync/atomic\"\n", "\t\"sync/atomic\"\n\t\"time\"\n"), (FSM, "\tdb := p.pebble.Load()\n\n\tctx := &updateContext{", "\tstart := time.Now()\n\tdefer func() { p.log.Debugf(\"update took %s\", time.Since(start)) }()\n\tdb := p.pebble.Load()\n\n\tctx := &updateContext{")])
v("c03-n-guard-via-local", "C03", "none", [(CMD, "\tif cmd.LeaderIndex != nil {\n\t\tc.leaderIndex = cmd.LeaderIndex\n\t}", "\tif li := cmd.LeaderIndex; li != nil {\n\t\tc.leaderIndex = li\n\t}")])

v("c01-n-seekge-with-equal", "C01", "none", [(QRY, "\tfound := iter.SeekPrefixGE(keyBuf.Bytes())\n\tif !found {", "\tfound := iter.SeekGE(keyBuf.Bytes())\n\tif !found || !bytes.Equal(iter.Key(), keyBuf.Bytes()) {"), (QRY, "import (\n\t\"encoding/binary\"", "import (\n\t\"bytes\"\n\t\"encoding/binary\"")])
v("c01-seekge-hasprefix", "C01", "C01.g", [(QRY, "\tfound := iter.SeekPrefixGE(keyBuf.Bytes())\n\tif !found {", "\tfound := iter.SeekGE(keyBuf.Bytes())\n\tif !found || !bytes.HasPrefix(iter.Key(), keyBuf.Bytes()) {"), (QRY, "import (\n\t\"encoding/binary\"", "import (\n\t\"bytes\"\n\t\"encoding/binary\"")], "agent mutant C01-m2 in essence")
v("c01-bounds-alias-pooled-buffer", "C01", "C01.g", [(ITER, "\t\titerOptions.UpperBound = make([]byte, highBuf.Len())\n\t\tcopy(iterOptions.UpperBound, highBuf.Bytes())", "\t\titerOptions.UpperBound = highBuf.Bytes()")], "agent mutant C09-m2 in essence")
v("c09-bounds-alias-pooled-buffer", "C09", "C09.f", [(ITER, "\t\titerOptions.UpperBound = make([]byte, highBuf.Len())\n\t\tcopy(iterOptions.UpperBound, highBuf.Bytes())", "\t\titerOptions.UpperBound = highBuf.Bytes()")], "agent mutant C09-m2 in essence")

# ---------------- C10 ----------------
REPL = "regattaserver/replication.go"
v("c10-f2-parent", "C10", "C10.a2", [(FSM, "if _, noop := cmd.(commandDummy); !noop {", "if len(res.Responses) > 0 {")], "parent of fix F2")
v("c10-revision-plus-one", "C10", "C10.a1", [("storage/table/fsm/command_dummy.go", "Revision: ctx.index}, nil", "Revision: ctx.index + 1}, nil")])
v("c10-read-ignores-flag", "C10", "C10.b", [(TBL, "\tif linearizable {\n\t\tval, err = t.nh.SyncRead(ctx, t.ClusterID, req)\n\t} else {\n\t\tval, err = t.nh.StaleRead(t.ClusterID, req)\n\t}", "\t_ = linearizable\n\tval, err = t.nh.StaleRead(t.ClusterID, req)")])
v("c10-readonly-txn-stale", "C10", "C10.b", [(TBL, "return readTable[*regattapb.TxnResponse](t, ctx, true, req)", "return readTable[*regattapb.TxnResponse](t, ctx, false, req)")])
v("c10-range-flag-dropped", "C10", "C10.b", [(TBL, "readTable[*regattapb.ResponseOp_Range](t, ctx, req.Linearizable, &regattapb.RequestOp_Range{", "readTable[*regattapb.ResponseOp_Range](t, ctx, req.Linearizable && req.Limit == 0, &regattapb.RequestOp_Range{")])
v("c10-header-revision-from-getheader", "C10", "C10.a3", [("storage/engine.go", "\theader.ReplicaId = e.cfg.NodeID\n", "\theader.ReplicaId = e.cfg.NodeID\n\theader.Revision = shardID\n")])
v("c10-put-revision-zero", "C10", "C10.a3", [(TBL, "return &regattapb.PutResponse{PrevKv: r.ResponsePut.PrevKv, Header: &regattapb.ResponseHeader{Revision: rev}}, nil", "_ = rev\n\treturn &regattapb.PutResponse{PrevKv: r.ResponsePut.PrevKv, Header: &regattapb.ResponseHeader{Revision: uint64(len(r.ResponsePut.PrevKv.GetKey()))}}, nil")])
v("c10-replicate-first-read-stale", "C10", "C10.b", [(REPL, "appliedIndex, err := t.LocalIndex(ctx, true)", "appliedIndex, err := t.LocalIndex(ctx, false)")])
v("c10-swapped-read-calls", "C10", "C10.b", [(TBL, "\tif linearizable {\n\t\tval, err = t.nh.SyncRead(ctx, t.ClusterID, req)\n\t} else {\n\t\tval, err = t.nh.StaleRead(t.ClusterID, req)\n\t}", "\tif !linearizable {\n\t\tval, err = t.nh.SyncRead(ctx, t.ClusterID, req)\n\t} else {\n\t\tval, err = t.nh.StaleRead(t.ClusterID, req)\n\t}")])
v("c10-n-flip-read-branches", "C10", "none", [(TBL, "\tif linearizable {\n\t\tval, err = t.nh.SyncRead(ctx, t.ClusterID, req)\n\t} else {\n\t\tval, err = t.nh.StaleRead(t.ClusterID, req)\n\t}", "\tif !linearizable {\n\t\tval, err = t.nh.StaleRead(t.ClusterID, req)\n\t} else {\n\t\tval, err = t.nh.SyncRead(ctx, t.ClusterID, req)\n\t}")])
v("c10-n-noop-check-inverted-shape", "C10", "none", [(FSM, "\t\tif _, noop := cmd.(commandDummy); !noop {\n\t\t\tbts, err := res.MarshalVT()\n\t\t\tif err != nil {\n\t\t\t\treturn nil, err\n\t\t\t}\n\t\t\tupdates[i].Result.Data = bts\n\t\t}", "\t\tswitch cmd.(type) {\n\t\tcase commandDummy:\n\t\tdefault:\n\t\t\tbts, err := res.MarshalVT()\n\t\t\tif err != nil {\n\t\t\t\treturn nil, err\n\t\t\t}\n\t\t\tupdates[i].Result.Data = bts\n\t\t}")])

# ---------------- C11 ----------------
Q = "storage/queue.go"; FOL = "cmd/follower.go"; MGR = "storage/table/manager.go"
NEW_SWEEP = "\t\t\t\t// Answer and drop the expired waiters (each exactly once), keep the rest.\n\t\t\t\tlive := h.Slice[:0]\n\t\t\t\tfor _, elem := range h.Slice {\n\t\t\t\t\tif err := elem.ctx.Err(); err != nil {\n\t\t\t\t\t\telem.waitCh <- err\n\t\t\t\t\t\tcontinue\n\t\t\t\t\t}\n\t\t\t\t\tlive = append(live, elem)\n\t\t\t\t}\n\t\t\t\tif len(live) == len(h.Slice) {\n\t\t\t\t\treturn\n\t\t\t\t}\n\t\t\t\tclear(h.Slice[len(live):])\n\t\t\t\t*h = *heap.New(h.Less, live...)\n"
OLD_SWEEP = "\t\t\t\tl := h.Len()\n\t\t\t\tfor i := 0; i < l; i++ {\n\t\t\t\t\telem := h.Slice[i]\n\t\t\t\t\tif elem.ctx.Err() != nil {\n\t\t\t\t\t\t// Reorder\n\t\t\t\t\t\telem.revision = 0\n\t\t\t\t\t\telem.waitCh <- elem.ctx.Err()\n\t\t\t\t\t}\n\t\t\t\t}\n\t\t\t\th.Fix(0)\n\t\t\t\tfor i := 0; i < l; i++ {\n\t\t\t\t\telem := h.Peek()\n\t\t\t\t\tif elem.revision == 0 {\n\t\t\t\t\t\th.Pop()\n\t\t\t\t\t} else {\n\t\t\t\t\t\tbreak\n\t\t\t\t\t}\n\t\t\t\t}\n"
v("c11-f3-parent", "C11", "C11.c", [(Q, NEW_SWEEP, OLD_SWEEP)], "parent of fix F3 (also trips C11.d)")
v("c11-f3-parent-key", "C11", "C11.d", [(Q, NEW_SWEEP, OLD_SWEEP)], "parent of fix F3: heap key overwritten")
v("c11-put-no-wait", "C11", "C11.a", [(KV, "\treturn put, <-r.q.Add(ctx, string(req.Table), put.Header.Revision)", "\t_ = r.q.Add(ctx, string(req.Table), put.Header.Revision)\n\treturn put, nil")])
v("c11-delete-waits-wrong-table", "C11", "C11.a", [(KV, "return del, <-r.q.Add(ctx, string(req.Table), del.Header.Revision)", "return del, <-r.q.Add(ctx, string(req.Key), del.Header.Revision)")])
v("c11-txn-waits-revision-minus-one", "C11", "C11.a", [(KV, "return txn, <-r.q.Add(ctx, string(req.Table), txn.Header.Revision)", "return txn, <-r.q.Add(ctx, string(req.Table), txn.Header.Revision-1)")])
v("c11-callback-before-commit", "C11", "C11.b", [(FSM, "\tif err := ctx.Commit(); err != nil {\n\t\treturn nil, err\n\t}\n\n\tp.metrics.applied.Store(idx)\n\tif ctx.leaderIndex != nil {\n\t\tp.appliedFunc(*ctx.leaderIndex)\n\t} else {\n\t\tp.appliedFunc(idx)\n\t}", "\tif ctx.leaderIndex != nil {\n\t\tp.appliedFunc(*ctx.leaderIndex)\n\t} else {\n\t\tp.appliedFunc(idx)\n\t}\n\tif err := ctx.Commit(); err != nil {\n\t\treturn nil, err\n\t}\n\n\tp.metrics.applied.Store(idx)")])
v("c11-callback-always-local-index", "C11", "C11.b", [(FSM, "\tif ctx.leaderIndex != nil {\n\t\tp.appliedFunc(*ctx.leaderIndex)\n\t} else {\n\t\tp.appliedFunc(idx)\n\t}\n\treturn updates, nil", "\tp.appliedFunc(idx)\n\treturn updates, nil")])
v("c11-unbuffered-waitch", "C11", "C11.e", [(Q, "ch := make(chan error, 1)", "ch := make(chan error)")])
v("c11-notify-strict-less", "C11", "C11.e", [(Q, "} else if elem.revision <= n.revision {", "} else if elem.revision < n.revision || n.revision == 0 {")])
v("c11-notify-no-pop-after-cancel", "C11", "C11.c", [(Q, "\t\t\t\t\telem.waitCh <- elem.ctx.Err()\n\t\t\t\t\th.Pop()", "\t\t\t\t\telem.waitCh <- elem.ctx.Err()")])
v("c11-sweep-keeps-answered", "C11", "C11.c", [(Q, "\t\t\t\t\t\telem.waitCh <- err\n\t\t\t\t\t\tcontinue\n", "\t\t\t\t\t\telem.waitCh <- err\n")])
v("c11-sweep-replace-dropped", "C11", "C11.c", [(Q, "\t\t\t\t*h = *heap.New(h.Less, live...)\n", "\t\t\t\t_ = live\n")])
v("c11-listener-other-queue", "C11", "C11.b", [(FOL, "AppliedIndexListener: nQueue.Notify,", "AppliedIndexListener: storage.NewNotificationQueue().Notify,")])
v("c11-listener-wrong-arg", "C11", "C11.b", [(MGR, "\t\t\t\tif m.cfg.Table.AppliedIndexListener != nil {\n\t\t\t\t\tm.cfg.Table.AppliedIndexListener(name, applied)\n\t\t\t\t}\n\t\t\t}),\n\t\t\ttableRaftConfig(m.cfg.NodeID, id, m.cfg.Table),\n\t\t)\n\t}", "\t\t\t\tif m.cfg.Table.AppliedIndexListener != nil {\n\t\t\t\t\tm.cfg.Table.AppliedIndexListener(name, id)\n\t\t\t\t}\n\t\t\t}),\n\t\t\ttableRaftConfig(m.cfg.NodeID, id, m.cfg.Table),\n\t\t)\n\t}")])
v("c11-n-notify-ge-flipped", "C11", "none", [(Q, "} else if elem.revision <= n.revision {", "} else if n.revision >= elem.revision {")])
v("c11-n-waitch-cap2", "C11", "none", [(Q, "ch := make(chan error, 1)", "ch := make(chan error, 2)")])
v("c11-n-put-wait-via-local", "C11", "none", [(KV, "\treturn put, <-r.q.Add(ctx, string(req.Table), put.Header.Revision)", "\twait := r.q.Add(ctx, string(req.Table), put.Header.Revision)\n\terr = <-wait\n\treturn put, err")])

# ---------------- C16 ----------------
TABLES = "regattaserver/tables.go"
v("c16-f6-parent", "C16", "C16.b", [(TBL, "\tif err := validateTxnOps(req.Success); err != nil {\n\t\treturn nil, err\n\t}\n\tif err := validateTxnOps(req.Failure); err != nil {\n\t\treturn nil, err\n\t}\n", "")], "parent of fix F6 (validator becomes unused but still compiles)")
v("c16-failure-branch-not-validated", "C16", "C16.b", [(TBL, "\tif err := validateTxnOps(req.Failure); err != nil {\n\t\treturn nil, err\n\t}\n", "")])
v("c16-validator-skips-value-limit", "C16", "C16.b", [(TBL, "\t\tif len(put.Value) > MaxValueLen {\n\t\t\treturn serrors.ErrValueLengthExceeded\n\t\t}\n\t}\n\treturn nil", "\t}\n\treturn nil")])
v("c16-validator-off-by-one", "C16", "C16.b", [(TBL, "\t\tif len(put.Key) > key.LatestVersionLen {\n\t\t\treturn serrors.ErrKeyLengthExceeded\n\t\t}\n\t\tif len(put.Value) > MaxValueLen {", "\t\tif len(put.Key) > key.LatestVersionLen+1 {\n\t\t\treturn serrors.ErrKeyLengthExceeded\n\t\t}\n\t\tif len(put.Value) > MaxValueLen {")])
v("c16-validator-first-op-only", "C16", "C16.b", [(TBL, "\t\tif len(put.Value) > MaxValueLen {\n\t\t\treturn serrors.ErrValueLengthExceeded\n\t\t}\n\t}\n\treturn nil", "\t\tif len(put.Value) > MaxValueLen {\n\t\t\treturn serrors.ErrValueLengthExceeded\n\t\t}\n\t\treturn nil\n\t}\n\treturn nil")])
v("c16-put-value-limit-dropped", "C16", "C16.b", [(TBL, "\tif len(req.Value) > MaxValueLen {\n\t\treturn nil, serrors.ErrValueLengthExceeded\n\t}\n", "")])
v("c16-iterate-range-no-limit-guard", "C16", "C16.a", [(KV, "func (s *KVServer) IterateRange(req *regattapb.RangeRequest, srv regattapb.KV_IterateRangeServer) error {\n\tif req.GetLimit() < 0 {\n\t\treturn status.Errorf(codes.InvalidArgument, \"limit must be a positive number\")\n\t} else if", "func (s *KVServer) IterateRange(req *regattapb.RangeRequest, srv regattapb.KV_IterateRangeServer) error {\n\tif")])
v("c16-bad-limit-internal-code", "C16", "C16.a", [(KV, "func (s *KVServer) Range(ctx context.Context, req *regattapb.RangeRequest) (*regattapb.RangeResponse, error) {\n\tif req.GetLimit() < 0 {\n\t\treturn nil, status.Errorf(codes.InvalidArgument,", "func (s *KVServer) Range(ctx context.Context, req *regattapb.RangeRequest) (*regattapb.RangeResponse, error) {\n\tif req.GetLimit() < 0 {\n\t\treturn nil, status.Errorf(codes.Internal,")])
v("c16-keysonly-countonly-or", "C16", "C16.a", [(KV, "func (s *KVServer) Range(ctx context.Context, req *regattapb.RangeRequest) (*regattapb.RangeResponse, error) {\n\tif req.GetLimit() < 0 {\n\t\treturn nil, status.Errorf(codes.InvalidArgument, \"limit must be a positive number\")\n\t} else if req.GetKeysOnly() && req.GetCountOnly() {", "func (s *KVServer) Range(ctx context.Context, req *regattapb.RangeRequest) (*regattapb.RangeResponse, error) {\n\tif req.GetLimit() < 0 {\n\t\treturn nil, status.Errorf(codes.InvalidArgument, \"limit must be a positive number\")\n\t} else if req.GetKeysOnly() && req.GetCountOnly() && req.GetLimit() > 0 {")])
v("c16-delete-key-guard-only-without-rangeend", "C16", "C16.a", [(KV, "func (s *KVServer) DeleteRange(ctx context.Context, req *regattapb.DeleteRangeRequest) (*regattapb.DeleteRangeResponse, error) {\n\tif len(req.GetTable()) == 0 {\n\t\treturn nil, status.Errorf(codes.InvalidArgument, \"table must be set\")\n\t}\n\n\tif len(req.GetKey()) == 0 {", "func (s *KVServer) DeleteRange(ctx context.Context, req *regattapb.DeleteRangeRequest) (*regattapb.DeleteRangeResponse, error) {\n\tif len(req.GetTable()) == 0 {\n\t\treturn nil, status.Errorf(codes.InvalidArgument, \"table must be set\")\n\t}\n\n\tif len(req.GetKey()) == 0 && req.GetRangeEnd() == nil {")])
v("c16-follower-writable-tables", "C16", "C16.e", [(FOL, "regattapb.RegisterTablesServer(r, &regattaserver.ReadonlyTablesServer{TablesServer: regattaserver.TablesServer{Tables: engine, AuthFunc: authFunc(viper.GetString(\"tables.token\"))}})", "regattapb.RegisterTablesServer(r, &regattaserver.TablesServer{Tables: engine, AuthFunc: authFunc(viper.GetString(\"tables.token\"))})")])
v("c16-readonly-create-delegates", "C16", "C16.e", [(TABLES, "func (t *ReadonlyTablesServer) Create(context.Context, *regattapb.CreateTableRequest) (*regattapb.CreateTableResponse, error) {\n\treturn nil, status.Error(codes.Unimplemented, \"method Create not implemented for follower\")", "func (t *ReadonlyTablesServer) Create(ctx context.Context, req *regattapb.CreateTableRequest) (*regattapb.CreateTableResponse, error) {\n\tif req.Name == \"__bootstrap\" {\n\t\treturn t.TablesServer.Create(ctx, req)\n\t}\n\treturn nil, status.Error(codes.Unimplemented, \"method Create not implemented for follower\")")])
v("c16-new-panic-in-handler-helper", "C16", "C16.f", [(TBL, "\tif len(req.Key) > key.LatestVersionLen {\n\t\treturn nil, serrors.ErrKeyLengthExceeded\n\t}\n\tif len(req.RangeEnd) > key.LatestVersionLen {", "\tif req.Limit < 0 {\n\t\tpanic(\"negative limit\")\n\t}\n\tif len(req.Key) > key.LatestVersionLen {\n\t\treturn nil, serrors.ErrKeyLengthExceeded\n\t}\n\tif len(req.RangeEnd) > key.LatestVersionLen {")])
v("c16-lookup-returns-value-type", "C16", "C16.f", [(FSM, "\t\treturn &IndexResponse{Index: idx}, nil\n\tcase LeaderIndexRequest", "\t\treturn IndexResponse{Index: idx}, nil\n\tcase LeaderIndexRequest")])
v("c16-put-error-swallowed", "C16", "C16.d", [(KV, "\tr, err := s.Storage.Put(ctx, req)\n\tif err != nil {\n\t\tif errors.Is(err, serrors.ErrTableNotFound) {\n\t\t\treturn nil, status.Error(codes.NotFound, \"table not found\")\n\t\t}\n\t\tif serrors.IsSafeToRetry(err) {\n\t\t\treturn nil, status.Error(codes.Unavailable, err.Error())\n\t\t}\n\t\treturn nil, status.Error(codes.FailedPrecondition, err.Error())", "\tr, err := s.Storage.Put(ctx, req)\n\tif err != nil {\n\t\tif errors.Is(err, serrors.ErrTableNotFound) {\n\t\t\treturn nil, status.Error(codes.NotFound, \"table not found\")\n\t\t}\n\t\tif serrors.IsSafeToRetry(err) {\n\t\t\treturn &regattapb.PutResponse{}, nil\n\t\t}\n\t\treturn nil, status.Error(codes.FailedPrecondition, err.Error())")])
v("c16-n-table-guard-lt1", "C16", "none", [(KV, "func (s *KVServer) Txn(ctx context.Context, req *regattapb.TxnRequest) (*regattapb.TxnResponse, error) {\n\tif len(req.GetTable()) == 0 {", "func (s *KVServer) Txn(ctx context.Context, req *regattapb.TxnRequest) (*regattapb.TxnResponse, error) {\n\tif len(req.GetTable()) < 1 {")])
v("c16-n-put-limits-reordered", "C16", "none", [(TBL, "\tif len(req.Key) == 0 {\n\t\treturn nil, serrors.ErrEmptyKey\n\t}\n\tif len(req.Key) > key.LatestVersionLen {\n\t\treturn nil, serrors.ErrKeyLengthExceeded\n\t}\n\tif len(req.Value) > MaxValueLen {", "\tif len(req.Key) > key.LatestVersionLen {\n\t\treturn nil, serrors.ErrKeyLengthExceeded\n\t}\n\tif len(req.Key) < 1 {\n\t\treturn nil, serrors.ErrEmptyKey\n\t}\n\tif len(req.Value) > MaxValueLen {")])
v("c16-n-validator-ge", "C16", "none", [(TBL, "\t\tif len(put.Value) > MaxValueLen {\n\t\t\treturn serrors.ErrValueLengthExceeded\n\t\t}\n\t}\n\treturn nil", "\t\tif len(put.Value) >= MaxValueLen+1 {\n\t\t\treturn serrors.ErrValueLengthExceeded\n\t\t}\n\t}\n\treturn nil")])

# ---------------- C07 ----------------
BKP = "replication/backup/backup.go"
v("c07-f4-parent", "C07", "C07.a", [(MGR, "\t\t\t// Every record belongs to a batch, including the one that reaches the size threshold.\n\t\t\tif cmd.Kv != nil {\n\t\t\t\tbatchCmd.Batch = append(batchCmd.Batch, cmd.Kv)\n\t\t\t}\n\n\t\t\tif uint64(estimatedSize) < m.cfg.Table.MaxInMemLogSize/2 {\n\t\t\t\tcontinue\n\t\t\t}", "\t\t\tif uint64(estimatedSize) < m.cfg.Table.MaxInMemLogSize/2 {\n\t\t\t\tbatchCmd.Batch = append(batchCmd.Batch, cmd.Kv)\n\t\t\t\tcontinue\n\t\t\t}")], "parent of fix F4")
v("c07-batch-cleared-before-marshal", "C07", "C07.a", [(MGR, "\t\tbb, err := batchCmd.MarshalVT()\n\t\tif err != nil {\n\t\t\treturn err\n\t\t}\n\t\tbatchCmd.LeaderIndex = nil\n\t\tbatchCmd.Batch = batchCmd.Batch[:0]\n", "\t\tbatchCmd.Batch = batchCmd.Batch[:0]\n\t\tbb, err := batchCmd.MarshalVT()\n\t\tif err != nil {\n\t\t\treturn err\n\t\t}\n\t\tbatchCmd.LeaderIndex = nil\n")])
v("c07-proposal-error-ignored", "C07", "C07.a", [(MGR, "\t\t}, backOff)\n\t\tif err != nil {\n\t\t\treturn err\n\t\t}\n\n\t\testimatedSize = 0", "\t\t}, backOff)\n\t\tif err != nil {\n\t\t\tm.log.Warnf(\"batch failed %v\", err)\n\t\t}\n\n\t\testimatedSize = 0")])
v("c07-eof-skips-final-proposal", "C07", "C07.a", [(MGR, "\t\t\tif err == io.EOF {\n\t\t\t\tlast = true\n\t\t\t} else {", "\t\t\tif err == io.EOF {\n\t\t\t\tif len(batchCmd.Batch) < 2 {\n\t\t\t\t\treturn nil\n\t\t\t\t}\n\t\t\t\tlast = true\n\t\t\t} else {")])
v("c07-dump-reads-live-db", "C07", "C07.b", [(FSM, "\t\tidx, err := commandSnapshot(snapshot, p.tableName, req.Writer, req.Stopper)", "\t\tidx, err := commandSnapshot(p.pebble.Load(), p.tableName, req.Writer, req.Stopper)")])
v("c07-terminator-wrong-index", "C07", "C07.c", [(REPL, "\t\tLeaderIndex: &resp.Index,\n\t}).MarshalVT()", "\t\tLeaderIndex: func() *uint64 { i := resp.Index - 1; return &i }(),\n\t}).MarshalVT()")])
v("c07-terminator-dropped", "C07", "C07.c", [(REPL, "\t_, err = sf.Write(final)\n\tif err != nil {\n\t\treturn err\n\t}\n", "\t_ = final\n")])
v("c07-loader-drops-leader-index", "C07", "C07.c", [(MGR, "\t\t\tbatchCmd.LeaderIndex = cmd.LeaderIndex\n", "")])
v("c07-dump-exports-system-keys", "C07", "C07.d", [(QRY, "\t\t\tif k.KeyType == key.TypeUser {", "\t\t\tif k.KeyType != key.TypeUnknown {")])
v("c07-dump-skips-empty-values", "C07", "C07.d", [(QRY, "\t\t\tif k.KeyType == key.TypeUser {\n\t\t\t\tbuffer, err = writeCommand(", "\t\t\tif k.KeyType == key.TypeUser && len(iter.Value()) > 0 {\n\t\t\t\tbuffer, err = writeCommand(")])
v("c07-switch-before-load", "C07", "C07.e", [(MGR, "\terr = m.readIntoTable(tbl.RecoverID, reader)\n\tif err != nil {\n\t\treturn err\n\t}\n\n\ttbl, version, err = m.getTableVersion(name)\n\tif err != nil {\n\t\treturn err\n\t}\n\n\ttbl.ClusterID = recoveryID\n\ttbl.RecoverID = 0\n\terr = m.setTableVersion(tbl, version)\n\tif err != nil {\n\t\treturn err\n\t}\n\treturn nil", "\ttbl, version, err = m.getTableVersion(name)\n\tif err != nil {\n\t\treturn err\n\t}\n\n\ttbl.ClusterID = recoveryID\n\ttbl.RecoverID = 0\n\terr = m.setTableVersion(tbl, version)\n\tif err != nil {\n\t\treturn err\n\t}\n\treturn m.readIntoTable(recoveryID, reader)")])
v("c07-checksum-test-removed", "C07", "C07.f", [(BKP, "\t\tif hex.EncodeToString(hash.Sum(nil)) != table.MD5 {\n\t\t\treturn fmt.Errorf(\"table '%s' file '%s' corrupted (checksum mismatch)\", table.Name, table.FileName)\n\t\t}", "\t\tif hex.EncodeToString(hash.Sum(nil)) != table.MD5 {\n\t\t\tb.Log.Infof(\"table '%s' file '%s' corrupted (checksum mismatch)\", table.Name, table.FileName)\n\t\t}")])
v("c07-hash-not-reset", "C07", "C07.f", [(BKP, "\t\thash.Reset()\n", "")])
v("c07-n-loader-append-helper-var", "C07", "none", [(MGR, "\t\t\tif cmd.Kv != nil {\n\t\t\t\tbatchCmd.Batch = append(batchCmd.Batch, cmd.Kv)\n\t\t\t}", "\t\t\tif kv := cmd.Kv; kv != nil {\n\t\t\t\tbatchCmd.Batch = append(batchCmd.Batch, kv)\n\t\t\t}")])
v("c07-n-checksum-eq-form", "C07", "none", [(BKP, "\t\tif hex.EncodeToString(hash.Sum(nil)) != table.MD5 {\n\t\t\treturn fmt.Errorf(\"table '%s' file '%s' corrupted (checksum mismatch)\", table.Name, table.FileName)\n\t\t}", "\t\tif sum := hex.EncodeToString(hash.Sum(nil)); sum == table.MD5 {\n\t\t\tb.Log.Infof(\"sum ok\")\n\t\t} else {\n\t\t\treturn fmt.Errorf(\"table '%s' file '%s' corrupted (checksum mismatch)\", table.Name, table.FileName)\n\t\t}")])

# ---------------- C04 ----------------
DIR = "pebble/dir.go"
v("c04-f7-parent", "C04", "C04.d", [(FSM, "\t\t// Create the DB directory before its name is published, a crash in between must not\n\t\t// leave the current file pointing to a directory that does not exist.\n\t\tif err := p.fs.MkdirAll(dbdir, 0o755); err != nil {\n\t\t\treturn 0, err\n\t\t}\n", "")], "parent of fix F7")
v("c04-replace-before-save", "C04", "C04.d", [(SNAP, "\tif err := rp.SaveCurrentDBDirName(s.fsm.fs, s.fsm.dirname, randomDirName); err != nil {\n\t\treturn err\n\t}\n\tif err := rp.ReplaceCurrentDBFile(s.fsm.fs, s.fsm.dirname); err != nil {\n\t\treturn err\n\t}", "\tif err := rp.ReplaceCurrentDBFile(s.fsm.fs, s.fsm.dirname); err != nil {\n\t\treturn err\n\t}\n\tif err := rp.SaveCurrentDBDirName(s.fsm.fs, s.fsm.dirname, randomDirName); err != nil {\n\t\treturn err\n\t}")])
v("c04-swap-before-replace", "C04", "C04.e", [(CKP, "\tif err := rp.ReplaceCurrentDBFile(c.fsm.fs, c.fsm.dirname); err != nil {\n\t\treturn err\n\t}\n\told := c.fsm.pebble.Swap(db)\n", "\told := c.fsm.pebble.Swap(db)\n\tif err := rp.ReplaceCurrentDBFile(c.fsm.fs, c.fsm.dirname); err != nil {\n\t\treturn err\n\t}\n")])
v("c04-cleanup-before-replace", "C04", "C04.e", [(CKP, "\tif err := rp.SaveCurrentDBDirName(c.fsm.fs, c.fsm.dirname, randomDirName); err != nil {\n\t\treturn err\n\t}\n\tif err := rp.ReplaceCurrentDBFile", "\tif err := rp.SaveCurrentDBDirName(c.fsm.fs, c.fsm.dirname, randomDirName); err != nil {\n\t\treturn err\n\t}\n\t_ = rp.CleanupNodeDataDir(c.fsm.fs, c.fsm.dirname)\n\tif err := rp.ReplaceCurrentDBFile")])
v("c04-replace-no-dirsync", "C04", "C04.c", [(DIR, "\tif err := fs.Rename(tmpFp, fp); err != nil {\n\t\treturn err\n\t}\n\treturn syncDir(fs, dir)", "\tif err := fs.Rename(tmpFp, fp); err != nil {\n\t\treturn err\n\t}\n\tgo func() { _ = syncDir(fs, dir) }()\n\treturn nil")])
v("c04-save-no-file-sync", "C04", "C04.c", [(DIR, "\tif err = f.Sync(); err != nil {\n\t\treturn err\n\t}\n\treturn nil\n}\n\n// GetCurrentDBDirName", "\treturn nil\n}\n\n// GetCurrentDBDirName")])
v("c04-open-returns-zero", "C04", "C04.g", [(FSM, "\tlx, _ := readLocalIndex(db, sysLeaderIndex)\n\tif lx != 0 {\n\t\tp.appliedFunc(lx)\n\t}\n\treturn idx, nil", "\tlx, _ := readLocalIndex(db, sysLeaderIndex)\n\tif lx != 0 {\n\t\tp.appliedFunc(lx)\n\t\treturn lx, nil\n\t}\n\treturn idx, nil")])
v("c04-sync-noop", "C04", "C04.b", [(FSM, "func (p *FSM) Sync() error {\n\treturn p.pebble.Load().Flush()", "func (p *FSM) Sync() error {\n\tif p.closed {\n\t\treturn nil\n\t}\n\treturn p.pebble.Load().Flush()")])
v("c04-close-without-flush", "C04", "C04.b", [(FSM, "\tif err := db.Flush(); err != nil {\n\t\treturn err\n\t}\n\treturn db.Close()", "\treturn db.Close()")])
v("c04-old-db-closed-before-swap", "C04", "C04.e", [(SNAP, "\told := s.fsm.pebble.Swap(db)\n\ts.fsm.metrics.applied.Store(idx)\n\ts.fsm.log.Info(\"snapshot recovery finished\")\n\n\tif old != nil {\n\t\t_ = old.Close()\n\t}", "\tif cur := s.fsm.pebble.Load(); cur != nil {\n\t\t_ = cur.Close()\n\t}\n\ts.fsm.pebble.Swap(db)\n\ts.fsm.metrics.applied.Store(idx)\n\ts.fsm.log.Info(\"snapshot recovery finished\")")])
v("c04-received-sst-not-synced", "C04", "C04.e", [(SNAP, "\t\t\tif err := f.Sync(); err != nil {\n\t\t\t\treturn err\n\t\t\t}\n\t\t\tif err := f.Close(); err != nil {", "\t\t\tif err := f.Close(); err != nil {")])
v("c04-cleanup-removes-live-dir", "C04", "C04.f", [(DIR, "\t\tif toDelete != filepath.Join(dir, dbdir) {\n\t\t\tif err := fs.RemoveAll(toDelete); err != nil {\n\t\t\t\treturn err\n\t\t\t}\n\t\t}", "\t\tif err := fs.RemoveAll(toDelete); err != nil {\n\t\t\treturn err\n\t\t}\n\t\t_ = dbdir")])
v("c04-name-without-checksum", "C04", "C04.f", [(DIR, "\tif !bytes.Equal(crc, h.Sum(nil)[:8]) {\n\t\treturn \"\", err\n\t}\n", "\tif !bytes.Equal(crc, h.Sum(nil)[:8]) {\n\t\terr = nil\n\t}\n")])
v("c04-index-written-to-db", "C04", "C04.a1", [(CMD, "c.batch.Set(sysLocalIndex, idx, nil)", "c.db.Set(sysLocalIndex, idx, nil)")])
v("c04-n-stop-ignored-completes", "C04", "none", [(CKP, "\t\tcase <-stopc:\n\t\t\treturn sm.ErrSnapshotStopped\n\t\tdefault:\n\t\t}\n\t\theader, err := tr.Next()", "\t\tcase <-stopc:\n\t\t\tbreak\n\t\tdefault:\n\t\t}\n\t\theader, err := tr.Next()")], "break only leaves the select: harmless here; used to see the rule stay silent")
v("c04-n-log-reorder-around-swap", "C04", "none", [(SNAP, "\told := s.fsm.pebble.Swap(db)\n\ts.fsm.metrics.applied.Store(idx)\n\ts.fsm.log.Info(\"snapshot recovery finished\")", "\ts.fsm.log.Info(\"snapshot recovery finishing\")\n\told := s.fsm.pebble.Swap(db)\n\ts.fsm.metrics.applied.Store(idx)")])
v("c04-n-mkdir-via-helper-var", "C04", "none", [(FSM, "\t\tif err := p.fs.MkdirAll(dbdir, 0o755); err != nil {\n\t\t\treturn 0, err\n\t\t}", "\t\terr := p.fs.MkdirAll(dbdir, 0o755)\n\t\tif err != nil {\n\t\t\treturn 0, err\n\t\t}")])

# ---------------- C06 ----------------
LR = "storage/logreader/logreader.go"; CACHE = "storage/logreader/cache.go"; EVT = "storage/engine_events.go"
v("c06-f8-parent", "C06", "C06.e", [(LR, "return entries[:max(i, 1)]", "return entries[:i]")], "parent of fix F8")
v("c06-next-is-last-index", "C06", "C06.a", [(REPL, "\t\tnext := entries[len(entries)-1].Index + 1\n", "\t\tnext := entries[len(entries)-1].Index\n")])
v("c06-next-plus-two", "C06", "C06.a", [(REPL, "\t\tnext := entries[len(entries)-1].Index + 1\n", "\t\tnext := entries[len(entries)-1].Index + 2\n")])
v("c06-next-from-first-entry", "C06", "C06.a", [(REPL, "\t\tnext := entries[len(entries)-1].Index + 1\n", "\t\tnext := entries[0].Index + uint64(len(entries)) + 1\n")])
v("c06-last-index-no-plus-one", "C06", "C06.a", [(REPL, "LastIndex: appliedIndex.Index + 1}", "LastIndex: appliedIndex.Index}")])
v("c06-behind-le", "C06", "C06.a", [(REPL, "\tif appliedIndex.Index+1 < req.LeaderIndex {", "\tif appliedIndex.Index+1 <= req.LeaderIndex {")])
v("c06-drop-non-encoded", "C06", "C06.c", [(REPL, "\t\t\tif cmd, err := entryToCommand(e); err != nil {\n\t\t\t\treturn err\n\t\t\t} else {", "\t\t\tif e.Type != raftpb.EncodedEntry {\n\t\t\t\tcontinue\n\t\t\t}\n\t\t\tif cmd, err := entryToCommand(e); err != nil {\n\t\t\t\treturn err\n\t\t\t} else {")])
v("c06-label-loop-index", "C06", "C06.c", [(REPL, "\t\tfor _, e := range entries {\n\t\t\tif cmd, err := entryToCommand(e); err != nil {\n\t\t\t\treturn err\n\t\t\t} else {\n\t\t\t\tcommands = append(commands, &regattapb.ReplicateCommand{Command: cmd, LeaderIndex: e.Index})", "\t\tfor i, e := range entries {\n\t\t\tif cmd, err := entryToCommand(e); err != nil {\n\t\t\t\treturn err\n\t\t\t} else {\n\t\t\t\tcommands = append(commands, &regattapb.ReplicateCommand{Command: cmd, LeaderIndex: logRange.FirstIndex + uint64(i)})")])
v("c06-uptodate-le", "C06", "C06.b", [(LR, "\tif rLast+1 == logRange.FirstIndex {", "\tif rLast+1 <= logRange.FirstIndex {")])
v("c06-behind-le-readlog", "C06", "C06.b", [(LR, "\tif rLast < logRange.FirstIndex {", "\tif rLast <= logRange.FirstIndex {")])
v("c06-ahead-le", "C06", "C06.b", [(LR, "\tif logRange.FirstIndex < rFirst {", "\tif logRange.FirstIndex <= rFirst {")])
v("c06-no-uptodate-test", "C06", "C06.b", [(LR, "\tif rLast+1 == logRange.FirstIndex {\n\t\treturn nil, nil\n\t}\n", "")])
v("c06-handler-swaps-errors", "C06", "C06.b", [(REPL, "\t\tcase errors.Is(err, serrors.ErrLogAhead):\n\t\t\treturn server.Send(repErrUseSnapshot)", "\t\tcase errors.Is(err, serrors.ErrLogAhead):\n\t\t\treturn server.Send(repErrLeaderBehind)")])
v("c06-put-without-contiguity", "C06", "C06.d", [(LR, "\t\t\tif le[0].Index-1 == sh.largestIndex() {\n\t\t\t\tsh.put(le)\n\t\t\t}", "\t\t\tsh.put(le)")])
v("c06-put-when-cache-nonempty", "C06", "C06.d", [(LR, "\t\t\tif sh.len() == 0 {\n\t\t\t\tsh.put(le)\n\t\t\t}", "\t\t\tsh.put(le)")])
v("c06-compaction-not-invalidating", "C06", "C06.d", [(EVT, "\t\t\t\te.engine.LogCache.LogCompacted(ev.ShardID)\n", "")])
v("c06-invalidate-wrong-shard", "C06", "C06.d", [(EVT, "e.engine.LogCache.NodeDeleted(ev.ShardID)", "e.engine.LogCache.NodeDeleted(ev.ReplicaID)")])
v("c06-n-behind-flipped", "C06", "none", [(REPL, "\tif appliedIndex.Index+1 < req.LeaderIndex {", "\tif req.LeaderIndex > appliedIndex.Index+1 {")])
v("c06-n-uptodate-minus-form", "C06", "none", [(LR, "\tif rLast+1 == logRange.FirstIndex {", "\tif logRange.FirstIndex-1 == rLast {")])
v("c06-n-fixsize-guard", "C06", "none", [(LR, "\t\t\treturn entries[:max(i, 1)]", "\t\t\tif i == 0 {\n\t\t\t\treturn entries[:1]\n\t\t\t}\n\t\t\treturn entries[:i]")])
v("c06-n-contiguity-plus-form", "C06", "none", [(LR, "\t\t\tif le[0].Index-1 == sh.largestIndex() {", "\t\t\tif le[0].Index == sh.largestIndex()+1 {")])

# ---------------- C13 ----------------
RAFT = "storage/kv/raft.go"; MAP = "storage/kv/map.go"
v("c13-version-test-removed", "C13", "C13.a", [(RAFT, "\t\t\tif v.Ver != update.KVPair.Ver {", "\t\t\tif v.Ver != update.KVPair.Ver && update.KVPair.Ver != 0 {")], "version 0 bypasses the gate")
v("c13-version-test-inverted", "C13", "C13.a", [(RAFT, "\t\t\tif v.Ver != update.KVPair.Ver {", "\t\t\tif v.Ver == update.KVPair.Ver {")])
v("c13-mismatch-falls-through", "C13", "C13.a", [(RAFT, "\t\t\t\t\tData:  data,\n\t\t\t\t}\n\t\t\t\tcontinue\n", "\t\t\t\t\tData:  data,\n\t\t\t\t}\n")])
v("c13-mismatch-reports-supplied", "C13", "C13.a", [(RAFT, "\t\t\t\tdata, _ := json.Marshal(v)\n", "\t\t\t\tdata, _ := json.Marshal(update.KVPair)\n")])
v("c13-version-from-clock", "C13", "C13.b", [(RAFT, "\t\tupdate.KVPair.Ver = ent.Index\n", "\t\tupdate.KVPair.Ver = ent.Index + uint64(time.Now().Unix()%2)\n")])
v("c13-version-kept-from-client", "C13", "C13.b", [(RAFT, "\t\tupdate.KVPair.Ver = ent.Index\n", "\t\tif update.KVPair.Ver == 0 {\n\t\t\tupdate.KVPair.Ver = ent.Index\n\t\t}\n")])
v("c13-client-ignores-mismatch", "C13", "C13.c", [(RAFT, "\tif res.Value == ResultCodeVersionMismatch {\n\t\treturn ErrVersionMismatch\n\t}\n\treturn nil", "\t_ = res\n\treturn nil")])
v("c13-client-set-mismatch-nil", "C13", "C13.c", [(RAFT, "\tif res.Value == ResultCodeVersionMismatch {\n\t\treturn pair, ErrVersionMismatch\n\t}", "\tif res.Value == ResultCodeVersionMismatch && pair.Ver != ver {\n\t\treturn pair, ErrVersionMismatch\n\t}")])
v("c13-clock-in-value", "C13", "C13.d", [(RAFT, "\t\t\t_, err := fsm.store.Set(update.KVPair.Key, update.KVPair.Value, update.KVPair.Ver)", "\t\t\t_, err := fsm.store.Set(update.KVPair.Key, update.KVPair.Value+time.Now().String()[:0], update.KVPair.Ver)")])
v("c13-unmarshal-merges", "C13", "C13.e", [(MAP, "\ts.m = make(map[string]Pair)\n\treturn json.Unmarshal(bytes, &s.m)", "\treturn json.Unmarshal(bytes, &s.m)")])
v("c13-get-unlocked", "C13", "C13.f", [(MAP, "func (s *MapStore) Exists(key string) (bool, error) {\n\ts.mtx.RLock()\n\tdefer s.mtx.RUnlock()\n", "func (s *MapStore) Exists(key string) (bool, error) {\n")])
v("c13-delete-read-lock", "C13", "C13.f", [(MAP, "func (s *MapStore) Delete(key string, ver uint64) error {\n\ts.mtx.Lock()\n\tdefer s.mtx.Unlock()", "func (s *MapStore) Delete(key string, ver uint64) error {\n\ts.mtx.RLock()\n\tdefer s.mtx.RUnlock()")])
v("c13-n-eq-form", "C13", "none", [(RAFT, "\t\t\tif v.Ver != update.KVPair.Ver {", "\t\t\tif !(update.KVPair.Ver == v.Ver) {")])
v("c13-n-client-switch", "C13", "none", [(RAFT, "\tif res.Value == ResultCodeVersionMismatch {\n\t\treturn ErrVersionMismatch\n\t}\n\treturn nil", "\tswitch res.Value {\n\tcase ResultCodeVersionMismatch:\n\t\treturn ErrVersionMismatch\n\t}\n\treturn nil")])

# ---------------- C14 / C15 ----------------
WRK = "replication/worker.go"
v("c14-create-with-read-version", "C14", "C14.a", [(MGR, "\terr = m.setTableVersion(tab, 0)\n\tif err != nil {\n\t\tif errors.Is(err, kv.ErrVersionMismatch) {", "\tcur, _ := m.store.Get(storeName)\n\terr = m.setTableVersion(tab, cur.Ver)\n\tif err != nil {\n\t\tif errors.Is(err, kv.ErrVersionMismatch) {")])
v("c14-create-ignores-exists", "C14", "C14.a", [(MGR, "\tif exists {\n\t\treturn Table{}, serrors.ErrTableExists\n\t}\n\tseq, err := m.incAndGetIDSeq()", "\t_ = exists\n\tseq, err := m.incAndGetIDSeq()")])
v("c14-id-from-counter", "C14", "C14.a", [(MGR, "\t\tClusterID: seq,\n\t}\n\terr = m.setTableVersion(tab, 0)", "\t\tClusterID: seq + uint64(len(name))%2,\n\t}\n\terr = m.setTableVersion(tab, 0)")])
v("c14-seq-no-cas", "C14", "C14.b", [(MGR, "\t_, err = m.store.Set(seq.Key, strconv.FormatUint(next, 10), seq.Ver)\n\treturn next, err", "\t_, err = m.store.Set(seq.Key, strconv.FormatUint(next, 10), 0)\n\treturn next, err")])
v("c14-seq-error-dropped", "C14", "C14.b", [(MGR, "\t_, err = m.store.Set(seq.Key, strconv.FormatUint(next, 10), seq.Ver)\n\treturn next, err", "\t_, _ = m.store.Set(seq.Key, strconv.FormatUint(next, 10), seq.Ver)\n\treturn next, nil")])
v("c14-seq-returns-current", "C14", "C14.b", [(MGR, "\t_, err = m.store.Set(seq.Key, strconv.FormatUint(next, 10), seq.Ver)\n\treturn next, err", "\t_, err = m.store.Set(seq.Key, strconv.FormatUint(next, 10), seq.Ver)\n\treturn currSeq, err")])
v("c14-restore-reuses-cluster-id", "C14", "C14.b", [(MGR, "\ttbl.ClusterID = recoveryID\n\ttbl.RecoverID = 0", "\ttbl.ClusterID = tbl.RecoverID\n\ttbl.RecoverID = 0")], "same value today, but no longer tied to the sequence; reported as provenance break")
v("c14-dir-without-shard-id", "C14", "C14.c", [(FSM, "fmt.Sprintf(\"%s-%d\", tableName, clusterID))", "fmt.Sprintf(\"%s-%d\", tableName, nodeID))")])
v("c14-delete-version-zero", "C14", "C14.d", [(MGR, "\treturn m.store.Delete(storeName, tab.Ver)", "\treturn m.store.Delete(storeName, tab.Ver*0)")])
v("c14-delete-notfound-generic", "C14", "C14.d", [(MGR, "\t\tif errors.Is(err, kv.ErrNotExist) {\n\t\t\treturn serrors.ErrTableNotFound\n\t\t}\n\t\treturn err\n\t}\n\n\treturn m.store.Delete", "\t\tif errors.Is(err, kv.ErrNotExist) {\n\t\t\treturn nil\n\t\t}\n\t\treturn err\n\t}\n\n\treturn m.store.Delete")])
v("c14-diff-ge-range-start", "C14", "C14.e", [(MGR, "\t\tif !found && rID > tableIDsRangeStart {", "\t\tif !found && rID >= tableIDsRangeStart-9000 {")], "the metadata shard (1000) becomes stoppable")
v("c14-diff-start-ignores-running", "C14", "C14.e", [(MGR, "\t\tif !found && tID > tableIDsRangeStart {", "\t\tif tID > tableIDsRangeStart {\n\t\t\t_ = found")])
v("c14-diff-ignores-recover-id", "C14", "C14.e", [(MGR, "\t\tif t.RecoverID != 0 {\n\t\t\ttableIDs[t.RecoverID] = t\n\t\t}\n", "")])
v("c14-read-other-shard", "C14", "C14.f", [(TBL, "\t\tval, err = t.nh.StaleRead(t.ClusterID, req)", "\t\tval, err = t.nh.StaleRead(t.RecoverID+t.ClusterID, req)")])
v("c14-n-delete-tail", "C14", "none", [(MGR, "\treturn m.store.Delete(storeName, tab.Ver)", "\tver := tab.Ver\n\treturn m.store.Delete(storeName, ver)")])
v("c14-n-diff-gt-flipped", "C14", "none", [(MGR, "\t\tif !found && rID > tableIDsRangeStart {", "\t\tif tableIDsRangeStart < rID && !found {")])
v("c15-lease-version-zero", "C15", "C15.a", [(MGR, "\t\t_, err = m.store.Set(key, string(bts), get.Ver)", "\t\t_, err = m.store.Set(key, string(bts), 0)")])
v("c15-gate-until-after", "C15", "C15.a", [(MGR, "l.Until.Before(time.Now()) {", "l.Until.After(time.Now()) {")])
v("c15-gate-dropped", "C15", "C15.a", [(MGR, "\tif unclaimed || l.ID == m.cfg.NodeID || l.Until.Before(time.Now()) {", "\tif true || unclaimed || l.ID == m.cfg.NodeID || l.Until.Before(time.Now()) {")])
v("c15-lease-error-swallowed", "C15", "C15.a", [(MGR, "\t\t_, err = m.store.Set(key, string(bts), get.Ver)\n\t\tif err != nil {\n\t\t\treturn err\n\t\t}\n\t\treturn nil", "\t\t_, err = m.store.Set(key, string(bts), get.Ver)\n\t\tif err != nil && !errors.Is(err, kv.ErrVersionMismatch) {\n\t\t\treturn err\n\t\t}\n\t\treturn nil")])
v("c15-return-without-holder-test", "C15", "C15.b", [(MGR, "\tif l.ID != m.cfg.NodeID {\n\t\treturn false, nil\n\t}\n\n\terr = m.store.Delete(key, get.Ver)", "\terr = m.store.Delete(key, get.Ver)")])
v("c15-return-version-zero", "C15", "C15.b", [(MGR, "\terr = m.store.Delete(key, get.Ver)", "\terr = m.store.Delete(key, 0)")])
v("c15-replicate-without-lease-test", "C15", "C15.c", [(WRK, "\t\t\tif !w.leased.Load() {\n\t\t\t\tw.log.Debug(\"skipping replication - table not leased\")\n\t\t\t\tcontinue\n\t\t\t}", "\t\t\tif !w.leased.Load() {\n\t\t\t\tw.log.Debug(\"replication - table not leased\")\n\t\t\t}")])
v("c15-lease-same-as-interval", "C15", "C15.c", [(WRK, "w.engine.LeaseTable(w.table, w.leaseInterval*4)", "w.engine.LeaseTable(w.table, w.leaseInterval)")])
v("c15-leased-kept-on-error", "C15", "C15.c", [(WRK, "\t\t\t\t} else {\n\t\t\t\t\tprev := w.leased.Swap(false)\n\t\t\t\t\tif prev {\n\t\t\t\t\t\tw.metrics.replicationLeased.Set(0)\n\t\t\t\t\t}\n\t\t\t\t}", "\t\t\t\t} else if errors.Is(err, serrors.ErrLeaseNotAcquired) {\n\t\t\t\t\tprev := w.leased.Swap(false)\n\t\t\t\t\tif prev {\n\t\t\t\t\t\tw.metrics.replicationLeased.Set(0)\n\t\t\t\t\t}\n\t\t\t\t}")], "a store error (e.g. timeout) keeps the flag although the lease may expire")
v("c15-n-gate-reordered", "C15", "none", [(MGR, "\tif unclaimed || l.ID == m.cfg.NodeID || l.Until.Before(time.Now()) {", "\tif l.ID == m.cfg.NodeID || unclaimed || l.Until.Before(time.Now()) {")])
v("c15-n-return-eq-form", "C15", "none", [(MGR, "\tif l.ID != m.cfg.NodeID {\n\t\treturn false, nil\n\t}\n\n\terr = m.store.Delete(key, get.Ver)\n\tif err != nil {\n\t\treturn false, err\n\t}\n\n\treturn true, nil", "\tif l.ID == m.cfg.NodeID {\n\t\terr = m.store.Delete(key, get.Ver)\n\t\tif err != nil {\n\t\t\treturn false, err\n\t\t}\n\t\treturn true, nil\n\t}\n\treturn false, nil")])

# ---------------- C19 ----------------
VIEW = "storage/cluster/view.go"; CLU = "storage/cluster/cluster.go"
v("c19-term-ge", "C19", "C19.a", [(VIEW, "if current.LeaderID == noLeader || update.Term > current.Term {", "if current.LeaderID == noLeader || update.Term >= current.Term {")])
v("c19-no-leader-test-dropped", "C19", "C19.a", [(VIEW, "\tif update.LeaderID != noLeader {\n\t\tif current.LeaderID == noLeader || update.Term > current.Term {\n\t\t\tcurrent.LeaderID = update.LeaderID\n\t\t\tcurrent.Term = update.Term\n\t\t}\n\t}", "\tif current.LeaderID == noLeader || update.Term > current.Term {\n\t\tcurrent.LeaderID = update.LeaderID\n\t\tcurrent.Term = update.Term\n\t}")])
v("c19-term-without-leader", "C19", "C19.a", [(VIEW, "\t\t\tcurrent.LeaderID = update.LeaderID\n\t\t\tcurrent.Term = update.Term\n\t\t}\n\t}", "\t\t\tcurrent.LeaderID = update.LeaderID\n\t\t}\n\t\tif update.Term > current.Term {\n\t\t\tcurrent.Term = update.Term\n\t\t}\n\t}")])
v("c19-cci-reversed", "C19", "C19.a", [(VIEW, "if current.ConfigChangeIndex < update.ConfigChangeIndex {", "if current.ConfigChangeIndex > update.ConfigChangeIndex {")])
v("c19-second-writer", "C19", "C19.c", [(VIEW, "func (v *shardView) shardInfo(id uint64) dragonboat.ShardView {", "func (v *shardView) set(u dragonboat.ShardView) {\n\tv.mtx.Lock()\n\tdefer v.mtx.Unlock()\n\tv.shards[u.ShardID] = u\n}\n\nfunc (v *shardView) shardInfo(id uint64) dragonboat.ShardView {")])
v("c19-update-wrong-key", "C19", "C19.b", [(VIEW, "\t\tv.shards[u.ShardID] = mergeShardInfo(current, u)", "\t\tv.shards[u.ShardID%16] = mergeShardInfo(current, u)")])
v("c19-update-unlocked", "C19", "C19.b", [(VIEW, "func (v *shardView) update(updates []dragonboat.ShardView) {\n\tv.mtx.Lock()\n\tdefer v.mtx.Unlock()\n", "func (v *shardView) update(updates []dragonboat.ShardView) {\n\tv.mtx.RLock()\n\tdefer v.mtx.RUnlock()\n")])
v("c19-header-term-from-nodehost", "C19", "C19.b", [("storage/engine.go", "\theader.RaftTerm = info.Term\n", "\theader.RaftTerm = info.ConfigChangeIndex\n")])
v("c19-remote-merge-bypasses", "C19", "C19.c", [(CLU, "\tc.shardView.update(remote.ShardView)", "\tfor _, sv := range remote.ShardView {\n\t\t_ = sv\n\t}")])
v("c19-n-merge-reordered", "C19", "none", [(VIEW, "\tif update.LeaderID != noLeader {\n\t\tif current.LeaderID == noLeader || update.Term > current.Term {", "\tif update.LeaderID != noLeader {\n\t\tif update.Term > current.Term || current.LeaderID == noLeader {")])
v("c19-n-term-flipped", "C19", "none", [(VIEW, "update.Term > current.Term {", "current.Term < update.Term {")])
v("c19-n-merge-single-if", "C19", "none", [(VIEW, "\tif update.LeaderID != noLeader {\n\t\tif current.LeaderID == noLeader || update.Term > current.Term {\n\t\t\tcurrent.LeaderID = update.LeaderID\n\t\t\tcurrent.Term = update.Term\n\t\t}\n\t}", "\tif update.LeaderID != noLeader && (current.LeaderID == noLeader || update.Term > current.Term) {\n\t\tcurrent.Term = update.Term\n\t\tcurrent.LeaderID = update.LeaderID\n\t}")])

# ---------------- C12 ----------------
KEY = "storage/table/key/key.go"; V1 = "storage/table/key/v1.go"
v("c12-decoder-strips-one-more", "C12", "C12.a", [(KEY, "\t\tk := v1DecodeRaw(raw[keyHeaderLen:])", "\t\tk := v1DecodeRaw(raw[keyHeaderLen+1:])")])
v("c12-encoder-xors-key", "C12", "C12.b", [(V1, "\tcopy(bytes[1:], k.key)\n", "\tfor i, b := range k.key {\n\t\tbytes[1+i] = b ^ 0x80\n\t}\n")])
v("c12-type-constants-swapped", "C12", "C12.c", [(KEY, "\t// TypeUser user Key type.\n\tTypeUser\n\t// TypeSystem system/internal Key type.\n\tTypeSystem", "\t// TypeSystem system/internal Key type.\n\tTypeSystem\n\t// TypeUser user Key type.\n\tTypeUser")])
v("c12-raw-decoder-key-from-zero", "C12", "C12.a", [(V1, "\t\tk.key = raw[1:]\n\t}\n\treturn k", "\t\tk.key = raw[0:]\n\t}\n\treturn k")])
v("c12-header-extra-byte", "C12", "C12.c", [(KEY, "\theader[keyVersionHeaderPos] = key.version\n", "\theader[keyVersionHeaderPos] = key.version\n\theader[1] = byte(key.KeyType)\n")])
v("c12-header-len-on-one-side", "C12", "C12.a", [(KEY, "\tvar header [keyHeaderLen]byte\n\theader[keyVersionHeaderPos] = key.version", "\tvar header [keyHeaderLen + 4]byte\n\theader[keyVersionHeaderPos] = key.version")])
v("c12-bookkeeping-name-zero-byte", "C12", "C12.c", [(FSM, "\t\tKey:     []byte(\"index\"),", "\t\tKey:     []byte(\"\\x00index\"),")])
v("c12-encoder-truncates", "C12", "C12.b", [(V1, "\treturn writer.Write(bytes[:])", "\treturn writer.Write(bytes[:min(len(bytes), V1KeyLen)])")])
v("c12-n-copy-via-append", "C12", "none", [(V1, "\tbytes := make([]byte, 1+len(k.key))\n\tbytes[0] = byte(k.keyType)\n\tcopy(bytes[1:], k.key)", "\tbytes := make([]byte, 1, 1+len(k.key))\n\tbytes[0] = byte(k.keyType)\n\tbytes = append(bytes, k.key...)")], "behaviour preserving alternative shape of the v1 encoder")
v("c12-n-version-check-switch", "C12", "none", [(KEY, "\tif raw[keyVersionHeaderPos] == V1 {\n\t\tk := v1DecodeRaw(raw[keyHeaderLen:])", "\tif v := raw[keyVersionHeaderPos]; v == V1 {\n\t\tk := v1DecodeRaw(raw[keyHeaderLen:])")])

# ---------------- C17 ----------------
COM = "cmd/common.go"; LEAD = "cmd/leader.go"; TLS = "security/tls.go"; MAINT = "regattaserver/maintenance.go"
v("c17-reset-server-no-override", "C17", "C17.b", [(MAINT, "func (m *ResetServer) AuthFuncOverride(ctx context.Context, _ string) (context.Context, error) {\n\treturn m.AuthFunc(ctx)\n}\n", "")])
v("c17-override-drops-error", "C17", "C17.b", [(MAINT, "func (m *BackupServer) AuthFuncOverride(ctx context.Context, _ string) (context.Context, error) {\n\treturn m.AuthFunc(ctx)\n}", "func (m *BackupServer) AuthFuncOverride(ctx context.Context, _ string) (context.Context, error) {\n\tnctx, _ := m.AuthFunc(ctx)\n\treturn nctx, nil\n}")])
v("c17-token-keys-swapped", "C17", "C17.b", [(LEAD, "regattapb.RegisterTablesServer(r, &regattaserver.TablesServer{Tables: engine, AuthFunc: authFunc(viper.GetString(\"tables.token\"))})", "regattapb.RegisterTablesServer(r, &regattaserver.TablesServer{Tables: engine, AuthFunc: authFunc(viper.GetString(\"maintenance.token\"))})")])
v("c17-token-prefix", "C17", "C17.d", [(COM, "\t\tif token != t {", "\t\tif !strings.HasPrefix(token, t) {"), (COM, "\t\"strconv\"\n", "\t\"strconv\"\n\t\"strings\"\n")])
v("c17-token-fold", "C17", "C17.d", [(COM, "\t\tif token != t {", "\t\tif !strings.EqualFold(token, t) {"), (COM, "\t\"strconv\"\n", "\t\"strconv\"\n\t\"strings\"\n")])
v("c17-stream-interceptor-dropped", "C17", "C17.a", [(COM, "\t\t\tauth.StreamServerInterceptor(defaultAuthFunc),\n", "")])
v("c17-reject-permission-denied", "C17", "C17.d", [(COM, "return ctx, status.Errorf(codes.Unauthenticated, \"Invalid token\")", "return ctx, status.Errorf(codes.PermissionDenied, \"Invalid token\")")])
v("c17-n-metadata-error-ignored", "C17", "none", [(COM, "\t\tt, err := auth.AuthFromMD(ctx, \"bearer\")\n\t\tif err != nil {\n\t\t\treturn ctx, err\n\t\t}", "\t\tt, _ := auth.AuthFromMD(ctx, \"bearer\")")], "a failed extraction yields an empty token, which never equals the (non-empty) configured one: equivalent")
v("c17-verify-if-given", "C17", "C17.e", [(TLS, "\t\tcfg.ClientAuth = tls.RequireAndVerifyClientCert", "\t\tcfg.ClientAuth = tls.VerifyClientCertIfGiven")])
v("c17-verify-raw-certs", "C17", "C17.e", [(TLS, "\t\t\tfor _, chains := range verifiedChains {\n\t\t\t\tif len(chains) != 0 {\n\t\t\t\t\treturn verifyCertificate(chains[0])\n\t\t\t\t}\n\t\t\t}\n\t\t\treturn errors.New(\"client certificate authentication failed\")", "\t\t\tif len(rawCerts) != 0 {\n\t\t\t\tif c, err := x509.ParseCertificate(rawCerts[0]); err == nil {\n\t\t\t\t\treturn verifyCertificate(c)\n\t\t\t\t}\n\t\t\t}\n\t\t\t_ = verifiedChains\n\t\t\treturn errors.New(\"client certificate authentication failed\")")])
v("c17-no-chain-accepted", "C17", "C17.e", [(TLS, "\t\t\treturn errors.New(\"client certificate authentication failed\")\n\t\t}\n\t}", "\t\t\treturn nil\n\t\t}\n\t}")])
v("c17-cn-prefix", "C17", "C17.e", [(TLS, "\t\t\tif t.AllowedCN != cert.Subject.CommonName {", "\t\t\tif !strings.HasPrefix(cert.Subject.CommonName, t.AllowedCN) {"), (TLS, "\t\"fmt\"\n", "\t\"fmt\"\n\t\"strings\"\n")])
v("c17-replication-ca-from-api-key", "C17", "C17.e", [(LEAD, "\t\t\tTrustedCAFile:   viper.GetString(\"replication.ca-filename\"),\n\t\t\tClientCertAuth:  viper.GetBool(\"replication.client-cert-auth\"),", "\t\t\tTrustedCAFile:   viper.GetString(\"api.ca-filename\"),\n\t\t\tClientCertAuth:  viper.GetBool(\"replication.client-cert-auth\"),")])
v("c17-clientauth-only-with-flag", "C17", "C17.e", [(TLS, "\tif t.TrustedCAFile != \"\" || t.ClientCertAuth {\n\t\tcfg.ClientAuth = tls.RequireAndVerifyClientCert", "\tif t.TrustedCAFile != \"\" && t.ClientCertAuth {\n\t\tcfg.ClientAuth = tls.RequireAndVerifyClientCert")])
v("c17-n-authfunc-local-var", "C17", "none", [(LEAD, "regattapb.RegisterTablesServer(r, &regattaserver.TablesServer{Tables: engine, AuthFunc: authFunc(viper.GetString(\"tables.token\"))})", "af := authFunc(viper.GetString(\"tables.token\"))\n\t\t\t\t\tregattapb.RegisterTablesServer(r, &regattaserver.TablesServer{Tables: engine, AuthFunc: af})")])
v("c17-n-token-eq-form", "C17", "none", [(COM, "\t\tif token != t {\n\t\t\treturn ctx, status.Errorf(codes.Unauthenticated, \"Invalid token\")\n\t\t}\n\t\treturn ctx, nil", "\t\tif t == token {\n\t\t\treturn ctx, nil\n\t\t}\n\t\treturn ctx, status.Errorf(codes.Unauthenticated, \"Invalid token\")")])

# ---------------- C18 ----------------
SNP = "replication/snapshot/snapshot.go"; GZ = "regattaserver/encoding/gzip/grpc.go"; ZS = "regattaserver/encoding/zstd/grpc.go"; SN = "regattaserver/encoding/snappy/grpc.go"; COD = "regattaserver/encoding/proto/codec.go"; ENC = "storage/table/fsm/encode.go"
v("c18-reader-prefix-4-bytes", "C18", "C18.a", [(SNP, "\tsize := binary.LittleEndian.Uint64(buf)\n", "\tsize := uint64(binary.LittleEndian.Uint32(buf))\n")])
v("c18-writer-big-endian", "C18", "C18.a", [(SNP, "\tbinary.LittleEndian.PutUint64(buf, uint64(len(p)))", "\tbinary.BigEndian.PutUint64(buf, uint64(len(p)))")])
v("c18-sst-length-uint32", "C18", "C18.a", [(ENC, "binary.Write(to, binary.LittleEndian, uint64(from.Len()))", "binary.Write(to, binary.LittleEndian, uint32(from.Len()))")])
v("c18-prefix-len-plus-header", "C18", "C18.a", [(SNP, "\tbinary.LittleEndian.PutUint64(buf, uint64(len(p)))", "\tbinary.LittleEndian.PutUint64(buf, uint64(len(p)+len(buf)))")])
v("c18-no-resetvt-in-receive-loop", "C18", "C18.c", [(SNP, "\tfor {\n\t\tchunk.ResetVT()\n\t\terr := s.Stream.RecvMsg(chunk)", "\tfor {\n\t\terr := s.Stream.RecvMsg(chunk)")])
v("c18-chunk-writer-drops-short-final-read", "C18", "C18.b", [(SNP, "\t\tn, err := r.Read(chunk)\n\t\tif n > 0 {", "\t\tn, err := r.Read(chunk)\n\t\tif n > 0 && err == nil {")])
v("c18-chunk-full-buffer-sent", "C18", "C18.b", [(SNP, "\t\t\t\tData: chunk[:n],\n\t\t\t\tLen:  uint64(n),", "\t\t\t\tData: chunk,\n\t\t\t\tLen:  uint64(n),")])
v("c18-reader-keeps-pooled-data", "C18", "C18.c", [(SNP, "\treturn copy(p, chunk.Data), nil\n}\n\nfunc (s Reader) WriteTo", "\tlastChunk = chunk.Data\n\treturn copy(p, chunk.Data), nil\n}\n\nvar lastChunk []byte\n\nfunc (s Reader) WriteTo")])
v("c18-gzip-put-before-close", "C18", "C18.e", [(GZ, "\terr := z.Writer.Close()\n\tz.pool.Put(z)\n\treturn err", "\tz.pool.Put(z)\n\treturn z.Writer.Close()")])
v("c18-zstd-writer-not-reset", "C18", "C18.e", [(ZS, "\tz := c.poolCompressor.Get().(*writer)\n\tz.Encoder.Reset(w)\n\treturn z, nil", "\tz := c.poolCompressor.Get().(*writer)\n\tif z.pool == nil {\n\t\tz.Encoder.Reset(w)\n\t}\n\treturn z, nil")])
v("c18-snappy-reader-put-always", "C18", "C18.e", [(SN, "\tif err == io.EOF {\n\t\tz.pool.Put(z)\n\t}", "\tif err != nil || n == 0 {\n\t\tz.pool.Put(z)\n\t}")])
v("c18-gzip-reused-reader-not-reset", "C18", "C18.e", [(GZ, "\tz.Reset(r)\n\treturn z, nil\n}\n\nfunc (c *compressor) Name", "\treturn z, nil\n}\n\nfunc (c *compressor) Name")])
v("c18-codec-reflection-first", "C18", "C18.d", [(COD, "\tcase vtprotoMessage:\n\t\treturn message.MarshalVT()\n\tcase proto.Message:\n\t\treturn proto.Marshal(message)", "\tcase proto.Message:\n\t\treturn proto.Marshal(message)\n\tcase vtprotoMessage:\n\t\treturn message.MarshalVT()")])
v("c18-codec-name", "C18", "C18.d", [(COD, "const Name = \"proto\"", "const Name = \"vtproto\"")])
v("c18-n-writer-uses-local-len", "C18", "none", [(SNP, "\tbinary.LittleEndian.PutUint64(buf, uint64(len(p)))", "\tln := uint64(len(p))\n\tbinary.LittleEndian.PutUint64(buf, ln)")])
v("c18-n-gzip-close-defer-put", "C18", "none", [(GZ, "\terr := z.Writer.Close()\n\tz.pool.Put(z)\n\treturn err", "\terr := z.Writer.Close()\n\tif true {\n\t\tz.pool.Put(z)\n\t}\n\treturn err")])

# ---------------- C05 ----------------
RPL = "replication/replication.go"
v("c05-request-recorded-index", "C05", "C05.a", [(WRK, "\t\tLeaderIndex: leaderIndex + 1,", "\t\tLeaderIndex: leaderIndex,")])
v("c05-tag-first-command", "C05", "C05.b", [(WRK, "\t\tseq.LeaderIndex = &c.LeaderIndex\n", "\t\tseq.LeaderIndex = &commands[0].LeaderIndex\n")])
v("c05-no-last-element-disjunct", "C05", "C05.b", [(WRK, "\t\tif seq.SizeVT() >= desiredProposalSize || i == len(commands)-1 {", "\t\tif seq.SizeVT() >= desiredProposalSize {\n\t\t\t_ = i")])
v("c05-clear-before-propose", "C05", "C05.b", [(WRK, "\t\tsize := seq.SizeVT()\n\t\tif cap(buff) < size {", "\t\tseq.LeaderIndex = nil\n\t\tsize := seq.SizeVT()\n\t\tif cap(buff) < size {")])
v("c05-propose-error-continue", "C05", "C05.b", [(WRK, "\t\t\tif err := propose(); err != nil {\n\t\t\t\treturn lastApplied, err\n\t\t\t}", "\t\t\tif err := propose(); err != nil {\n\t\t\t\tw.log.Warnf(\"propose failed: %v\", err)\n\t\t\t\tcontinue\n\t\t\t}")])
v("c05-skip-dummy-commands", "C05", "C05.b", [(WRK, "\tfor i, c := range commands {\n\t\tseq.Sequence = append(seq.Sequence, c.Command)", "\tfor i, c := range commands {\n\t\tif c.Command.Type == regattapb.Command_DUMMY && i < len(commands)-1 {\n\t\t\tcontinue\n\t\t}\n\t\tseq.Sequence = append(seq.Sequence, c.Command)")], "skipping no-ops loses their leader index when they end a batch... here only mid-batch: harmless for content but the rule demands one append per command")
v("c05-leader-index-separate-write", "C05", "C05.c1", [(CMD, "\t\tif err := c.batch.Set(sysLeaderIndex, leaderIdx, nil); err != nil {\n\t\t\treturn err\n\t\t}", "\t\tif err := c.db.Set(sysLeaderIndex, leaderIdx, pebble.NoSync); err != nil {\n\t\t\treturn err\n\t\t}")])
v("c05-f5-parent", "C05", "C05.c2", [(CMD, "\tif cmd.LeaderIndex != nil {\n\t\tc.leaderIndex = cmd.LeaderIndex\n\t}", "\tc.leaderIndex = cmd.LeaderIndex")])
v("c05-replicate-without-lease", "C05", "C05.e", [(WRK, "\t\t\tif !w.leased.Load() {\n\t\t\t\tw.log.Debug(\"skipping replication - table not leased\")\n\t\t\t\tcontinue\n\t\t\t}", "\t\t\tif !w.leased.Load() {\n\t\t\t\tw.log.Debug(\"replication - table not leased\")\n\t\t\t}")])
v("c05-restore-switch-before-load", "C05", "C05.f3", [(MGR, "\terr = m.readIntoTable(tbl.RecoverID, reader)\n\tif err != nil {\n\t\treturn err\n\t}\n\n\ttbl, version, err = m.getTableVersion(name)\n\tif err != nil {\n\t\treturn err\n\t}\n\n\ttbl.ClusterID = recoveryID\n\ttbl.RecoverID = 0\n\terr = m.setTableVersion(tbl, version)\n\tif err != nil {\n\t\treturn err\n\t}\n\treturn nil", "\ttbl, version, err = m.getTableVersion(name)\n\tif err != nil {\n\t\treturn err\n\t}\n\n\ttbl.ClusterID = recoveryID\n\ttbl.RecoverID = 0\n\terr = m.setTableVersion(tbl, version)\n\tif err != nil {\n\t\treturn err\n\t}\n\treturn m.readIntoTable(recoveryID, reader)")])
v("c05-reconcile-lists-swapped", "C05", "C05.g", [(RPL, "\t\tif !slices.ContainsFunc(leaderTables, func(lt *regattapb.Table) bool {\n\t\t\treturn ft.Name == lt.Name\n\t\t}) {\n\t\t\ttoDelete = append(toDelete, ft.Name)", "\t\tif slices.ContainsFunc(leaderTables, func(lt *regattapb.Table) bool {\n\t\t\treturn ft.Name == lt.Name\n\t\t}) {\n\t\t\ttoDelete = append(toDelete, ft.Name)")])
v("c05-label-loop-index", "C05", "C05.d3", [(REPL, "\t\tfor _, e := range entries {\n\t\t\tif cmd, err := entryToCommand(e); err != nil {\n\t\t\t\treturn err\n\t\t\t} else {\n\t\t\t\tcommands = append(commands, &regattapb.ReplicateCommand{Command: cmd, LeaderIndex: e.Index})", "\t\tfor i, e := range entries {\n\t\t\tif cmd, err := entryToCommand(e); err != nil {\n\t\t\t\treturn err\n\t\t\t} else {\n\t\t\t\tcommands = append(commands, &regattapb.ReplicateCommand{Command: cmd, LeaderIndex: logRange.FirstIndex + uint64(i)})")])
v("c05-n-size-check-order", "C05", "none", [(WRK, "\t\tif seq.SizeVT() >= desiredProposalSize || i == len(commands)-1 {", "\t\tif i == len(commands)-1 || seq.SizeVT() >= desiredProposalSize {")])
v("c05-n-request-via-local", "C05", "none", [(WRK, "\treplicateRequest := &regattapb.ReplicateRequest{\n\t\tLeaderIndex: leaderIndex + 1,", "\tnext := leaderIndex + 1\n\treplicateRequest := &regattapb.ReplicateRequest{\n\t\tLeaderIndex: next,")])

# ---------------- C08 ----------------
v("c08-header-constants-swapped", "C08", "C08.a", [(SNAP, "\th.setSnapshotType(RecoveryTypeSnapshot)", "\th.setSnapshotType(RecoveryTypeCheckpoint)")])
v("c08-selector-swapped", "C08", "C08.a", [(FSM, "\tcase RecoveryTypeSnapshot:\n\t\treturn &snapshot{p}\n\tcase RecoveryTypeCheckpoint:\n\t\treturn &checkpoint{p}", "\tcase RecoveryTypeSnapshot:\n\t\treturn &checkpoint{p}\n\tcase RecoveryTypeCheckpoint:\n\t\treturn &snapshot{p}")], "consistent swap of both formats' constants is harmless only if getHeader swaps too; here only the selector swaps")
v("c08-type-byte-offset", "C08", "C08.a", [(FSM, "\treturn SnapshotRecoveryType(s[6])", "\treturn SnapshotRecoveryType(s[7])")])
v("c08-recover-uses-configured-type", "C08", "C08.a", [(FSM, "\treturn p.getRecoverer(header.snapshotType()).recover(r, stopc)", "\t_ = header.snapshotType()\n\treturn p.getRecoverer(p.recoveryType).recover(r, stopc)")], "breaks transfer between replicas configured with different formats")
v("c08-sst-saver-iterates-live-db", "C08", "C08.b", [(SNAP, "\tsnapshot := ctx.(*snapshotContext)\n\titer := snapshot.NewIter(nil)", "\tsnapshot := ctx.(*snapshotContext)\n\titer := s.fsm.pebble.Load().NewIter(nil)")])
v("c08-old-close-before-swap", "C08", "C08.c", [(CKP, "\told := c.fsm.pebble.Swap(db)\n\tc.fsm.metrics.applied.Store(idx)\n\tc.fsm.log.Info(\"snapshot recovery finished\")\n\n\tif old != nil {\n\t\t_ = old.Close()\n\t}", "\tif cur := c.fsm.pebble.Load(); cur != nil {\n\t\t_ = cur.Close()\n\t}\n\tc.fsm.pebble.Swap(db)\n\tc.fsm.metrics.applied.Store(idx)\n\tc.fsm.log.Info(\"snapshot recovery finished\")")])
v("c08-second-escaping-closure", "C08", "C08.d", [(QRY, "\tsingle, err := singleLookup(reader, req)\n\tif err != nil {\n\t\treturn nil, err\n\t}\n\treturn iter.From(single), nil", "\treturn func(yield func(*regattapb.ResponseOp_Range) bool) {\n\t\tsingle, err := singleLookup(reader, req)\n\t\tif err == nil {\n\t\t\tyield(single)\n\t\t}\n\t}, nil")], "a second lazily evaluated closure over the reader: must be a VIOLATION next to the known finding K1")
v("c08-n-save-header-local", "C08", "none", [(FSM, "\tr := p.getRecoverer(p.recoveryType)\n\tif err := binary.Write(w, binary.LittleEndian, r.getHeader()); err != nil {", "\tr := p.getRecoverer(p.recoveryType)\n\thdr := r.getHeader()\n\tif err := binary.Write(w, binary.LittleEndian, hdr); err != nil {")])



# ---------------- rules added after the second round of sub-agent changes ----------------
v("c05-sequence-not-cleared", "C05", "C05.b", [(WRK, "\t\t\tseq.Sequence = seq.Sequence[:0]\n\t\t\tseq.LeaderIndex = nil", "\t\t\tseq.LeaderIndex = nil")], "agent change C05-m1")
v("c05-n-clear-after-propose-in-loop", "C05", "none", [(WRK, "\t\t\tseq.Sequence = seq.Sequence[:0]\n\t\t\tseq.LeaderIndex = nil", "\t\t\tseq.LeaderIndex = nil"), (WRK, "\t\t\tlastApplied = c.LeaderIndex\n", "\t\t\tlastApplied = c.LeaderIndex\n\t\t\tseq.Sequence = seq.Sequence[:0]\n")], "the clear moves from the deferred closure into the loop, right after the successful proposal")
v("c05-cache-put-unguarded", "C05", "C05.d4", [("storage/logreader/logreader.go", "\t\t\tif le[0].Index-1 == sh.largestIndex() {\n\t\t\t\tsh.put(le)\n\t\t\t}", "\t\t\tsh.put(le)")], "agent change C05-m3")
v("c07-batch-not-truncated", "C07", "C07.a", [(MGR, "\t\tbatchCmd.LeaderIndex = nil\n\t\tbatchCmd.Batch = batchCmd.Batch[:0]\n", "\t\tbatchCmd.LeaderIndex = nil\n")])
v("c08-save-name-without-sync", "C08", "C08.c2", [("pebble/dir.go", "\tif err = f.Sync(); err != nil {\n\t\treturn err\n\t}\n\treturn nil\n}\n\n// GetCurrentDBDirName", "\treturn nil\n}\n\n// GetCurrentDBDirName")], "agent change C08-m2")
KVMAP = "storage/kv/map.go"
v("c13-listdir-string-prefix-only", "C13", "C13.g", [(KVMAP, "\t\t\tif samePrefixTerms(prefix, items) && (len(items)-len(prefix) >= 1) {", "\t\t\tif len(items)-len(prefix) >= 1 {")], "agent change C13-m3")
v("c13-lookup-deletes", "C13", "C13.g", [(KVMAP, "func (s *MapStore) Exists(key string) (bool, error) {\n\ts.mtx.RLock()\n\tdefer s.mtx.RUnlock()", "func (s *MapStore) Exists(key string) (bool, error) {\n\ts.mtx.Lock()\n\tdefer s.mtx.Unlock()\n\tif key == \"\" {\n\t\tdelete(s.m, key)\n\t}")])
v("c13-n-listdir-guard-split", "C13", "none", [(KVMAP, "\t\t\tif samePrefixTerms(prefix, items) && (len(items)-len(prefix) >= 1) {\n\t\t\t\tm[items[len(prefix):][0]] = true\n\t\t\t}", "\t\t\tif !samePrefixTerms(prefix, items) {\n\t\t\t\tcontinue\n\t\t\t}\n\t\t\tif len(items) > len(prefix) {\n\t\t\t\tm[items[len(prefix)]] = true\n\t\t\t}")])
v("c14-restore-name-unchecked", "C14", "C14.g", [(MGR, "func (m *Manager) Restore(name string, reader io.Reader) error {\n\tif err := validateTableName(name); err != nil {\n\t\treturn err\n\t}\n", "func (m *Manager) Restore(name string, reader io.Reader) error {\n")])
v("c14-validator-wrong-separator", "C14", "C14.g", [(MGR, "\tif strings.Contains(name, \"/\") {\n\t\treturn serrors.ErrInvalidTableName", "\tif strings.Contains(name, \"\\\\\") {\n\t\treturn serrors.ErrInvalidTableName")])
v("c14-n-validate-in-caller", "C14", "none", [(MGR, "func (m *Manager) createTable(name string) (Table, error) {\n\tif err := validateTableName(name); err != nil {\n\t\treturn Table{}, err\n\t}\n", "func (m *Manager) createTable(name string) (Table, error) {\n"), (MGR, "func (m *Manager) CreateTable(name string) (Table, error) {\n", "func (m *Manager) CreateTable(name string) (Table, error) {\n\tif err := validateTableName(name); err != nil {\n\t\treturn Table{}, err\n\t}\n")], "the check moves to the only caller")
v("c14-n-inline-separator-test", "C14", "none", [(MGR, "func (m *Manager) Restore(name string, reader io.Reader) error {\n\tif err := validateTableName(name); err != nil {\n\t\treturn err\n\t}\n", "func (m *Manager) Restore(name string, reader io.Reader) error {\n\tif strings.ContainsRune(name, '/') {\n\t\treturn serrors.ErrInvalidTableName\n\t}\n")])


# ---------------- rules added after the third round of sub-agent changes ----------------
FSMGO = "storage/table/fsm/fsm.go"
v("c03-batch-cut-short", "C03", "C03.f", [(FSMGO, "\t\tidx = updates[i].Index\n\t}", "\t\tidx = updates[i].Index\n\t\tif updateResult == ResultFailure {\n\t\t\tbreak\n\t\t}\n\t}")])
v("c01-batch-cut-short", "C01", "C01.i", [(FSMGO, "\t\tidx = updates[i].Index\n\t}", "\t\tidx = updates[i].Index\n\t\tif updateResult == ResultFailure {\n\t\t\tbreak\n\t\t}\n\t}")])
v("c03-last-entry-skipped", "C03", "C03.f", [(FSMGO, "\tfor i := 0; i < len(updates); i++ {\n\t\tcmd, err := parseCommand(ctx, updates[i])", "\tfor i := 0; i < len(updates)-1; i++ {\n\t\tcmd, err := parseCommand(ctx, updates[i])")])
v("c03-dummy-not-handled", "C03", "C03.f", [(FSMGO, "\t\tupdateResult, res, err := cmd.handle(ctx)\n", "\t\tif _, noop := cmd.(commandDummy); noop {\n\t\t\tcontinue\n\t\t}\n\t\tupdateResult, res, err := cmd.handle(ctx)\n")], "a no-op that is not handled leaves its entry without result; harmless for content but the rule demands the step")
v("c03-n-range-loop", "C03", "none", [(FSMGO, "\tfor i := 0; i < len(updates); i++ {\n\t\tcmd, err := parseCommand(ctx, updates[i])", "\tfor i := range updates {\n\t\tcmd, err := parseCommand(ctx, updates[i])")])
v("c17-token-prefix-compare", "C17", "C17.d", [("cmd/common.go", "\t\tif token != t {", "\t\tif len(t) == 0 || len(t) > len(token) || token[:len(t)] != t {")], "agent change C17-m1 in its plain form")
v("c17-n-constant-time-whole", "C17", "none", [("cmd/common.go", "\t\tif token != t {", "\t\tif subtle.ConstantTimeCompare([]byte(token), []byte(t)) != 1 {"), ("cmd/common.go", "import (\n\t\"context\"\n", "import (\n\t\"context\"\n\t\"crypto/subtle\"\n")])
v("c17-peer-check-extra-condition", "C17", "C17.e", [("security/tls.go", "\tif verifyCertificate != nil {", "\tif verifyCertificate != nil && t.ClientCertAuth {")], "agent change C17-m3")
VIEW = "storage/cluster/view.go"
v("c19-merge-early-return", "C19", "C19.a", [(VIEW, "\tif current.ConfigChangeIndex < update.ConfigChangeIndex {\n\t\tcurrent.Replicas = update.Replicas", "\tif update.ConfigChangeIndex < current.ConfigChangeIndex {\n\t\treturn current\n\t}\n\tif current.ConfigChangeIndex < update.ConfigChangeIndex {\n\t\tcurrent.Replicas = update.Replicas")], "agent change C19-m1")
v("c19-merge-needs-current-leader", "C19", "C19.a", [(VIEW, "\t\tif current.LeaderID == noLeader || update.Term > current.Term {", "\t\tif update.Term > current.Term {")], "a first leader with term 0 is never learnt")
v("c19-remote-state-filtered", "C19", "C19.c", [("storage/cluster/cluster.go", "\tc.shardView.update(remote.ShardView)", "\tupdates := make([]dragonboat.ShardView, 0, len(remote.ShardView))\n\tfor _, sv := range remote.ShardView {\n\t\tif sv.LeaderID != noLeader {\n\t\t\tupdates = append(updates, sv)\n\t\t}\n\t}\n\tc.shardView.update(updates)")], "agent change C19-m3 (simplified)")
v("c14-reconcile-starts-cluster-id", "C14", "C14.e", [(MGR, "\tfor id, tbl := range start {\n\t\terr = m.startTable(tbl.Name, id)", "\tfor _, tbl := range start {\n\t\terr = m.startTable(tbl.Name, tbl.ClusterID)")], "agent change C14-m2")
v("c15-versions-per-key", "C15", "C15.d2", [("storage/kv/raft.go", "\t\tupdate.KVPair.Ver = ent.Index\n", "\t\tif cur, err := fsm.store.Get(update.KVPair.Key); err == nil {\n\t\t\tupdate.KVPair.Ver = cur.Ver + 1\n\t\t} else {\n\t\t\tupdate.KVPair.Ver = 1\n\t\t}\n\t\t_ = ent.Index\n")], "agent change C15-m2")
v("c12-v1-fixed-buffer", "C12", "C12.a", [("storage/table/key/v1.go", "\tbytes := make([]byte, 1+len(k.key))\n\tbytes[0] = byte(k.keyType)\n\tcopy(bytes[1:], k.key)\n\treturn writer.Write(bytes[:])", "\tvar bytes [keyV1BodyLen]byte\n\tbytes[0] = byte(k.keyType)\n\tn := copy(bytes[1:], k.key)\n\treturn writer.Write(bytes[:1+n])")], "agent change C12-m1")


SEQ = "storage/table/fsm/command_sequence.go"
v("c01-sequence-stops-at-noop", "C01", "C01.i", [(SEQ, "\tfor _, cmd := range c.Sequence {\n\t\t_, cmdRes, err := wrapCommand(cmd).handle(ctx)", "\tfor i, cmd := range c.Sequence {\n\t\tif i > 0 && cmd.Type == regattapb.Command_DUMMY {\n\t\t\tbreak\n\t\t}\n\t\t_, cmdRes, err := wrapCommand(cmd).handle(ctx)")])
v("c01-sequence-drops-last", "C01", "C01.i", [(SEQ, "\tfor _, cmd := range c.Sequence {", "\tfor _, cmd := range c.Sequence[:len(c.Sequence)-1] {")])
v("c03-delete-batch-from-one", "C03", "C03.f", [("storage/table/fsm/command_delete.go", "\tfor i, op := range ops {\n\t\tres, err := handleDelete(ctx, op)", "\tfor i := 1; i < len(ops); i++ {\n\t\top := ops[i]\n\t\tres, err := handleDelete(ctx, op)")])
v("c01-n-sequence-index-loop", "C01", "none", [(SEQ, "\tfor _, cmd := range c.Sequence {", "\tfor i := 0; i < len(c.Sequence); i++ {\n\t\tcmd := c.Sequence[i]")])
v("c05-batching-skips-first", "C05", "C05.b", [(WRK, "\tfor i, c := range commands {\n\t\tseq.Sequence = append(seq.Sequence, c.Command)", "\tfor i, c := range commands[1:] {\n\t\tseq.Sequence = append(seq.Sequence, c.Command)")])
v("c06-convert-drops-last", "C06", "C06.c", [(REPL, "\t\tfor _, e := range entries {\n\t\t\tif cmd, err := entryToCommand(e); err != nil {", "\t\tfor _, e := range entries[:len(entries)-1] {\n\t\t\tif cmd, err := entryToCommand(e); err != nil {")])

# ---------------- rules added after the round-2 ("less obvious places") sub-agent changes ----------------
TXN = "storage/table/fsm/command_txn.go"
v("c02-empty-value-predicate-skipped", "C02", "C02.c", [(TXN, "\tif cmp.Target == regattapb.Compare_VALUE && cmp.TargetUnion != nil {", "\tif cmp.Target == regattapb.Compare_VALUE && len(cmp.GetValue()) > 0 {")], "agent change C02-m3 (round 2)")
v("c02-sequence-stops-after-failed-txn", "C02", "C02.g", [(SEQ, "\t\t_, cmdRes, err := wrapCommand(cmd).handle(ctx)\n\t\tif err != nil {\n\t\t\treturn ResultFailure, nil, err\n\t\t}\n\t\tres.Responses = append(res.Responses, cmdRes.Responses...)", "\t\tr, cmdRes, err := wrapCommand(cmd).handle(ctx)\n\t\tif err != nil {\n\t\t\treturn ResultFailure, nil, err\n\t\t}\n\t\tres.Responses = append(res.Responses, cmdRes.Responses...)\n\t\tif r == ResultFailure {\n\t\t\treturn ResultFailure, res, nil\n\t\t}")], "agent change C02-m2 (round 2)")
v("c03-leader-index-max", "C03", "C03.b", [(CMD, "\tif cmd.LeaderIndex != nil {\n\t\tc.leaderIndex = cmd.LeaderIndex\n\t}", "\tif cmd.LeaderIndex != nil && (c.leaderIndex == nil || *cmd.LeaderIndex > *c.leaderIndex) {\n\t\tc.leaderIndex = cmd.LeaderIndex\n\t}")], "agent change C03-m3 (round 2)")
v("c03-recover-format-from-config", "C03", "C03.g", [(FSM, "\treturn p.getRecoverer(header.snapshotType()).recover(r, stopc)", "\t_ = header.snapshotType()\n\treturn p.getRecoverer(p.recoveryType).recover(r, stopc)")], "agent change C03-m2 (round 2)")
v("c01-v1-fixed-buffer", "C01", "C01.j1", [("storage/table/key/v1.go", "\tbytes := make([]byte, 1+len(k.key))\n\tbytes[0] = byte(k.keyType)\n\tcopy(bytes[1:], k.key)\n\treturn writer.Write(bytes[:])", "\tvar bytes [V1KeyLen]byte\n\tbytes[0] = byte(k.keyType)\n\tn := copy(bytes[1:], k.key)\n\treturn writer.Write(bytes[:1+n])")], "agent change C01-m3 (round 2)")
v("c05-reconcile-returns-on-empty-leader", "C05", "C05.g", [(RPL, "\tvar toCreate, toDelete []string\n", "\tif len(leaderTables) == 0 {\n\t\treturn nil\n\t}\n\tvar toCreate, toDelete []string\n")], "agent change C05-m3 (round 2)")
LOGR = "storage/logreader/logreader.go"
v("c06-prepend-without-adjacency", "C06", "C06.d", [(LOGR, "\t\t} else if len(cachedEntries) > 0 && le[len(le)-1].Index == cachedEntries[0].Index-1 {", "\t\t} else if len(cachedEntries) > 0 {")], "agent changes C05-m1 / C06-m4 (round 2)")
v("c05-prepend-without-adjacency", "C05", "C05.d4", [(LOGR, "\t\t} else if len(cachedEntries) > 0 && le[len(le)-1].Index == cachedEntries[0].Index-1 {", "\t\t} else if len(cachedEntries) > 0 {")])
v("c06-compaction-event-wrong-type", "C06", "C06.d", [("storage/engine_events.go", "\tcase e.eventsCh <- logCompacted{", "\tcase e.eventsCh <- logDBCompacted{")], "agent change C06-m1 (round 2)")
v("c06-cache-shifts-in-place", "C06", "C06.d", [("storage/logreader/cache.go", "\t\tc.buffer = c.buffer[len(entries)+len(c.buffer)-c.size:]", "\t\tc.buffer = c.buffer[:copy(c.buffer, c.buffer[len(entries)+len(c.buffer)-c.size:])]")], "agent change C06-m2 (round 2)")
v("c15-n-leased-is-outcome", "C15", "none", [(WRK, "\t\t\t\tif err == nil {\n\t\t\t\t\tprev := w.leased.Swap(true)\n\t\t\t\t\tif !prev {\n\t\t\t\t\t\tw.metrics.replicationLeased.Set(1)\n\t\t\t\t\t}\n\t\t\t\t} else {\n\t\t\t\t\tprev := w.leased.Swap(false)\n\t\t\t\t\tif prev {\n\t\t\t\t\t\tw.metrics.replicationLeased.Set(0)\n\t\t\t\t\t}\n\t\t\t\t}", "\t\t\t\tleased := err == nil\n\t\t\t\tif prev := w.leased.Swap(leased); prev != leased {\n\t\t\t\t\tif leased {\n\t\t\t\t\t\tw.metrics.replicationLeased.Set(1)\n\t\t\t\t\t} else {\n\t\t\t\t\t\tw.metrics.replicationLeased.Set(0)\n\t\t\t\t\t}\n\t\t\t\t}")])
v("c15-leased-is-inverted-outcome", "C15", "C15.c", [(WRK, "\t\t\t\tif err == nil {\n\t\t\t\t\tprev := w.leased.Swap(true)\n\t\t\t\t\tif !prev {\n\t\t\t\t\t\tw.metrics.replicationLeased.Set(1)\n\t\t\t\t\t}\n\t\t\t\t} else {\n\t\t\t\t\tprev := w.leased.Swap(false)\n\t\t\t\t\tif prev {\n\t\t\t\t\t\tw.metrics.replicationLeased.Set(0)\n\t\t\t\t\t}\n\t\t\t\t}", "\t\t\t\tleased := err != nil\n\t\t\t\tif prev := w.leased.Swap(leased); prev != leased {\n\t\t\t\t\tif leased {\n\t\t\t\t\t\tw.metrics.replicationLeased.Set(1)\n\t\t\t\t\t} else {\n\t\t\t\t\t\tw.metrics.replicationLeased.Set(0)\n\t\t\t\t\t}\n\t\t\t\t}")])


# ---------------- rules added after the round-2 changes for C07-C12 ----------------
v("c10-flush-before-append-tag-ahead", "C10", "C10.e", [(WRK, "\t\tseq.Sequence = append(seq.Sequence, c.Command)\n\t\tseq.LeaderIndex = &c.LeaderIndex\n", "\t\tif len(seq.Sequence) > 0 && seq.SizeVT()+c.Command.SizeVT() >= desiredProposalSize {\n\t\t\tseq.LeaderIndex = &c.LeaderIndex\n\t\t\tif err := propose(); err != nil {\n\t\t\t\treturn lastApplied, err\n\t\t\t}\n\t\t}\n\t\tseq.Sequence = append(seq.Sequence, c.Command)\n\t\tseq.LeaderIndex = &c.LeaderIndex\n")], "agent changes C10-r2m1 / C11-r2m1")
v("c11-flush-before-append-tag-ahead", "C11", "C11.f", [(WRK, "\t\tseq.Sequence = append(seq.Sequence, c.Command)\n\t\tseq.LeaderIndex = &c.LeaderIndex\n", "\t\tif len(seq.Sequence) > 0 && seq.SizeVT()+c.Command.SizeVT() >= desiredProposalSize {\n\t\t\tseq.LeaderIndex = &c.LeaderIndex\n\t\t\tif err := propose(); err != nil {\n\t\t\t\treturn lastApplied, err\n\t\t\t}\n\t\t}\n\t\tseq.Sequence = append(seq.Sequence, c.Command)\n\t\tseq.LeaderIndex = &c.LeaderIndex\n")])
v("c11-restart-without-listener", "C11", "C11.b", [(MGR, "\t\t\tfsm.New(name, m.cfg.Table.DataDir, m.cfg.Table.FS, m.blockCache, m.tableCache, fsm.SnapshotRecoveryType(m.cfg.Table.RecoveryType), func(applied uint64) {\n\t\t\t\tif m.cfg.Table.AppliedIndexListener != nil {\n\t\t\t\t\tm.cfg.Table.AppliedIndexListener(name, applied)\n\t\t\t\t}\n\t\t\t}),", "\t\t\tfsm.New(name, m.cfg.Table.DataDir, m.cfg.Table.FS, m.blockCache, m.tableCache, fsm.SnapshotRecoveryType(m.cfg.Table.RecoveryType), nil),")], "agent change C11-r2m3")
SNAPS = "storage/table/fsm/snapshot_snapshot.go"
v("c08-sst-single-read", "C08", "C08.e", [(SNAPS, "\t\t\tif _, err = io.CopyBuffer(f, io.LimitReader(r, int64(size)), buff); err != nil {\n\t\t\t\treturn err\n\t\t\t}", "\t\t\tif _, err = r.Read(buff[:size]); err != nil {\n\t\t\t\treturn err\n\t\t\t}\n\t\t\tif _, err = f.Write(buff[:size]); err != nil {\n\t\t\t\treturn err\n\t\t\t}")], "agent change C08-r2m3")
v("c12-compare-buffer-not-reset", "C12", "C12.d3", [(TXN, "\t\t\t\tkeyBuf.Reset()\n\t\t\t\treturn true, nil", "\t\t\t\treturn true, nil")], "agent change C12-r2m2")
v("c01-compare-buffer-not-reset", "C01", "C01.j4", [(TXN, "\t\t\t\tkeyBuf.Reset()\n\t\t\t\treturn true, nil", "\t\t\t\treturn true, nil")])
v("c12-dump-from-min-key", "C12", "C12.e", [(QRY, "\titer := reader.NewIter(nil)\n\tdefer iter.Close()\n\n\tidx, err := readLocalIndex(reader, sysLocalIndex)", "\titer := reader.NewIter(&pebble.IterOptions{LowerBound: mustEncodeKey(key.Key{KeyType: key.TypeUser, Key: key.LatestMinKey})})\n\tdefer iter.Close()\n\n\tidx, err := readLocalIndex(reader, sysLocalIndex)")], "agent change C12-r2m3 (simplified)")
v("c09-txn-range-reads-db", "C09", "C09.g", [(TXN, "\t\t\tresponse, err := lookup(ctx.batch, o.RequestRange)", "\t\t\tresponse, err := lookup(ctx.db, o.RequestRange)")], "agent change C09-r2m2")

# ---------------- behaviour-preserving refactorings written by sub-agents (neutral/<set>/<n>/patch.diff) ----------------
def vp(id, prop, expect, patches, note=""):
    V.append({"id": id, "prop": prop, "expect": expect, "note": note, "edits": [], "patch": patches})

NEUTRAL = {
    'neutral/setT/n1': ['C10', 'C02', 'C14'],
    'neutral/setT/n10': ['C15', 'C14'],
    'neutral/setT/n11': ['C03', 'C08'],
    'neutral/setT/n12': ['C14', 'C16', 'C17'],
    'neutral/setT/n2': ['C05', 'C06'],
    'neutral/setT/n3': ['C11'],
    'neutral/setT/n4': ['C19'],
    'neutral/setT/n5': ['C17'],
    'neutral/setT/n6': ['C05', 'C06', 'C10'],
    'neutral/setT/n7': ['C05', 'C15'],
    'neutral/setT/n8': ['C07', 'C18'],
    'neutral/setT/n9': ['C17', 'C18'],
    'neutral/setS/n1': ['C01', 'C03', 'C04'],
    'neutral/setS/n10': ['C04', 'C08'],
    'neutral/setS/n11': ['C05', 'C06'],
    'neutral/setS/n12': ['C17'],
    'neutral/setS/n2': ['C02', 'C10', 'C08'],
    'neutral/setS/n3': ['C04', 'C08'],
    'neutral/setS/n4': ['C03', 'C08'],
    'neutral/setS/n5': ['C12', 'C01'],
    'neutral/setS/n6': ['C02', 'C12', 'C10'],
    'neutral/setS/n7': ['C10', 'C14'],
    'neutral/setS/n8': ['C05', 'C07'],
    'neutral/setS/n9': ['C05', 'C06'],
    'neutral/setQ/n1': ['C01', 'C03', 'C04', 'C10', 'C11'],
    'neutral/setQ/n10': ['C17'],
    'neutral/setQ/n11': ['C13', 'C15'],
    'neutral/setQ/n12': ['C19'],
    'neutral/setQ/n2': ['C01', 'C03', 'C04', 'C05', 'C10'],
    'neutral/setQ/n3': ['C04', 'C08'],
    'neutral/setQ/n4': ['C05', 'C06'],
    'neutral/setQ/n5': ['C11'],
    'neutral/setQ/n6': ['C05', 'C10', 'C11'],
    'neutral/setQ/n7': ['C15'],
    'neutral/setQ/n8': ['C05', 'C07', 'C14'],
    'neutral/setQ/n9': ['C11', 'C10'],
    'neutral/setR/n1': ['C01', 'C03', 'C10'],
    'neutral/setR/n10': ['C14'],
    'neutral/setR/n11': ['C13', 'C15'],
    'neutral/setR/n12': ['C15', 'C05'],
    'neutral/setR/n2': ['C01', 'C04', 'C05'],
    'neutral/setR/n3': ['C09', 'C16'],
    'neutral/setR/n4': ['C11'],
    'neutral/setR/n5': ['C05', 'C06'],
    'neutral/setR/n6': ['C12', 'C01'],
    'neutral/setR/n7': ['C04', 'C08'],
    'neutral/setR/n8': ['C11', 'C10'],
    'neutral/setR/n9': ['C17'],
    'neutral/setO/n1': ['C16'],
    'neutral/setO/n11': ['C05', 'C15'],
    'neutral/setO/n12': ['C05', 'C14'],
    'neutral/setO/n3': ['C14'],
    'neutral/setO/n5': ['C17'],
    'neutral/setO/n6': ['C05', 'C07', 'C14'],
    'neutral/setO/n7': ['C02', 'C16', 'C10'],
    'neutral/setO/n8': ['C05', 'C18'],
    'neutral/setO/n9': ['C14'],
    'neutral/setP/n1': ['C01', 'C03', 'C04', 'C10', 'C11'],
    'neutral/setP/n10': ['C05', 'C10', 'C11'],
    'neutral/setP/n11': ['C13', 'C15'],
    'neutral/setP/n12': ['C17'],
    'neutral/setP/n2': ['C02', 'C05', 'C07', 'C10'],
    'neutral/setP/n3': ['C02', 'C12'],
    'neutral/setP/n4': ['C01', 'C09', 'C16'],
    'neutral/setP/n5': ['C03', 'C04', 'C08'],
    'neutral/setP/n6': ['C04', 'C08'],
    'neutral/setP/n7': ['C11'],
    'neutral/setP/n8': ['C05', 'C06'],
    'neutral/setP/n9': ['C05', 'C07'],
    'neutral/setM/n1': ['C02', 'C10'],
    'neutral/setM/n10': ['C03', 'C08'],
    'neutral/setM/n11': ['C05', 'C15'],
    'neutral/setM/n12': ['C13', 'C15'],
    'neutral/setM/n2': ['C01', 'C09', 'C16'],
    'neutral/setM/n3': ['C01', 'C09'],
    'neutral/setM/n4': ['C11'],
    'neutral/setM/n5': ['C05', 'C06'],
    'neutral/setM/n6': ['C19'],
    'neutral/setM/n7': ['C14'],
    'neutral/setM/n8': ['C05', 'C07'],
    'neutral/setM/n9': ['C04', 'C08'],
    'neutral/setN/n1': ['C01', 'C03', 'C10'],
    'neutral/setN/n10': ['C09', 'C01'],
    'neutral/setN/n11': ['C05', 'C14'],
    'neutral/setN/n12': ['C16'],
    'neutral/setN/n2': ['C11'],
    'neutral/setN/n3': ['C13'],
    'neutral/setN/n4': ['C13'],
    'neutral/setN/n5': ['C05', 'C06'],
    'neutral/setN/n6': ['C19'],
    'neutral/setN/n7': ['C17'],
    'neutral/setN/n8': ['C12', 'C01'],
    'neutral/setN/n9': ['C12'],
    'neutral/setJ/n1': ['C01', 'C03', 'C04', 'C10'],
    'neutral/setJ/n10': ['C03', 'C04', 'C08'],
    'neutral/setJ/n11': ['C13', 'C15'],
    'neutral/setJ/n12': ['C16', 'C09'],
    'neutral/setJ/n2': ['C02', 'C10'],
    'neutral/setJ/n3': ['C01', 'C09', 'C16'],
    'neutral/setJ/n4': ['C11'],
    'neutral/setJ/n5': ['C05', 'C06'],
    'neutral/setJ/n6': ['C19'],
    'neutral/setJ/n7': ['C05', 'C15'],
    'neutral/setJ/n8': ['C17'],
    'neutral/setJ/n9': ['C05', 'C07'],
    'neutral/setK/n1': ['C01', 'C04', 'C05'],
    'neutral/setK/n10': ['C01', 'C12'],
    'neutral/setK/n11': ['C17'],
    'neutral/setK/n12': ['C05', 'C06'],
    'neutral/setK/n2': ['C01', 'C09', 'C16'],
    'neutral/setK/n3': ['C11', 'C01'],
    'neutral/setK/n4': ['C05', 'C06'],
    'neutral/setK/n5': ['C14'],
    'neutral/setK/n6': ['C14'],
    'neutral/setK/n7': ['C11'],
    'neutral/setK/n8': ['C19'],
    'neutral/setK/n9': ['C19'],
    'neutral/setL/n1': ['C03', 'C08'],
    'neutral/setL/n10': ['C13', 'C15'],
    'neutral/setL/n11': ['C04', 'C08'],
    'neutral/setL/n12': ['C17'],
    'neutral/setL/n2': ['C16'],
    'neutral/setL/n3': ['C11'],
    'neutral/setL/n4': ['C05', 'C06'],
    'neutral/setL/n5': ['C19'],
    'neutral/setL/n6': ['C05', 'C07', 'C14'],
    'neutral/setL/n7': ['C01', 'C02', 'C03', 'C04', 'C05', 'C08', 'C10', 'C11'],
    'neutral/setL/n8': ['C09', 'C01'],
    'neutral/setL/n9': ['C05', 'C15'],
    'neutral/setI/n1': ['C19'],
    'neutral/setI/n10': ['C14', 'C16', 'C17'],
    'neutral/setI/n11': ['C11', 'C17', 'C18'],
    'neutral/setI/n12': ['C13', 'C19'],
    'neutral/setI/n2': ['C06', 'C13', 'C14', 'C19'],
    'neutral/setI/n3': ['C16', 'C17', 'C18'],
    'neutral/setI/n4': ['C18'],
    'neutral/setI/n5': ['C13', 'C15'],
    'neutral/setI/n6': ['C16', 'C18'],
    'neutral/setI/n7': ['C18'],
    'neutral/setI/n8': ['C06', 'C11'],
    'neutral/setI/n9': ['C16', 'C18'],
    'neutral/setG/n1': ['C01', 'C02', 'C03', 'C04', 'C05', 'C07', 'C08', 'C09', 'C10', 'C11', 'C12', 'C14'],
    'neutral/setG/n10': ['C04', 'C08'],
    'neutral/setG/n11': ['C05', 'C10', 'C11', 'C15', 'C18'],
    'neutral/setG/n12': ['C02', 'C05', 'C06', 'C07', 'C09', 'C10', 'C14', 'C19'],
    'neutral/setG/n2': ['C01', 'C02', 'C03', 'C04', 'C07', 'C08', 'C10', 'C11', 'C12', 'C14'],
    'neutral/setG/n3': ['C01', 'C02', 'C03', 'C04', 'C07', 'C08', 'C10', 'C11', 'C12', 'C14'],
    'neutral/setG/n4': ['C08', 'C09'],
    'neutral/setG/n5': ['C11'],
    'neutral/setG/n6': ['C05', 'C06'],
    'neutral/setG/n7': ['C05', 'C07', 'C14', 'C15'],
    'neutral/setG/n8': ['C02', 'C09', 'C10', 'C14', 'C16'],
    'neutral/setG/n9': ['C17'],
    'neutral/setH/n1': ['C01', 'C03', 'C04', 'C05', 'C10', 'C12'],
    'neutral/setH/n10': ['C03', 'C04', 'C08'],
    'neutral/setH/n11': ['C05', 'C15', 'C18'],
    'neutral/setH/n12': ['C11'],
    'neutral/setH/n2': ['C08', 'C09'],
    'neutral/setH/n3': ['C01', 'C03', 'C04', 'C07', 'C09', 'C10', 'C12', 'C18'],
    'neutral/setH/n4': ['C05', 'C06'],
    'neutral/setH/n5': ['C01', 'C02', 'C03', 'C04', 'C07', 'C08', 'C10', 'C11', 'C12', 'C14'],
    'neutral/setH/n6': ['C01', 'C12'],
    'neutral/setH/n7': ['C04', 'C08'],
    'neutral/setH/n8': ['C17'],
    'neutral/setH/n9': ['C05', 'C07', 'C14', 'C15'],
    'neutral/setE/n1': ['C01', 'C02', 'C03', 'C04', 'C07', 'C08', 'C10', 'C11', 'C12', 'C14', 'C16'],
    'neutral/setE/n10': ['C12'],
    'neutral/setE/n11': ['C04', 'C08'],
    'neutral/setE/n12': ['C02', 'C09', 'C10', 'C14'],
    'neutral/setE/n2': ['C01', 'C02', 'C03', 'C04', 'C07', 'C08', 'C10', 'C11', 'C12', 'C14', 'C16'],
    'neutral/setE/n3': ['C01', 'C03', 'C04', 'C09', 'C10', 'C12'],
    'neutral/setE/n4': ['C01', 'C03', 'C04', 'C05', 'C10', 'C12'],
    'neutral/setE/n5': ['C02'],
    'neutral/setE/n6': ['C01', 'C02'],
    'neutral/setE/n7': ['C01', 'C08', 'C09', 'C12', 'C16'],
    'neutral/setE/n8': ['C03', 'C04', 'C08', 'C18'],
    'neutral/setE/n9': ['C03', 'C04', 'C08'],
    'neutral/setF/n1': ['C11'],
    'neutral/setF/n10': ['C05', 'C06', 'C07', 'C10', 'C18'],
    'neutral/setF/n11': ['C05', 'C15', 'C18'],
    'neutral/setF/n12': ['C17'],
    'neutral/setF/n2': ['C05', 'C06'],
    'neutral/setF/n3': ['C05', 'C06'],
    'neutral/setF/n4': ['C05', 'C06'],
    'neutral/setF/n5': ['C13', 'C15', 'C16'],
    'neutral/setF/n6': ['C13'],
    'neutral/setF/n7': ['C05', 'C07', 'C11', 'C14', 'C15'],
    'neutral/setF/n8': ['C05', 'C07', 'C14', 'C15'],
    'neutral/setF/n9': ['C02', 'C09', 'C10', 'C11', 'C16'],
    'neutral/setC/n1': ['C01', 'C02', 'C03', 'C04', 'C07', 'C08', 'C10', 'C11', 'C12', 'C14', 'C16'],
    'neutral/setC/n10': ['C13'],
    'neutral/setC/n11': ['C02', 'C09', 'C10', 'C11', 'C16'],
    'neutral/setC/n12': ['C18'],
    'neutral/setC/n2': ['C01', 'C02', 'C04', 'C07', 'C08', 'C10', 'C11', 'C12', 'C14', 'C16'],
    'neutral/setC/n3': ['C02'],
    'neutral/setC/n4': ['C01', 'C03', 'C04', 'C09', 'C10', 'C12'],
    'neutral/setC/n5': ['C01', 'C03', 'C04', 'C09', 'C10', 'C12'],
    'neutral/setC/n6': ['C07', 'C09', 'C18'],
    'neutral/setC/n7': ['C03', 'C04', 'C08', 'C18'],
    'neutral/setC/n8': ['C03', 'C04', 'C08'],
    'neutral/setC/n9': ['C13', 'C16'],
    'neutral/setD/n1': ['C05', 'C06'],
    'neutral/setD/n10': ['C05', 'C06', 'C07', 'C10'],
    'neutral/setD/n11': ['C18'],
    'neutral/setD/n12': ['C19'],
    'neutral/setD/n2': ['C05', 'C06'],
    'neutral/setD/n3': ['C11'],
    'neutral/setD/n4': ['C05', 'C15', 'C18'],
    'neutral/setD/n5': ['C02', 'C09', 'C10', 'C14', 'C16'],
    'neutral/setD/n6': ['C05', 'C07', 'C14', 'C15'],
    'neutral/setD/n7': ['C05', 'C07', 'C14', 'C15'],
    'neutral/setD/n8': ['C17'],
    'neutral/setD/n9': ['C04', 'C08'],
    'neutral/setA/n1': ['C01', 'C02', 'C03', 'C04', 'C07', 'C08', 'C10', 'C11', 'C12', 'C14', 'C16'],
    'neutral/setA/n10': ['C04'],
    'neutral/setA/n11': ['C12'],
    'neutral/setA/n12': ['C02', 'C09', 'C10', 'C14', 'C16'],
    'neutral/setA/n2': ['C01', 'C02', 'C04', 'C07', 'C08', 'C10', 'C11', 'C12', 'C14', 'C16'],
    'neutral/setA/n3': ['C01', 'C02', 'C03', 'C04', 'C07', 'C08', 'C10', 'C11', 'C12', 'C14', 'C16'],
    'neutral/setA/n4': ['C01', 'C03', 'C04', 'C05', 'C12'],
    'neutral/setA/n5': ['C01', 'C03', 'C04', 'C09', 'C10', 'C12'],
    'neutral/setA/n6': ['C02'],
    'neutral/setA/n7': ['C01', 'C08', 'C09', 'C16'],
    'neutral/setA/n8': ['C07', 'C09', 'C18'],
    'neutral/setA/n9': ['C03', 'C04', 'C08'],
    'neutral/setB/n1': ['C11'],
    'neutral/setB/n10': ['C17'],
    'neutral/setB/n11': ['C18'],
    'neutral/setB/n12': ['C05', 'C07', 'C14', 'C15'],
    'neutral/setB/n2': ['C05', 'C06'],
    'neutral/setB/n3': ['C06'],
    'neutral/setB/n4': ['C05', 'C07', 'C14', 'C15'],
    'neutral/setB/n5': ['C13', 'C16'],
    'neutral/setB/n6': ['C19'],
    'neutral/setB/n7': ['C02', 'C09', 'C10', 'C11', 'C16'],
    'neutral/setB/n8': ['C05', 'C06', 'C07', 'C10'],
    'neutral/setB/n9': ['C05', 'C15', 'C18'],
}
for d, props in NEUTRAL.items():
    for p in props:
        vp("%s-%s-%s" % (p.lower(), d.split('/')[1].lower(), d.split('/')[2]), p, "none", [d + "/patch.diff"], "neutral refactoring " + d)

# ---- round 4: rules written for the C13-C19 second-round seeded changes (variants are not the agents' patches)
ENG = "storage/engine.go"
v("c14-seq-blind-retry", "C14", "C14.b", [(MGR, "\t_, err = m.store.Set(seq.Key, strconv.FormatUint(next, 10), seq.Ver)\n\treturn next, err", "\t_, err = m.store.Set(seq.Key, strconv.FormatUint(next, 10), seq.Ver)\n\tif err != nil {\n\t\t_, err = m.store.Set(seq.Key, strconv.FormatUint(next, 10), 0)\n\t}\n\treturn next, err")], "a lost compare-and-set of the id sequence answered by a second, unconditional write")
v("c14-n-seq-value-local", "C14", "none", [(MGR, "\t_, err = m.store.Set(seq.Key, strconv.FormatUint(next, 10), seq.Ver)\n\treturn next, err", "\tval := strconv.FormatUint(next, 10)\n\t_, err = m.store.Set(seq.Key, val, seq.Ver)\n\treturn next, err")])
v("c14-unmarshal-merges", "C14", "C14.h", [(MAP, "\ts.m = make(map[string]Pair)\n\treturn json.Unmarshal(bytes, &s.m)", "\treturn json.Unmarshal(bytes, &s.m)")], "shared with C13.e")
v("c15-unmarshal-merges", "C15", "C15.e", [(MAP, "\ts.m = make(map[string]Pair)\n\treturn json.Unmarshal(bytes, &s.m)", "\treturn json.Unmarshal(bytes, &s.m)")], "shared with C13.e")
v("c15-unmarshal-keeps-when-nonempty", "C15", "C15.e", [(MAP, "\ts.m = make(map[string]Pair)\n\treturn json.Unmarshal(bytes, &s.m)", "\tif s.m == nil {\n\t\ts.m = make(map[string]Pair)\n\t}\n\treturn json.Unmarshal(bytes, &s.m)")])
v("c14-reconcile-lists-swapped", "C14", "C14.i", [(RPL, "\t\tif !slices.ContainsFunc(leaderTables, func(lt *regattapb.Table) bool {\n\t\t\treturn ft.Name == lt.Name\n\t\t}) {\n\t\t\ttoDelete = append(toDelete, ft.Name)", "\t\tif slices.ContainsFunc(leaderTables, func(lt *regattapb.Table) bool {\n\t\t\treturn ft.Name == lt.Name\n\t\t}) {\n\t\t\ttoDelete = append(toDelete, ft.Name)")], "shared with C05.g")
v("c14-reconcile-returns-on-empty-leader", "C14", "C14.i", [(RPL, "\tvar toCreate, toDelete []string\n", "\tif len(leaderTables) == 0 {\n\t\treturn nil\n\t}\n\tvar toCreate, toDelete []string\n")], "shared with C05.g")
v("c16-readonly-ignores-failure", "C16", "C16.g", [(EXT, "\tfor _, op := range req.Failure {\n\t\tif _, ok := op.Request.(*RequestOp_RequestRange); !ok {\n\t\t\treturn false\n\t\t}\n\t}\n", "")], "shared with C02.f")
v("c16-readonly-put-counts", "C16", "C16.g", [(EXT, "\tfor _, op := range req.Success {\n\t\tif _, ok := op.Request.(*RequestOp_RequestRange); !ok {\n\t\t\treturn false\n\t\t}", "\tfor _, op := range req.Success {\n\t\tif _, ok := op.Request.(*RequestOp_RequestRange); !ok {\n\t\t\tcontinue\n\t\t}")], "shared with C02.f")
v("c17-https-only-secure", "C17", "C17.g", [(COM, "\tsecure = u.Scheme == \"https\" || u.Scheme == \"unixs\"", "\tsecure = u.Scheme == \"https\"")])
v("c17-plain-unix-secure", "C17", "C17.g", [(COM, "\tsecure = u.Scheme == \"https\" || u.Scheme == \"unixs\"", "\tsecure = u.Scheme == \"https\" || network == \"unix\"")], "secure decided by the network: unix:// becomes 'secure', evaluated as undecidable or wrong")
v("c17-n-secure-switch", "C17", "none", [(COM, "\tsecure = u.Scheme == \"https\" || u.Scheme == \"unixs\"", "\tswitch u.Scheme {\n\tcase \"https\", \"unixs\":\n\t\tsecure = true\n\t}")])
v("c17-n-secure-not-plain", "C17", "none", [(COM, "\tsecure = u.Scheme == \"https\" || u.Scheme == \"unixs\"", "\tsecure = !(u.Scheme != \"https\" && u.Scheme != \"unixs\")")])
v("c19-delete-header-literal", "C19", "C19.b", [(ENG, "\tdel.Header = e.getHeader(del.Header, t.ClusterID)", "\tdel.Header = &regattapb.ResponseHeader{ShardId: t.ClusterID, ReplicaId: e.cfg.NodeID}")], "a response whose header is not read from the view")
v("c19-notify-replaces-view", "C19", "C19.c", [(CLU, "func (c *Cluster) Notify() {\n\tc.shardView.update(", "func (c *Cluster) Notify() {\n\tc.shardView = newView()\n\tc.shardView.update(")], "the raft notification starts a new view each time: what gossip merged is dropped")
v("c18-snappy-pool-shares-writer", "C18", "C18.e", [(SN, "\tc.poolCompressor.New = func() interface{} {\n\t\tw := gs.NewBufferedWriter(io.Discard)\n\t\treturn &writer{Writer: w, pool: &c.poolCompressor}", "\tshared := gs.NewBufferedWriter(io.Discard)\n\tc.poolCompressor.New = func() interface{} {\n\t\tw := shared\n\t\treturn &writer{Writer: w, pool: &c.poolCompressor}")])
v("c18-restore-reader-carried-over", "C18", "C18.f", [(BKP, "\thash := md5.New()\n\tfor _, table := range manifest.Tables {\n", "\thash := md5.New()\n\tvar rd *bufio.Reader\n\tfor _, table := range manifest.Tables {\n"), (BKP, "\t\t_, err = io.Copy(&Writer{Sender: stream}, bufio.NewReaderSize(tf, defaultSnapshotChunkSize))", "\t\tif rd == nil {\n\t\t\trd = bufio.NewReaderSize(tf, defaultSnapshotChunkSize)\n\t\t}\n\t\t_, err = io.Copy(&Writer{Sender: stream}, rd)")])
v("c18-n-restore-reader-local", "C18", "none", [(BKP, "\t\t_, err = io.Copy(&Writer{Sender: stream}, bufio.NewReaderSize(tf, defaultSnapshotChunkSize))", "\t\trd := bufio.NewReaderSize(tf, defaultSnapshotChunkSize)\n\t\t_, err = io.Copy(&Writer{Sender: stream}, rd)")])
v("c18-api-server-recv-pool", "C18", "C18.f", [(COM, "\t\"google.golang.org/grpc/codes\"\n", "\t\"google.golang.org/grpc/codes\"\n\t\"google.golang.org/grpc/experimental\"\n"), (COM, "\t\tgrpc.KeepaliveParams(keepalive.ServerParameters{MaxConnectionAge: 60 * time.Second}),\n\t\tgrpc.ChainStreamInterceptor(\n\t\t\tauth.StreamServerInterceptor(defaultAuthFunc),", "\t\tgrpc.KeepaliveParams(keepalive.ServerParameters{MaxConnectionAge: 60 * time.Second}),\n\t\texperimental.RecvBufferPool(grpc.NewSharedBufferPool()),\n\t\tgrpc.ChainStreamInterceptor(\n\t\t\tauth.StreamServerInterceptor(defaultAuthFunc),")])
v("c18-lenbuf-4-in-open", "C18", "C18.a", [(SNP, "\t\tlenBuff: make([]byte, 8),", "\t\tlenBuff: make([]byte, 4),")])

# ---- round 5: rules written for the third-round seeded changes and neutral sets J-L
v("c01-decode-into-pooled-command", "C01", "C01.k", [(CMD, "\tcmd := &regattapb.Command{}\n\tif err := cmd.UnmarshalVTUnsafe(entry.Cmd); err != nil {", "\tcmd := regattapb.CommandFromVTPool()\n\tif err := cmd.UnmarshalVTUnsafe(entry.Cmd); err != nil {")], "a pooled message keeps zero-length slices of its previous use")
v("c03-decode-into-pooled-command", "C03", "C03.i", [(CMD, "\tcmd := &regattapb.Command{}\n\tif err := cmd.UnmarshalVTUnsafe(entry.Cmd); err != nil {", "\tcmd := regattapb.CommandFromVTPool()\n\tif err := cmd.UnmarshalVTUnsafe(entry.Cmd); err != nil {")])
v("c03-restore-decode-resetvt", "C03", "C03.i", [(MGR, "\t\t\tcmd.Reset()\n\t\t\terr = cmd.UnmarshalVT(msg[:n])", "\t\t\tcmd.ResetVT()\n\t\t\terr = cmd.UnmarshalVT(msg[:n])")], "the restore loader recycles its message with ResetVT")
v("c03-n-decode-var-form", "C03", "none", [(CMD, "\tcmd := &regattapb.Command{}\n\tif err := cmd.UnmarshalVTUnsafe(entry.Cmd); err != nil {", "\tcmd := new(regattapb.Command)\n\tif err := cmd.UnmarshalVTUnsafe(entry.Cmd); err != nil {")])
v("c03-update-value-carried", "C03", "C03.h", [(FSM, "\tvar idx uint64\n\tfor i := 0; i < len(updates); i++ {", "\tvar idx uint64\n\tvar lastValue uint64\n\tfor i := 0; i < len(updates); i++ {"), (FSM, "\t\tupdates[i].Result.Value = uint64(updateResult)\n", "\t\tif updateResult != 0 {\n\t\t\tlastValue = uint64(updateResult)\n\t\t}\n\t\tupdates[i].Result.Value = lastValue\n")], "the reported result code of an entry falls back to that of an earlier entry of the same apply call")
v("c03-n-update-counts-entries", "C03", "none", [(FSM, "\tvar idx uint64\n\tfor i := 0; i < len(updates); i++ {", "\tvar idx uint64\n\tapplied := 0\n\tfor i := 0; i < len(updates); i++ {\n\t\tapplied++"), (FSM, "\tp.metrics.applied.Store(idx)\n\tif ctx.leaderIndex != nil {", "\tp.metrics.applied.Store(idx)\n\t_ = applied\n\tif ctx.leaderIndex != nil {")], "a counter carried across entries that reaches no result")
v("c01-single-delete", "C01", "C01.l", [(DEL, "\t\tif err := ctx.batch.Delete(keyBuf.Bytes(), nil); err != nil {", "\t\tif err := ctx.batch.SingleDelete(keyBuf.Bytes(), nil); err != nil {")])
v("c02-put-as-merge", "C02", "C02.h", [(PUT, "ctx.batch.Set(", "ctx.batch.Merge(")])
v("c05-snapshot-arm-live-db", "C05", "C05.h", [(FSM, "\tcase SnapshotRequest:\n\t\tsnapshot := p.pebble.Load().NewSnapshot()\n\t\tdefer snapshot.Close()\n", "\tcase SnapshotRequest:\n\t\tsnapshot := p.pebble.Load()\n")])
v("c06-nodedeleted-droppable", "C06", "C06.d", [(EVT, "\tcase e.eventsCh <- nodeDeleted{ShardID: info.ShardID, ReplicaID: info.ReplicaID}:\n\t}", "\tcase e.eventsCh <- nodeDeleted{ShardID: info.ShardID, ReplicaID: info.ReplicaID}:\n\tdefault:\n\t}")])
v("c14-sep-index-gt0", "C14", "C14.g", [(MGR, "strings.Contains(name, \"/\")", "strings.Index(name, \"/\") > 0")], "a separator test that misses a leading '/'")
v("c14-n-sep-indexbyte", "C14", "none", [(MGR, "strings.Contains(name, \"/\")", "strings.IndexByte(name, '/') >= 0")])
v("c14-n-sep-count", "C14", "none", [(MGR, "strings.Contains(name, \"/\")", "strings.Count(name, \"/\") != 0")])
v("c14-diff-set-stores-false", "C14", "C14.e", [(MGR, "\traftTableIDs := make(map[uint64]struct{})", "\traftTableIDs := make(map[uint64]bool)"), (MGR, "\t\traftTableIDs[t.ShardID] = struct{}{}", "\t\traftTableIDs[t.ShardID] = t.LeaderID != 0"), (MGR, "\t\t_, found := raftTableIDs[tID]", "\t\tfound := raftTableIDs[tID]")], "the running set as map[K]bool into which not only true is stored: membership is no longer what is tested")
v("c19-merge-pointer-param-written", "C19", "C19.a", [(VIEW, "func mergeShardInfo(current dragonboat.ShardView, update dragonboat.ShardView) dragonboat.ShardView {\n", "func mergeShardInfo(current dragonboat.ShardView, update *dragonboat.ShardView) dragonboat.ShardView {\n\tif update.Term < current.Term {\n\t\tupdate.LeaderID = current.LeaderID\n\t}\n"), (VIEW, "mergeShardInfo(current, u)", "mergeShardInfo(current, &u)")], "the update passed by pointer and written through")

# ---- round 5b: rules for the third-round seeded changes C07-C12 and neutral sets M, N
v("c13-n-get-explicit-unlock", "C13", "none", [(MAP, "\ts.mtx.RLock()\n\tdefer s.mtx.RUnlock()\n\tpair, ok := s.m[key]\n\tif !ok {\n\t\treturn Pair{}, ErrNotExist\n\t}\n\treturn pair, nil", "\ts.mtx.RLock()\n\tpair, ok := s.m[key]\n\ts.mtx.RUnlock()\n\tif !ok {\n\t\treturn Pair{}, ErrNotExist\n\t}\n\treturn pair, nil")], "explicit unlock after the last access")
v("c13-get-unlock-before-read", "C13", "C13.f", [(MAP, "\ts.mtx.RLock()\n\tdefer s.mtx.RUnlock()\n\tpair, ok := s.m[key]\n\tif !ok {", "\ts.mtx.RLock()\n\ts.mtx.RUnlock()\n\tpair, ok := s.m[key]\n\tif !ok {")])
v("c19-update-unlock-between", "C19", "C19.b", [(VIEW, "\tv.mtx.Lock()\n\tdefer v.mtx.Unlock()\n\n\tfor _, u := range updates {\n\t\tcurrent, ok := v.shards[u.ShardID]\n\t\tif !ok {\n\t\t\tcurrent = dragonboat.ShardView{ShardID: u.ShardID}\n\t\t}\n\t\tv.shards[u.ShardID] = mergeShardInfo(current, u)\n\t}", "\tfor _, u := range updates {\n\t\tv.mtx.Lock()\n\t\tcurrent, ok := v.shards[u.ShardID]\n\t\tv.mtx.Unlock()\n\t\tif !ok {\n\t\t\tcurrent = dragonboat.ShardView{ShardID: u.ShardID}\n\t\t}\n\t\tmerged := mergeShardInfo(current, u)\n\t\tv.mtx.Lock()\n\t\tv.shards[u.ShardID] = merged\n\t\tv.mtx.Unlock()\n\t}")], "every access under the lock, but the read-merge-write is split over two critical sections")
v("c19-n-update-lock-per-entry", "C19", "none", [(VIEW, "\tv.mtx.Lock()\n\tdefer v.mtx.Unlock()\n\n\tfor _, u := range updates {\n\t\tcurrent, ok := v.shards[u.ShardID]\n\t\tif !ok {\n\t\t\tcurrent = dragonboat.ShardView{ShardID: u.ShardID}\n\t\t}\n\t\tv.shards[u.ShardID] = mergeShardInfo(current, u)\n\t}", "\tfor _, u := range updates {\n\t\tv.mtx.Lock()\n\t\tcurrent, ok := v.shards[u.ShardID]\n\t\tif !ok {\n\t\t\tcurrent = dragonboat.ShardView{ShardID: u.ShardID}\n\t\t}\n\t\tv.shards[u.ShardID] = mergeShardInfo(current, u)\n\t\tv.mtx.Unlock()\n\t}")], "one critical section per entry (no reader relies on a whole list being merged atomically)")
v("c07-restore-rpc-not-rewound", "C07", "C07.g", [(MAINT, "\t_, err = sf.Seek(0, io.SeekStart)\n\tif err != nil {\n\t\treturn err\n\t}\n\terr = m.Tables.Restore(", "\terr = m.Tables.Restore(")])
v("c07-backup-rpc-not-rewound", "C07", "C07.g", [(MAINT, "\t_, err = sf.Seek(0, io.SeekStart)\n\tif err != nil {\n\t\treturn err\n\t}\n\n\t_, err = io.Copy(&snapshot.Writer{Sender: srv}", "\t_, err = io.Copy(&snapshot.Writer{Sender: srv}")])
v("c07-restore-rpc-skips-unknown-table", "C07", "C07.g", [(MAINT, "\terr = m.Tables.Restore(string(info.Table), sf)\n\tif err != nil {\n\t\treturn err\n\t}", "\tif len(info.Table) > 0 {\n\t\terr = m.Tables.Restore(string(info.Table), sf)\n\t\tif err != nil {\n\t\t\treturn err\n\t\t}\n\t}")])
v("c08-replace-removes-updating-last", "C08", "C08.c2", [(DIR, "\tif err := fs.Rename(tmpFp, fp); err != nil {\n\t\treturn err\n\t}\n\treturn syncDir(fs, dir)", "\tif err := fs.Rename(tmpFp, fp); err != nil {\n\t\t_ = fs.Remove(fp)\n\t\treturn err\n\t}\n\treturn syncDir(fs, dir)")], "a failed rename answered by removing the published file")
v("c08-snapshot-recover-closes-new-db-late", "C08", "C08.c", [(SNAP, "\ts.fsm.log.Debugf(\"snapshot recovery cleanup\")\n\treturn rp.CleanupNodeDataDir(s.fsm.fs, s.fsm.dirname)", "\ts.fsm.log.Debugf(\"snapshot recovery cleanup\")\n\tif err := rp.CleanupNodeDataDir(s.fsm.fs, s.fsm.dirname); err != nil {\n\t\t_ = db.Close()\n\t\treturn err\n\t}\n\treturn nil")], "the new DB closed when the final clean-up of the old directories fails")
v("c12-comparer-own-compare", "C12", "C12.f", [("pebble/pebble.go", "\t\t\tCompare:            pebble.DefaultComparer.Compare,", "\t\t\tCompare:            func(a, b []byte) int { return pebble.DefaultComparer.Compare(b, a) },")])
v("c12-comparer-split-prefix", "C12", "C12.f", [("pebble/pebble.go", "func split(b []byte) int {\n\treturn len(b)\n}", "func split(b []byte) int {\n\tif len(b) > 4 {\n\t\treturn 4\n\t}\n\treturn len(b)\n}")])
v("c01-comparer-abbreviated-const", "C01", "C01.m", [("pebble/pebble.go", "\t\t\tAbbreviatedKey:     pebble.DefaultComparer.AbbreviatedKey,", "\t\t\tAbbreviatedKey:     func(b []byte) uint64 { return uint64(len(b)) },")])
v("c10-forwarded-put-no-wait", "C10", "C10.f", [(KV, "\treturn put, <-r.q.Add(ctx, string(req.Table), put.Header.Revision)", "\tgo func() { <-r.q.Add(ctx, string(req.Table), put.Header.Revision) }()\n\treturn put, nil")])

# ---- round 5c: rules for the third-round seeded changes C13-C19 and neutral sets O, P
v("c13-set-mismatch-returns-request", "C13", "C13.c", [(RAFT, "\terr = json.Unmarshal(res.Data, &pair)\n\tif err != nil {\n\t\treturn Pair{}, err\n\t}\n\tif res.Value == ResultCodeVersionMismatch {\n\t\treturn pair, ErrVersionMismatch\n\t}\n\treturn pair, nil", "\tif res.Value == ResultCodeVersionMismatch {\n\t\treturn pair, ErrVersionMismatch\n\t}\n\terr = json.Unmarshal(res.Data, &pair)\n\tif err != nil {\n\t\treturn Pair{}, err\n\t}\n\treturn pair, nil")])
v("c13-mapstore-delete-only-if-version", "C13", "C13.h", [(MAP, "\tdelete(s.m, key)\n\treturn nil", "\tif p, ok := s.m[key]; ok && p.Ver <= ver {\n\t\tdelete(s.m, key)\n\t}\n\treturn nil")], "the map store second-guesses the state machine's gate")
v("c13-mapstore-set-keeps-higher-version", "C13", "C13.h", [(MAP, "\tp := Pair{Key: key, Value: value, Ver: ver}\n", "\tp := Pair{Key: key, Value: value, Ver: ver}\n\tif old, ok := s.m[key]; ok && old.Ver > ver {\n\t\treturn old, nil\n\t}\n")])
v("c15-mapstore-set-skips-same-value", "C15", "C15.f", [(MAP, "\tp := Pair{Key: key, Value: value, Ver: ver}\n", "\tif old, ok := s.m[key]; ok && old.Value == value {\n\t\treturn old, nil\n\t}\n\tp := Pair{Key: key, Value: value, Ver: ver}\n")], "agent change C13-r3m3 under the lease property")
v("c13-n-mapstore-set-pair-local-order", "C13", "none", [(MAP, "\tp := Pair{Key: key, Value: value, Ver: ver}\n\tif s.m == nil {\n\t\ts.m = make(map[string]Pair)\n\t}\n\ts.m[key] = p", "\tif s.m == nil {\n\t\ts.m = make(map[string]Pair)\n\t}\n\tp := Pair{Ver: ver, Value: value, Key: key}\n\ts.m[key] = p")])
v("c14-delete-notfound-on-any-error", "C14", "C14.d", [(MGR, "\treturn m.store.Delete(storeName, tab.Ver)\n}", "\tif err := m.store.Delete(storeName, tab.Ver); err != nil {\n\t\tm.log.Warnf(\"delete of %s refused: %v\", name, err)\n\t}\n\treturn nil\n}")], "the versioned delete's refusal only logged")
v("c14-n-delete-explicit-check", "C14", "none", [(MGR, "\treturn m.store.Delete(storeName, tab.Ver)\n}", "\tif err := m.store.Delete(storeName, tab.Ver); err != nil {\n\t\treturn err\n\t}\n\treturn nil\n}")])
v("c14-listing-skips-recovering", "C14", "C14.k", [(MGR, "\t\ttables[tab.Name] = tab\n", "\t\tif tab.RecoverID != 0 && tab.ClusterID == 0 {\n\t\t\tcontinue\n\t\t}\n\t\ttables[tab.Name] = tab\n")])
v("c16-iter-prealloc-limit", "C16", "C16.f", [(ITER, "\t\ti := 0\n\t\tfor {\n", "\t\tif limit > 0 {\n\t\t\tresponse.Kvs = make([]*regattapb.KeyValue, 0, limit)\n\t\t}\n\t\ti := 0\n\t\tfor {\n")], "agent change C16-r3m2 in a simpler form")
v("c16-n-iter-prealloc-min", "C16", "none", [(ITER, "\t\ti := 0\n\t\tfor {\n", "\t\tif limit > 0 {\n\t\t\tresponse.Kvs = make([]*regattapb.KeyValue, 0, min(limit, 64))\n\t\t}\n\t\ti := 0\n\t\tfor {\n")], "a preallocation bounded by a constant")
v("c16-put-handler-refuses-empty-value", "C16", "C16.h", [(PUT, "func handlePut(ctx *updateContext, put *regattapb.RequestOp_Put) (*regattapb.ResponseOp_Put, error) {\n", "func handlePut(ctx *updateContext, put *regattapb.RequestOp_Put) (*regattapb.ResponseOp_Put, error) {\n\tif len(put.Key) == 0 {\n\t\treturn nil, fmt.Errorf(\"empty key\")\n\t}\n"), (PUT, "import (\n", "import (\n\t\"fmt\"\n")], "validation behind the proposal: the apply path refuses a committed command")
v("c17-capool-lazy", "C17", "C17.e", [(TLS, "\tcertPool := x509.NewCertPool()\n", "\tvar certPool *x509.CertPool\n"), (TLS, "\t\t\tcertPool.AddCert(cert)", "\t\t\tif certPool == nil {\n\t\t\t\tcertPool = x509.NewCertPool()\n\t\t\t}\n\t\t\tcertPool.AddCert(cert)")], "agent change C17-r3m1")
v("c18-writer-readfrom-value-copy", "C18", "C18.g", [(MAINT, "io.Copy(&snapshot.Writer{Sender: srv}, ", "io.Copy(snapshot.Writer{Sender: srv}, "), (SNP, "func (g *Writer) Write(", "func (g Writer) Write(")], "the stream writer handed to io.Copy by value: ReadFrom (pointer receiver) is not in its method set")
v("c19-merge-remote-decodes-into-field", "C19", "C19.c", [(CLU, "\tremote := &clusterState{}\n\t_ = json.Unmarshal(buf, remote)\n\tc.shardView.update(remote.ShardView)", "\t_ = json.Unmarshal(buf, &c.remote)\n\tc.shardView.update(c.remote.ShardView)"), (CLU, "\tshardView  *shardView\n\tinfoF      getClusterInfo\n}", "\tshardView  *shardView\n\tinfoF      getClusterInfo\n\tremote     clusterState\n}")], "agent change C19-r3m1 without the lock")

# ---- round 6: rules for the fourth-round seeded changes and neutral sets Q, R
v("c04-createdir-syncs-itself", "C04", "C04.c", [(DIR, "\treturn syncDir(fs, filepath.Dir(dir))\n}\n\n// CleanupNodeDataDir", "\treturn syncDir(fs, dir)\n}\n\n// CleanupNodeDataDir")], "agent change C04-r4m2")
v("c08-old-close-error-returned", "C08", "C08.c", [(SNAP, "\t\t_ = old.Close()\n", "\t\tif err := old.Close(); err != nil {\n\t\t\ts.fsm.log.Warn(err)\n\t\t\treturn err\n\t\t}\n")], "closing the replaced DB reported as a failed install")
v("c19-notify-feeds-only-when-room", "C19", "C19.c", [(CLU, "\tc.shardView.update(toShardViewList(c.infoF().ShardInfoList))\n\tselect {\n\tcase c.not <- struct{}{}:\n\tdefault:\n\t}", "\tselect {\n\tcase c.not <- struct{}{}:\n\t\tc.shardView.update(toShardViewList(c.infoF().ShardInfoList))\n\tdefault:\n\t}")], "agent change C19-r4m2")
v("c19-n-notify-update-after-select", "C19", "none", [(CLU, "\tc.shardView.update(toShardViewList(c.infoF().ShardInfoList))\n\tselect {\n\tcase c.not <- struct{}{}:\n\tdefault:\n\t}", "\tviews := toShardViewList(c.infoF().ShardInfoList)\n\tc.shardView.update(views)\n\tselect {\n\tcase c.not <- struct{}{}:\n\tdefault:\n\t}")])
v("c18-chunk-4mib", "C18", "C18.h", [(SNP, "const DefaultSnapshotChunkSize = 1024 * 1024", "const DefaultSnapshotChunkSize = 4 * 1024 * 1024")])
v("c18-n-chunk-2mib", "C18", "none", [(SNP, "const DefaultSnapshotChunkSize = 1024 * 1024", "const DefaultSnapshotChunkSize = 2 * 1024 * 1024")], "still below the default message limit")
v("c18-loader-buffer-2mib", "C18", "C18.h", [(MGR, "\tmsg := make([]byte, 1024*1024*4)", "\tmsg := make([]byte, 2*1024*1024)")])
v("c18-zstd-writer-options", "C18", "C18.h", [(ZS, "zstd.NewWriter(io.Discard)", "zstd.NewWriter(io.Discard, zstd.WithWindowSize(1<<16))")])
v("c17-session-ticket-key-fixed", "C17", "C17.e", [(TLS, "\tcfg.ClientAuth = tls.RequireAndVerifyClientCert", "\tcfg.SetSessionTicketKeys([][32]byte{{1}})\n\tcfg.ClientAuth = tls.RequireAndVerifyClientCert")])
v("c13-decode-target-hoisted", "C13", "C13.i", [(RAFT, "\t\tvar update Update\n", ""), (RAFT, "\tfor i, ent := range entries {\n", "\tvar update Update\n\tfor i, ent := range entries {\n")], "agent change C13-r4m1 without the json tags")
v("c16-gzip-reader-error-dropped", "C16", "C16.f", [(GZ, "\t\tnewR, err := gz.NewReader(r)\n\t\tif err != nil {\n\t\t\treturn nil, err\n\t\t}\n", "\t\tnewR, _ := gz.NewReader(r)\n")], "agent change C16-r4m3")
v("c09-size-cut-unsigned-budget", "C09", "C09.c", [(ITER, "\t\t\tif (uint64(response.SizeVT()) + sf(k.Key, piter.Value())) >= maxRangeSize {", "\t\t\tif sf(k.Key, piter.Value()) >= maxRangeSize-uint64(response.SizeVT()) {")], "agent change C09-r4m2")
v("c06-prepend-read-error-swallowed", "C06", "C06.d", [(LOGR, "\t\tle, err := readLog(l.LogQuerier, clusterID, prependIndices, maxSize)\n\t\tif err != nil {\n\t\t\treturn nil, err\n\t\t}", "\t\tle, err := readLog(l.LogQuerier, clusterID, prependIndices, maxSize)\n\t\tif err != nil && len(cachedEntries) == 0 {\n\t\t\treturn nil, err\n\t\t}")], "agent change C06-r4m3, prepend side only")
v("c03-sst-saver-skips-empty-tail", "C03", "C03.e", [(SNAP, "\t// write the remaining KVs into last SST\n\tif err := sstWriter.Close(); err != nil {\n\t\treturn err\n\t}\n\treturn writeLenDelimited(memfile, w)", "\t// write the remaining KVs into last SST\n\tif err := sstWriter.Close(); err != nil {\n\t\treturn err\n\t}\n\tif memfile.Len() == 0 {\n\t\treturn nil\n\t}\n\treturn writeLenDelimited(memfile, w)")], "an empty final table skipped after the writer was closed (the length test comes after Close here, so nothing is lost - but the receiver then never sees a table with the index keys when the DB is empty); kept as a breaking variant of the tail rule")
v("c14-restore-tolerates-missing-record", "C14", "C14.l", [(MGR, "\ttbl, version, err = m.getTableVersion(name)\n\tif err != nil {\n\t\treturn err\n\t}\n\n\ttbl.ClusterID = recoveryID", "\ttbl, version, err = m.getTableVersion(name)\n\tif err != nil && !errors.Is(err, serrors.ErrTableNotFound) {\n\t\treturn err\n\t}\n\n\ttbl.ClusterID = recoveryID")], "agent change C14-r4m3")
v("c01-dir-keyed-by-node", "C01", "C01.n", [(FSM, "fmt.Sprintf(\"%s-%d\", tableName, clusterID)", "fmt.Sprintf(\"%s-%d\", tableName, nodeID)")], "agent change C01-r4m1")
v("c12-wildcard-delete-end-not-incremented", "C12", "C12.d1", [(DEL, "\t\t\tend = incrementRightmostByte(end)\n", "")], "the wildcard end of a range delete is the maximum key itself")

DIR = "pebble/dir.go"; HEAP = "util/heap/heap.go"
v("c04-first-run-when-updating-file-left", "C04", "C04.i", [(DIR, "\t\treturn true\n\t}\n\treturn false\n}\n\n// GetNodeDBDirName", "\t\treturn true\n\t}\n\tif _, err := fs.Stat(filepath.Join(dir, updatingDBFilename)); err == nil {\n\t\treturn true\n\t}\n\treturn false\n}\n\n// GetNodeDBDirName")], "agent change C04-r5m1")
v("c04-first-run-stats-other-file", "C04", "C04.i", [(DIR, "\tfp := filepath.Join(dir, currentDBFilename)\n\tif _, err := fs.Stat(fp); err != nil {\n\t\treturn true", "\tfp := filepath.Join(dir, updatingDBFilename)\n\tif _, err := fs.Stat(fp); err != nil {\n\t\treturn true")])
v("c04-first-run-inverted", "C04", "C04.i", [(DIR, "\tif _, err := fs.Stat(fp); err != nil {\n\t\treturn true\n\t}\n\treturn false", "\t_, err := fs.Stat(fp)\n\treturn err == nil")])
v("c04-n-first-run-returns-comparison", "C04", "none", [(DIR, "\tif _, err := fs.Stat(fp); err != nil {\n\t\treturn true\n\t}\n\treturn false", "\t_, err := fs.Stat(fp)\n\treturn err != nil")])
v("c04-n-first-run-flag", "C04", "none", [(DIR, "\tif _, err := fs.Stat(fp); err != nil {\n\t\treturn true\n\t}\n\treturn false", "\tnewRun := false\n\tif _, err := fs.Stat(fp); err != nil {\n\t\tnewRun = true\n\t}\n\treturn newRun")])
v("c11-heapify-skips-root", "C11", "C11.h", [(HEAP, "for i := n/2 - 1; i >= 0; i-- {", "for i := n/2 - 1; i > 0; i-- {")], "agent change C11-r5m2")
v("c11-heapify-starts-low", "C11", "C11.h", [(HEAP, "for i := n/2 - 1; i >= 0; i-- {", "for i := n/2 - 2; i >= 0; i-- {")])
v("c11-heapify-step-two", "C11", "C11.h", [(HEAP, "for i := n/2 - 1; i >= 0; i-- {", "for i := n/2 - 1; i >= 0; i -= 2 {")])
v("c11-heapify-conditional-down", "C11", "C11.h", [(HEAP, "\t\th.down(i, n)\n\t}\n\treturn h", "\t\tif i%2 == 0 {\n\t\t\tcontinue\n\t\t}\n\t\th.down(i, n)\n\t}\n\treturn h")])
v("c11-n-heapify-gt-minus-one", "C11", "none", [(HEAP, "for i := n/2 - 1; i >= 0; i-- {", "for i := n/2 - 1; i > -1; i-- {")])
v("c11-n-heapify-from-last", "C11", "none", [(HEAP, "for i := n/2 - 1; i >= 0; i-- {", "for i := n - 1; i >= 0; i-- {")])
v("c11-n-heapify-len-inline", "C11", "none", [(HEAP, "for i := n/2 - 1; i >= 0; i-- {", "for i := len(items)/2 - 1; 0 <= i; i-- {")])
v("c05-sequence-stops-at-failure-result", "C05", "C05.i", [("storage/table/fsm/command_sequence.go", "\t\t_, cmdRes, err := wrapCommand(cmd).handle(ctx)\n\t\tif err != nil {\n\t\t\treturn ResultFailure, nil, err\n\t\t}\n\t\tres.Responses = append(res.Responses, cmdRes.Responses...)\n", "\t\tresult, cmdRes, err := wrapCommand(cmd).handle(ctx)\n\t\tif err != nil {\n\t\t\treturn ResultFailure, nil, err\n\t\t}\n\t\tres.Responses = append(res.Responses, cmdRes.Responses...)\n\t\tif result != ResultSuccess {\n\t\t\treturn result, res, nil\n\t\t}\n")], "agent change C05-r5m2")
v("c14-key-through-path-join", "C14", "C14.n", [(MGR, "import (\n", "import (\n\t\"path\"\n"), (MGR, "\treturn fmt.Sprintf(\"%s%s\", keyPrefix, name)", "\treturn path.Join(keyPrefix, name)")], "agent change C14-r5m2")
v("c14-key-lowercased", "C14", "C14.n", [(MGR, "\treturn fmt.Sprintf(\"%s%s\", keyPrefix, name)", "\treturn fmt.Sprintf(\"%s%s\", keyPrefix, strings.ToLower(name))")])
v("c14-listing-other-directory", "C14", "C14.n", [(MGR, "m.store.GetAll(keyPrefix + \"*\")", "m.store.GetAll(\"/table/*\")")])
v("c14-n-key-concat", "C14", "none", [(MGR, "\treturn fmt.Sprintf(\"%s%s\", keyPrefix, name)", "\treturn keyPrefix + name")])
v("c14-n-key-sprintf-one-verb", "C14", "none", [(MGR, "\treturn fmt.Sprintf(\"%s%s\", keyPrefix, name)", "\treturn fmt.Sprintf(\"/tables/%s\", name)")])
v("c14-n-key-via-local", "C14", "none", [(MGR, "\treturn fmt.Sprintf(\"%s%s\", keyPrefix, name)", "\tk := keyPrefix + name\n\treturn k")])
v("c02-existence-predicate-skips-reset", "C02", "C02.i", [(TXN, "\t\t\t\tif !txnCompareSingle(cmp, value) {\n\t\t\t\t\treturn false, nil\n\t\t\t\t}\n\n\t\t\t\tkeyBuf.Reset()", "\t\t\t\tif cmp.TargetUnion == nil {\n\t\t\t\t\treturn true, nil\n\t\t\t\t}\n\t\t\t\tif !txnCompareSingle(cmp, value) {\n\t\t\t\t\treturn false, nil\n\t\t\t\t}\n\n\t\t\t\tkeyBuf.Reset()")], "agent change C02-r5m1")
SNAPW = "replication/snapshot/snapshot.go"
v("c18-readfrom-error-before-bytes", "C18", "C18.b", [(SNAPW, "\t\tn, err := r.Read(chunk)\n\t\tif n > 0 {", "\t\tn, err := r.Read(chunk)\n\t\tif err != nil {\n\t\t\tif errors.Is(err, io.EOF) {\n\t\t\t\tbreak\n\t\t\t}\n\t\t\treturn count, err\n\t\t}\n\t\tif n > 0 {")], "agent change C18-r5m1: bytes handed out together with io.EOF are dropped")
v("c18-n-readfrom-zero-read-continue", "C18", "none", [(SNAPW, "\t\tn, err := r.Read(chunk)\n\t\tif n > 0 {", "\t\tn, err := r.Read(chunk)\n\t\tif n == 0 && err == nil {\n\t\t\tcontinue\n\t\t}\n\t\tif n > 0 {")])
v("c11-create-starts-recovery-id", "C11", "C11.g", [(MGR, "\treturn created, m.startTable(created.Name, created.ClusterID)", "\treturn created, m.startTable(created.Name, created.RecoverID)")], "a third call site that starts a recovery shard with the table-name listener (K2 is keyed to Restore, K3 to reconcile)")
v("c11-n-difftables-only-serving-ids", "C11", "none", [(MGR, "\t\tif t.RecoverID != 0 {\n\t\t\ttableIDs[t.RecoverID] = t\n\t\t}\n", "")], "the reconciliation no longer starts recovery shards: the reconcile site is not a recovery start (K3 line disappears, no alarm)")

# the confirmed seeded changes of the sub-agents (section 11.4 of DESIGN.md) as overlays: the same
# patches tools/run_seeded.sh applies to /repo, here without touching it
import glob, os
for d in sorted(glob.glob(os.path.join(os.path.dirname(os.path.abspath(__file__)), "..", "seeded", "*"))):
    mf = os.path.join(d, "meta.json")
    if not os.path.exists(mf):
        continue
    m = json.load(open(mf))
    if not m.get("detected"):
        continue
    sid = os.path.basename(d)
    prop = sid.split("-")[0]
    obs = sorted(set(x.split()[0] for x in m.get("detected_by_check", [])))
    own = [o for o in obs if o.startswith(prop + ".")]
    if not own:
        continue
    vp("seeded-" + sid.lower(), prop, own[0], ["seeded/" + sid + "/patch.diff"], "sub-agent change " + sid + ": " + (m.get("title") or ""))

# parent of fix F9 (reverse of /repo commit 9c3d1c6)
vp("c14-f9-parent", "C14", "C14.g", ["selftest/patches/f10-parent.diff", "selftest/patches/f9-parent.diff"], "parent of fix F9: table names containing '/' (on top of the parent of F10)")
vp("c14-f10-parent", "C14", "C14.g", ["selftest/patches/f10-parent.diff"], "parent of fix F10: DeleteTable with a name containing '/'")

json.dump(V, sys.stdout, indent=1)
