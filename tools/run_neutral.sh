#!/bin/bash
# run_neutral.sh <dir-with-n*/patch.diff> [props...]: runs the registered quick checks (all, or the
# given ones) on the current /repo with each behaviour-preserving refactoring applied as an in-memory
# overlay (rvet --patch; /repo is not touched), without writing evidence. Any FINDING is a false alarm.
cd /verif
DIR=$1; shift
PROPS="$@"; [ -z "$PROPS" ] && PROPS="C01 C02 C03 C04 C05 C06 C07 C08 C09 C10 C11 C12 C13 C14 C15 C16 C17 C18 C19"
for d in $DIR/n*/; do
  n=$(basename $d)
  out=$(printf '%s\n' $PROPS | xargs -P 8 -I{} sh -c "${RVET:-./bin/rvet} check {} --no-emit --patch $d/patch.diff 2>&1 | grep -E '^FINDING|does not apply' | cut -c1-260 | sort -u")
  if [ -z "$out" ]; then echo "$n: silent"; else echo "$n: FALSE ALARM"; echo "$out" | sed 's/^/    /'; fi
done
