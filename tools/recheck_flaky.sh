#!/bin/bash
# recheck_flaky.sh <worktree> <seeded-id> <pkg>... : re-runs, in isolation, the packages of the existing
# suite that failed during a confirmation run executed while other suites shared the machine (port
# collisions "address already in use", 10 ms timing assertions), with the seeded change applied.
WT=$1; ID=$2; shift 2
export GOFLAGS=-mod=mod GOPROXY=off GOSUMDB=off GOTOOLCHAIN=local; unset GOWORK
git -C $WT checkout -q -- . ; git -C $WT clean -qfd
git -C $WT apply /verif/seeded/$ID/patch.diff || exit 1
cd $WT
out=$(go test -vet=off -count=1 -timeout 15m "$@" 2>&1 | grep -E "^(ok|FAIL|---)" )
git -C $WT checkout -q -- . ; git -C $WT clean -qfd
echo "NOTE: packages that failed during the parallel confirmation run, re-run in isolation with the change applied ($*):" >> /verif/seeded/$ID/confirm.log
echo "$out" >> /verif/seeded/$ID/confirm.log
echo "$ID: $out"
