#!/bin/bash
# confirm_mutant.sh <worktree> <mutant-dir> <seeded-id>
# Confirms an externally produced mutant in a scratch worktree and files it under /verif/seeded/<id>/.
# Checks: demo passes on pristine; patch applies; build ok; demo fails with mutant; full existing suite passes with mutant.
set -u
WT=$1; M=$2; ID=$3
export GOFLAGS=-mod=mod GOPROXY=off GOSUMDB=off GOTOOLCHAIN=local; unset GOWORK
OUT=/verif/seeded/$ID; mkdir -p $OUT
reset() { git -C $WT checkout -q -- . ; git -C $WT clean -qfd; }
reset
DEMO=$(python3 -c "import json;m=json.load(open('$M/meta.json'));print(m['demo']['file'])")
PKGDIR=$(python3 -c "import json;m=json.load(open('$M/meta.json'));print(m['demo']['package_dir'])")
RUN=$(python3 -c "import json;m=json.load(open('$M/meta.json'));print(m['demo']['run'])")
DEMOSRC=$M/$(basename $DEMO)
[ -f "$DEMOSRC" ] || DEMOSRC=$(ls $M/*_test.go | head -1)
PKGDIR=${PKGDIR#$WT/}; PKGDIR=${PKGDIR#./}
cp $DEMOSRC $WT/$PKGDIR/
cd $WT
echo "## demo on pristine" > $OUT/confirm.log
( eval "$RUN" ) >> $OUT/confirm.log 2>&1; P=$?
rm -f $WT/$PKGDIR/$(basename $DEMOSRC)
git apply $M/patch.diff || { echo "patch does not apply" >> $OUT/confirm.log; reset; echo "RESULT $ID apply-failed"; exit 1; }
echo "## build" >> $OUT/confirm.log
go build ./... >> $OUT/confirm.log 2>&1; B=$?
echo "## existing suite with mutant" >> $OUT/confirm.log
go test -vet=off -count=1 -timeout 20m ./... 2>&1 | grep -v '^ok\|no test files' >> $OUT/confirm.log
S=$(grep -c '^FAIL\|^--- FAIL\|^panic' $OUT/confirm.log)
# util/iter link failure is pre-existing
SF=$(grep '^FAIL' $OUT/confirm.log | grep -v 'util/iter' | grep -vc '^FAIL$')
cp $DEMOSRC $WT/$PKGDIR/
echo "## demo with mutant" >> $OUT/confirm.log
( eval "$RUN" ) >> $OUT/confirm.log 2>&1; F=$?
reset
cp $M/patch.diff $OUT/patch.diff; cp $DEMOSRC $OUT/; cp $M/meta.json $OUT/agent_meta.json
echo "RESULT $ID demo_pristine_exit=$P build_exit=$B suite_failures_excl_util_iter=$SF demo_mutant_exit=$F"
echo "RESULT $ID demo_pristine_exit=$P build_exit=$B suite_failures_excl_util_iter=$SF demo_mutant_exit=$F" >> $OUT/confirm.log
