#!/usr/bin/env python3
"""Prompt for a sub-agent that produces behaviour-preserving refactorings (false-alarm probes)."""
import sys
wt=sys.argv[1]; files=sys.argv[2:]
emph=""
if files and files[0].startswith("--emph="):
    emph="\nAdditional emphasis for this batch: "+open(files[0][7:]).read().strip()+"\n"
    files=files[1:]
print(f"""You are helping to evaluate static-analysis checkers for the Go project jamf/regatta (an etcd-like distributed KV store). The checkers must stay SILENT on code whose behaviour is unchanged, so I need realistic BEHAVIOUR-PRESERVING refactorings to probe them for false alarms.

You have your own scratch git worktree of the repository at {wt} (detached HEAD). Work ONLY inside {wt} and an output directory {wt}-out (create it). Do NOT read or touch /repo or /verif.

YOUR TASK: produce TWELVE independent, realistic, strictly behaviour-preserving refactorings of the non-test Go code in (a subset of) these files:
{chr(10).join('  - '+f for f in files)}
Each refactoring is the kind of clean-up a maintainer would do in a normal code review, touching real logic (not comments/whitespace/only log text), for example: rename local variables or parameters; hoist an expression into a local; inline a local; extract a small helper function (or inline one); flip an if/else (negate the condition and swap the branches); turn `if a {{ return x }}; return y` into an else-form or a switch; replace an index loop by a range loop or vice versa; reorder two independent statements; replace `x == 0` by `x < 1` for a length/unsigned value, `a+1 < b` by `b > a+1`, `!(a <= b)` by `a > b`; merge two nested ifs into one with && (or split one); change a named result into an unnamed one with explicit returns (or vice versa); replace an early `continue` by an if-block; convert a method value to a closure; use a temporary for an error instead of `if err := ...; err != nil`; move a deferred cleanup into a small helper; replace a type switch by a comma-ok assertion chain (same order); change `append(xs, y)` accumulations into preallocated slices with the same content; split a long function into two. Spread them over different functions and files - prefer the central functions (state machine Update/Lookup/handlers, iterators, queue event loop, log reader/cache, restore loader, manager, request handlers, TLS/auth helpers, snapshot recoverers, key encoding, worker loop, merge function) over peripheral ones. Each must keep EXACTLY the same observable behaviour for all inputs, schedules and failures (same results, same errors, same side effects and their order as far as observable, same durability ordering of file-system operations, same locking). If in doubt about equivalence, pick another refactoring.

For EACH refactoring k in 1..12 deliver {wt}-out/n<k>/patch.diff (`git diff -- . ':!go.mod' ':!go.sum'` against the worktree HEAD, applying cleanly with `git apply` on the pristine HEAD) and {wt}-out/n<k>/note.txt (one or two sentences: what was refactored and why it is behaviour preserving). Verify for each: `go build ./...` succeeds and the tests of the touched packages pass unedited (`go test -count=1 -timeout 300s ./<pkg>/`). After each one, RESET the worktree (`git -C {wt} checkout -- . && git -C {wt} clean -fd`) so the patches are independent. Leave the worktree pristine at the end.

Environment notes (IMPORTANT): the sandbox has NO network. For every shell call export these first: `export GOFLAGS=-mod=mod GOPROXY=off GOSUMDB=off GOTOOLCHAIN=local; unset GOWORK`. Go 1.23 is the default toolchain. Running go with -mod=mod may rewrite go.mod in the worktree: harmless, but do NOT include go.mod/go.sum in patch.diff. Always pass `-timeout` to go test. The package util/iter fails to link its test binary even on the pristine tree - ignore it. Do not spend more than ~8 minutes per refactoring.

{emph}
Finish with a short plain-text list: per refactoring the file/function touched and the kind of refactoring.""")
