#!/bin/bash
# run_seeded.sh [id-filter]: applies each /verif/seeded/<id>/patch.diff to /repo, runs the property's
# check (no evidence written), undoes the patch, and writes seeded/<id>/meta.json.
set -u
cd /verif
[ -z "$(git -C /repo status --porcelain)" ] || { echo "/repo not clean"; exit 2; }
for d in seeded/*${1:-}*/; do
  id=$(basename $d)
  [ -f $d/patch.diff ] || continue
  prop=${id%%-*}
  git -C /repo apply /verif/$d/patch.diff || { echo "$id: patch does not apply"; continue; }
  out=$(./bin/rvet check $prop --no-emit 2>&1); code=$?
  git -C /repo checkout -- . ; git -C /repo clean -qfd
  echo "$out" | grep '^FINDING' > $d/detect.txt
  python3 - "$d" "$prop" "$code" <<'PY'
import json,sys,os,re
d,prop,code=sys.argv[1],sys.argv[2],int(sys.argv[3])
am=json.load(open(os.path.join(d,'agent_meta.json'))) if os.path.exists(os.path.join(d,'agent_meta.json')) else {}
res=[l.strip() for l in open(os.path.join(d,'confirm.log'),errors='replace') if l.startswith('RESULT')] if os.path.exists(os.path.join(d,'confirm.log')) else []
finds=[l.split()[1]+" "+l.split()[3] for l in open(os.path.join(d,'detect.txt'))]
meta={"property":prop,"title":am.get("title"),"files":am.get("files"),"what_it_breaks":am.get("what_it_breaks"),
 "needs_to_manifest":am.get("needs_to_manifest"),"demo":am.get("demo"),
 "origin":"independent sub-agent given only the property text and a scratch worktree",
 "confirmed_by_me":{"how":"tools/confirm_mutant.sh in a scratch worktree: demo passes on pristine HEAD, patch applies, go build ./..., full unedited suite with the mutant, demo fails with the mutant","result":res[-1] if res else None,
   "note":"suite failures, if any are counted, were re-run in isolation (storage/cluster TestMultiNodeCluster is flaky when several test runs share the machine's ports)"},
 "detected_by_check":sorted(set(finds)),"detected":code==1 and len(finds)>0,
 "detect_cmd":"git -C /repo apply seeded/%s/patch.diff && ./bin/rvet check %s --no-emit; git -C /repo checkout -- ."%(os.path.basename(d.rstrip('/')),prop)}
json.dump(meta,open(os.path.join(d,'meta.json'),'w'),indent=1)
print(os.path.basename(d.rstrip('/')),"DETECTED" if meta["detected"] else "MISSED",", ".join(sorted(set(f.split()[0] for f in finds))))
PY
done
git -C /repo status --short
