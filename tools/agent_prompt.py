#!/usr/bin/env python3
"""Prints the prompt for a mutation sub-agent: property text + scratch worktree only."""
import json,sys
pid=sys.argv[1]; wt=sys.argv[2]
round2 = len(sys.argv) > 3 and sys.argv[3] == "round2"
p=[json.loads(l) for l in open('/verif/properties.jsonl') if json.loads(l)['id']==pid][0]
print(f"""You are helping to evaluate a verification effort for the Go project jamf/regatta (an etcd-like distributed KV store: Pebble-backed Raft state machines via dragonboat, leader-to-follower cross-cluster log replication).

You have your own scratch git worktree of the repository at {wt} (detached HEAD). Work ONLY inside {wt} and an output directory {wt}-out (create it). Do NOT read or touch /repo or /verif or any other directory's checkers; you need nothing from them.

The property under study ({pid}): "{p['title']}"
Statement: {p['statement']}
Quantified over: {p['quantifier']['text']}
Why the existing tests cannot settle it: {p['why_tests_cant']}
Code it is anchored in: {', '.join(p['anchors']['files'])}

YOUR TASK: produce THREE independent, realistic source changes ("mutants") to the non-test Go code of the repository, each of which BREAKS this property while (1) the repository still compiles (`go build ./...`), and (2) the EXISTING test suite still passes unedited (at least the packages you touched and their dependants: run `go test -count=1 -timeout 300s ./<pkg>/...`; the full suite is `go test -count=1 -timeout 20m ./...`; the package util/iter fails to link its test binary even on the pristine tree - ignore that one).
Prefer subtle changes that need something specific to manifest - a particular interleaving, a crash/fault at a particular point, a multi-step sequence of operations, an unusual input (boundary sizes, empty values, keys with 0x00/0xFF, limit == number of matches, ...), or two cooperating sites that each look fine alone - NOT changes that ordinary use would expose at once, and not changes to tests, generated code (regattapb/*.pb.go), docs or build files. The three mutants should touch different mechanisms / code sites of the property where possible. Think like a developer making a plausible mistake or an "optimisation" (off-by-one, dropped guard, wrong variable, reordered steps, reading from the wrong source, stale state, missing reset, swapped arguments, early return).

For EACH mutant k in 1..3 deliver, in {wt}-out/m<k>/ :
  - patch.diff : `git diff` of the change against the worktree HEAD (non-test source files only), applying cleanly with `git apply` on the pristine HEAD;
  - a demonstration: a NEW Go test file (name it demo_<something>_test.go, placed in the appropriate package directory when run; store a copy in the out dir together with a note of which directory it belongs to) or a small program, that FAILS with the mutant applied and PASSES on the pristine HEAD. The demonstration must show the property's observable behaviour being violated (not just that the code differs);
  - meta.json : {{"property": "{pid}", "title": "<short name>", "files": [...], "what_it_breaks": "...", "needs_to_manifest": "<what specific input/schedule/crash point/sequence is needed>", "demo": {{"file": "...", "package_dir": "...", "run": "<exact go test command>"}}, "verified": {{"build": true/false, "existing_tests_pass": "<which packages you ran and the result>", "demo_fails_with_mutant": true/false, "demo_passes_without": true/false}}}}
After producing each mutant, RESET the worktree to pristine (`git -C {wt} checkout -- . && git -C {wt} clean -fd`) before starting the next, so the patches are independent. Leave the worktree pristine at the end (the out dir is outside it).

Environment notes (IMPORTANT): the sandbox has NO network. For every shell call export these first: `export GOFLAGS=-mod=mod GOPROXY=off GOSUMDB=off GOTOOLCHAIN=local; unset GOWORK`. Go 1.23 is the default toolchain. Running go with -mod=mod may rewrite go.mod in the worktree (moves golang.org/x/net to a direct require): that is harmless, but do NOT include go.mod/go.sum in patch.diff (use `git diff -- . ':!go.mod' ':!go.sum'`). Always pass `-timeout` to go test (some failure modes hang). Tests of storage/table and replication start real in-process Raft nodes and take 10-20 s. Do not spend more than ~25 minutes per mutant; if one idea does not work out (tests catch it, or you cannot demonstrate it), drop it and try another. If you cannot get three, deliver what you have.

{"ROUND 2 EMPHASIS: an earlier round already produced the most obvious mutants in the central functions of this property. Look for breakage in LESS OBVIOUS places: secondary code paths (batch/sequence command variants, error and retry paths, the open/restart path, the follower or forwarding side, snapshot/restore paths, helper packages, wiring and configuration in cmd/), interactions of two functions that each look fine alone, boundary conditions of loops and slices, and omissions (a step, reset or check that is silently no longer performed) rather than wrong values. " if round2 else ""}Finish with a short plain-text summary listing, per mutant: the title, the files touched, what is needed to manifest, and the verification results. Be honest about anything you could not verify.""")
