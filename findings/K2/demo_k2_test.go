package table

import (
	"context"
	"sync"
	"testing"
	"time"

	"github.com/jamf/regatta/regattapb"
	"github.com/jamf/regatta/replication/snapshot"
	"github.com/jamf/regatta/storage/kv"
	"github.com/stretchr/testify/require"
)

// During Restore the recovery shard announces its applied (leader) index under the table's own
// name - that is what releases waiters in the notification queue - while the catalogue, and hence
// every read, still points to the old shard.
func TestDemoK2_RecoveryShardNotifiesBeforeSwitch(t *testing.T) {
	const name = "existingTable"
	// a recovery stream as the leader's snapshot server produces it: pairs, then the terminator
	// that carries the leader index the image stands for
	key := []byte("written-through-this-follower")
	leaderIdx := uint64(77)
	build := func() interface {
		Read([]byte) (int, error)
	} {
		sf, err := snapshot.NewTemp()
		require.NoError(t, err)
		put := &regattapb.Command{Table: []byte(name), Type: regattapb.Command_PUT, Kv: &regattapb.KeyValue{Key: key, Value: []byte("v")}}
		b, err := put.MarshalVT()
		require.NoError(t, err)
		_, err = sf.Write(b)
		require.NoError(t, err)
		term := &regattapb.Command{Table: []byte(name), Type: regattapb.Command_DUMMY, LeaderIndex: &leaderIdx}
		b, err = term.MarshalVT()
		require.NoError(t, err)
		_, err = sf.Write(b)
		require.NoError(t, err)
		require.NoError(t, sf.Sync())
		_, err = sf.Seek(0, 0)
		require.NoError(t, err)
		return sf
	}

	node, m := startRaftNode(t)
	defer node.Close()
	cfg := minimalTestConfig()
	var tm *Manager
	var mu sync.Mutex
	type obs struct {
		applied   uint64
		clusterID uint64
		recoverID uint64
		seen      bool
	}
	var early []obs
	var oldID uint64
	cfg.Table.AppliedIndexListener = func(table string, applied uint64) {
		if table != name || tm == nil || applied != leaderIdx || leaderIdx == 0 {
			return
		}
		// this is the moment the queue would release every waiter of `name` with revision <= applied
		at, err := tm.GetTable(name)
		if err != nil {
			return
		}
		o := obs{applied: applied, clusterID: at.ClusterID, recoverID: at.RecoverID}
		ctx, cancel := context.WithTimeout(context.Background(), 5*time.Second)
		defer cancel()
		res, err := at.Range(ctx, &regattapb.RangeRequest{Table: []byte(name), Key: key, Linearizable: true})
		o.seen = err == nil && len(res.Kvs) == 1
		mu.Lock()
		early = append(early, o)
		mu.Unlock()
	}
	tm = NewManager(node, m, &kv.MapStore{}, cfg)
	tm.Start()
	defer tm.Close()
	_, err := tm.CreateTable(name)
	require.NoError(t, err)
	tab, err := tm.GetTable(name)
	require.NoError(t, err)
	oldID = tab.ClusterID

	require.NoError(t, tm.Restore(name, build()))

	mu.Lock()
	defer mu.Unlock()
	require.NotEmpty(t, early, "the recovery shard never announced the stream's leader index")
	for _, o := range early {
		t.Logf("announced %d for %q while the catalogue said ClusterID=%d RecoverID=%d (old shard %d); key visible to a linearizable read on this node: %v", o.applied, name, o.clusterID, o.recoverID, oldID, o.seen)
		require.True(t, o.seen, "index %d was announced for the table (waiters are released) but a read on the same node does not see the content that index stands for", o.applied)
	}
}
