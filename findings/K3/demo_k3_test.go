package table

import (
	"context"
	"sync"
	"testing"
	"time"

	"github.com/jamf/regatta/regattapb"
	"github.com/jamf/regatta/storage/kv"
	"github.com/stretchr/testify/require"
)

// The node that runs Restore records the recovery shard's id in the shared catalogue
// (Table.RecoverID). Every OTHER node of the follower cluster learns about the recovery shard from
// that record: its reconciliation loop starts the shard - under the table's own name. The recovery
// shard's state machine on such a node therefore announces the stream's leader index to the
// notification queue while the catalogue, and hence every read on that node, still points to the
// old shard.
func TestDemoK3_ReconcileStartsRecoveryShardThatNotifies(t *testing.T) {
	const name = "existingTable"
	key := []byte("written-through-this-follower")
	leaderIdx := uint64(77)

	node, m := startRaftNode(t)
	defer node.Close()
	cfg := minimalTestConfig()
	var tm *Manager
	var mu sync.Mutex
	type obs struct {
		applied   uint64
		clusterID uint64
		recoverID uint64
		seen      bool
	}
	var early []obs
	cfg.Table.AppliedIndexListener = func(table string, applied uint64) {
		if table != name || tm == nil || applied != leaderIdx {
			return
		}
		at, err := tm.GetTable(name)
		if err != nil {
			return
		}
		o := obs{applied: applied, clusterID: at.ClusterID, recoverID: at.RecoverID}
		ctx, cancel := context.WithTimeout(context.Background(), 5*time.Second)
		defer cancel()
		res, err := at.Range(ctx, &regattapb.RangeRequest{Table: []byte(name), Key: key, Linearizable: true})
		o.seen = err == nil && len(res.Kvs) == 1
		mu.Lock()
		early = append(early, o)
		mu.Unlock()
	}
	tm = NewManager(node, m, &kv.MapStore{}, cfg)
	tm.Start()
	defer tm.Close()
	_, err := tm.CreateTable(name)
	require.NoError(t, err)
	tab, err := tm.GetTable(name)
	require.NoError(t, err)
	oldID := tab.ClusterID

	// what the node running Restore writes to the catalogue before it feeds the stream
	rec, ver, err := tm.getTableVersion(name)
	require.NoError(t, err)
	recoveryID, err := tm.incAndGetIDSeq()
	require.NoError(t, err)
	rec.RecoverID = recoveryID
	require.NoError(t, tm.setTableVersion(rec, ver))

	// what every other node's reconciliation loop does with that record
	require.NoError(t, tm.reconcile())
	require.NoError(t, tm.waitForLeader(recoveryID))

	// the stream's content reaches this node's replica of the recovery shard through Raft
	put := &regattapb.Command{Table: []byte(name), Type: regattapb.Command_PUT, Kv: &regattapb.KeyValue{Key: key, Value: []byte("v")}, LeaderIndex: &leaderIdx}
	b, err := put.MarshalVT()
	require.NoError(t, err)
	ctx, cancel := context.WithTimeout(context.Background(), 10*time.Second)
	defer cancel()
	_, err = tm.nh.SyncPropose(ctx, tm.nh.GetNoOPSession(recoveryID), b)
	require.NoError(t, err)

	mu.Lock()
	defer mu.Unlock()
	require.NotEmpty(t, early, "the recovery shard started by the reconciliation never announced the stream's leader index")
	for _, o := range early {
		t.Logf("announced %d for %q while the catalogue said ClusterID=%d RecoverID=%d (old shard %d); key visible to a linearizable read on this node: %v", o.applied, name, o.clusterID, o.recoverID, oldID, o.seen)
		require.True(t, o.seen, "index %d was announced for the table (waiters are released) but a read on the same node does not see the content that index stands for", o.applied)
	}
}
