package main

// Intra-procedural path engine: reachability over (block, instruction) positions with
// barrier instructions (must-pass-through, E2) and cut edges (guard entailment, E1).
// Paths over-approximate executions, so an infeasible path can only make a rule fail.

import (
	"go/constant"
	"go/token"
	"go/types"
	"sort"
	"strings"

	"golang.org/x/tools/go/ssa"
)

type Loc struct {
	B *ssa.BasicBlock
	I int
}

func locOf(in ssa.Instruction) Loc {
	b := in.Block()
	for i, x := range b.Instrs {
		if x == in {
			return Loc{b, i}
		}
	}
	return Loc{b, 0}
}

// after returns the location just behind an instruction.
func after(in ssa.Instruction) Loc {
	l := locOf(in)
	l.I++
	return l
}

func entry(fn *ssa.Function) Loc { return Loc{fn.Blocks[0], 0} }

type Walk struct {
	// Barrier stops a path at this instruction (the instruction itself is not crossed).
	Barrier func(ssa.Instruction) bool
	// Target ends the search successfully (checked before Barrier).
	Target func(ssa.Instruction) bool
	// EdgeOK says whether the edge from b to b.Succs[k] may be followed (nil = all).
	EdgeOK func(b *ssa.BasicBlock, k int) bool
	// NoRecoverBlock: do not treat fn.Recover as reachable (default: ignored anyway).
	// SeedB/SeedK: the search starts at the head of SeedB.Succs[SeedK] having come over that edge
	// (what the edge establishes about repeated conditions and phis is known at the start).
	SeedB *ssa.BasicBlock
	SeedK int
}

// Path is a witness: the blocks walked and the instruction reached.
type Path struct {
	Blocks []*ssa.BasicBlock
	Hit    ssa.Instruction
}

// Find searches a path from start to a Target instruction that crosses no Barrier and no
// forbidden edge. Returns nil if there is none. The search is path sensitive for the phis that a
// branch of the function tests (`err` merged from several places, then `if err != nil`; a result
// pointer tested for nil; a boolean flag): the value a phi took on the way is remembered, and a
// branch on it is decided when that value is a nil constant, a provably non-nil error, a freshly
// built value or a boolean constant - so that "failed, recorded the error, went on as if it had
// not" is no path.
func (wk *Walk) Find(start Loc) *Path {
	type node struct {
		b      *ssa.BasicBlock
		env    phiEnv
		lits   litEnv
		parent *node
	}
	visited := map[string]bool{}
	scan := func(b *ssa.BasicBlock, from int) (hit ssa.Instruction, blocked bool) {
		for i := from; i < len(b.Instrs); i++ {
			in := b.Instrs[i]
			if wk.Target != nil && wk.Target(in) {
				return in, false
			}
			if wk.Barrier != nil && wk.Barrier(in) {
				return nil, true
			}
		}
		return nil, false
	}
	mk := func(n *node, hit ssa.Instruction) *Path {
		var bs []*ssa.BasicBlock
		for x := n; x != nil; x = x.parent {
			bs = append([]*ssa.BasicBlock{x.b}, bs...)
		}
		return &Path{Blocks: bs, Hit: hit}
	}
	tested := testedPhis(start.B.Parent())
	rep := repeatedConds(start.B.Parent())
	root := &node{b: start.B}
	root.env = domFacts(start.B, tested)
	if wk.SeedB != nil {
		root.lits, _ = litEnv(nil).follow(wk.SeedB, wk.SeedK, rep)
		root.env = root.env.enter(wk.SeedB, start.B, tested)
	}
	hit, blocked := scan(start.B, start.I)
	if hit != nil {
		return mk(root, hit)
	}
	if blocked {
		return nil
	}
	queue := []*node{root}
	for len(queue) > 0 {
		n := queue[0]
		queue = queue[1:]
		dec := branchDecision(n.b, n.env)
		for k, s := range n.b.Succs {
			if deadEdge(n.b, k) || (dec >= 0 && k != dec) || (wk.EdgeOK != nil && !wk.EdgeOK(n.b, k)) {
				continue
			}
			lits, contradicted := n.lits.follow(n.b, k, rep)
			if contradicted {
				continue
			}
			env := n.env.enter(n.b, s, tested)
			key := itoa(s.Index) + "|" + env.key() + "|" + lits.key()
			if visited[key] {
				continue
			}
			visited[key] = true
			c := &node{b: s, env: env, lits: lits, parent: n}
			hit, blocked := scan(s, 0)
			if hit != nil {
				return mk(c, hit)
			}
			if blocked {
				continue
			}
			queue = append(queue, c)
		}
	}
	return nil
}

// ReachableInstrs returns every instruction reachable from start without crossing a barrier.
func (wk *Walk) ReachableInstrs(start Loc) []ssa.Instruction {
	var out []ssa.Instruction
	type node struct {
		b    *ssa.BasicBlock
		env  phiEnv
		lits litEnv
	}
	visited := map[string]bool{}
	emitted := map[*ssa.BasicBlock]bool{}
	scan := func(b *ssa.BasicBlock, from int) bool {
		for i := from; i < len(b.Instrs); i++ {
			in := b.Instrs[i]
			if wk.Barrier != nil && wk.Barrier(in) {
				return false
			}
			if !emitted[b] || from > 0 {
				out = append(out, in)
			}
		}
		if from == 0 {
			emitted[b] = true
		}
		return true
	}
	tested := testedPhis(start.B.Parent())
	rep := repeatedConds(start.B.Parent())
	var queue []node
	if scan(start.B, start.I) {
		n0 := node{b: start.B}
		n0.env = domFacts(start.B, tested)
		if wk.SeedB != nil {
			n0.lits, _ = litEnv(nil).follow(wk.SeedB, wk.SeedK, rep)
			n0.env = n0.env.enter(wk.SeedB, start.B, tested)
		}
		queue = append(queue, n0)
	}
	for len(queue) > 0 {
		n := queue[0]
		queue = queue[1:]
		dec := branchDecision(n.b, n.env)
		for k, s := range n.b.Succs {
			if deadEdge(n.b, k) || (dec >= 0 && k != dec) || (wk.EdgeOK != nil && !wk.EdgeOK(n.b, k)) {
				continue
			}
			lits, contradicted := n.lits.follow(n.b, k, rep)
			if contradicted {
				continue
			}
			env := n.env.enter(n.b, s, tested)
			key := itoa(s.Index) + "|" + env.key() + "|" + lits.key()
			if visited[key] {
				continue
			}
			visited[key] = true
			if scan(s, 0) {
				queue = append(queue, node{s, env, lits})
			}
		}
	}
	return out
}

// litEnv: outcomes of conditions that the function tests more than once (the same canonical
// condition over parameters and fields that the function never stores to), remembered along a
// path: the second test of `cfg.CA != ""` cannot come out the other way.
type litEnv []string // sorted "cond=T" / "cond=F"

func (e litEnv) key() string { return strings.Join(e, ";") }

func (e litEnv) follow(b *ssa.BasicBlock, k int, rep map[*ssa.BasicBlock]string) (litEnv, bool) {
	cond, ok := rep[b]
	if !ok {
		return e, false
	}
	want := cond + "=T"
	other := cond + "=F"
	if k == 1 {
		want, other = other, want
	}
	for _, x := range e {
		if x == other {
			return e, true
		}
		if x == want {
			return e, false
		}
	}
	out := append(append(litEnv(nil), e...), want)
	sort.Strings(out)
	return out, false
}

var repeatedCondsCache = map[*ssa.Function]map[*ssa.BasicBlock]string{}

// repeatedConds: blocks of fn whose branch condition (in canonical form) is tested by another
// block as well, and only mentions parameters, constants and fields fn never stores to.
func repeatedConds(fn *ssa.Function) map[*ssa.BasicBlock]string {
	if m, ok := repeatedCondsCache[fn]; ok {
		return m
	}
	out := map[*ssa.BasicBlock]string{}
	repeatedCondsCache[fn] = out
	ctx := &ExprCtx{}
	by := map[string][]*ssa.BasicBlock{}
	for _, b := range fn.Blocks {
		if len(b.Instrs) == 0 {
			continue
		}
		iff, ok := b.Instrs[len(b.Instrs)-1].(*ssa.If)
		if !ok {
			continue
		}
		if !pureCond(iff.Cond, 0) {
			continue
		}
		s := ctx.Expr(iff.Cond)
		by[s] = append(by[s], b)
	}
	// fields stored in fn (or its closures) invalidate conditions that mention them
	stored := map[string]bool{}
	for _, f := range withClosures(fn) {
		eachInstr(f, func(in ssa.Instruction) {
			if st, ok := in.(*ssa.Store); ok {
				if fa, ok := st.Addr.(*ssa.FieldAddr); ok {
					stored["."+fieldAddrName(fa)] = true
				}
			}
		})
	}
	for s, bs := range by {
		if len(bs) < 2 {
			continue
		}
		bad := false
		for f := range stored {
			if strings.Contains(s, f) {
				bad = true
			}
		}
		if bad {
			continue
		}
		for _, b := range bs {
			out[b] = s
		}
	}
	return out
}

// pureCond: the condition is built from parameters, constants, field reads, len/cap and
// comparisons - nothing whose value can differ between two evaluations in one activation.
func pureCond(v ssa.Value, d int) bool {
	if d > 8 {
		return false
	}
	switch x := v.(type) {
	case *ssa.Const, *ssa.Parameter:
		return true
	case *ssa.BinOp:
		return pureCond(x.X, d+1) && pureCond(x.Y, d+1)
	case *ssa.UnOp:
		if x.Op == token.MUL {
			// a load: of a field of a parameter / spilled parameter
			switch a := x.X.(type) {
			case *ssa.FieldAddr:
				return pureAddr(a.X, d+1)
			case *ssa.Alloc:
				sts := storesTo(a.Parent(), a)
				return len(sts) == 1 && pureCond(sts[0].Val, d+1)
			}
			return false
		}
		return pureCond(x.X, d+1)
	case *ssa.Field:
		return pureCond(x.X, d+1)
	case *ssa.Call:
		n := CalleeName(&x.Call)
		if n == "builtin.len" || n == "builtin.cap" {
			return pureCond(x.Call.Args[0], d+1)
		}
		return false
	case *ssa.Convert:
		return pureCond(x.X, d+1)
	case *ssa.ChangeType:
		return pureCond(x.X, d+1)
	}
	return false
}

func pureAddr(v ssa.Value, d int) bool {
	switch a := v.(type) {
	case *ssa.Parameter:
		return true
	case *ssa.Alloc:
		sts := storesTo(a.Parent(), a)
		if len(sts) == 1 {
			_, isP := sts[0].Val.(*ssa.Parameter)
			return isP
		}
		return false
	case *ssa.FieldAddr:
		return pureAddr(a.X, d+1)
	case *ssa.UnOp:
		if a.Op == token.MUL {
			return pureAddr(a.X, d+1)
		}
	}
	return false
}

// phiEnv: the values the tested phis took on the path walked so far (small, immutable).
type phiEnv []phiBinding

type phiBinding struct {
	phi *ssa.Phi
	val ssa.Value
}

func (e phiEnv) get(p *ssa.Phi) (ssa.Value, bool) {
	for _, b := range e {
		if b.phi == p {
			return b.val, true
		}
	}
	return nil, false
}

func (e phiEnv) key() string {
	if len(e) == 0 {
		return ""
	}
	var sb strings.Builder
	for _, b := range e {
		sb.WriteString(b.phi.Name())
		sb.WriteByte('=')
		sb.WriteString(b.val.Name())
		sb.WriteByte(';')
	}
	return sb.String()
}

// enter: the environment after following the edge pred→succ (phis of succ take their edge values;
// a value that is itself a remembered phi is looked through).
func (e phiEnv) enter(pred, succ *ssa.BasicBlock, tested map[*ssa.Phi]bool) phiEnv {
	pi := predIndex(pred, succ)
	if pi < 0 {
		return e
	}
	var out phiEnv
	changed := false
	for _, in := range succ.Instrs {
		phi, ok := in.(*ssa.Phi)
		if !ok {
			break
		}
		if !tested[phi] {
			continue
		}
		v := phi.Edges[pi]
		if p2, isPhi := v.(*ssa.Phi); isPhi {
			if v2, ok := e.get(p2); ok {
				v = v2
			}
		}
		if !changed {
			out = append(phiEnv(nil), e...)
			changed = true
		}
		set := false
		for i := range out {
			if out[i].phi == phi {
				out[i].val = v
				set = true
			}
		}
		if !set {
			out = append(out, phiBinding{phi, v})
			sort.Slice(out, func(i, j int) bool { return out[i].phi.Name() < out[j].phi.Name() })
		}
	}
	if !changed {
		return e
	}
	return out
}

// domFacts: what the branches that dominate the start block say about tested phis - a walk that
// starts inside `if !last { … }` knows that the flag was false when it got there. The binding is
// that of the last crossing of the dominating edge (the phi's block cannot be re-entered between
// that crossing and the start without crossing the edge again), and it is replaced as soon as the
// walk re-enters the phi's block.
func domFacts(b *ssa.BasicBlock, tested map[*ssa.Phi]bool) phiEnv {
	var out phiEnv
	for d := b; d != nil && d.Idom() != nil; d = d.Idom() {
		id := d.Idom()
		if len(id.Instrs) == 0 {
			continue
		}
		iff, ok := id.Instrs[len(id.Instrs)-1].(*ssa.If)
		if !ok || len(id.Succs) != 2 {
			continue
		}
		k := -1
		for i, s := range id.Succs {
			if len(s.Preds) == 1 && (s == b || s.Dominates(b)) {
				if k >= 0 {
					k = -2
				} else {
					k = i
				}
			}
		}
		if k < 0 {
			continue
		}
		phi, nilOp, neg := condPhi(iff.Cond)
		if phi == nil || !tested[phi] {
			continue
		}
		if _, have := out.get(phi); have {
			continue // the nearest dominating test wins
		}
		truth := k == 0 // the condition held on this edge
		if neg {
			truth = !truth
		}
		var val ssa.Value
		if nilOp == token.ILLEGAL {
			val = ssa.NewConst(constant.MakeBool(truth), phi.Type())
		} else if (nilOp == token.EQL) == truth {
			val = ssa.NewConst(nil, phi.Type()) // known nil
		} else {
			continue // known non-nil: no value to stand for it
		}
		out = append(out, phiBinding{phi, val})
	}
	sort.Slice(out, func(i, j int) bool { return out[i].phi.Name() < out[j].phi.Name() })
	return out
}

var testedPhisCache = map[*ssa.Function]map[*ssa.Phi]bool{}

// testedPhis: the phis of fn that some branch tests (against nil, or as a boolean).
func testedPhis(fn *ssa.Function) map[*ssa.Phi]bool {
	if m, ok := testedPhisCache[fn]; ok {
		return m
	}
	m := map[*ssa.Phi]bool{}
	for _, b := range fn.Blocks {
		if len(b.Instrs) == 0 {
			continue
		}
		iff, ok := b.Instrs[len(b.Instrs)-1].(*ssa.If)
		if !ok {
			continue
		}
		if phi, _, _ := condPhi(iff.Cond); phi != nil {
			m[phi] = true
			// phis feeding it
			for _, e := range phi.Edges {
				if p2, ok := e.(*ssa.Phi); ok {
					m[p2] = true
				}
			}
		}
	}
	testedPhisCache[fn] = m
	return m
}

// condPhi decomposes a condition that tests a phi: returns the phi, whether the test is a nil
// test (and its operator), and whether the condition is negated.
func condPhi(cond ssa.Value) (phi *ssa.Phi, nilOp token.Token, neg bool) {
	for {
		u, isU := cond.(*ssa.UnOp)
		if !isU || u.Op != token.NOT {
			break
		}
		cond, neg = u.X, !neg
	}
	switch x := cond.(type) {
	case *ssa.Phi:
		if b, ok := x.Type().Underlying().(*types.Basic); ok && b.Kind() == types.Bool && x.Comment != "&&" && x.Comment != "||" {
			return x, token.ILLEGAL, neg
		}
	case *ssa.BinOp:
		if x.Op != token.EQL && x.Op != token.NEQ {
			return nil, token.ILLEGAL, false
		}
		v := x.X
		if isNilConst(x.X) {
			v = x.Y
		} else if !isNilConst(x.Y) {
			return nil, token.ILLEGAL, false
		}
		if p, ok := v.(*ssa.Phi); ok {
			return p, x.Op, neg
		}
	}
	return nil, token.ILLEGAL, false
}

// branchDecision: which successor of b is feasible given the remembered phi values
// (0: the true successor only, 1: the false successor only, -1: both).
func branchDecision(b *ssa.BasicBlock, env phiEnv) int {
	if len(env) == 0 || len(b.Instrs) == 0 {
		return -1
	}
	iff, ok := b.Instrs[len(b.Instrs)-1].(*ssa.If)
	if !ok {
		return -1
	}
	phi, nilOp, neg := condPhi(iff.Cond)
	if phi == nil {
		return -1
	}
	v, ok := env.get(phi)
	if !ok {
		return -1
	}
	truth := 0 // 1 true, 2 false
	if nilOp == token.ILLEGAL {
		c, isC := v.(*ssa.Const)
		if !isC || c.Value == nil || c.Value.Kind() != constant.Bool {
			return -1
		}
		if constant.BoolVal(c.Value) {
			truth = 1
		} else {
			truth = 2
		}
	} else {
		isNil := 0 // 1 nil, 2 non-nil
		at := phi.Block()
		if in, ok := v.(ssa.Instruction); ok && in.Block() != nil {
			at = in.Block()
		}
		switch {
		case isNilConst(v):
			isNil = 1
		case isErrorType(v.Type()) && provablyNonNilErrorAfter(v):
			isNil = 2
		case freshNonNil(v, 0):
			isNil = 2
		}
		_ = at
		if isNil == 0 {
			return -1
		}
		if (nilOp == token.EQL) == (isNil == 1) {
			truth = 1
		} else {
			truth = 2
		}
	}
	if neg {
		truth = 3 - truth
	}
	if truth == 1 {
		return 0
	}
	return 1
}

// provablyNonNilErrorAfter: an error value that reaches a phi only over an edge on which it was
// found non-nil: it is built non-nil, or every use of it as a phi operand comes from a block
// dominated by the `v != nil` edge.
func provablyNonNilErrorAfter(v ssa.Value) bool {
	if provablyNonNilError(v, nil, 0) {
		return true
	}
	refs := v.Referrers()
	if refs == nil {
		return false
	}
	n := 0
	for _, r := range *refs {
		phi, ok := r.(*ssa.Phi)
		if !ok {
			continue
		}
		for i, e := range phi.Edges {
			if e == v {
				n++
				if !dominatedByNonNil(v, phi.Block().Preds[i]) {
					return false
				}
			}
		}
	}
	return n > 0
}

// edgeDecision: entering b from pred decides b's branch (0: true successor only, 1: false
// successor only, -1: undecided). Recognised: `if phi != nil` / `== nil` / `if phi` / `if !phi`
// with phi defined in b and the value arriving from pred a nil constant, a provably non-nil
// error, or a boolean constant.
func edgeDecision(pred, b *ssa.BasicBlock) int {
	if len(b.Instrs) == 0 || len(b.Preds) < 2 {
		return -1
	}
	iff, ok := b.Instrs[len(b.Instrs)-1].(*ssa.If)
	if !ok {
		return -1
	}
	cond := iff.Cond
	neg := false
	for {
		u, isU := cond.(*ssa.UnOp)
		if !isU || u.Op != token.NOT {
			break
		}
		cond, neg = u.X, !neg
	}
	pi := predIndex(pred, b)
	if pi < 0 {
		return -1
	}
	truth := 0 // 1 true, 2 false
	switch x := cond.(type) {
	case *ssa.Phi:
		if x.Block() != b {
			return -1
		}
		c, isC := x.Edges[pi].(*ssa.Const)
		if !isC || c.Value == nil || c.Value.Kind() != constant.Bool {
			return -1
		}
		if constant.BoolVal(c.Value) {
			truth = 1
		} else {
			truth = 2
		}
	case *ssa.BinOp:
		if x.Op != token.EQL && x.Op != token.NEQ {
			return -1
		}
		v := x.X
		if isNilConst(x.X) {
			v = x.Y
		} else if !isNilConst(x.Y) {
			return -1
		}
		phi, isPhi := v.(*ssa.Phi)
		if !isPhi || phi.Block() != b {
			return -1
		}
		e := phi.Edges[pi]
		isNil := 0 // 1 nil, 2 non-nil
		if isNilConst(e) {
			isNil = 1
		} else if isErrorType(e.Type()) && provablyNonNilError(e, pred, 0) {
			isNil = 2
		} else if dominatedByNonNil(e, pred) {
			isNil = 2
		} else if freshNonNil(e, 0) {
			isNil = 2
		}
		if isNil == 0 {
			return -1
		}
		// cond is (v == nil) or (v != nil)
		if (x.Op == token.EQL) == (isNil == 1) {
			truth = 1
		} else {
			truth = 2
		}
	default:
		return -1
	}
	if neg {
		truth = 3 - truth
	}
	if truth == 1 {
		return 0
	}
	return 1
}

func (w *World) PathString(p *Path) []string {
	var out []string
	last := ""
	for _, b := range p.Blocks {
		s := w.Pos(blockPos(b))
		if s != last {
			out = append(out, s)
			last = s
		}
	}
	if p.Hit != nil {
		out = append(out, "-> "+w.Pos(instrPos(p.Hit))+" "+p.Hit.String())
	}
	return out
}

// ---------- classification of returns ----------

// errorResultIndex returns the index of the (last) result of type error, or -1.
func errorResultIndex(fn *ssa.Function) int {
	res := fn.Signature.Results()
	for i := res.Len() - 1; i >= 0; i-- {
		if isErrorType(res.At(i).Type()) {
			return i
		}
	}
	return -1
}

// isErrorReturn: the return provably carries a non-nil error. Everything else is a possible
// success return.
func isErrorReturn(ret *ssa.Return) bool {
	fn := ret.Parent()
	ei := errorResultIndex(fn)
	if ei < 0 || ei >= len(ret.Results) {
		return false
	}
	return provablyNonNilError(retVal(ret, ei), ret.Block(), 0)
}

// retVal returns the i-th returned value, looking through the result spill that go/ssa
// introduces in functions with defers (`*res = v; rundefers; t = *res; return t`).
func retVal(ret *ssa.Return, i int) ssa.Value {
	v := ret.Results[i]
	u, ok := v.(*ssa.UnOp)
	if !ok {
		return v
	}
	al, ok := u.X.(*ssa.Alloc)
	if !ok {
		return v
	}
	b := ret.Block()
	for j := len(b.Instrs) - 1; j >= 0; j-- {
		if st, ok := b.Instrs[j].(*ssa.Store); ok && st.Addr == ssa.Value(al) {
			return st.Val
		}
	}
	return v
}

func provablyNonNilError(v ssa.Value, at *ssa.BasicBlock, depth int) bool {
	if depth > 6 {
		return false
	}
	switch x := v.(type) {
	case *ssa.Const:
		return false
	case *ssa.MakeInterface:
		return true // a concrete error value boxed into the interface
	case *ssa.Call:
		switch CalleeName(&x.Call) {
		case "errors.New", "fmt.Errorf", "google.golang.org/grpc/status.Error", "google.golang.org/grpc/status.Errorf",
			"errors.Join", "github.com/cockroachdb/errors.New", "github.com/cockroachdb/errors.Errorf":
			return true
		}
		// a module helper that maps an error (`return nil, toStatus(err)`): non-nil if every
		// return of the helper is - where a return of its own parameter counts when the argument
		// is non-nil here, and returns under `param == nil` are infeasible for a non-nil argument
		if cal := StaticCallee(&x.Call); cal != nil && cal.Blocks != nil && inModule(cal) && !x.Call.IsInvoke() {
			ei := errorResultIndex(cal)
			if ei < 0 || cal.Signature.Results().Len() != 1 {
				break
			}
			argNonNil := func(p *ssa.Parameter) bool {
				for i, q := range cal.Params {
					if q == p && i < len(x.Call.Args) {
						return provablyNonNilError(x.Call.Args[i], at, depth+1)
					}
				}
				return false
			}
			all, n := true, 0
			eachInstr(cal, func(in ssa.Instruction) {
				ret, ok := in.(*ssa.Return)
				if !ok || !all {
					return
				}
				n++
				rv := retVal(ret, ei)
				if provablyNonNilError(rv, ret.Block(), depth+1) {
					return
				}
				if p, isP := rv.(*ssa.Parameter); isP && argNonNil(p) {
					return
				}
				// `if err == nil { return nil }` with a non-nil argument: infeasible
				for _, q := range cal.Params {
					if isErrorType(q.Type()) && dominatedByNil(q, ret.Block()) && argNonNil(q) {
						return
					}
				}
				all = false
			})
			if all && n > 0 {
				return true
			}
		}
	case *ssa.UnOp:
		// load of a package-level Err… variable
		if g, ok := x.X.(*ssa.Global); ok && isErrorType(deref(g.Type())) {
			return true
		}
	case *ssa.Phi:
		all := len(x.Edges) > 0
		for i, e := range x.Edges {
			// each edge's value is judged where it comes from
			from := at
			if i < len(x.Block().Preds) {
				from = x.Block().Preds[i]
			}
			if !provablyNonNilError(e, from, depth+1) {
				all = false
				break
			}
		}
		if all {
			return true
		}
		// otherwise the merged value may still be guarded by `v != nil` on the way to `at`
	}
	// guarded by `v != nil` on every way into the block
	return dominatedByNonNil(v, at)
}

// dominatedByNonNil: block `at` is dominated by the true edge of `v != nil` (or false edge of `v == nil`).
func dominatedByNonNil(v ssa.Value, at *ssa.BasicBlock) bool {
	for b := at; b != nil; b = b.Idom() {
		id := b.Idom()
		if id == nil {
			break
		}
		iff, ok := id.Instrs[len(id.Instrs)-1].(*ssa.If)
		if !ok {
			continue
		}
		bin, ok := iff.Cond.(*ssa.BinOp)
		if !ok {
			continue
		}
		var other ssa.Value
		if bin.X == v {
			other = bin.Y
		} else if bin.Y == v {
			other = bin.X
		} else {
			continue
		}
		if !isNilConst(other) {
			continue
		}
		// which successor dominates `at` exclusively?
		tEdge, fEdge := id.Succs[0], id.Succs[1]
		viaTrue := tEdge.Dominates(at) && len(tEdge.Preds) == 1
		viaFalse := fEdge.Dominates(at) && len(fEdge.Preds) == 1
		if bin.Op.String() == "!=" && viaTrue {
			return true
		}
		if bin.Op.String() == "==" && viaFalse {
			return true
		}
	}
	return false
}

// dominatedByNil: block `at` is dominated by the true edge of `v == nil` (or the false edge of `v != nil`).
func dominatedByNil(v ssa.Value, at *ssa.BasicBlock) bool {
	for b := at; b != nil; b = b.Idom() {
		id := b.Idom()
		if id == nil {
			break
		}
		iff, ok := id.Instrs[len(id.Instrs)-1].(*ssa.If)
		if !ok {
			continue
		}
		bin, ok := iff.Cond.(*ssa.BinOp)
		if !ok {
			continue
		}
		var other ssa.Value
		if bin.X == v {
			other = bin.Y
		} else if bin.Y == v {
			other = bin.X
		} else {
			continue
		}
		if !isNilConst(other) {
			continue
		}
		tEdge, fEdge := id.Succs[0], id.Succs[1]
		viaTrue := tEdge.Dominates(at) && len(tEdge.Preds) == 1
		viaFalse := fEdge.Dominates(at) && len(fEdge.Preds) == 1
		if bin.Op.String() == "==" && viaTrue {
			return true
		}
		if bin.Op.String() == "!=" && viaFalse {
			return true
		}
	}
	return false
}

func isSuccessReturn(in ssa.Instruction) bool {
	r, ok := in.(*ssa.Return)
	return ok && !isErrorReturn(r)
}

func isAnyReturn(in ssa.Instruction) bool {
	_, ok := in.(*ssa.Return)
	return ok
}

// isPanicInstr: an explicit panic terminates the path.
func isPanicInstr(in ssa.Instruction) bool {
	_, ok := in.(*ssa.Panic)
	return ok
}

// ---------- must-perform summaries (wrappers) ----------

// MustPerform reports whether every possible success path of fn crosses an instruction
// matching m, where calls to module functions that themselves must perform m count too
// (bounded depth; recursion ⇒ false).
func MustPerform(fn *ssa.Function, m func(ssa.Instruction) bool, depth int) bool {
	return mustPerform(fn, m, depth, map[*ssa.Function]bool{})
}

func mustPerform(fn *ssa.Function, m func(ssa.Instruction) bool, depth int, stack map[*ssa.Function]bool) bool {
	if fn == nil || fn.Blocks == nil || stack[fn] {
		return false
	}
	stack[fn] = true
	defer delete(stack, fn)
	bar := func(in ssa.Instruction) bool {
		if m(in) {
			return true
		}
		if depth > 0 {
			if c := plainCall(in); c != nil {
				if cal := StaticCallee(c); cal != nil && inModule(cal) && cal.Blocks != nil {
					return mustPerform(cal, m, depth-1, stack)
				}
			}
		}
		return false
	}
	wk := &Walk{Barrier: bar, Target: isSuccessReturn}
	return wk.Find(entry(fn)) == nil
}

// MayPerform: some instruction matching m is reachable from fn through static module calls
// (closures created in the function included).
func MayPerform(fn *ssa.Function, m func(ssa.Instruction) bool, depth int) ssa.Instruction {
	seen := map[*ssa.Function]bool{}
	var rec func(f *ssa.Function, d int) ssa.Instruction
	rec = func(f *ssa.Function, d int) ssa.Instruction {
		if f == nil || f.Blocks == nil || seen[f] {
			return nil
		}
		seen[f] = true
		for _, g := range withClosures(f) {
			for _, b := range g.Blocks {
				for _, in := range b.Instrs {
					if m(in) {
						return in
					}
					if d > 0 {
						if c := callOf(in); c != nil {
							if cal := StaticCallee(c); cal != nil && inModule(cal) {
								if r := rec(cal, d-1); r != nil {
									return r
								}
							}
						}
					}
				}
			}
		}
		return nil
	}
	return rec(fn, depth)
}

// resultTypeIs: the function's i-th result has the named type.
func resultNamed(fn *ssa.Function, i int) *types.Named {
	if fn.Signature.Results().Len() <= i {
		return nil
	}
	n, _ := deref(fn.Signature.Results().At(i).Type()).(*types.Named)
	return n
}

// deadEdge: the edge leaves an If whose condition is a compile-time constant (e.g.
// runtime.GOOS == "windows" on this platform) on the side that is never taken.
func deadEdge(b *ssa.BasicBlock, k int) bool {
	if len(b.Instrs) == 0 {
		return false
	}
	iff, ok := b.Instrs[len(b.Instrs)-1].(*ssa.If)
	if !ok {
		return false
	}
	c, ok := iff.Cond.(*ssa.Const)
	if !ok || c.Value == nil {
		return false
	}
	v := constant.BoolVal(c.Value)
	return (k == 0 && !v) || (k == 1 && v)
}

// edgeOnlyUnder: the control-flow edge pred→succ is taken only when lit holds: either the edge
// itself establishes lit, or every path from the function's entry to pred crosses an edge that does.
func edgeOnlyUnder(ctx *ExprCtx, pred, succ *ssa.BasicBlock, lit Lit) bool {
	implies := func(b *ssa.BasicBlock, k int) bool {
		for _, l := range ctx.EdgeLits(b, k) {
			if l.Implies(lit) {
				return true
			}
		}
		return false
	}
	direct := true
	n := 0
	for k, s := range pred.Succs {
		if s == succ && !deadEdge(pred, k) {
			n++
			if !implies(pred, k) {
				direct = false
			}
		}
	}
	if n > 0 && direct {
		return true
	}
	if len(pred.Instrs) == 0 {
		return false
	}
	first := pred.Instrs[0]
	wk := &Walk{Target: func(in ssa.Instruction) bool { return in == first }, EdgeOK: func(b *ssa.BasicBlock, k int) bool { return !implies(b, k) }}
	return wk.Find(entry(pred.Parent())) == nil
}

// closureActivations: for a closure created in its parent by mc, the places where the parent may
// run it: direct calls of mc, and phis it flows into that are called (with the delivering edge).
// ok is false when the closure value escapes in a way that is not resolved (stored, passed on).
type closureUse struct {
	Call ssa.CallInstruction // direct call (Pred == nil) or the call of the phi
	Pred *ssa.BasicBlock     // for a phi: the predecessor block that delivers this closure
	Phi  *ssa.Phi
}

func closureActivations(mc *ssa.MakeClosure) (uses []closureUse, ok bool) {
	ok = true
	if mc.Referrers() == nil {
		return nil, false
	}
	for _, ref := range *mc.Referrers() {
		switch x := ref.(type) {
		case ssa.CallInstruction:
			if x.Common().Value == mc {
				uses = append(uses, closureUse{Call: x})
			} else {
				ok = false
			}
		case *ssa.Phi:
			called := false
			if x.Referrers() != nil {
				for _, r2 := range *x.Referrers() {
					if ci, isC := r2.(ssa.CallInstruction); isC && ci.Common().Value == x {
						called = true
						for i, e := range x.Edges {
							if e == mc {
								uses = append(uses, closureUse{Call: ci, Pred: x.Block().Preds[i], Phi: x})
							}
						}
					} else if _, isDbg := r2.(*ssa.DebugRef); !isDbg {
						ok = false
					}
				}
			}
			if !called {
				ok = false
			}
		case *ssa.DebugRef:
		default:
			ok = false
		}
	}
	return uses, ok
}

// makeClosureOf finds the instruction in fn's parent that creates the closure fn.
func makeClosureOf(fn *ssa.Function) *ssa.MakeClosure {
	if fn.Parent() == nil {
		return nil
	}
	var out *ssa.MakeClosure
	eachInstr(fn.Parent(), func(in ssa.Instruction) {
		if mc, ok := in.(*ssa.MakeClosure); ok && mc.Fn == fn {
			out = mc
		}
	})
	return out
}

// enumPaths lists the acyclic block paths from `from` to blocks without successors (bounded).
func enumPaths(from *ssa.BasicBlock, max int) [][]*ssa.BasicBlock {
	var out [][]*ssa.BasicBlock
	on := map[*ssa.BasicBlock]bool{}
	var cur []*ssa.BasicBlock
	var dfs func(b *ssa.BasicBlock)
	dfs = func(b *ssa.BasicBlock) {
		if len(out) >= max || on[b] {
			return
		}
		on[b] = true
		cur = append(cur, b)
		if len(b.Succs) == 0 {
			out = append(out, append([]*ssa.BasicBlock(nil), cur...))
		}
		for k, s := range b.Succs {
			if !deadEdge(b, k) {
				dfs(s)
			}
		}
		cur = cur[:len(cur)-1]
		on[b] = false
	}
	dfs(from)
	return out
}

// resolveAlong resolves phis of v along a concrete block path (path[pos] is where v is used).
func resolveAlong(v ssa.Value, path []*ssa.BasicBlock, pos int) ssa.Value {
	for depth := 0; depth < 16; depth++ {
		phi, ok := v.(*ssa.Phi)
		if !ok {
			return v
		}
		i := -1
		for j := pos; j >= 0; j-- {
			if path[j] == phi.Block() {
				i = j
				break
			}
		}
		if i <= 0 {
			return v
		}
		pi := predIndex(path[i-1], phi.Block())
		if pi < 0 {
			return v
		}
		v, pos = phi.Edges[pi], i-1
	}
	return v
}

// freshNonNil: the value is a freshly built, hence non-nil, pointer / slice / map / closure /
// boxed value - directly or as the result of a module function all of whose returns are.
func freshNonNil(v ssa.Value, depth int) bool {
	if depth > 3 {
		return false
	}
	switch x := v.(type) {
	case *ssa.Alloc, *ssa.MakeInterface, *ssa.MakeClosure, *ssa.MakeMap, *ssa.MakeChan, *ssa.MakeSlice, *ssa.FieldAddr, *ssa.IndexAddr, *ssa.Function:
		return true
	case *ssa.ChangeType:
		return freshNonNil(x.X, depth+1)
	case *ssa.Phi:
		for _, e := range x.Edges {
			if !freshNonNil(e, depth+1) {
				return false
			}
		}
		return len(x.Edges) > 0
	case *ssa.Call:
		cal := StaticCallee(&x.Call)
		if cal == nil || cal.Blocks == nil || !inModule(cal) || cal.Signature.Results().Len() != 1 {
			return false
		}
		// a wrapper that switches on the dynamic type of its (single interface) argument, called
		// with a value of known type: follow the arm that type selects
		if len(x.Call.Args) == 1 && len(cal.Params) == 1 {
			if mi, ok := x.Call.Args[0].(*ssa.MakeInterface); ok {
				if r := returnForDynType(cal, mi.X.Type()); r != nil {
					return freshNonNil(r, depth+1)
				}
			}
		}
		all, n := true, 0
		eachInstr(cal, func(in ssa.Instruction) {
			if ret, ok := in.(*ssa.Return); ok {
				n++
				if !freshNonNil(retVal(ret, 0), depth+1) {
					all = false
				}
			}
		})
		return all && n > 0
	}
	return false
}

// returnForDynType: the value fn returns when its interface parameter holds a value of type t,
// if fn only branches on comma-ok type assertions of that parameter on the way (nil otherwise).
func returnForDynType(fn *ssa.Function, t types.Type) ssa.Value {
	b := fn.Blocks[0]
	for steps := 0; steps < 64; steps++ {
		last := b.Instrs[len(b.Instrs)-1]
		switch x := last.(type) {
		case *ssa.Return:
			if len(x.Results) != 1 {
				return nil
			}
			return retVal(x, 0)
		case *ssa.Jump:
			b = b.Succs[0]
		case *ssa.If:
			ex, ok := x.Cond.(*ssa.Extract)
			if !ok || ex.Index != 1 {
				return nil
			}
			ta, ok := ex.Tuple.(*ssa.TypeAssert)
			if !ok || !ta.CommaOk || ta.X != ssa.Value(fn.Params[0]) {
				return nil
			}
			if types.Identical(ta.AssertedType, t) {
				b = b.Succs[0]
			} else if _, isIface := ta.AssertedType.Underlying().(*types.Interface); isIface {
				return nil
			} else {
				b = b.Succs[1]
			}
		default:
			return nil
		}
	}
	return nil
}

// enumPathsTo lists the acyclic block paths from `from` to `to` (bounded).
func enumPathsTo(from, to *ssa.BasicBlock, max int) [][]*ssa.BasicBlock {
	var out [][]*ssa.BasicBlock
	on := map[*ssa.BasicBlock]bool{}
	var cur []*ssa.BasicBlock
	var dfs func(b *ssa.BasicBlock)
	dfs = func(b *ssa.BasicBlock) {
		if len(out) >= max || on[b] {
			return
		}
		on[b] = true
		cur = append(cur, b)
		if b == to {
			out = append(out, append([]*ssa.BasicBlock(nil), cur...))
		} else {
			for k, s := range b.Succs {
				if !deadEdge(b, k) {
					dfs(s)
				}
			}
		}
		cur = cur[:len(cur)-1]
		on[b] = false
	}
	dfs(from)
	return out
}

// pathFeasible: the block path takes no branch that the remembered phi values decide otherwise.
func pathFeasible(path []*ssa.BasicBlock) bool {
	if len(path) == 0 {
		return true
	}
	tested := testedPhis(path[0].Parent())
	var env phiEnv
	for i := 0; i+1 < len(path); i++ {
		b, next := path[i], path[i+1]
		if dec := branchDecision(b, env); dec >= 0 && dec < len(b.Succs) && b.Succs[dec] != next {
			return false
		}
		env = env.enter(b, next, tested)
	}
	return true
}
