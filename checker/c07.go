package main

// C07 — restoring a table stream reproduces exactly the content that was captured.

import (
	"go/token"
	"go/types"
	"strings"

	"golang.org/x/tools/go/ssa"
)

func init() {
	register("C07", "restoring a table stream reproduces the captured content", checkC07)
}

func isSyncProposeCall(in ssa.Instruction) bool {
	c := callOf(in)
	if c == nil {
		return false
	}
	if c.IsInvoke() {
		return c.Method.Name() == "SyncPropose"
	}
	return strings.HasSuffix(CalleeName(c), ".SyncPropose")
}

// stepFuncs: the module functions a call may run synchronously as part of its own step: closures
// passed as arguments (retry helpers), the statically resolved module callee, and theirs (bounded).
func stepFuncs(in ssa.Instruction, depth int, seen map[*ssa.Function]bool) []*ssa.Function {
	c := plainCall(in)
	if c == nil || depth > 3 {
		return nil
	}
	var out []*ssa.Function
	add := func(f *ssa.Function) {
		if f == nil || f.Blocks == nil || seen[f] || !inModule(f) {
			return
		}
		seen[f] = true
		out = append(out, f)
		eachInstr(f, func(x ssa.Instruction) {
			out = append(out, stepFuncs(x, depth+1, seen)...)
		})
	}
	for _, a := range c.Args {
		v := a
		if ct, ok := v.(*ssa.ChangeType); ok {
			v = ct.X
		}
		if mc, ok := v.(*ssa.MakeClosure); ok {
			if f, ok := mc.Fn.(*ssa.Function); ok {
				add(f)
			}
		}
	}
	if cal := StaticCallee(c); cal != nil && !isGenerated(cal) {
		add(cal)
	}
	return out
}

// isProposeStep: a call that proposes - SyncPropose itself, a retry helper given a closure that
// proposes, or a module helper that does either.
func isProposeStep(in ssa.Instruction) bool {
	if isSyncProposeCall(in) {
		return true
	}
	for _, f := range stepFuncs(in, 0, map[*ssa.Function]bool{}) {
		found := false
		eachInstr(f, func(x ssa.Instruction) {
			if isSyncProposeCall(x) {
				found = true
			}
		})
		if found {
			return true
		}
	}
	return false
}

func checkC07(w *World, r *Report) {
	r.Decides = "C07 is decided in its structural part only: (a) in the restore loader every decoded record that carries a pair is appended to the pending batch before the next read or the next proposal, the batch is cleared only after it was marshalled, every success return is preceded by a proposal after the last append, a failed proposal returns its error, and the proposal sends the marshalled batch; (b) the table image is read from one Pebble snapshot: the state machine hands NewSnapshot() to the dump, which reads index and pairs from that one reader; (c) the leader stream appends a terminator carrying the dump's index after the dump and before the file is synced, rewound and copied out, and the loader forwards the record's leader index into the batch it proposes and clears it only after marshalling; (d) the dump writes a pair exactly when its key is a user key and every user pair of the unfiltered iterator reaches the writer; (e) Restore switches the catalogue to the freshly numbered shard only after the load succeeded; (f) the backup client opens the restore stream only on the checksum-equal edge, with the hash reset and fed the whole file per table, and records the checksum of the bytes it wrote. (g) the maintenance RPCs acknowledge a restore only after the Tables service loaded the stream and rewind their spool files."
	r.NotDecided = []string{"equality of restored and captured contents at value level", "interplay of chunk sizes and buffer sizes (framing is C18)", "that nothing of the old content survives beyond the directory switch (C14.c)"}
	r.Assume = []string{"io.Reader contract of the snapshot file (one record per Read)", "Pebble snapshots are point-in-time"}
	c07Loader(w, r, "C07.a", "a-no-record-lost")
	c07PointInTime(w, r, "C07.b", "b-point-in-time")
	c07Terminator(w, r, "C07.c", "c-index-travels")
	c07UserPairs(w, r, "C07.d", "d-only-and-all-user-pairs")
	c07Switch(w, r, "C07.e", "e-switch-after-load")
	c07Checksum(w, r)
	c07RPC(w, r)
}

// c07RPC: the maintenance RPCs around the table stream do every step of their pipeline.
func c07RPC(w *World, r *Report) {
	ob := r.Ob("C07.g", "g-maintenance-rpc-pipeline", "BackupServer.Restore: no acknowledgement (SendAndClose) and no nil return is reachable from the entry without crossing the Tables service's Restore call, and between the copy of the upload into the spool file and that call the file is rewound (Seek(0, io.SeekStart)); BackupServer.Backup: between the table's Snapshot into the spool file and the copy out to the stream the file is rewound", "a restore that is acknowledged without the stream having been loaded leaves the old content in place behind a success; a spool file that is not rewound is read from its end: nothing is restored / an empty backup is delivered")
	isSeekStart := func(in ssa.Instruction) bool {
		c := callOf(in)
		if c == nil {
			return false
		}
		n := CalleeName(c)
		if !strings.HasSuffix(n, ".Seek") {
			return false
		}
		args := c.Args
		if !c.IsInvoke() {
			args = args[1:]
		}
		if len(args) != 2 {
			return false
		}
		off, ok1 := constInt(args[0])
		wh, ok2 := constInt(args[1])
		return ok1 && ok2 && off == 0 && wh == 0
	}
	isCopy := func(in ssa.Instruction) bool {
		c := plainCall(in)
		return c != nil && (CalleeName(c) == "io.Copy" || CalleeName(c) == "io.CopyBuffer" || CalleeName(c) == "io.CopyN")
	}
	if fn := w.Func("regattaserver", "BackupServer.Restore"); fn != nil {
		isLoad := func(in ssa.Instruction) bool {
			c := callOf(in)
			return c != nil && c.IsInvoke() && c.Method.Name() == "Restore"
		}
		var load, cp ssa.Instruction
		eachInstr(fn, func(in ssa.Instruction) {
			if isLoad(in) {
				load = in
			}
			if isCopy(in) {
				cp = in
			}
		})
		if load == nil || cp == nil {
			ob.Violate("restore-rpc-shape", fn.Pos(), "BackupServer.Restore no longer spools the upload with io.Copy and hands it to the Tables service's Restore")
		} else {
			ob.Site(load.Pos(), "restore RPC loads the spooled stream")
			isAck := func(in ssa.Instruction) bool {
				if c := callOf(in); c != nil && c.IsInvoke() && c.Method.Name() == "SendAndClose" {
					return true
				}
				return isSuccessReturn(in)
			}
			if p := (&Walk{Barrier: isLoad, Target: isAck}).Find(entry(fn)); p != nil {
				ob.Violate("restore-acknowledged-without-load", instrPos(p.Hit), "BackupServer.Restore can acknowledge (or return nil) without having called the Tables service's Restore: the table keeps its old content behind a success", w.PathString(p)...)
			}
			if p := (&Walk{Barrier: isSeekStart, Target: func(x ssa.Instruction) bool { return x == load }}).Find(after(cp)); p != nil {
				ob.Violate("restore-spool-not-rewound", load.Pos(), "the spool file is handed to Restore without having been rewound after the upload was copied into it", w.PathString(p)...)
			}
		}
	} else {
		ob.Undecided("anchor/restore", "BackupServer.Restore not found")
	}
	if fn := w.Func("regattaserver", "BackupServer.Backup"); fn != nil {
		var snap, cp ssa.Instruction
		eachInstr(fn, func(in ssa.Instruction) {
			if c := callOf(in); c != nil && ((c.IsInvoke() && c.Method.Name() == "Snapshot") || strings.HasSuffix(CalleeName(c), ".Snapshot")) {
				snap = in
			}
			if isCopy(in) {
				cp = in
			}
		})
		if snap == nil || cp == nil {
			ob.Violate("backup-rpc-shape", fn.Pos(), "BackupServer.Backup no longer spools the table's Snapshot and copies it to the stream")
		} else {
			ob.Site(snap.Pos(), "backup RPC spools the table stream")
			if p := (&Walk{Barrier: isSeekStart, Target: func(x ssa.Instruction) bool { return x == cp }}).Find(after(snap)); p != nil {
				ob.Violate("backup-spool-not-rewound", cp.Pos(), "the spool file is copied to the stream without having been rewound after the snapshot was written into it", w.PathString(p)...)
			}
			// the copy to the stream is crossed before a nil return
			if p := (&Walk{Barrier: func(x ssa.Instruction) bool { return x == cp }, Target: isSuccessReturn}).Find(after(snap)); p != nil {
				ob.Violate("backup-not-sent", instrPos(p.Hit), "BackupServer.Backup can return nil without having copied the spooled stream to the client", w.PathString(p)...)
			}
		}
	} else {
		ob.Undecided("anchor/backup", "BackupServer.Backup not found")
	}
	ob.NeedFloor(2)
}

func c07Loader(w *World, r *Report, id, slug string) {
	ob := r.Ob(id, slug, "restore loader: from the success edge of the record decode, the next Read and the batch marshal are unreachable without crossing append(batch, record.Kv) except over the edge record.Kv == nil; the batch slice is truncated only after MarshalVT of the batch; from the last append no success return is reachable without a proposal; the retry helper's error edge returns; the proposed bytes are the marshalled batch", "a record that is decoded but not appended is silently missing from the restored table (the record on each batch threshold; every record when the in-memory log size is 0)")
	fn := w.Func("storage/table", "Manager.readIntoTable")
	if fn == nil {
		// fallback by role: Manager method that calls io.Reader.Read and proposes in one loop
		if nt := w.NamedType("storage/table", "Manager"); nt != nil {
			ms := w.Prog.MethodSets.MethodSet(types.NewPointer(nt))
			for i := 0; i < ms.Len(); i++ {
				f := w.MethodOf(types.NewPointer(nt), ms.At(i).Obj().Name())
				if f == nil || f.Blocks == nil {
					continue
				}
				hasRead, hasProp := false, false
				eachInstr(f, func(in ssa.Instruction) {
					if c := plainCall(in); c != nil && c.IsInvoke() && c.Method.Name() == "Read" && inCycle(in.Block()) {
						hasRead = true
					}
					if isProposeStep(in) && inCycle(in.Block()) {
						hasProp = true
					}
				})
				if hasRead && hasProp {
					fn = f
				}
			}
		}
	}
	if fn == nil {
		ob.Undecided("anchor", "restore loader not found")
		return
	}
	// the record and the batch: two Command allocs; the batch is the one MarshalVT is called on
	var decode, marshal ssa.Instruction
	var rec, batch ssa.Value
	eachInstr(fn, func(in ssa.Instruction) {
		c := plainCall(in)
		if c == nil {
			return
		}
		n := CalleeName(c)
		if strings.HasSuffix(n, "regattapb.Command).UnmarshalVT") || strings.HasSuffix(n, "regattapb.Command).UnmarshalVTUnsafe") {
			decode, rec = in, resolveObj(c.Args[0])
		}
		if strings.HasSuffix(n, "regattapb.Command).MarshalVT") {
			marshal, batch = in, resolveObj(c.Args[0])
		}
	})
	if decode == nil || marshal == nil {
		ob.Undecided("shape", "record decode or batch marshal not found in "+FnName(fn))
		return
	}
	ob.Site(decode.Pos(), "record decode in "+FnName(fn))
	ob.Site(marshal.Pos(), "batch marshal in "+FnName(fn))
	isRecKv := func(v ssa.Value) bool {
		t, f, ok := fieldRead(v)
		if !ok || f != "Kv" || !typeIs(t, pbPkg, "Command") {
			return false
		}
		u := v.(*ssa.UnOp)
		return resolveObj(u.X.(*ssa.FieldAddr).X) == rec
	}
	isKeep := func(in ssa.Instruction) bool {
		c := plainCall(in)
		if c == nil {
			return false
		}
		for _, v := range appendedValues(c) {
			if isRecKv(v) {
				// appended to the batch's Batch field
				t, f, ok := fieldRead(c.Args[0])
				return ok && f == "Batch" && typeIs(t, pbPkg, "Command")
			}
		}
		return false
	}
	isRead := func(in ssa.Instruction) bool {
		c := plainCall(in)
		return c != nil && c.IsInvoke() && c.Method.Name() == "Read"
	}
	var keeps []ssa.Instruction
	eachInstr(fn, func(in ssa.Instruction) {
		if isKeep(in) {
			keeps = append(keeps, in)
			ob.Site(in.Pos(), "record pair appended to the batch")
		}
	})
	if len(keeps) == 0 {
		ob.Violate("record-never-appended", decode.Pos(), "the loader never appends the decoded record's pair to the batch it proposes")
		return
	}
	ctx := &ExprCtx{Alias: map[ssa.Value]string{rec: "rec", batch: "batch"}}
	dv := decode.(ssa.Value)
	// start: the nil-error edge of the decode
	for _, b := range fn.Blocks {
		for k := range b.Succs {
			for _, l := range ctx.EdgeLits(b, k) {
				if l.Kind == "eq" && !l.Neg && l.B == "nil" && l.A == ctx.Expr(dv) {
					wk := &Walk{Barrier: isKeep, Target: func(in ssa.Instruction) bool { return isRead(in) || in == marshal },
						EdgeOK: func(bb *ssa.BasicBlock, kk int) bool {
							for _, l2 := range ctx.EdgeLits(bb, kk) {
								if l2.Kind == "eq" && !l2.Neg && l2.B == "nil" && strings.HasSuffix(l2.A, "rec.Kv") {
									return false
								}
							}
							return true
						}}
					if p := wk.Find(Loc{b.Succs[k], 0}); p != nil {
						ob.Violate("decoded-record-dropped", instrPos(p.Hit), "a decoded record that carries a pair can reach the next read or the proposal without having been appended to the batch: the record is lost", w.PathString(p)...)
					}
				}
			}
		}
	}
	// truncation only after marshal
	isClear := func(in ssa.Instruction) bool {
		st, ok := in.(*ssa.Store)
		if !ok {
			return false
		}
		fa, ok := st.Addr.(*ssa.FieldAddr)
		if !ok || resolveObj(fa.X) != batch || fieldAddrName(fa) != "Batch" {
			return false
		}
		if isNilConst(st.Val) {
			return true
		}
		if sl, ok := st.Val.(*ssa.Slice); ok {
			if c, ok := sl.High.(*ssa.Const); ok && c.Value != nil && c.Int64() == 0 {
				return true
			}
		}
		return false
	}
	for _, k := range keeps {
		if p := (&Walk{Barrier: func(in ssa.Instruction) bool { return in == marshal }, Target: isClear}).Find(after(k)); p != nil {
			ob.Violate("batch-cleared-unmarshalled", instrPos(p.Hit), "the pending batch can be truncated without having been marshalled for a proposal", w.PathString(p)...)
		}
		if p := (&Walk{Barrier: isProposeStep, Target: isSuccessReturn}).Find(after(k)); p != nil {
			ob.Violate("pending-batch-not-proposed", instrPos(p.Hit), "the loader can return successfully with appended records that were never proposed", w.PathString(p)...)
		}
	}
	// the proposed records leave the batch before the next record is appended
	eachInstr(fn, func(in ssa.Instruction) {
		if in != marshal {
			return
		}
		if p := (&Walk{Barrier: isClear, Target: isKeep}).Find(after(in)); p != nil {
			ob.Violate("proposed-records-kept", instrPos(p.Hit), "after a batch was marshalled for its proposal the next record can be appended to a batch that still holds the records already proposed", w.PathString(p)...)
		}
	})
	// marshalled bytes are what is proposed, and a failed proposal returns
	var retry ssa.Instruction
	eachInstr(fn, func(in ssa.Instruction) {
		if isProposeStep(in) {
			retry = in
		}
	})
	if retry == nil {
		ob.Violate("no-proposal", fn.Pos(), "the loader never proposes")
		return
	}
	ob.Site(retry.Pos(), "proposal step")
	pfuncs := append([]*ssa.Function{fn}, stepFuncs(retry, 0, map[*ssa.Function]bool{})...)
	pctx := &ExprCtx{Alias: map[ssa.Value]string{rec: "rec", batch: "batch"}}
	for _, f := range pfuncs {
		if f.Parent() == nil && f != fn {
			// a helper the loader calls: its parameters read as the loader's arguments
			if rc := plainCall(retry); rc != nil && StaticCallee(rc) == f && len(rc.Args) == len(f.Params) {
				for i, p := range f.Params {
					pctx.Alias[p] = ctx.Expr(rc.Args[i])
				}
			}
		}
	}
	for _, f := range pfuncs {
		eachInstr(f, func(in ssa.Instruction) {
			if !isSyncProposeCall(in) {
				return
			}
			c := callOf(in)
			e := pctx.Expr(c.Args[len(c.Args)-1])
			if !strings.Contains(e, "MarshalVT(batch)#0") {
				ob.Violate("proposal-payload", in.Pos(), "the proposal sends `"+e+"`, not the marshalled batch")
			}
		})
	}
	if rv, ok := retry.(ssa.Value); ok && isErrorType(rv.Type()) {
		wk := &Walk{Target: func(in ssa.Instruction) bool { return isRead(in) || isSuccessReturn(in) }, EdgeOK: func(b *ssa.BasicBlock, k int) bool {
			for _, l := range ctx.EdgeLits(b, k) {
				if l.Kind == "eq" && !l.Neg && l.B == "nil" && l.A == ctx.Expr(rv) {
					return false
				}
			}
			return true
		}}
		if p := wk.Find(after(retry)); p != nil {
			ob.Violate("proposal-error-ignored", instrPos(p.Hit), "the loader goes on (or returns success) after a failed proposal: the records of that batch are lost", w.PathString(p)...)
		}
	}
	ob.NeedFloor(4)
}

func c07PointInTime(w *World, r *Report, id, slug string) {
	ob := r.Ob(id, slug, "in the state machine's snapshot-request arm the reader handed to the dump is a NewSnapshot() result; inside the dump the index read and the iterator both use the dump's reader parameter", "index and content read from different moments: after a follower recovery the recorded leader index does not match the content")
	a := w.FsmAnchors()
	dump := w.Func(fsmRel, "commandSnapshot")
	if a.Lookup == nil || dump == nil {
		ob.Undecided("anchor", "Lookup or the dump function not found")
		return
	}
	n := 0
	eachInstr(a.Lookup, func(in ssa.Instruction) {
		c := plainCall(in)
		if c == nil || StaticCallee(c) != dump {
			return
		}
		n++
		rd := c.Args[0]
		if mi, ok := rd.(*ssa.MakeInterface); ok {
			rd = mi.X
		}
		ob.Site(in.Pos(), "dump called with reader "+Expr(rd))
		if call, ok := rd.(*ssa.Call); !ok || !strings.HasSuffix(CalleeName(&call.Call), ".DB).NewSnapshot") {
			ob.Violate("dump-live-db", in.Pos(), "the table dump reads `"+Expr(rd)+"`, not a Pebble snapshot: writes applied during the dump tear the image")
		}
	})
	if n == 0 {
		ob.Undecided("shape", "Lookup does not call the dump function")
	}
	for _, f := range withClosures(dump) {
		eachInstr(f, func(in ssa.Instruction) {
			c := callOf(in)
			if c == nil {
				return
			}
			nm := CalleeName(c)
			var rd ssa.Value
			switch {
			case c.IsInvoke() && (c.Method.Name() == "NewIter" || c.Method.Name() == "Get") && typeIs(c.Value.Type(), pebblePath, "Reader"):
				rd = c.Value
			case strings.HasSuffix(nm, "fsm.readLocalIndex"):
				rd = c.Args[0]
			case strings.Contains(nm, pebblePath+".DB).") && (strings.HasSuffix(nm, "NewIter") || strings.HasSuffix(nm, "Get") || strings.HasSuffix(nm, "NewSnapshot")):
				rd = c.Args[0]
			default:
				return
			}
			ob.Site(in.Pos(), "dump reads "+shortName(nm)+" through "+Expr(rd))
			if strings.TrimLeft(Expr(rd), "^") != "$0" {
				ob.Violate("dump-second-view@"+FnName(f), in.Pos(), "the dump reads `"+Expr(rd)+"` besides the reader it was given: index and pairs come from different views")
			}
		})
	}
	ob.NeedFloor(3)
}

func c07Terminator(w *World, r *Report, id, slug string) {
	ob := r.Ob(id, slug, "leader snapshot stream: every path to the copy-out crosses the write of a Command whose LeaderIndex points at the dump response's Index, after the dump; no path leads from the sync/seek/copy back to that write; loader: between decode and marshal the batch's LeaderIndex is stored from the record's LeaderIndex and is cleared only after the marshal", "without the terminator (or with it forwarded wrongly) the follower records no or a wrong leader index for the restored content and re-applies or skips log entries")
	st := w.Func("regattaserver", "SnapshotServer.Stream")
	if st == nil {
		ob.Undecided("anchor/Stream", "SnapshotServer.Stream not found")
	} else {
		var dumpCall, termWrite, copyOut ssa.Instruction
		eachInstr(st, func(in ssa.Instruction) {
			c := plainCall(in)
			if c == nil {
				return
			}
			n := CalleeName(c)
			switch {
			case strings.HasSuffix(n, "ActiveTable).Snapshot"):
				dumpCall = in
			case n == "io.Copy":
				copyOut = in
			case strings.HasSuffix(n, "snapshotFile).Write"):
				termWrite = in
			}
		})
		if dumpCall == nil || termWrite == nil || copyOut == nil {
			ob.Violate("terminator-missing", st.Pos(), "the leader's snapshot stream has no dump / terminator write / copy-out sequence any more")
		} else {
			ob.Site(termWrite.Pos(), "terminator write")
			// payload: MarshalVT of a Command literal whose LeaderIndex = &resp.Index
			okLI := false
			eachInstr(st, func(in ssa.Instruction) {
				s, ok := in.(*ssa.Store)
				if !ok {
					return
				}
				fa, ok := s.Addr.(*ssa.FieldAddr)
				if !ok || !typeIs(fa.X.Type(), pbPkg, "Command") || fieldAddrName(fa) != "LeaderIndex" {
					return
				}
				e := Expr(s.Val)
				ob.Site(in.Pos(), "terminator LeaderIndex = "+e)
				if strings.HasSuffix(e, ".Index") && strings.Contains(e, "ActiveTable).Snapshot(") {
					okLI = true
				} else {
					ob.Violate("terminator-index", in.Pos(), "the terminator carries `"+e+"`, not the index returned by the dump")
				}
			})
			if !okLI {
				ob.Violate("terminator-index-missing", termWrite.Pos(), "no command with the dump's index as LeaderIndex is built")
			}
			if !strings.Contains(Expr(plainCall(termWrite).Args[1]), "regattapb.Command).MarshalVT(") {
				ob.Violate("terminator-payload", termWrite.Pos(), "the write after the dump does not send a marshalled command")
			}
			if p := (&Walk{Barrier: func(x ssa.Instruction) bool { return x == termWrite }, Target: func(x ssa.Instruction) bool { return x == copyOut }}).Find(entry(st)); p != nil {
				ob.Violate("copy-without-terminator", copyOut.Pos(), "the stream can be copied out without the terminator having been written", w.PathString(p)...)
			}
			if p := (&Walk{Barrier: func(x ssa.Instruction) bool { return x == dumpCall }, Target: func(x ssa.Instruction) bool { return x == termWrite }}).Find(entry(st)); p != nil {
				ob.Violate("terminator-before-dump", termWrite.Pos(), "the terminator can be written before the dump")
			}
			isLate := func(x ssa.Instruction) bool {
				c := plainCall(x)
				if c == nil {
					return false
				}
				n := CalleeName(c)
				return strings.HasSuffix(n, "snapshotFile).Sync") || strings.HasSuffix(n, ".Seek") || n == "io.Copy"
			}
			eachInstr(st, func(in ssa.Instruction) {
				if isLate(in) {
					if p := (&Walk{Target: func(x ssa.Instruction) bool { return x == termWrite }}).Find(after(in)); p != nil {
						ob.Violate("terminator-after-sync", termWrite.Pos(), "the terminator is written after the file was synced/rewound/copied")
					}
				}
			})
		}
	}
	// loader side
	fn := w.Func("storage/table", "Manager.readIntoTable")
	if fn == nil {
		ob.Undecided("anchor/loader", "restore loader not found")
	} else {
		var marshal ssa.Instruction
		var batch ssa.Value
		eachInstr(fn, func(in ssa.Instruction) {
			if c := plainCall(in); c != nil && strings.HasSuffix(CalleeName(c), "regattapb.Command).MarshalVT") {
				marshal, batch = in, resolveObj(c.Args[0])
			}
		})
		nfw := 0
		eachInstr(fn, func(in ssa.Instruction) {
			s, ok := in.(*ssa.Store)
			if !ok {
				return
			}
			fa, ok := s.Addr.(*ssa.FieldAddr)
			if !ok || resolveObj(fa.X) != batch || fieldAddrName(fa) != "LeaderIndex" {
				return
			}
			if isNilConst(s.Val) {
				ob.Site(in.Pos(), "loader clears the batch's LeaderIndex")
				// clearing only after marshal: not reachable from a forward store without crossing marshal
				return
			}
			e := Expr(s.Val)
			ob.Site(in.Pos(), "loader forwards LeaderIndex = "+e)
			if t, f, ok := fieldRead(s.Val); ok && f == "LeaderIndex" && typeIs(t, pbPkg, "Command") {
				nfw++
				isClr := func(x ssa.Instruction) bool {
					s2, ok := x.(*ssa.Store)
					if !ok {
						return false
					}
					f2, ok := s2.Addr.(*ssa.FieldAddr)
					return ok && resolveObj(f2.X) == batch && fieldAddrName(f2) == "LeaderIndex" && isNilConst(s2.Val)
				}
				if marshal != nil {
					if p := (&Walk{Barrier: func(x ssa.Instruction) bool { return x == marshal }, Target: isClr}).Find(after(in)); p != nil {
						ob.Violate("leader-index-cleared-early", instrPos(p.Hit), "the forwarded leader index can be cleared before the batch carrying it was marshalled", w.PathString(p)...)
					}
				}
			} else {
				ob.Violate("leader-index-source", in.Pos(), "the batch's LeaderIndex is set from `"+e+"`, not from the record being loaded")
			}
		})
		if nfw == 0 {
			ob.Violate("leader-index-not-forwarded", fn.Pos(), "the loader does not forward the record's leader index into the batch it proposes")
		}
	}
	ob.NeedFloor(4)
}

func c07UserPairs(w *World, r *Report, id, slug string) {
	ob := r.Ob(id, slug, "in the dump the iterator is opened with nil options; the record write is reachable only over the edge key.KeyType == user type, and from that edge the loop head is not reachable without the write", "exporting bookkeeping keys corrupts the target's indices; skipping a user pair loses data")
	dump := w.Func(fsmRel, "commandSnapshot")
	if dump == nil {
		ob.Undecided("anchor", "dump function not found")
		return
	}
	userC, _ := keyTypeConsts(w)
	for _, ni := range callsIn(dump, false, pebbleNewIter...) {
		args := ni.Common().Args
		opt := args[len(args)-1]
		ob.Site(ni.Pos(), "dump iterator options "+Expr(opt))
		if !isNilConst(opt) {
			ob.Violate("dump-iterator-filtered", ni.Pos(), "the dump opens its iterator with options `"+Expr(opt)+"`")
		}
	}
	isWrite := func(in ssa.Instruction) bool {
		c := plainCall(in)
		return c != nil && c.IsInvoke() && c.Method.Name() == "Write" && strings.TrimLeft(Expr(c.Value), "^") == "$2"
	}
	nw := 0
	eachInstr(dump, func(in ssa.Instruction) {
		if isWrite(in) {
			nw++
			ob.Site(in.Pos(), "record write in the dump")
		}
	})
	if nw == 0 {
		ob.Undecided("shape", "the dump never writes to its writer parameter")
		return
	}
	ctx := &ExprCtx{}
	userLit := func(l Lit) bool {
		return l.Kind == "int" && !l.IsNE && l.Lo == userC && l.Hi == userC && strings.HasSuffix(l.Terms, ".KeyType")
	}
	wk := &Walk{Target: isWrite, EdgeOK: func(b *ssa.BasicBlock, k int) bool {
		for _, l := range ctx.EdgeLits(b, k) {
			if userLit(l) {
				return false
			}
		}
		return true
	}}
	if p := wk.Find(entry(dump)); p != nil {
		ob.Violate("non-user-key-exported", instrPos(p.Hit), "the dump can write a record without the key having been tested to be a user key", w.PathString(p)...)
	}
	for _, b := range dump.Blocks {
		for k := range b.Succs {
			for _, l := range ctx.EdgeLits(b, k) {
				if !userLit(l) {
					continue
				}
				ob.Site(blockPos(b.Succs[k]), "user-key edge")
				scc := sccOf(b)
				h := loopHeader(scc)
				if h == nil {
					continue
				}
				p := (&Walk{Barrier: isWrite, Target: func(x ssa.Instruction) bool { return x.Block() == h }, EdgeOK: func(bb *ssa.BasicBlock, kk int) bool { return scc[bb.Succs[kk]] }}).Find(Loc{b.Succs[k], 0})
				if p != nil {
					ob.Violate("user-pair-skipped", blockPos(b.Succs[k]), "a user pair can be passed over without being written", w.PathString(p)...)
				}
			}
		}
	}
	ob.NeedFloor(3)
}

// c07Switch — C07.e / C05.f: Restore switches the catalogue entry to the fresh shard only after the load.
func c07Switch(w *World, r *Report, id, slug string) {
	ob := r.Ob(id, slug, "in Manager.Restore the store of the table's ClusterID is preceded on every path by the load call and is unreachable from the load's error edge; the stored id and the id the load and startTable use derive from the id-sequence function", "switching before (or despite a failed) load publishes an empty or partial table under the table's name")
	fn := w.Func("storage/table", "Manager.Restore")
	if fn == nil {
		ob.Undecided("anchor", "Manager.Restore not found")
		return
	}
	var load ssa.Instruction
	eachInstr(fn, func(in ssa.Instruction) {
		if c := plainCall(in); c != nil {
			if cal := StaticCallee(c); cal != nil && cal.Name() == "readIntoTable" {
				load = in
			}
		}
	})
	if load == nil {
		ob.Undecided("shape", "Restore does not call the loader")
		return
	}
	tgt := Expr(plainCall(load).Args[1])
	// the target may be a field of a local struct (tbl.RecoverID): resolve through its stores
	if t, fld, ok := fieldRead(plainCall(load).Args[1]); ok && t != nil {
		if u, ok := plainCall(load).Args[1].(*ssa.UnOp); ok {
			if fa, ok := u.X.(*ssa.FieldAddr); ok {
				var srcs []string
				for _, st := range storesToField(fn, fa.X, fld) {
					if _, isC := st.Val.(*ssa.Const); !isC {
						srcs = append(srcs, Expr(st.Val))
					}
				}
				if len(srcs) > 0 {
					tgt = strings.Join(uniq(srcs), "|")
				}
			}
		}
	}
	ob.Site(load.Pos(), "load call into shard "+tgt)
	if !strings.Contains(tgt, "incAndGetIDSeq") || strings.Contains(tgt, "|") {
		ob.Violate("load-target", load.Pos(), "the stream is loaded into shard `"+tgt+"`, not into the freshly numbered shard")
	}
	ctx := &ExprCtx{}
	lv := load.(ssa.Value)
	n := 0
	eachInstr(fn, func(in ssa.Instruction) {
		s, ok := in.(*ssa.Store)
		if !ok {
			return
		}
		fa, ok := s.Addr.(*ssa.FieldAddr)
		if !ok || fieldAddrName(fa) != "ClusterID" || !typeIs(fa.X.Type(), modPath+"/storage/table", "Table") {
			return
		}
		n++
		e := Expr(s.Val)
		ob.Site(in.Pos(), "Restore sets ClusterID = "+e)
		if !strings.Contains(e, "incAndGetIDSeq") {
			ob.Violate("switch-id", in.Pos(), "the table is switched to shard `"+e+"`, not to the freshly numbered one")
		}
		if p := (&Walk{Barrier: func(x ssa.Instruction) bool { return x == load }, Target: func(x ssa.Instruction) bool { return x == in }}).Find(entry(fn)); p != nil {
			ob.Violate("switch-before-load", in.Pos(), "the catalogue is switched to the new shard before the stream was loaded into it", w.PathString(p)...)
		}
		for _, b := range fn.Blocks {
			for k := range b.Succs {
				for _, l := range ctx.EdgeLits(b, k) {
					if l.Kind == "eq" && l.Neg && l.B == "nil" && l.A == ctx.Expr(lv) {
						if p := (&Walk{Target: func(x ssa.Instruction) bool { return x == in }}).Find(Loc{b.Succs[k], 0}); p != nil {
							ob.Violate("switch-after-failed-load", in.Pos(), "the catalogue switch is reachable from the load's error edge")
						}
					}
				}
			}
		}
	})
	if n == 0 {
		ob.Violate("no-switch", fn.Pos(), "Restore never switches the table to the restored shard")
	}
	// error of the load is tested
	wk := &Walk{Target: isSuccessReturn, EdgeOK: func(b *ssa.BasicBlock, k int) bool {
		for _, l := range ctx.EdgeLits(b, k) {
			if l.Kind == "eq" && !l.Neg && l.B == "nil" && l.A == ctx.Expr(lv) {
				return false
			}
		}
		return true
	}}
	if p := wk.Find(after(load)); p != nil {
		ob.Violate("load-error-ignored", instrPos(p.Hit), "Restore can succeed although the load failed", w.PathString(p)...)
	}
	ob.NeedFloor(2)
}

func c07Checksum(w *World, r *Report) {
	ob := r.Ob("C07.f", "f-checksum-gate", "backup client Restore: the restore stream is opened only over the edge where the hex digest equals the manifest's MD5, and on every path to that comparison the hash was Reset and then fed the table file (io.Copy(hash, file)) in the same iteration; Backup: the recorded MD5 is the digest of a hash created inside the loop that is part of the MultiWriter the stream is copied to", "a corrupted backup file must be refused; a digest computed over something else than the written bytes refuses good files or accepts bad ones")
	rs := w.Func("replication/backup", "Backup.Restore")
	bk := w.Func("replication/backup", "Backup.Backup")
	if rs == nil || bk == nil {
		ob.Undecided("anchor", "backup client Backup/Restore not found")
		return
	}
	ctx := &ExprCtx{}
	isOpen := func(in ssa.Instruction) bool {
		c := plainCall(in)
		return c != nil && c.IsInvoke() && c.Method.Name() == "Restore" && strings.Contains(typeString(c.Value.Type()), "MaintenanceClient")
	}
	isSum := func(l Lit) bool {
		return l.Kind == "eq" && strings.Contains(l.A+"|"+l.B, "hex.EncodeToString(") && strings.Contains(l.A+"|"+l.B, ".MD5")
	}
	nopen := 0
	eachInstr(rs, func(in ssa.Instruction) {
		if isOpen(in) {
			nopen++
			ob.Site(in.Pos(), "restore stream opened")
		}
	})
	// every table of the manifest is restored: the loop over the manifest's tables visits each one,
	// and an iteration that does not fail opens a restore stream (an empty backup empties the table)
	for _, sl := range sliceLoops(rs) {
		if !strings.HasSuffix(Expr(sl.Slice), ".Tables") {
			continue
		}
		// an option of the client that did not exist on the reviewed tree (a dry-run switch, off by
		// default) may stand in for the step: the skip then depends on configuration, not on the table
		isOptionTest := func(in ssa.Instruction) bool {
			iff, ok := in.(*ssa.If)
			if !ok {
				return false
			}
			cond := iff.Cond
			if u, isNot := cond.(*ssa.UnOp); isNot && u.Op == token.NOT {
				cond = u.X
			}
			ld, ok := cond.(*ssa.UnOp)
			if !ok || ld.Op != token.MUL {
				return false
			}
			fa, ok := ld.X.(*ssa.FieldAddr)
			if !ok || len(rs.Params) == 0 {
				return false
			}
			base := fa.X
			if l2, isLoad := base.(*ssa.UnOp); isLoad {
				if al, isAl := l2.X.(*ssa.Alloc); isAl {
					if sts := storesTo(rs, al); len(sts) == 1 {
						base = sts[0].Val
					}
				}
			}
			if base != ssa.Value(rs.Params[0]) {
				return false
			}
			nt, ok := deref(fa.X.Type()).(*types.Named)
			if !ok || nt.Obj().Pkg() == nil {
				return false
			}
			_, known := reviewedInfo["field "+nt.Obj().Pkg().Path()+"."+nt.Obj().Name()+"."+fieldAddrName(fa)]
			return !known && len(reviewedInfo) > 0
		}
		checkFullTraversal(w, ob, sl, "tables of the manifest", func(in ssa.Instruction) bool { return isOpen(in) || isOptionTest(in) })
	}
	if nopen == 0 {
		ob.Undecided("shape", "the backup client never opens a restore stream")
		return
	}
	wk := &Walk{Target: isOpen, EdgeOK: func(b *ssa.BasicBlock, k int) bool {
		for _, l := range ctx.EdgeLits(b, k) {
			if isSum(l) && !l.Neg {
				return false
			}
		}
		return true
	}}
	if p := wk.Find(entry(rs)); p != nil {
		ob.Violate("restore-without-checksum", instrPos(p.Hit), "a table file can be streamed to the server without its checksum having been found equal to the manifest's", w.PathString(p)...)
	}
	// per iteration: Reset → Copy(hash, file) → compare
	for _, b := range rs.Blocks {
		iff, ok := b.Instrs[len(b.Instrs)-1].(*ssa.If)
		if !ok {
			continue
		}
		l, ok := ctx.CondLit(iff.Cond)
		if !ok || !isSum(l) {
			continue
		}
		ob.Site(iff.Cond.Pos(), "checksum comparison "+l.String())
		scc := sccOf(b)
		h := loopHeader(scc)
		isReset := func(in ssa.Instruction) bool {
			c := plainCall(in)
			return c != nil && c.IsInvoke() && c.Method.Name() == "Reset"
		}
		isFeed := func(in ssa.Instruction) bool {
			c := plainCall(in)
			if c == nil || CalleeName(c) != "io.Copy" {
				return false
			}
			return strings.Contains(Expr(c.Args[0]), "md5.New") && strings.Contains(Expr(c.Args[1]), "os.Open")
		}
		start := entry(rs)
		if h != nil {
			start = Loc{h, 0}
		}
		target := func(x ssa.Instruction) bool { return x == ssa.Instruction(iff) }
		if p := (&Walk{Barrier: isFeed, Target: target}).Find(start); p != nil {
			ob.Violate("checksum-not-fed", iff.Cond.Pos(), "the digest can be compared without the table file having been fed to the hash in this iteration", w.PathString(p)...)
		}
		if p := (&Walk{Barrier: isReset, Target: isFeed}).Find(start); p != nil {
			ob.Violate("hash-not-reset", iff.Cond.Pos(), "the hash is not reset before a table file is fed to it: the digest covers earlier tables too", w.PathString(p)...)
		}
	}
	// Backup side
	found := false
	eachInstr(bk, func(in ssa.Instruction) {
		s, ok := in.(*ssa.Store)
		if !ok {
			return
		}
		fa, ok := s.Addr.(*ssa.FieldAddr)
		if !ok || fieldAddrName(fa) != "MD5" {
			return
		}
		found = true
		e := Expr(s.Val)
		ob.Site(in.Pos(), "recorded MD5 = "+e)
		if !strings.Contains(e, "hex.EncodeToString(") || !strings.Contains(e, "md5.New()") {
			ob.Violate("recorded-sum-source", in.Pos(), "the manifest records `"+e+"`, not the hex digest of the hash")
		}
	})
	if !found {
		ob.Violate("recorded-sum-missing", bk.Pos(), "Backup does not record a checksum")
	}
	eachInstr(bk, func(in ssa.Instruction) {
		c := plainCall(in)
		if c == nil {
			return
		}
		switch CalleeName(c) {
		case "crypto/md5.New":
			ob.Site(in.Pos(), "hash created")
			if !inCycle(in.Block()) {
				ob.Violate("hash-shared-across-tables", in.Pos(), "Backup creates its hash outside the per-table loop and never resets it")
			}
		case "io.MultiWriter":
			ws := Expr(c.Args[0])
			ob.Site(in.Pos(), "stream copied to "+ws)
		case "io.Copy":
			dst := Expr(c.Args[0])
			if !strings.Contains(dst, "io.MultiWriter(") {
				ob.Violate("backup-copy-bypasses-hash", in.Pos(), "the backup stream is copied to `"+dst+"`, not through the hash")
			}
		}
	})
	ob.NeedFloor(5)
}
