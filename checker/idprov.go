package main

import (
	"go/token"
	"sort"

	"golang.org/x/tools/go/ssa"
)

// idProv answers "which struct fields may this value have been read from", following the value
// through locals, phis, conversions, and - the part that matters for shard ids - through maps: a key
// obtained by ranging over a map derives from every key ever stored into that map, also when the
// map is the result of a statically resolved module function.
type idProv struct {
	fields  map[string]bool
	unknown bool // some source could not be followed
	seenV   map[ssa.Value]bool
	seenM   map[ssa.Value]bool
	depth   int
}

func newIDProv() *idProv {
	return &idProv{fields: map[string]bool{}, seenV: map[ssa.Value]bool{}, seenM: map[ssa.Value]bool{}}
}

func (p *idProv) Fields() []string {
	var out []string
	for f := range p.fields {
		out = append(out, f)
	}
	sort.Strings(out)
	return out
}

func (p *idProv) value(v ssa.Value) {
	if v == nil || p.seenV[v] {
		return
	}
	p.seenV[v] = true
	if _, f, ok := fieldRead(v); ok {
		p.fields[f] = true
		return
	}
	switch x := v.(type) {
	case *ssa.Phi:
		for _, e := range x.Edges {
			p.value(e)
		}
	case *ssa.ChangeType:
		p.value(x.X)
	case *ssa.Convert:
		p.value(x.X)
	case *ssa.UnOp:
		if x.Op == token.MUL {
			if al, ok := x.X.(*ssa.Alloc); ok {
				sts := storesTo(al.Parent(), al)
				if len(sts) == 0 {
					p.unknown = true
				}
				for _, st := range sts {
					p.value(st.Val)
				}
				return
			}
		}
		p.unknown = true
	case *ssa.Extract:
		if nx, ok := x.Tuple.(*ssa.Next); ok && x.Index == 1 {
			if rg, ok := nx.Iter.(*ssa.Range); ok {
				p.mapKeys(rg.X)
				return
			}
		}
		p.unknown = true
	default:
		p.unknown = true
	}
}

// mapKeys collects the provenance of every key stored into the map m (and into the other SSA
// values of the same variable: the phi web around it).
func (p *idProv) mapKeys(m ssa.Value) {
	if m == nil || p.seenM[m] {
		return
	}
	p.seenM[m] = true
	switch x := m.(type) {
	case *ssa.Phi:
		for _, e := range x.Edges {
			p.mapKeys(e)
		}
	case *ssa.ChangeType:
		p.mapKeys(x.X)
	case *ssa.MakeMap, *ssa.Const:
		// keys come from the updates below
	case *ssa.UnOp:
		if al, ok := x.X.(*ssa.Alloc); ok && x.Op == token.MUL {
			for _, st := range storesTo(al.Parent(), al) {
				p.mapKeys(st.Val)
			}
			// updates through any other load of the same local
			for _, r := range *al.Referrers() {
				if ld, ok := r.(*ssa.UnOp); ok && ld.Op == token.MUL {
					p.updatesOn(ld)
				}
			}
		} else {
			p.unknown = true
		}
	case *ssa.Extract:
		if c, ok := x.Tuple.(*ssa.Call); ok {
			p.mapResult(c, x.Index)
		} else {
			p.unknown = true
		}
	case *ssa.Call:
		p.mapResult(x, 0)
	default:
		p.unknown = true
	}
	p.updatesOn(m)
	// the other values of the same variable
	if refs := m.Referrers(); refs != nil {
		for _, r := range *refs {
			if ph, ok := r.(*ssa.Phi); ok {
				p.mapKeys(ph)
			}
		}
	}
}

func (p *idProv) updatesOn(m ssa.Value) {
	refs := m.Referrers()
	if refs == nil {
		return
	}
	for _, r := range *refs {
		if mu, ok := r.(*ssa.MapUpdate); ok && mu.Map == m {
			p.value(mu.Key)
		}
	}
}

func (p *idProv) mapResult(c *ssa.Call, idx int) {
	callee := StaticCallee(c.Common())
	if callee == nil || len(callee.Blocks) == 0 || p.depth > 4 {
		p.unknown = true
		return
	}
	p.depth++
	defer func() { p.depth-- }()
	n := 0
	eachInstr(callee, func(in ssa.Instruction) {
		ret, ok := in.(*ssa.Return)
		if !ok || idx >= len(ret.Results) {
			return
		}
		n++
		p.mapKeys(retVal(ret, idx))
	})
	if n == 0 {
		p.unknown = true
	}
}
