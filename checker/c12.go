package main

// C12 — key encoding is injective, order-preserving, and isolates bookkeeping keys.

import (
	"go/constant"
	"go/types"
	"strings"

	"golang.org/x/tools/go/ssa"
)

func init() {
	register("C12", "key encoding: layout agreement, verbatim user bytes, constant prefixes", checkC12)
}

func constInt(v ssa.Value) (int64, bool) {
	c, ok := v.(*ssa.Const)
	if !ok || c.Value == nil {
		return 0, false
	}
	i, ok := constant.Int64Val(constant.ToInt(c.Value))
	return i, ok
}

func checkC12(w *World, r *Report) {
	r.Decides = "C12 is decided in its structural part only: (a) encoder and decoder agree on the layout: a header of keyHeaderLen bytes whose version byte sits at the same position on both sides, one type byte at offset 0 of the body, the key from offset 1; (b) user bytes pass verbatim: the encoder uses the key only as the source of a copy into a freshly sized buffer, the decoder returns a sub-slice of its input; (c) constant prefix per key space: only the version byte of the header is ever stored, user and system type constants are distinct and ordered user < system, bookkeeping key names are non-empty and start with a byte > 0; (d) range bounds and bookkeeping keys go through the same encoder (the obligations C01.f/g). Injectivity, round trip and order preservation then follow from the lemma 'k -> c ++ k is injective and monotone for a fixed c', which is mathematics and the stated assumption."
	r.NotDecided = []string{"the arithmetic of the wildcard bound increment", "keys longer than the streaming Decoder's body limit (the unused Decoder would truncate them; DecodeBytes does not)"}
	r.Assume = []string{"lemma: prefixing with a constant is injective and order preserving under bytewise comparison"}
	c12Layout(w, r, "C12", ".a", ".b", ".c")
	a := w.FsmAnchors()
	if len(a.Problems) == 0 && a.Update != nil {
		c01KeySpace(w, r, a, "C12.d1", "d1-key-space")
		c01Bounds(w, r, a, "C12.d2", "d2-bounds-same-encoder")
	}
}

// c12Layout: the obligations C12.a-c (layout agreement, verbatim bytes, constant prefix), shared
// with C01 (the stored key of a table is this encoding of the user key).
func c12Layout(w *World, r *Report, pfx, ida, idb, idc string) {
	p := w.Pkg(keyRel)
	if p == nil {
		ob := r.Ob(pfx+".anchors", "anchors", "key package loads", "")
		ob.Undecided("anchors", "storage/table/key not loaded")
		return
	}
	cst := func(n string) int64 {
		c, ok := p.Types.Scope().Lookup(n).(*types.Const)
		if !ok {
			return -1
		}
		v, _ := constant.Int64Val(c.Val())
		return v
	}
	hdrLen, verPos := cst("keyHeaderLen"), cst("keyVersionHeaderPos")
	enc := w.Func(keyRel, "Encoder.Encode")
	encV1 := w.Func(keyRel, "keyV1.Encode")
	dec := w.Func(keyRel, "DecodeBytes")
	decV1 := w.Func(keyRel, "v1DecodeRaw")

	obA := r.Ob(pfx+ida, "a-layout-agreement", "Encoder.Encode writes a [keyHeaderLen]byte header with the version stored at keyVersionHeaderPos, then the v1 body: a buffer of 1+len(key) bytes with the type at index 0 and the key copied from index 1; DecodeBytes tests the version at keyVersionHeaderPos, strips keyHeaderLen bytes, and the raw v1 decoder takes the type from index 0 and the key from index 1", "a width or offset that differs on one side shifts every decoded key by a byte: keys collide or lose their first byte")
	obB := r.Ob(pfx+idb, "b-verbatim-bytes", "in the v1 encoder the key field is used only as len() argument and as source of copy into the fresh buffer, which is written as a whole; the decoders return sub-slices of their input without element stores", "any transformation of key bytes must be undone exactly and preserve order - there is none to check if bytes are copied verbatim")
	obC := r.Ob(pfx+idc, "c-constant-prefix", "the only store into the header array is the version byte; TypeUser != TypeSystem and TypeUser < TypeSystem; every bookkeeping key of the state machine is built from a non-empty name whose first byte is > 0", "a varying prefix breaks order preservation; bookkeeping names starting with a zero byte would sort into the range the wildcard addresses")
	if enc == nil || encV1 == nil || dec == nil || decV1 == nil || hdrLen < 0 {
		obA.Undecided("anchor", "encoder/decoder functions or layout constants not found")
		return
	}
	// ---- encoder header ----
	var hdr *ssa.Alloc
	eachInstr(enc, func(in ssa.Instruction) {
		if al, ok := in.(*ssa.Alloc); ok {
			if arr, ok := deref(al.Type()).Underlying().(*types.Array); ok {
				if b, ok := arr.Elem().Underlying().(*types.Basic); ok && b.Kind() == types.Uint8 {
					hdr = al
					obA.Site(al.Pos(), "encoder header array of "+itoa(int(arr.Len()))+" bytes")
					if arr.Len() != hdrLen {
						obA.Violate("encoder-header-width", al.Pos(), "the encoder's header has "+itoa(int(arr.Len()))+" bytes but the decoder strips keyHeaderLen="+itoa(int(hdrLen)))
					}
				}
			}
		}
	})
	if hdr == nil {
		obA.Violate("encoder-header-missing", enc.Pos(), "the encoder no longer writes a fixed-size header array")
	} else {
		nst := 0
		for _, ref := range *hdr.Referrers() {
			ia, ok := ref.(*ssa.IndexAddr)
			if !ok || ia.Referrers() == nil {
				continue
			}
			for _, rr := range *ia.Referrers() {
				if st, ok := rr.(*ssa.Store); ok && st.Addr == ssa.Value(ia) {
					nst++
					idx, isC := constInt(ia.Index)
					obC.Site(st.Pos(), "header["+Expr(ia.Index)+"] = "+Expr(st.Val))
					if !isC || idx != verPos {
						obC.Violate("header-byte-stored", st.Pos(), "a header byte other than the version (index "+Expr(ia.Index)+") is stored: the prefix is no longer constant per key space")
					}
					if !strings.HasSuffix(Expr(st.Val), ".version") {
						obC.Violate("header-version-source", st.Pos(), "the version byte is set from `"+Expr(st.Val)+"`")
					}
				}
			}
		}
		if nst == 0 {
			obA.Violate("encoder-version-not-written", enc.Pos(), "the encoder does not write the version byte")
		}
		// the whole header is written before the body
		okWrite := false
		eachInstr(enc, func(in ssa.Instruction) {
			if c := plainCall(in); c != nil && c.IsInvoke() && c.Method.Name() == "Write" {
				if sl, ok := c.Args[0].(*ssa.Slice); ok && sl.X == ssa.Value(hdr) && sl.Low == nil && sl.High == nil {
					okWrite = true
				}
			}
		})
		if !okWrite {
			obA.Violate("encoder-header-not-written", enc.Pos(), "the encoder does not write the whole header")
		}
	}
	// ---- v1 body encoder ----
	{
		var buf *ssa.MakeSlice
		eachInstr(encV1, func(in ssa.Instruction) {
			if ms, ok := in.(*ssa.MakeSlice); ok {
				buf = ms
			}
		})
		var fixed *ssa.Alloc
		eachInstr(encV1, func(in ssa.Instruction) {
			if al, ok := in.(*ssa.Alloc); ok {
				if arr, ok := deref(al.Type()).Underlying().(*types.Array); ok {
					if b, ok := arr.Elem().Underlying().(*types.Basic); ok && b.Kind() == types.Uint8 {
						fixed = al
					}
				}
			}
		})
		if buf == nil && fixed != nil {
			obA.Site(fixed.Pos(), "v1 body buffer is a fixed array "+typeString(deref(fixed.Type())))
			obA.Violate("v1-buffer-size", fixed.Pos(), "the body buffer is a fixed "+typeString(deref(fixed.Type()))+": copy truncates every key that does not fit, so two accepted keys sharing that prefix encode to the same stored key; the buffer must be sized 1+len(key)")
		} else if buf == nil {
			obA.Undecided("v1-encoder-shape", "the v1 encoder does not build a buffer")
		} else {
			obA.Site(buf.Pos(), "v1 body buffer of "+Expr(buf.Len)+" bytes")
			appendForm := false
			if l, isC := constInt(buf.Len); isC && l == 1 {
				appendForm = true // make([]byte, 1, …) followed by append(buf, key...)
			} else if e := Expr(buf.Len); e != "len($0.key)+1" {
				obA.Violate("v1-buffer-size", buf.Pos(), "the body buffer has `"+e+"` bytes, expected 1+len(key)")
			}
			typeAt, keyFrom := int64(-1), int64(-1)
			var whole ssa.Value = buf
			if appendForm {
				eachInstr(encV1, func(in ssa.Instruction) {
					if c := plainCall(in); c != nil && CalleeName(c) == "builtin.append" && c.Args[0] == ssa.Value(buf) && Expr(c.Args[1]) == "$0.key" {
						keyFrom = 1
						whole = in.(ssa.Value)
					}
				})
			}
			eachInstr(encV1, func(in ssa.Instruction) {
				if st, ok := in.(*ssa.Store); ok {
					if ia, ok := st.Addr.(*ssa.IndexAddr); ok && ia.X == ssa.Value(buf) {
						if idx, isC := constInt(ia.Index); isC && strings.HasSuffix(Expr(st.Val), ".keyType") {
							typeAt = idx
						} else {
							obB.Violate("v1-element-store", st.Pos(), "the v1 encoder stores `"+Expr(st.Val)+"` into buffer index "+Expr(ia.Index))
						}
					}
				}
				if c := plainCall(in); c != nil && CalleeName(c) == "builtin.copy" {
					if sl, ok := c.Args[0].(*ssa.Slice); ok && sl.X == ssa.Value(buf) && sl.High == nil {
						if lo, isC := constInt(sl.Low); isC && Expr(c.Args[1]) == "$0.key" {
							keyFrom = lo
						}
					}
				}
			})
			obA.SiteS("v1 encoder: type byte at " + itoa(int(typeAt)) + ", key from " + itoa(int(keyFrom)))
			if typeAt != 0 || keyFrom != 1 {
				obA.Violate("v1-encoder-offsets", encV1.Pos(), "the v1 encoder puts the type at "+itoa(int(typeAt))+" and the key from "+itoa(int(keyFrom))+"; the raw decoder expects 0 and 1")
			}
			// key used only as len arg and copy source
			eachInstr(encV1, func(in ssa.Instruction) {
				u, ok := in.(*ssa.UnOp)
				if !ok || Expr(u) != "$0.key" || u.Referrers() == nil {
					return
				}
				for _, ref := range *u.Referrers() {
					okUse := false
					if c := callOf(ref); c != nil {
						n := CalleeName(c)
						if n == "builtin.len" || (n == "builtin.copy" && c.Args[1] == ssa.Value(u)) || (n == "builtin.append" && len(c.Args) == 2 && c.Args[1] == ssa.Value(u) && c.Args[0] == ssa.Value(buf)) {
							okUse = true
						}
					}
					if _, isDbg := ref.(*ssa.DebugRef); isDbg {
						okUse = true
					}
					obB.Site(ref.Pos(), "encoder use of key bytes: "+ref.String())
					if !okUse {
						obB.Violate("key-bytes-transformed", ref.Pos(), "the v1 encoder uses the key bytes in `"+ref.String()+"`, not only as copy source")
					}
				}
			})
			// the buffer is written whole
			eachInstr(encV1, func(in ssa.Instruction) {
				if c := plainCall(in); c != nil && c.IsInvoke() && c.Method.Name() == "Write" {
					e := Expr(c.Args[0])
					obB.Site(in.Pos(), "v1 encoder writes "+e)
					if sl, ok := c.Args[0].(*ssa.Slice); !(ok && (sl.X == ssa.Value(buf) || sl.X == whole) && sl.Low == nil && sl.High == nil) && c.Args[0] != ssa.Value(buf) && c.Args[0] != whole {
						obB.Violate("v1-partial-write", in.Pos(), "the v1 encoder writes `"+e+"`, not the whole body buffer")
					}
				}
			})
		}
	}
	// ---- decoders ----
	{
		stripped := false
		eachInstr(dec, func(in ssa.Instruction) {
			switch x := in.(type) {
			case *ssa.Slice:
				if x.X == ssa.Value(dec.Params[0]) {
					lo, isC := constInt(x.Low)
					obA.Site(x.Pos(), "DecodeBytes strips raw["+Expr(x.Low)+":]")
					if x.High != nil || !isC || lo != hdrLen {
						obA.Violate("decoder-strip-width", x.Pos(), "DecodeBytes strips `"+Expr(x.Low)+"` bytes, the encoder writes a header of "+itoa(int(hdrLen)))
					} else {
						stripped = true
					}
				}
			case *ssa.IndexAddr:
				if x.X == ssa.Value(dec.Params[0]) {
					idx, isC := constInt(x.Index)
					obA.Site(x.Pos(), "DecodeBytes reads raw["+Expr(x.Index)+"] as version")
					if !isC || idx != verPos {
						obA.Violate("decoder-version-pos", x.Pos(), "DecodeBytes reads the version at "+Expr(x.Index)+", the encoder writes it at "+itoa(int(verPos)))
					}
				}
			case *ssa.Store:
				if ia, ok := x.Addr.(*ssa.IndexAddr); ok && ia.X == ssa.Value(dec.Params[0]) {
					obB.Violate("decoder-mutates-input", x.Pos(), "DecodeBytes modifies its input")
				}
			}
		})
		if !stripped {
			obA.Violate("decoder-no-strip", dec.Pos(), "DecodeBytes does not strip the header")
		}
		// the returned key is the raw decoder's key
		eachInstr(dec, func(in ssa.Instruction) {
			if st, ok := in.(*ssa.Store); ok {
				if fa, ok := st.Addr.(*ssa.FieldAddr); ok && fieldAddrName(fa) == "Key" && typeIs(fa.X.Type(), keyPath, "Key") {
					e := Expr(st.Val)
					obB.Site(st.Pos(), "DecodeBytes Key = "+e)
					if !strings.Contains(e, "v1DecodeRaw(") || !strings.HasSuffix(e, ".key") {
						obB.Violate("decoder-key-source", st.Pos(), "DecodeBytes returns key `"+e+"`")
					}
				}
			}
		})
		typeAt, keyFrom := int64(-1), int64(-1)
		eachInstr(decV1, func(in ssa.Instruction) {
			switch x := in.(type) {
			case *ssa.IndexAddr:
				if x.X == ssa.Value(decV1.Params[0]) {
					if idx, isC := constInt(x.Index); isC {
						typeAt = idx
					}
				}
			case *ssa.Slice:
				if x.X == ssa.Value(decV1.Params[0]) && x.High == nil {
					if lo, isC := constInt(x.Low); isC {
						keyFrom = lo
					}
				}
			}
		})
		obA.SiteS("raw v1 decoder: type byte at " + itoa(int(typeAt)) + ", key from " + itoa(int(keyFrom)))
		if typeAt != 0 || keyFrom != 1 {
			obA.Violate("v1-decoder-offsets", decV1.Pos(), "the raw v1 decoder takes the type at "+itoa(int(typeAt))+" and the key from "+itoa(int(keyFrom))+"; the encoder writes them at 0 and 1")
		}
	}
	// ---- constants ----
	user, sys := keyTypeConsts(w)
	obC.SiteS("TypeUser=" + itoa(int(user)) + " TypeSystem=" + itoa(int(sys)))
	if !(user >= 0 && sys >= 0 && user < sys) {
		obC.Violate("type-order", 0, "TypeUser="+itoa(int(user))+" TypeSystem="+itoa(int(sys))+": they must be distinct with user < system so that bookkeeping keys sort above every user key")
	}
	// bookkeeping names
	if sp := w.SSAPkg(fsmRel); sp != nil {
		if initFn := sp.Func("init"); initFn != nil {
			eachInstr(initFn, func(in ssa.Instruction) {
				call, ok := in.(*ssa.Call)
				if !ok || len(call.Call.Args) != 1 || !typeIs(call.Call.Args[0].Type(), keyPath, "Key") {
					return
				}
				kt, name := keyLiteral(call.Call.Args[0])
				if kt != sys {
					return
				}
				obC.Site(in.Pos(), "bookkeeping key name "+name)
				if len(name) == 0 || name[0] == 0 || strings.ContainsAny(name[:1], "$^?&") {
					obC.Violate("bookkeeping-name", in.Pos(), "a bookkeeping key is built from `"+name+"`, which is empty, starts with a zero byte or is not a constant string")
				}
			})
		}
	}
	obA.NeedFloor(6)
	obB.NeedFloor(3)
	obC.NeedFloor(4)
}
