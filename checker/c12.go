package main

// C12 — key encoding is injective, order-preserving, and isolates bookkeeping keys.

import (
	"go/constant"
	"go/types"
	"strings"

	"golang.org/x/tools/go/ssa"
)

func init() {
	register("C12", "key encoding: layout agreement, verbatim user bytes, constant prefixes", checkC12)
}

func constInt(v ssa.Value) (int64, bool) {
	c, ok := v.(*ssa.Const)
	if !ok || c.Value == nil {
		return 0, false
	}
	i, ok := constant.Int64Val(constant.ToInt(c.Value))
	return i, ok
}

func checkC12(w *World, r *Report) {
	r.Decides = "C12 is decided in its structural part only: (a) encoder and decoder agree on the layout: a header of keyHeaderLen bytes whose version byte sits at the same position on both sides, one type byte at offset 0 of the body, the key from offset 1; (b) user bytes pass verbatim: the encoder uses the key only as the source of a copy into a freshly sized buffer, the decoder returns a sub-slice of its input; (c) constant prefix per key space: only the version byte of the header is ever stored, user and system type constants are distinct and ordered user < system, bookkeeping key names are non-empty and start with a byte > 0; (d) range bounds and bookkeeping keys go through the same encoder (the obligations C01.f/g), and a reused buffer is reset before the next key is encoded into it; (e) the export walks the whole key space unbounded and selects by the decoded key type (C07.d) - a bound computed from a 'minimum key' constant is a statement about byte order that does not hold for shorter keys. Injectivity, round trip and order preservation then follow from the lemma 'k -> c ++ k is injective and monotone for a fixed c', which is mathematics and the stated assumption. (f) every ordering function of the store's comparer is the bytewise default, Split is the identity split."
	r.NotDecided = []string{"the arithmetic of the wildcard bound increment", "keys longer than the streaming Decoder's body limit (the unused Decoder would truncate them; DecodeBytes does not)"}
	r.Assume = []string{"lemma: prefixing with a constant is injective and order preserving under bytewise comparison"}
	c12Layout(w, r, "C12", ".a", ".b", ".c")
	a := w.FsmAnchors()
	if len(a.Problems) == 0 && a.Update != nil {
		c01KeySpace(w, r, a, "C12.d1", "d1-key-space")
		c01Bounds(w, r, a, "C12.d2", "d2-bounds-same-encoder")
	}
	c12BufferReuse(w, r, "C12.d3", "d3-encode-into-empty-buffer")
	c07UserPairs(w, r, "C12.e", "e-export-covers-key-space")
	c12Comparer(w, r, "C12.f", "f-bytewise-comparer")
}

// c12Layout: the obligations C12.a-c (layout agreement, verbatim bytes, constant prefix), shared
// with C01 (the stored key of a table is this encoding of the user key).
func c12Layout(w *World, r *Report, pfx, ida, idb, idc string) {
	p := w.Pkg(keyRel)
	if p == nil {
		ob := r.Ob(pfx+".anchors", "anchors", "key package loads", "")
		ob.Undecided("anchors", "storage/table/key not loaded")
		return
	}
	cst := func(n string) int64 {
		c, ok := p.Types.Scope().Lookup(n).(*types.Const)
		if !ok {
			return -1
		}
		v, _ := constant.Int64Val(c.Val())
		return v
	}
	hdrLen, verPos := cst("keyHeaderLen"), cst("keyVersionHeaderPos")
	enc := w.Func(keyRel, "Encoder.Encode")
	encV1 := w.Func(keyRel, "keyV1.Encode")
	dec := w.Func(keyRel, "DecodeBytes")
	decV1 := w.Func(keyRel, "v1DecodeRaw")

	obA := r.Ob(pfx+ida, "a-layout-agreement", "Encoder.Encode writes a [keyHeaderLen]byte header with the version stored at keyVersionHeaderPos, then the v1 body: a buffer of 1+len(key) bytes with the type at index 0 and the key copied from index 1; DecodeBytes tests the version at keyVersionHeaderPos, strips keyHeaderLen bytes, and the raw v1 decoder takes the type from index 0 and the key from index 1", "a width or offset that differs on one side shifts every decoded key by a byte: keys collide or lose their first byte")
	obB := r.Ob(pfx+idb, "b-verbatim-bytes", "in the v1 encoder the key field is used only as len() argument and as source of copy into the fresh buffer, which is written as a whole; the decoders return sub-slices of their input without element stores", "any transformation of key bytes must be undone exactly and preserve order - there is none to check if bytes are copied verbatim")
	obC := r.Ob(pfx+idc, "c-constant-prefix", "the only store into the header array is the version byte; TypeUser != TypeSystem and TypeUser < TypeSystem; every bookkeeping key of the state machine is built from a non-empty name whose first byte is > 0", "a varying prefix breaks order preservation; bookkeeping names starting with a zero byte would sort into the range the wildcard addresses")
	if enc == nil || encV1 == nil || dec == nil || hdrLen < 0 {
		obA.Undecided("anchor", "encoder/decoder functions or layout constants not found")
		return
	}
	// ---- encoder header ----
	var hdr *ssa.Alloc
	eachInstr(enc, func(in ssa.Instruction) {
		if al, ok := in.(*ssa.Alloc); ok {
			if arr, ok := deref(al.Type()).Underlying().(*types.Array); ok {
				if b, ok := arr.Elem().Underlying().(*types.Basic); ok && b.Kind() == types.Uint8 {
					hdr = al
					obA.Site(al.Pos(), "encoder header array of "+itoa(int(arr.Len()))+" bytes")
					if arr.Len() != hdrLen {
						obA.Violate("encoder-header-width", al.Pos(), "the encoder's header has "+itoa(int(arr.Len()))+" bytes but the decoder strips keyHeaderLen="+itoa(int(hdrLen)))
					}
				}
			}
		}
	})
	if hdr == nil {
		obA.Violate("encoder-header-missing", enc.Pos(), "the encoder no longer writes a fixed-size header array")
	} else {
		nst := 0
		for _, ref := range *hdr.Referrers() {
			ia, ok := ref.(*ssa.IndexAddr)
			if !ok || ia.Referrers() == nil {
				continue
			}
			for _, rr := range *ia.Referrers() {
				if st, ok := rr.(*ssa.Store); ok && st.Addr == ssa.Value(ia) {
					nst++
					idx, isC := constInt(ia.Index)
					obC.Site(st.Pos(), "header["+Expr(ia.Index)+"] = "+Expr(st.Val))
					if !isC || idx != verPos {
						obC.Violate("header-byte-stored", st.Pos(), "a header byte other than the version (index "+Expr(ia.Index)+") is stored: the prefix is no longer constant per key space")
					}
					if !strings.HasSuffix(Expr(st.Val), ".version") {
						obC.Violate("header-version-source", st.Pos(), "the version byte is set from `"+Expr(st.Val)+"`")
					}
				}
			}
		}
		if nst == 0 {
			obA.Violate("encoder-version-not-written", enc.Pos(), "the encoder does not write the version byte")
		}
		// the whole header is written before the body
		okWrite := false
		eachInstr(enc, func(in ssa.Instruction) {
			if c := plainCall(in); c != nil && c.IsInvoke() && c.Method.Name() == "Write" {
				if sl, ok := c.Args[0].(*ssa.Slice); ok && sl.X == ssa.Value(hdr) && sl.Low == nil && sl.High == nil {
					okWrite = true
				}
			}
		})
		if !okWrite {
			obA.Violate("encoder-header-not-written", enc.Pos(), "the encoder does not write the whole header")
		}
	}
	// ---- v1 body encoder ----
	{
		var buf *ssa.MakeSlice
		eachInstr(encV1, func(in ssa.Instruction) {
			if ms, ok := in.(*ssa.MakeSlice); ok {
				buf = ms
			}
		})
		var fixed *ssa.Alloc
		eachInstr(encV1, func(in ssa.Instruction) {
			if al, ok := in.(*ssa.Alloc); ok {
				if arr, ok := deref(al.Type()).Underlying().(*types.Array); ok {
					if b, ok := arr.Elem().Underlying().(*types.Basic); ok && b.Kind() == types.Uint8 {
						fixed = al
					}
				}
			}
		})
		if buf == nil && fixed != nil {
			obA.Site(fixed.Pos(), "v1 body buffer is a fixed array "+typeString(deref(fixed.Type())))
			obA.Violate("v1-buffer-size", fixed.Pos(), "the body buffer is a fixed "+typeString(deref(fixed.Type()))+": copy truncates every key that does not fit, so two accepted keys sharing that prefix encode to the same stored key; the buffer must be sized 1+len(key)")
		} else if buf == nil {
			obA.Undecided("v1-encoder-shape", "the v1 encoder does not build a buffer")
		} else {
			obA.Site(buf.Pos(), "v1 body buffer of "+Expr(buf.Len)+" bytes")
			appendForm := false
			if l, isC := constInt(buf.Len); isC && l == 1 {
				appendForm = true // make([]byte, 1, …) followed by append(buf, key...)
			} else if e := Expr(buf.Len); e != "len($0.key)+1" {
				obA.Violate("v1-buffer-size", buf.Pos(), "the body buffer has `"+e+"` bytes, expected 1+len(key)")
			}
			typeAt, keyFrom := int64(-1), int64(-1)
			var whole ssa.Value = buf
			if appendForm {
				eachInstr(encV1, func(in ssa.Instruction) {
					if c := plainCall(in); c != nil && CalleeName(c) == "builtin.append" && c.Args[0] == ssa.Value(buf) && Expr(c.Args[1]) == "$0.key" {
						keyFrom = 1
						whole = in.(ssa.Value)
					}
				})
			}
			eachInstr(encV1, func(in ssa.Instruction) {
				if st, ok := in.(*ssa.Store); ok {
					if ia, ok := st.Addr.(*ssa.IndexAddr); ok && ia.X == ssa.Value(buf) {
						if idx, isC := constInt(ia.Index); isC && strings.HasSuffix(Expr(st.Val), ".keyType") {
							typeAt = idx
						} else {
							obB.Violate("v1-element-store", st.Pos(), "the v1 encoder stores `"+Expr(st.Val)+"` into buffer index "+Expr(ia.Index))
						}
					}
				}
				if c := plainCall(in); c != nil && CalleeName(c) == "builtin.copy" {
					if sl, ok := c.Args[0].(*ssa.Slice); ok && sl.X == ssa.Value(buf) && sl.High == nil {
						if lo, isC := constInt(sl.Low); isC && Expr(c.Args[1]) == "$0.key" {
							keyFrom = lo
						}
					}
				}
			})
			obA.SiteS("v1 encoder: type byte at " + itoa(int(typeAt)) + ", key from " + itoa(int(keyFrom)))
			if typeAt != 0 || keyFrom != 1 {
				obA.Violate("v1-encoder-offsets", encV1.Pos(), "the v1 encoder puts the type at "+itoa(int(typeAt))+" and the key from "+itoa(int(keyFrom))+"; the raw decoder expects 0 and 1")
			}
			// key used only as len arg and copy source
			eachInstr(encV1, func(in ssa.Instruction) {
				u, ok := in.(*ssa.UnOp)
				if !ok || Expr(u) != "$0.key" || u.Referrers() == nil {
					return
				}
				for _, ref := range *u.Referrers() {
					okUse := false
					if c := callOf(ref); c != nil {
						n := CalleeName(c)
						if n == "builtin.len" || (n == "builtin.copy" && c.Args[1] == ssa.Value(u)) || (n == "builtin.append" && len(c.Args) == 2 && c.Args[1] == ssa.Value(u) && c.Args[0] == ssa.Value(buf)) {
							okUse = true
						}
					}
					if _, isDbg := ref.(*ssa.DebugRef); isDbg {
						okUse = true
					}
					obB.Site(ref.Pos(), "encoder use of key bytes: "+ref.String())
					if !okUse {
						obB.Violate("key-bytes-transformed", ref.Pos(), "the v1 encoder uses the key bytes in `"+ref.String()+"`, not only as copy source")
					}
				}
			})
			// the buffer is written whole
			eachInstr(encV1, func(in ssa.Instruction) {
				if c := plainCall(in); c != nil && c.IsInvoke() && c.Method.Name() == "Write" {
					e := Expr(c.Args[0])
					obB.Site(in.Pos(), "v1 encoder writes "+e)
					if sl, ok := c.Args[0].(*ssa.Slice); !(ok && (sl.X == ssa.Value(buf) || sl.X == whole) && sl.Low == nil && sl.High == nil) && c.Args[0] != ssa.Value(buf) && c.Args[0] != whole {
						obB.Violate("v1-partial-write", in.Pos(), "the v1 encoder writes `"+e+"`, not the whole body buffer")
					}
				}
			})
		}
	}
	// ---- decoders ----
	{
		stripped := false
		var bodyInDec ssa.Value // the stripped body, when the raw v1 decoder is written out in DecodeBytes itself
		eachInstr(dec, func(in ssa.Instruction) {
			switch x := in.(type) {
			case *ssa.Slice:
				if x.X == ssa.Value(dec.Params[0]) {
					lo, isC := constInt(x.Low)
					obA.Site(x.Pos(), "DecodeBytes strips raw["+Expr(x.Low)+":]")
					if x.High != nil || !isC || lo != hdrLen {
						obA.Violate("decoder-strip-width", x.Pos(), "DecodeBytes strips `"+Expr(x.Low)+"` bytes, the encoder writes a header of "+itoa(int(hdrLen)))
					} else {
						stripped = true
						bodyInDec = x
					}
				}
			case *ssa.IndexAddr:
				if x.X == ssa.Value(dec.Params[0]) {
					idx, isC := constInt(x.Index)
					obA.Site(x.Pos(), "DecodeBytes reads raw["+Expr(x.Index)+"] as version")
					if !isC || idx != verPos {
						obA.Violate("decoder-version-pos", x.Pos(), "DecodeBytes reads the version at "+Expr(x.Index)+", the encoder writes it at "+itoa(int(verPos)))
					}
				}
			case *ssa.Store:
				if ia, ok := x.Addr.(*ssa.IndexAddr); ok && ia.X == ssa.Value(dec.Params[0]) {
					obB.Violate("decoder-mutates-input", x.Pos(), "DecodeBytes modifies its input")
				}
			}
		})
		if !stripped {
			obA.Violate("decoder-no-strip", dec.Pos(), "DecodeBytes does not strip the header")
		}
		// the returned key is the raw decoder's key
		eachInstr(dec, func(in ssa.Instruction) {
			if st, ok := in.(*ssa.Store); ok {
				if fa, ok := st.Addr.(*ssa.FieldAddr); ok && fieldAddrName(fa) == "Key" && typeIs(fa.X.Type(), keyPath, "Key") {
					e := Expr(st.Val)
					obB.Site(st.Pos(), "DecodeBytes Key = "+e)
					viaRaw := strings.Contains(e, "v1DecodeRaw(") && strings.HasSuffix(e, ".key")
					inline := false
					if sl, ok := st.Val.(*ssa.Slice); ok && decV1 == nil && bodyInDec != nil && sl.X == bodyInDec && sl.High == nil {
						inline = true
					}
					if !viaRaw && !inline {
						obB.Violate("decoder-key-source", st.Pos(), "DecodeBytes returns key `"+e+"`")
					}
				}
			}
		})
		typeAt, keyFrom := int64(-1), int64(-1)
		rawFn, rawBody := decV1, ssa.Value(nil)
		if decV1 != nil {
			rawBody = decV1.Params[0]
		} else {
			rawFn, rawBody = dec, bodyInDec
		}
		if rawBody == nil {
			obA.Undecided("anchor/raw-decoder", "no raw v1 decoder and no stripped body in DecodeBytes")
			return
		}
		decV1 = rawFn
		eachInstr(rawFn, func(in ssa.Instruction) {
			switch x := in.(type) {
			case *ssa.IndexAddr:
				if x.X == rawBody {
					if idx, isC := constInt(x.Index); isC {
						typeAt = idx
					}
				}
			case *ssa.Slice:
				if x.X == rawBody && x.High == nil {
					if lo, isC := constInt(x.Low); isC {
						keyFrom = lo
					}
				}
			}
		})
		obA.SiteS("raw v1 decoder: type byte at " + itoa(int(typeAt)) + ", key from " + itoa(int(keyFrom)))
		if typeAt != 0 || keyFrom != 1 {
			obA.Violate("v1-decoder-offsets", decV1.Pos(), "the raw v1 decoder takes the type at "+itoa(int(typeAt))+" and the key from "+itoa(int(keyFrom))+"; the encoder writes them at 0 and 1")
		}
	}
	// ---- constants ----
	user, sys := keyTypeConsts(w)
	obC.SiteS("TypeUser=" + itoa(int(user)) + " TypeSystem=" + itoa(int(sys)))
	if !(user >= 0 && sys >= 0 && user < sys) {
		obC.Violate("type-order", 0, "TypeUser="+itoa(int(user))+" TypeSystem="+itoa(int(sys))+": they must be distinct with user < system so that bookkeeping keys sort above every user key")
	}
	// bookkeeping names
	if sp := w.SSAPkg(fsmRel); sp != nil {
		if initFn := sp.Func("init"); initFn != nil {
			eachInstr(initFn, func(in ssa.Instruction) {
				call, ok := in.(*ssa.Call)
				if !ok || len(call.Call.Args) != 1 || !typeIs(call.Call.Args[0].Type(), keyPath, "Key") {
					return
				}
				kt, name := keyLiteral(call.Call.Args[0])
				if kt != sys {
					return
				}
				obC.Site(in.Pos(), "bookkeeping key name "+name)
				if len(name) == 0 || name[0] == 0 || strings.ContainsAny(name[:1], "$^?&") {
					obC.Violate("bookkeeping-name", in.Pos(), "a bookkeeping key is built from `"+name+"`, which is empty, starts with a zero byte or is not a constant string")
				}
			})
		}
	}
	obA.NeedFloor(6)
	obB.NeedFloor(3)
	obC.NeedFloor(4)
}

// c12BufferReuse: a key is encoded into an empty buffer. A pooled buffer that is reused - captured
// by a closure that runs once per predicate, or obtained before a loop that encodes into it - must
// be reset on every way from the encode to the next use; otherwise the second key is appended to
// the first and the stored key addressed is the concatenation: another user key.
func c12BufferReuse(w *World, r *Report, id, slug string) {
	ob := r.Ob(id, slug, "in the state-machine package, wherever the user-key encoder writes into a buffer that outlives the encode - a captured variable of a closure, or a buffer obtained before the loop the encode sits in - every path from the encode to a point from which the encode can run again (a return of the closure other than an error / `false` return; the loop's back edge) crosses Reset or Truncate(0) of that buffer", "enc(k1) followed by enc(k2) in one buffer is the encoding of neither: the comparison, read or write addresses a different stored key (injectivity is lost at the call site, not in the encoder)")
	sp := w.SSAPkg(fsmRel)
	enc := w.Func(fsmRel, "encodeUserKey")
	if sp == nil || enc == nil {
		ob.Undecided("anchor", "user-key encoder not found")
		return
	}
	root := func(v ssa.Value) ssa.Value {
		for d := 0; d < 6; d++ {
			switch x := v.(type) {
			case *ssa.MakeInterface:
				v = x.X
			case *ssa.ChangeInterface:
				v = x.X
			case *ssa.UnOp:
				// load of a captured variable or of a local
				v = x.X
			default:
				return v
			}
		}
		return v
	}
	isReset := func(buf ssa.Value) func(ssa.Instruction) bool {
		return func(in ssa.Instruction) bool {
			c := callOf(in)
			if c == nil {
				return false
			}
			n := CalleeName(c)
			if n != "(*bytes.Buffer).Reset" && n != "(*bytes.Buffer).Truncate" {
				return false
			}
			return root(c.Args[0]) == buf
		}
	}
	n := 0
	// returns after which the function may run again on the same buffer: not an error return, not `false`
	liveReturn := func(x ssa.Instruction) bool {
		ret, ok := x.(*ssa.Return)
		if !ok || isErrorReturn(ret) {
			return false
		}
		if len(ret.Results) > 0 && isConstBool(retVal(ret, 0), false) {
			return false
		}
		return true
	}
	// check: `in` (in fn) leaves key bytes in buf (the encode itself, or a call of a function that
	// encodes into the buffer it is given and returns without emptying it)
	var check func(fn *ssa.Function, in ssa.Instruction, buf ssa.Value, depth int)
	check = func(fn *ssa.Function, in ssa.Instruction, buf ssa.Value, depth int) {
		switch b := buf.(type) {
		case *ssa.FreeVar:
			ob.Site(in.Pos(), "encode into the captured buffer "+b.Name()+" in "+FnName(fn))
			if p := (&Walk{Barrier: isReset(buf), Target: liveReturn}).Find(after(in)); p != nil {
				ob.Violate("encode-buffer-not-reset@"+FnName(fn), in.Pos(), "the closure can return (other than with an error or false) with the captured buffer still holding the encoded key: the next key is appended to it", w.PathString(p)...)
			}
		case *ssa.Parameter:
			// the caller's buffer: either this function empties it before every return after
			// which it may be called again, or each caller does on its way round
			ob.Site(in.Pos(), "encode into the buffer parameter "+b.Name()+" of "+FnName(fn))
			if (&Walk{Barrier: isReset(buf), Target: liveReturn}).Find(after(in)) == nil {
				return
			}
			idx := -1
			for i, p := range fn.Params {
				if p == b {
					idx = i
				}
			}
			var sites []ssa.CallInstruction
			if fn.Parent() != nil {
				// a literal invoked where it is written
				for _, f2 := range w.ModFuncs() {
					eachInstr(f2, func(x ssa.Instruction) {
						if c := callOf(x); c != nil {
							if mc, ok := c.Value.(*ssa.MakeClosure); ok && mc.Fn == fn {
								sites = append(sites, x.(ssa.CallInstruction))
							} else if c.Value == ssa.Value(fn) {
								sites = append(sites, x.(ssa.CallInstruction))
							}
						}
					})
				}
			} else {
				sites = w.CallersOf(fn)
			}
			if idx < 0 || len(sites) == 0 || depth > 2 {
				ob.Violate("encode-buffer-not-reset@"+FnName(fn), in.Pos(), FnName(fn)+" can return (other than with an error or false) with the buffer it was given still holding the encoded key, and its callers cannot be followed")
				return
			}
			for _, cs := range sites {
				args := cs.Common().Args
				if idx >= len(args) {
					continue
				}
				check(cs.Parent(), cs, root(args[idx]), depth+1)
			}
		default:
			// obtained in this function: a problem only if obtained before a loop the encode is in
			h, body := loopOf(in.Block())
			if h == nil {
				return
			}
			def, ok := buf.(ssa.Instruction)
			if ok && def.Block() != nil && body[def.Block()] {
				return // a fresh buffer per iteration
			}
			ob.Site(in.Pos(), "encode inside a loop into a buffer obtained before it in "+FnName(fn))
			if p := (&Walk{Barrier: isReset(buf), Target: func(x ssa.Instruction) bool { return x.Block() == h && x == h.Instrs[0] }, EdgeOK: func(bb *ssa.BasicBlock, k int) bool { return body[bb.Succs[k]] }}).Find(after(in)); p != nil {
				ob.Violate("encode-buffer-not-reset@"+FnName(fn), in.Pos(), "the loop can come round again with the buffer still holding the encoded key: the next key is appended to it", w.PathString(p)...)
			}
		}
	}
	for _, fn := range w.ModFuncs() {
		if !isFsmFunc(fn) || isGenerated(fn) {
			continue
		}
		eachInstr(fn, func(in ssa.Instruction) {
			c := plainCall(in)
			if c == nil || StaticCallee(c) != enc {
				return
			}
			n++
			check(fn, in, root(c.Args[0]), 0)
		})
	}
	if n == 0 {
		ob.Undecided("shape", "no call of the user-key encoder found")
	}
	ob.NeedFloor(1)
}

// c12Comparer: the store orders keys bytewise. Every ordering function of the comparer the table
// DBs are opened with is the default (bytewise) comparer's; only Split (the whole key is the
// prefix) and the name are the repository's own.
func c12Comparer(w *World, r *Report, id, slug string) {
	ob := r.Ob(id, slug, "in every composite literal of pebble.Comparer in the module the fields Compare, Equal, AbbreviatedKey, Separator, Successor and ImmediateSuccessor are loaded from the same field of pebble.DefaultComparer, and Split is a function that returns len of its argument on every path", "the byte order of encoded keys is the order of the store only under the bytewise comparer; a hand-written AbbreviatedKey that disagrees with Compare misorders the skiplist of an indexed batch: range reads inside an apply call skip keys written earlier in the same call")
	n := 0
	for _, fn := range w.ModFuncs() {
		if isGenerated(fn) {
			continue
		}
		eachInstr(fn, func(in ssa.Instruction) {
			st, ok := in.(*ssa.Store)
			if !ok {
				return
			}
			fa, ok := st.Addr.(*ssa.FieldAddr)
			if !ok {
				return
			}
			// pebble.Comparer is an alias of internal/base.Comparer
			if nt, isN := deref(fa.X.Type()).(*types.Named); !isN || nt.Obj().Name() != "Comparer" || nt.Obj().Pkg() == nil || !strings.HasPrefix(nt.Obj().Pkg().Path(), pebblePath) {
				return
			}
			f := fieldAddrName(fa)
			switch f {
			case "Compare", "Equal", "AbbreviatedKey", "Separator", "Successor", "ImmediateSuccessor":
				n++
				e := Expr(st.Val)
				ob.Site(in.Pos(), "comparer."+f+" = "+e)
				if !strings.HasSuffix(e, "DefaultComparer."+f) {
					ob.Violate("comparer-field/"+f, in.Pos(), "the comparer's "+f+" is `"+e+"`, not the bytewise default: the store no longer orders (or abbreviates) keys the way the key encoding assumes")
				}
			case "Split":
				n++
				var sf *ssa.Function
				v := st.Val
				for d := 0; d < 3; d++ {
					switch x := v.(type) {
					case *ssa.ChangeType:
						v = x.X
					case *ssa.MakeClosure:
						v = x.Fn
					}
				}
				sf, _ = v.(*ssa.Function)
				ob.Site(in.Pos(), "comparer.Split = "+Expr(st.Val))
				okSplit := sf != nil && sf.Blocks != nil && len(sf.Params) == 1
				if okSplit {
					eachInstr(sf, func(x ssa.Instruction) {
						if ret, ok := x.(*ssa.Return); ok {
							if len(ret.Results) != 1 || Expr(ret.Results[0]) != "len($0)" {
								okSplit = false
							}
						}
					})
				}
				if !okSplit {
					ob.Violate("comparer-split", in.Pos(), "the comparer's Split is not the identity split (len of the key): prefix seeks no longer mean exact-key seeks")
				}
			}
		})
	}
	if n == 0 {
		ob.Undecided("shape", "no pebble.Comparer literal found in the module")
	}
	ob.NeedFloor(7)
}
