package main

// Module-confined call graph helpers (E5/E6): reachability through static calls, closures,
// referenced function values and interface calls resolved over the module's named types.

import (
	"go/types"
	"sort"
	"strings"

	"golang.org/x/tools/go/ssa"
)

// moduleNamedTypes lists all named (non-interface) types declared in module packages.
func (w *World) moduleNamedTypes() []*types.Named {
	var out []*types.Named
	for _, p := range w.Mod {
		sc := p.Types.Scope()
		for _, n := range sc.Names() {
			tn, ok := sc.Lookup(n).(*types.TypeName)
			if !ok || tn.IsAlias() {
				continue
			}
			nt, ok := tn.Type().(*types.Named)
			if !ok || nt.TypeParams().Len() > 0 {
				continue
			}
			if _, isI := nt.Underlying().(*types.Interface); isI {
				continue
			}
			out = append(out, nt)
		}
	}
	sort.Slice(out, func(i, j int) bool { return out[i].String() < out[j].String() })
	return out
}

// Implementers returns the module types (T or *T) whose method set satisfies iface.
func (w *World) Implementers(iface *types.Interface) []types.Type {
	var out []types.Type
	// a type that has every method of the interface only by promotion from an embedded field
	// behaves as that field's type, which is listed itself
	ownMethod := func(t types.Type) bool {
		if iface.NumMethods() == 0 {
			return true
		}
		ms := w.Prog.MethodSets.MethodSet(t)
		for i := 0; i < iface.NumMethods(); i++ {
			if sel := ms.Lookup(iface.Method(i).Pkg(), iface.Method(i).Name()); sel != nil && len(sel.Index()) == 1 {
				return true
			}
		}
		return false
	}
	for _, nt := range w.moduleNamedTypes() {
		if types.Implements(nt, iface) {
			if ownMethod(nt) {
				out = append(out, nt)
			}
		} else if types.Implements(types.NewPointer(nt), iface) {
			if ownMethod(types.NewPointer(nt)) {
				out = append(out, types.NewPointer(nt))
			}
		}
	}
	return out
}

// MethodOf resolves method name on type t to its declared SSA function.
func (w *World) MethodOf(t types.Type, name string) *ssa.Function {
	ms := w.Prog.MethodSets.MethodSet(t)
	for i := 0; i < ms.Len(); i++ {
		if ms.At(i).Obj().Name() == name {
			if f := w.Prog.FuncValue(ms.At(i).Obj().(*types.Func)); f != nil && f.Blocks != nil {
				return f
			}
			return w.Prog.MethodValue(ms.At(i))
		}
	}
	return nil
}

// InvokeTargets resolves an interface call to the module methods that may be invoked.
func (w *World) InvokeTargets(c *ssa.CallCommon) []*ssa.Function {
	if !c.IsInvoke() {
		return nil
	}
	iface, ok := c.Value.Type().Underlying().(*types.Interface)
	if !ok {
		return nil
	}
	var out []*ssa.Function
	for _, t := range w.Implementers(iface) {
		if f := w.MethodOf(t, c.Method.Name()); f != nil {
			out = append(out, f)
		}
	}
	return out
}

// Reach computes module functions reachable from roots: static callees, closures created,
// function values referenced, and module implementers of invoked interface methods.
// stop (optional) prunes the walk at functions for which it returns true (they are included
// but not expanded).
func (w *World) Reach(roots []*ssa.Function, stop func(*ssa.Function) bool) map[*ssa.Function]bool {
	return w.reach(roots, stop, false)
}

// ReachModIfaces is Reach with interface calls resolved only for interfaces declared in the
// module (calls through io.Closer, io.Writer, error, … are not expanded to every module type).
func (w *World) ReachModIfaces(roots []*ssa.Function, stop func(*ssa.Function) bool) map[*ssa.Function]bool {
	return w.reach(roots, stop, true)
}

func (w *World) reach(roots []*ssa.Function, stop func(*ssa.Function) bool, modIfacesOnly bool) map[*ssa.Function]bool {
	seen := map[*ssa.Function]bool{}
	var st []*ssa.Function
	push := func(f *ssa.Function) {
		if f == nil || seen[f] || !inModule(f) || f.Blocks == nil {
			return
		}
		seen[f] = true
		st = append(st, f)
	}
	for _, r := range roots {
		push(r)
	}
	for len(st) > 0 {
		f := st[len(st)-1]
		st = st[:len(st)-1]
		if stop != nil && stop(f) {
			continue
		}
		for _, a := range f.AnonFuncs {
			push(a)
		}
		for _, b := range f.Blocks {
			for _, in := range b.Instrs {
				if c := callOf(in); c != nil {
					if c.IsInvoke() {
						if modIfacesOnly {
							if n, ok := c.Value.Type().(*types.Named); !ok || n.Obj().Pkg() == nil || !(n.Obj().Pkg().Path() == modPath || strings.HasPrefix(n.Obj().Pkg().Path(), modPath+"/")) {
								continue
							}
						}
						for _, t := range w.InvokeTargets(c) {
							push(t)
						}
					} else if cal := StaticCallee(c); cal != nil {
						push(cal)
					}
				}
				var ops []*ssa.Value
				for _, o := range in.Operands(ops) {
					if o == nil || *o == nil {
						continue
					}
					if fv, ok := (*o).(*ssa.Function); ok {
						push(fv)
					}
				}
			}
		}
	}
	return seen
}

func sortedFuncs(m map[*ssa.Function]bool) []*ssa.Function {
	var out []*ssa.Function
	for f := range m {
		out = append(out, f)
	}
	sort.Slice(out, func(i, j int) bool {
		if out[i].Pos() != out[j].Pos() {
			return out[i].Pos() < out[j].Pos()
		}
		return out[i].String() < out[j].String()
	})
	return out
}

// CallersOf lists static call sites of fn in module functions.
func (w *World) CallersOf(fn *ssa.Function) []ssa.CallInstruction {
	var out []ssa.CallInstruction
	for _, f := range w.ModFuncs() {
		if strings.HasPrefix(f.Synthetic, "wrapper for") {
			continue // promoted-method wrappers are looked through by StaticCallee
		}
		eachInstr(f, func(in ssa.Instruction) {
			if c := callOf(in); c != nil {
				cal := StaticCallee(c)
				if cal == fn || (cal != nil && cal.Origin() != nil && cal.Origin() == fn) {
					out = append(out, in.(ssa.CallInstruction))
				}
			}
		})
	}
	return out
}

// writesThroughParam: the function may modify the backing array of its i-th (slice) parameter.
func writesThroughParam(fn *ssa.Function, i int, depth int) bool {
	if fn == nil || fn.Blocks == nil || i >= len(fn.Params) || depth > 4 {
		return false
	}
	return writesThrough(fn, fn.Params[i], depth, map[ssa.Value]bool{})
}

func writesThrough(fn *ssa.Function, v ssa.Value, depth int, seen map[ssa.Value]bool) bool {
	if seen[v] {
		return false
	}
	seen[v] = true
	refs := v.Referrers()
	if refs == nil {
		return false
	}
	for _, r := range *refs {
		switch x := r.(type) {
		case *ssa.IndexAddr:
			if x.X == v {
				// a store to the element address
				if x.Referrers() != nil {
					for _, rr := range *x.Referrers() {
						if st, ok := rr.(*ssa.Store); ok && st.Addr == x {
							return true
						}
					}
				}
			}
		case *ssa.Slice:
			if x.X == v && writesThrough(fn, x, depth, seen) {
				return true
			}
		case *ssa.Phi:
			if writesThrough(fn, x, depth, seen) {
				return true
			}
		case *ssa.Store:
			// v stored into a local variable that is later loaded: follow loads of that alloc
			if x.Val == v {
				if a, ok := x.Addr.(*ssa.Alloc); ok && a.Referrers() != nil {
					for _, rr := range *a.Referrers() {
						if u, ok := rr.(*ssa.UnOp); ok && u.X == a {
							if writesThrough(fn, u, depth, seen) {
								return true
							}
						}
					}
				}
			}
		case ssa.CallInstruction:
			c := x.Common()
			name := CalleeName(c)
			for ai, a := range c.Args {
				if a != v {
					continue
				}
				switch name {
				case "builtin.copy":
					if ai == 0 {
						return true
					}
				case "builtin.append":
					if ai == 0 {
						return true // may write into spare capacity of v
					}
				case "builtin.len", "builtin.cap", "bytes.Equal", "bytes.Compare":
				default:
					if cal := StaticCallee(c); cal != nil && inModule(cal) {
						pi := ai
						if writesThroughParam(cal, pi, depth+1) {
							return true
						}
					}
				}
			}
		}
	}
	return false
}
