package main

// C18 — wire codecs and stream framing are lossless for every message and chunking.

import (
	"go/constant"
	"go/types"
	"strings"

	"golang.org/x/tools/go/ssa"
)

func init() {
	register("C18", "wire codecs and stream framing: writer/reader agreement, pooled objects, compressor pools", checkC18)
}

const snapPath = modPath + "/replication/snapshot"

func checkC18(w *World, r *Report) {
	r.Decides = "C18 is decided in its structural part only: (a) framing agreement: the snapshot file writes an 8-byte little-endian length prefix of len(payload) and reads an 8-byte little-endian prefix followed by exactly that many bytes, the in-cluster SST stream writes a little-endian uint64 length and the recoverer reads a little-endian uint64; (b) chunking is a plain byte stream: the chunk writer sends chunk[:n] for every n > 0 in order and stops only at EOF, the chunk readers write exactly the chunk's Data, Len mirrors len(Data); (c) pooled message protocol: a message taken from a vtproto pool is reset before every receive inside a loop, is not touched after it was returned to the pool, and its Data is only copied out or written synchronously; (d) codec symmetry: Marshal and Unmarshal try the vtproto arm before the reflection arm, every request/response type of the regattapb service descriptors implements the vtproto pair, and the codec is registered under the name gRPC uses for protobuf; (e) compressor pool discipline in each of the three compressor packages: the pooled writer is Reset onto the new sink before it is handed out and goes back to the pool only in Close after the underlying Close; the pooled reader is Reset onto the new source when reused and goes back to the pool only on EOF. (g) stream methods are in the method set of what io.Copy is given; (h) chunk, record buffer and codec options fit the other side."
	r.NotDecided = []string{"value-level round trip of the generated marshal code and of the compression libraries", "concurrency of pooled state beyond the Get/Put protocol"}
	r.Assume = []string{"encoding/binary, io.ReadFull, vtproto pools and sync.Pool behave as documented"}
	c18Framing(w, r)
	c18Chunks(w, r)
	c18Pooled(w, r)
	c18Codec(w, r)
	c18Compressors(w, r)
	c18Wiring(w, r)
	c18CopyPaths(w, r)
	c18Sizes(w, r)
}

// c18Sizes: the constants of the two stream framings fit what the other side can take.
func c18Sizes(w *World, r *Report) {
	ob := r.Ob("C18.h", "h-sizes-fit", "type-checked constants: the snapshot chunk size plus 64 bytes of message framing is below gRPC's default receive limit of 4 MiB (clients such as the backup command dial with the default); the restore loader's record buffer (a constant-sized make) holds a record of maximum value and key length plus 4 KiB for the table name and field framing; the zstd / snappy / gzip readers and writers are built without size-limiting options", "a chunk of exactly 4 MiB exceeds the default message limit by its framing (ResourceExhausted on the first full chunk); a record buffer sized by value+key limits alone is shorter than the marshalled record (slice bounds panic in the snapshot file's Read); a decoder memory cap below the encoder's window rejects the compressor's own output")
	constOf := func(rel, name string) (int64, bool) {
		p := w.Pkg(rel)
		if p == nil || p.Types == nil {
			return 0, false
		}
		c, ok := p.Types.Scope().Lookup(name).(*types.Const)
		if !ok {
			return 0, false
		}
		return constant.Int64Val(constant.ToInt(c.Val()))
	}
	if cs, ok := constOf("replication/snapshot", "DefaultSnapshotChunkSize"); ok {
		ob.SiteS("snapshot chunk size " + itoa(int(cs)))
		if cs+64 > 4*1024*1024 {
			ob.Violate("chunk-exceeds-default-message-limit", 0, "DefaultSnapshotChunkSize is "+itoa(int(cs))+": with its framing a full chunk is larger than gRPC's default 4 MiB receive limit")
		}
	} else {
		ob.Undecided("anchor/chunk", "DefaultSnapshotChunkSize not found")
	}
	mv, ok1 := constOf("storage/table", "MaxValueLen")
	mk, ok2 := constOf("storage/table/key", "LatestVersionLen")
	if fn := w.Func("storage/table", "Manager.readIntoTable"); fn != nil && ok1 && ok2 {
		found := false
		eachInstr(fn, func(in ssa.Instruction) {
			var n int64
			switch x := in.(type) {
			case *ssa.MakeSlice:
				if sl, ok := x.Type().Underlying().(*types.Slice); !ok || !isByte(sl.Elem()) {
					return
				}
				k, isC := constInt(x.Len)
				if !isC {
					return
				}
				n = k
			case *ssa.Alloc:
				// make([]byte, constant) is an array allocation that is sliced
				arr, ok := deref(x.Type()).Underlying().(*types.Array)
				if !ok || !isByte(arr.Elem()) || !x.Heap || x.Comment != "makeslice" {
					return
				}
				n = arr.Len()
			default:
				return
			}
			found = true
			ob.Site(in.Pos(), "restore record buffer of "+itoa(int(n))+" bytes")
			if n < mv+mk+4096 {
				ob.Violate("record-buffer-too-small", in.Pos(), "the restore loader reads records into a buffer of "+itoa(int(n))+" bytes, but a record of maximum value ("+itoa(int(mv))+") and key ("+itoa(int(mk))+") length plus table name and framing is longer: the snapshot file's Read slices past the buffer and panics")
			}
		})
		if !found {
			ob.Undecided("shape/loader", "no constant-sized record buffer in the restore loader")
		}
	} else {
		ob.Undecided("anchor/loader", "restore loader or the size limits not found")
	}
	for _, rel := range []string{"regattaserver/encoding/zstd", "regattaserver/encoding/snappy", "regattaserver/encoding/gzip"} {
		for _, fn := range w.ModFuncs() {
			top := fn
			for top.Parent() != nil {
				top = top.Parent()
			}
			if top.Package() == nil || top.Package().Pkg.Path() != modPath+"/"+rel {
				continue
			}
			eachInstr(fn, func(in ssa.Instruction) {
				c := plainCall(in)
				if c == nil {
					return
				}
				n := CalleeName(c)
				if !(strings.HasSuffix(n, ".NewReader") || strings.HasSuffix(n, ".NewWriter")) || !strings.Contains(n, "klauspost") || c.Signature() == nil || !c.Signature().Variadic() {
					return
				}
				ob.Site(in.Pos(), shortName(n)+" in "+FnName(fn))
				va := c.Args[len(c.Args)-1]
				if !isNilConst(va) {
					ob.Violate("codec-options@"+rel, in.Pos(), FnName(fn)+" builds its codec object with options (`"+Expr(va)+"`): a limit on one side that the other side does not honour makes the compressor reject its own output")
				}
			})
		}
	}
	ob.NeedFloor(3)
}

func isByte(t types.Type) bool {
	b, ok := t.Underlying().(*types.Basic)
	return ok && (b.Kind() == types.Uint8 || b.Kind() == types.Byte)
}

// c18CopyPaths: io.Copy uses the chunk-sized transfer the stream types implement.
func c18CopyPaths(w *World, r *Report) {
	ob := r.Ob("C18.g", "g-copy-uses-stream-methods", "at every io.Copy / io.CopyBuffer of the module whose source (destination) is a value of a module type that declares WriteTo (ReadFrom) on the type or on its pointer, the value handed to io.Copy has that method in its method set", "io.Copy falls back to Read with a 32 KiB scratch buffer when the source does not offer WriteTo: the snapshot Reader's Read refuses a chunk larger than the buffer (io.ErrShortBuffer) - a table whose stream has chunks above 32 KiB can no longer be backed up; the value/pointer receiver decides, and the compiler does not complain")
	n := 0
	check := func(in ssa.Instruction, v ssa.Value, method, role string) {
		for d := 0; d < 3; d++ {
			if ci, ok := v.(*ssa.ChangeInterface); ok {
				v = ci.X
			}
		}
		mi, ok := v.(*ssa.MakeInterface)
		if !ok {
			return
		}
		dyn := mi.X.Type()
		base := dyn
		if pt, ok := base.(*types.Pointer); ok {
			base = pt.Elem()
		}
		nt, ok := base.(*types.Named)
		if !ok || nt.Obj().Pkg() == nil || !strings.HasPrefix(nt.Obj().Pkg().Path(), modPath) {
			return
		}
		has := func(t types.Type) bool {
			return w.Prog.MethodSets.MethodSet(t).Lookup(nil, method) != nil
		}
		if !has(nt) && !has(types.NewPointer(nt)) {
			return
		}
		n++
		ob.Site(in.Pos(), "io.Copy "+role+" "+typeString(dyn)+" ("+method+")")
		if !has(dyn) {
			ob.Violate("copy-fast-path-lost@"+FnName(in.Parent()), in.Pos(), "io.Copy is given a "+typeString(dyn)+" as "+role+": "+method+" is declared on the other receiver kind and is not in this value's method set, so the copy falls back to Read/Write with a 32 KiB buffer")
		}
	}
	for _, fn := range w.ModFuncs() {
		if isGenerated(fn) {
			continue
		}
		eachInstr(fn, func(in ssa.Instruction) {
			c := plainCall(in)
			if c == nil {
				return
			}
			switch CalleeName(c) {
			case "io.Copy", "io.CopyBuffer":
				check(in, c.Args[1], "WriteTo", "source")
				check(in, c.Args[0], "ReadFrom", "destination")
			}
		})
	}
	if n == 0 {
		ob.Undecided("shape", "no io.Copy over a module stream type found")
	}
	ob.NeedFloor(3)
}

func c18Framing(w *World, r *Report) {
	ob := r.Ob("C18.a", "a-framing-agreement", "snapshotFile.Write: PutUint64 of uint64(len(p)) by binary.LittleEndian into the length buffer, the buffer then p are written, an empty p writes nothing; snapshotFile.Read: ReadFull of the same length buffer, Uint64 by binary.LittleEndian, ReadFull of p[:size]; the length buffer has 8 bytes; SST stream: binary.Write(LittleEndian, uint64(Len())) then the bytes vs binary.Read(LittleEndian, *uint64) then LimitReader(size)", "a prefix of another width or byte order on one side desynchronises the record boundaries: every later record is garbage")
	wr := w.Func("replication/snapshot", "snapshotFile.Write")
	rd := w.Func("replication/snapshot", "snapshotFile.Read")
	if wr == nil || rd == nil {
		ob.Undecided("anchor", "snapshot file Read/Write not found")
		return
	}
	// length buffer size: every place of the package that sets the buffer (the constructor, or
	// the open functions when it is written out in them)
	lenStores := 0
	var lenFns []*ssa.Function
	for _, fn := range w.ModFuncs() {
		if fn.Pkg != nil && strings.HasSuffix(fn.Pkg.Pkg.Path(), "/replication/snapshot") {
			lenFns = append(lenFns, fn)
		}
	}
	defer func() {
		if lenStores == 0 {
			ob.Undecided("anchor", "no place of the snapshot package sets the length buffer (lenBuff)")
		}
	}()
	for _, nf := range lenFns {
		eachInstr(nf, func(in ssa.Instruction) {
			st, ok := in.(*ssa.Store)
			if !ok {
				return
			}
			if fa, ok := st.Addr.(*ssa.FieldAddr); ok && fieldAddrName(fa) == "lenBuff" {
				e := Expr(st.Val)
				ob.Site(in.Pos(), "length buffer "+e)
				lenStores++
				okLen := false
				if sl, ok := st.Val.(*ssa.Slice); ok {
					if al, ok := sl.X.(*ssa.Alloc); ok {
						if arr, ok := deref(al.Type()).Underlying().(*types.Array); ok && arr.Len() == 8 {
							okLen = true
						}
					}
				}
				if ms, ok := st.Val.(*ssa.MakeSlice); ok {
					if n, isC := constInt(ms.Len); isC && n == 8 {
						okLen = true
					}
				}
				if !okLen {
					ob.Violate("prefix-buffer-width", in.Pos(), "the length buffer is not 8 bytes wide")
				}
			}
		})
	}
	type side struct {
		order, width, buf string
	}
	var ws, rs side
	var put, hdrWrite, payWrite ssa.Instruction
	eachInstr(wr, func(in ssa.Instruction) {
		c := plainCall(in)
		if c == nil {
			return
		}
		n := CalleeName(c)
		if strings.HasPrefix(n, "(encoding/binary.") && strings.Contains(n, ").Put") {
			put = in
			ws.order = strings.TrimSuffix(strings.TrimPrefix(n, "(encoding/binary."), n[strings.Index(n, ")"):])
			ws.width = n[strings.Index(n, ").Put")+5:]
			ws.buf = Expr(c.Args[1])
			ob.Site(in.Pos(), "writer prefix "+ws.order+" "+ws.width+" of "+Expr(c.Args[2]))
			if Expr(c.Args[2]) != "len($1)" {
				ob.Violate("prefix-value", in.Pos(), "the length prefix is `"+Expr(c.Args[2])+"`, not the payload length")
			}
		}
		if strings.HasSuffix(n, "Writer).Write") || (c.IsInvoke() && c.Method.Name() == "Write") {
			a := c.Args[len(c.Args)-1]
			if a == ssa.Value(wr.Params[1]) {
				payWrite = in
			} else {
				hdrWrite = in
			}
		}
	})
	var get ssa.Instruction
	var fulls []ssa.Instruction
	eachInstr(rd, func(in ssa.Instruction) {
		c := plainCall(in)
		if c == nil {
			return
		}
		n := CalleeName(c)
		if strings.HasPrefix(n, "(encoding/binary.") && (strings.HasSuffix(n, ").Uint64") || strings.HasSuffix(n, ").Uint32") || strings.HasSuffix(n, ").Uint16")) {
			get = in
			rs.order = strings.TrimSuffix(strings.TrimPrefix(n, "(encoding/binary."), n[strings.Index(n, ")"):])
			rs.width = n[strings.Index(n, ").")+2:]
			rs.buf = Expr(c.Args[1])
			ob.Site(in.Pos(), "reader prefix "+rs.order+" "+rs.width)
		}
		if n == "io.ReadFull" {
			fulls = append(fulls, in)
		}
	})
	if put == nil || get == nil || hdrWrite == nil || payWrite == nil || len(fulls) != 2 {
		ob.Violate("framing-shape", wr.Pos(), "the snapshot file no longer writes/reads a length prefix followed by the payload in the recognised way")
	} else {
		if ws.order != rs.order {
			ob.Violate("prefix-byte-order", get.Pos(), "the writer encodes the prefix "+ws.order+" but the reader decodes it "+rs.order)
		}
		if ws.width != rs.width {
			ob.Violate("prefix-width", get.Pos(), "the writer's prefix is "+ws.width+" but the reader's is "+rs.width)
		}
		if ws.buf != rs.buf {
			ob.Violate("prefix-buffer", get.Pos(), "writer and reader use different length buffers: "+ws.buf+" vs "+rs.buf)
		}
		// order: put → header write → payload write
		ord := func(fn *ssa.Function, a, b ssa.Instruction, what string) {
			if p := (&Walk{Barrier: func(x ssa.Instruction) bool { return x == a }, Target: func(x ssa.Instruction) bool { return x == b }}).Find(entry(fn)); p != nil {
				ob.Violate("framing-order/"+what, b.Pos(), what)
			}
		}
		ord(wr, put, hdrWrite, "the prefix is written before it is filled")
		ord(wr, hdrWrite, payWrite, "the payload can be written without its prefix")
		if p := (&Walk{Barrier: func(x ssa.Instruction) bool { return x == payWrite }, Target: isSuccessReturn, EdgeOK: func(b *ssa.BasicBlock, k int) bool {
			for _, l := range (&ExprCtx{}).EdgeLits(b, k) {
				if l.Kind == "int" && l.Terms == "len($1)" && l.Lo == 0 && l.Hi == 0 {
					return false
				}
			}
			return true
		}}).Find(after(hdrWrite)); p != nil {
			ob.Violate("prefix-without-payload", instrPos(p.Hit), "a prefix can be written without its payload")
		}
		// reader: first ReadFull into the length buffer, second into p[:size]
		first, second := plainCall(fulls[0]), plainCall(fulls[1])
		if Expr(first.Args[1]) != rs.buf {
			ob.Violate("reader-prefix-buffer", fulls[0].Pos(), "the reader fills `"+Expr(first.Args[1])+"` but decodes `"+rs.buf+"`")
		}
		e := Expr(second.Args[1])
		ob.Site(fulls[1].Pos(), "reader payload "+e)
		if !(strings.HasPrefix(e, "$1[:") && strings.Contains(e, ".Uint64(")) && !(strings.HasPrefix(e, "$1[:") && strings.Contains(e, ".Uint")) {
			ob.Violate("reader-payload-length", fulls[1].Pos(), "the reader reads `"+e+"`, not exactly the announced number of bytes")
		}
		ord(rd, fulls[0], get, "the prefix is decoded before it is read")
		ord(rd, get, fulls[1], "the payload is read before the prefix is decoded")
	}
	// SST stream
	wl := w.Func(fsmRel, "writeLenDelimited")
	if wl == nil {
		ob.Undecided("anchor/sst", "writeLenDelimited not found")
	} else {
		wOrder, wType := "", ""
		eachInstr(wl, func(in ssa.Instruction) {
			if c := plainCall(in); c != nil && CalleeName(c) == "encoding/binary.Write" {
				wOrder = Expr(c.Args[1])
				if mi, ok := c.Args[2].(*ssa.MakeInterface); ok {
					wType = typeString(mi.X.Type())
				}
				ob.Site(in.Pos(), "SST writer length "+wOrder+" "+wType+" of "+Expr(c.Args[2]))
				if !strings.Contains(Expr(c.Args[2]), ".Len(") {
					ob.Violate("sst-length-value", in.Pos(), "the SST length prefix is `"+Expr(c.Args[2])+"`")
				}
			}
		})
		rOrder, rType := "", ""
		for _, fn := range w.ModFuncs() {
			if !isFsmFunc(fn) || fn.Name() != "recover" {
				continue
			}
			eachInstr(fn, func(in ssa.Instruction) {
				if c := plainCall(in); c != nil && CalleeName(c) == "encoding/binary.Read" {
					rOrder = Expr(c.Args[1])
					if mi, ok := c.Args[2].(*ssa.MakeInterface); ok {
						rType = typeString(deref(mi.X.Type()))
					}
					ob.Site(in.Pos(), "SST reader length "+rOrder+" "+rType)
				}
			})
		}
		if wOrder == "" || rOrder == "" {
			ob.Violate("sst-framing-shape", wl.Pos(), "SST length prefix writer or reader not found")
		} else if wOrder != rOrder || wType != rType {
			ob.Violate("sst-prefix-mismatch", wl.Pos(), "the SST stream writes its length as "+wOrder+" "+wType+" but the recoverer reads "+rOrder+" "+rType)
		}
	}
	ob.NeedFloor(6)
}

func c18Chunks(w *World, r *Report) {
	ob := r.Ob("C18.b", "b-chunk-stream", "chunk writer (snapshot.Writer.ReadFrom): inside the read loop, from the edge n > 0 the next read is unreachable without Send of a chunk whose Data is chunk[:n] and Len is n; the loop is left with success only over the EOF edge; chunk readers (snapshot.Reader.WriteTo, backupReader.WriteTo): every received chunk's Data is written before the next receive; the Write adapters send exactly p with Len = len(p)", "a dropped or re-sliced chunk shifts every later record boundary")
	// writers with ReadFrom
	rf := w.Func("replication/snapshot", "Writer.ReadFrom")
	if rf == nil {
		ob.Undecided("anchor/ReadFrom", "snapshot.Writer.ReadFrom not found")
	} else {
		var read ssa.Value
		eachInstr(rf, func(in ssa.Instruction) {
			if c := plainCall(in); c != nil && c.IsInvoke() && c.Method.Name() == "Read" {
				read = in.(ssa.Value)
			}
		})
		if read == nil {
			ob.Undecided("shape/ReadFrom", "no Read in ReadFrom")
		} else {
			ctx := &ExprCtx{Alias: map[ssa.Value]string{read: "rd"}}
			isSend := func(in ssa.Instruction) bool {
				c := plainCall(in)
				return c != nil && c.IsInvoke() && c.Method.Name() == "Send"
			}
			nsend := 0
			eachInstr(rf, func(in ssa.Instruction) {
				if !isSend(in) {
					return
				}
				nsend++
				// the chunk literal
				al, ok := plainCall(in).Args[0].(*ssa.Alloc)
				if !ok {
					return
				}
				for _, st := range storesToField(rf, al, "Data") {
					e := ctx.Expr(st.Val)
					ob.Site(st.Pos(), "chunk Data = "+e)
					if !strings.HasSuffix(e, "[:rd#0]") {
						ob.Violate("chunk-data", st.Pos(), "the chunk carries `"+e+"`, not the bytes just read")
					}
				}
				for _, st := range storesToField(rf, al, "Len") {
					if e := ctx.Expr(st.Val); e != "rd#0" {
						ob.Violate("chunk-len", st.Pos(), "the chunk's Len is `"+e+"`, not the number of bytes it carries")
					}
				}
			})
			if nsend == 0 {
				ob.Violate("no-send", rf.Pos(), "the chunk writer never sends")
			}
			nonPositive := func(b *ssa.BasicBlock, k int) bool {
				for _, l := range ctx.EdgeLits(b, k) {
					if l.Kind == "int" && l.Terms == "rd#0" && !l.IsNE && l.Hi <= 0 {
						return true
					}
				}
				return false
			}
			for _, b := range rf.Blocks {
				for k := range b.Succs {
					for _, l := range ctx.EdgeLits(b, k) {
						if l.Kind == "int" && l.Terms == "rd#0" && !l.IsNE && l.Lo >= 1 && l.Hi >= posInf {
							ob.Site(blockPos(b.Succs[k]), "edge n > 0")
							p := (&Walk{Barrier: isSend, EdgeOK: func(b *ssa.BasicBlock, k int) bool { return !nonPositive(b, k) }, Target: func(x ssa.Instruction) bool { return x == read.(ssa.Instruction) || isSuccessReturn(x) }}).Find(Loc{b.Succs[k], 0})
							if p != nil {
								ob.Violate("bytes-read-not-sent", blockPos(b.Succs[k]), "bytes that were read can be dropped without being sent (e.g. a short final read)", w.PathString(p)...)
							}
						}
					}
				}
			}
			// the other way round: whatever way leads from the read to the next read or to a success
			// return without a Send must have established n <= 0 (a reader may hand out bytes together
			// with io.EOF: the error must not be looked at before the bytes are shipped)
			if p := (&Walk{Barrier: isSend, EdgeOK: func(b *ssa.BasicBlock, k int) bool { return !nonPositive(b, k) }, Target: func(x ssa.Instruction) bool { return x == read.(ssa.Instruction) || isSuccessReturn(x) }}).Find(after(read.(ssa.Instruction))); p != nil {
				ob.Violate("bytes-read-not-sent/untested", read.Pos(), "from the read the next read or a success return can be reached without a Send and without having established n <= 0: bytes returned together with an error (io.EOF) are dropped", w.PathString(p)...)
			}
			// success only over EOF
			eachInstr(rf, func(in ssa.Instruction) {
				ret, ok := in.(*ssa.Return)
				if !ok || isErrorReturn(ret) {
					return
				}
				wk := &Walk{Target: func(x ssa.Instruction) bool { return x == in }, EdgeOK: func(b *ssa.BasicBlock, k int) bool {
					for _, l := range ctx.EdgeLits(b, k) {
						if (l.Kind == "eq" && !l.Neg && strings.Contains(l.B, "io.EOF") && strings.HasPrefix(l.A, "rd#1")) || (l.Kind == "eq" && !l.Neg && strings.Contains(l.A+l.B, "io.EOF")) {
							return false
						}
					}
					return true
				}}
				if p := wk.Find(after(read.(ssa.Instruction))); p != nil {
					ob.Violate("early-success", ret.Pos(), "the chunk writer can report success before the source reached EOF", w.PathString(p)...)
				}
			})
		}
	}
	// chunk readers
	for _, x := range []struct{ rel, fn string }{{"replication/snapshot", "Reader.WriteTo"}, {"regattaserver", "backupReader.WriteTo"}} {
		fn := w.Func(x.rel, x.fn)
		if fn == nil {
			ob.Undecided("anchor/"+x.fn, x.fn+" not found")
			continue
		}
		var recv ssa.Instruction
		eachInstr(fn, func(in ssa.Instruction) {
			if c := plainCall(in); c != nil && c.IsInvoke() && (c.Method.Name() == "RecvMsg" || c.Method.Name() == "Recv") {
				recv = in
			}
		})
		if recv == nil {
			ob.Undecided("shape/"+x.fn, "no receive in "+x.fn)
			continue
		}
		ob.Site(recv.Pos(), "receive in "+x.fn)
		isWrite := func(in ssa.Instruction) bool {
			c := plainCall(in)
			return c != nil && c.IsInvoke() && c.Method.Name() == "Write" && strings.HasSuffix(Expr(c.Args[0]), ".Data")
		}
		// from the success edge of the receive the next receive is unreachable without Write(chunk.Data)
		rv := recv.(ssa.Value)
		ctx := &ExprCtx{Alias: map[ssa.Value]string{rv: "recv"}}
		wk := &Walk{Barrier: isWrite, Target: func(y ssa.Instruction) bool { return y == recv }, EdgeOK: func(b *ssa.BasicBlock, k int) bool { return true }}
		if p := wk.Find(after(recv)); p != nil {
			ob.Violate("chunk-not-written@"+x.fn, recv.Pos(), x.fn+" can receive the next chunk without having written the previous one's Data", w.PathString(p)...)
		}
		_ = ctx
		eachInstr(fn, func(in ssa.Instruction) {
			if isWrite(in) {
				ob.Site(in.Pos(), "write of "+Expr(plainCall(in).Args[0]))
			}
		})
	}
	// Write adapters
	for _, x := range []struct{ rel, fn string }{{"replication/snapshot", "Writer.Write"}, {"replication/backup", "Writer.Write"}} {
		fn := w.Func(x.rel, x.fn)
		if fn == nil {
			ob.Undecided("anchor/"+x.rel+"."+x.fn, x.fn+" not found")
			continue
		}
		eachInstr(fn, func(in ssa.Instruction) {
			st, ok := in.(*ssa.Store)
			if !ok {
				return
			}
			fa, ok := st.Addr.(*ssa.FieldAddr)
			if !ok || !typeIs(fa.X.Type(), pbPkg, "SnapshotChunk") {
				return
			}
			e := Expr(st.Val)
			ob.Site(in.Pos(), x.rel+"."+x.fn+": chunk."+fieldAddrName(fa)+" = "+e)
			switch fieldAddrName(fa) {
			case "Data":
				if e != "$1" {
					ob.Violate("adapter-data@"+x.rel, in.Pos(), "the write adapter sends `"+e+"`, not the bytes it was given")
				}
			case "Len":
				if e != "len($1)" {
					ob.Violate("adapter-len@"+x.rel, in.Pos(), "the write adapter announces `"+e+"` bytes")
				}
			}
		})
	}
	ob.NeedFloor(8)
}

func c18Pooled(w *World, r *Report) {
	ob := r.Ob("C18.c", "c-pooled-messages", "for every value obtained from a regattapb …FromVTPool() call: a receive into it inside a loop is preceded in the same iteration by ResetVT (or Reset); no use of the value is reachable after ReturnToVTPool other than through a deferred return; a byte slice field of it is only passed to copy as source or to a synchronous Write / marshal, never stored or returned", "vtproto's pooled unmarshal appends into recycled buffers: without the reset a shorter message keeps the tail of the previous one; a slice kept beyond the pool return is overwritten by another goroutine")
	n := 0
	for _, fn := range w.ModFuncs() {
		if isGenerated(fn) {
			continue
		}
		eachInstr(fn, func(in ssa.Instruction) {
			call, ok := in.(*ssa.Call)
			if !ok || !strings.HasSuffix(CalleeName(&call.Call), "FromVTPool") || !strings.HasPrefix(CalleeName(&call.Call), pbPkg) {
				return
			}
			n++
			ob.Site(in.Pos(), "pooled message "+shortName(CalleeName(&call.Call))+" in "+FnName(fn))
			if call.Referrers() == nil {
				return
			}
			var returns []ssa.Instruction
			for _, ref := range *call.Referrers() {
				c := callOf(ref)
				if c == nil {
					continue
				}
				nm := CalleeName(c)
				if strings.HasSuffix(nm, ").ReturnToVTPool") {
					if _, isDefer := ref.(*ssa.Defer); !isDefer {
						returns = append(returns, ref)
					}
				}
			}
			isReset := func(x ssa.Instruction) bool {
				c := plainCall(x)
				return c != nil && len(c.Args) > 0 && c.Args[0] == ssa.Value(call) && (strings.HasSuffix(CalleeName(c), ").ResetVT") || strings.HasSuffix(CalleeName(c), ").Reset"))
			}
			allRefs := append([]ssa.Instruction{}, *call.Referrers()...)
			for _, ref := range *call.Referrers() {
				if mi, ok := ref.(*ssa.MakeInterface); ok && mi.Referrers() != nil {
					allRefs = append(allRefs, *mi.Referrers()...)
				}
			}
			for _, ref := range allRefs {
				c := callOf(ref)
				// receive into the pooled message inside a loop
				if c != nil && c.IsInvoke() && (c.Method.Name() == "RecvMsg") && inCycle(ref.Block()) {
					h, body := loopOf(ref.Block())
					if h != nil {
						p := (&Walk{Barrier: isReset, Target: func(x ssa.Instruction) bool { return x == ref }, EdgeOK: func(b *ssa.BasicBlock, k int) bool { return body[b.Succs[k]] }}).Find(Loc{h, 0})
						if p != nil {
							ob.Violate("receive-without-reset@"+FnName(fn), ref.Pos(), "a pooled message is received into again without being reset in this iteration", w.PathString(p)...)
						}
					}
				}
				// use after return to pool
				for _, rt := range returns {
					if ref == rt {
						continue
					}
					if p := (&Walk{Target: func(x ssa.Instruction) bool { return x == ref }}).Find(after(rt)); p != nil {
						ob.Violate("use-after-return@"+FnName(fn), ref.Pos(), "a pooled message is used after it was returned to the pool")
					}
				}
				// byte slice fields must not escape
				if fa, ok := ref.(*ssa.FieldAddr); ok && fa.Referrers() != nil {
					ft := deref(fa.Type())
					if s, ok := ft.Underlying().(*types.Slice); ok {
						if b, ok := s.Elem().Underlying().(*types.Basic); ok && b.Kind() == types.Uint8 {
							for _, r2 := range *fa.Referrers() {
								u, ok := r2.(*ssa.UnOp)
								if !ok || u.Referrers() == nil {
									continue
								}
								for _, use := range *u.Referrers() {
									okUse := false
									switch y := use.(type) {
									case *ssa.DebugRef:
										okUse = true
									case ssa.CallInstruction:
										cc := y.Common()
										nn := CalleeName(cc)
										if nn == "builtin.copy" && cc.Args[1] == ssa.Value(u) {
											okUse = true
										}
										if nn == "builtin.len" || nn == "builtin.cap" {
											okUse = true
										}
										if cc.IsInvoke() && cc.Method.Name() == "Write" {
											okUse = true
										}
										if _, isGo := use.(*ssa.Go); isGo {
											okUse = false
										}
									}
									if !okUse {
										ob.Violate("pooled-bytes-escape@"+FnName(fn), use.Pos(), "bytes of a pooled message ("+fieldAddrName(fa)+") are used in `"+use.String()+"`: they may outlive the message's return to the pool")
									}
								}
							}
						}
					}
				}
			}
		})
	}
	if n == 0 {
		ob.Undecided("no-pooled", "no pooled message is used any more")
	}
	ob.NeedFloor(3)
}

func c18Codec(w *World, r *Report) {
	ob := r.Ob("C18.d", "d-codec-symmetry", "Codec.Marshal and Codec.Unmarshal: the vtproto arm(s) are tested before the proto.Message arm; every message type used as request or response in the regattapb service descriptors implements MarshalVT and UnmarshalVT; the codec's Name() is the constant \"proto\" and it is registered in init", "a message that marshals through one ladder and unmarshals through another (or through reflection only) can differ in unknown-field and oneof handling")
	cp := modPath + "/regattaserver/encoding/proto"
	p := w.ByPath[cp]
	if p == nil {
		ob.Undecided("anchor", "codec package not loaded")
		return
	}
	for _, m := range []string{"Marshal", "Unmarshal"} {
		fn := w.Func("regattaserver/encoding/proto", "Codec."+m)
		if fn == nil {
			ob.Undecided("anchor/"+m, "Codec."+m+" not found")
			continue
		}
		var order []string
		for _, b := range fn.Blocks {
			for _, in := range b.Instrs {
				if ta, ok := in.(*ssa.TypeAssert); ok {
					order = append(order, typeString(ta.AssertedType))
				}
			}
		}
		ob.Site(fn.Pos(), "Codec."+m+" ladder: "+strings.Join(order, " > "))
		vtIdx, refIdx := -1, -1
		for i, t := range order {
			if strings.Contains(t, "vtproto") && vtIdx < 0 {
				vtIdx = i
			}
			if strings.HasSuffix(t, "proto.Message") || strings.HasSuffix(t, "protoreflect.ProtoMessage") || strings.Contains(t, "protoiface") {
				refIdx = i
			}
		}
		if vtIdx < 0 {
			ob.Violate("no-vtproto-arm/"+m, fn.Pos(), "Codec."+m+" has no vtproto arm")
		} else if refIdx >= 0 && refIdx < vtIdx {
			ob.Violate("ladder-order/"+m, fn.Pos(), "Codec."+m+" tries reflection before vtproto")
		}
		// the arm calls the matching method on the asserted message
		want := map[string][]string{"Marshal": {"MarshalVT"}, "Unmarshal": {"UnmarshalVT", "UnmarshalVTUnsafe"}}[m]
		called := false
		eachInstr(fn, func(in ssa.Instruction) {
			if c := plainCall(in); c != nil && c.IsInvoke() {
				for _, wn := range want {
					if c.Method.Name() == wn {
						called = true
					}
				}
			}
		})
		if !called {
			ob.Violate("vtproto-arm-body/"+m, fn.Pos(), "Codec."+m+" does not call the vtproto method")
		}
	}
	// Name
	if nf := w.Func("regattaserver/encoding/proto", "Codec.Name"); nf != nil {
		eachInstr(nf, func(in ssa.Instruction) {
			if ret, ok := in.(*ssa.Return); ok {
				e := Expr(retVal(ret, 0))
				ob.Site(ret.Pos(), "codec name "+e)
				if e != `"proto"` {
					ob.Violate("codec-name", ret.Pos(), "the codec registers under `"+e+"`: gRPC keeps using its default protobuf codec")
				}
			}
		})
	}
	if sp := w.Prog.Package(p.Types); sp != nil {
		reg := false
		if initFn := sp.Func("init"); initFn != nil {
			for _, f := range append([]*ssa.Function{initFn}, initFuncs(sp)...) {
				eachInstr(f, func(in ssa.Instruction) {
					if c := plainCall(in); c != nil && CalleeName(c) == "google.golang.org/grpc/encoding.RegisterCodec" {
						reg = true
					}
				})
			}
		}
		if !reg {
			ob.Violate("codec-not-registered", 0, "the codec is not registered in the package's init")
		}
	}
	// every service message implements the vtproto pair
	pb := w.ByPath[pbPkg]
	vt, _ := p.Types.Scope().Lookup("vtprotoMessage").Type().Underlying().(*types.Interface)
	if pb == nil || vt == nil {
		ob.Undecided("anchor/messages", "regattapb or vtprotoMessage not loaded")
		return
	}
	seen := map[string]bool{}
	sc := pb.Types.Scope()
	for _, name := range sc.Names() {
		tn, ok := sc.Lookup(name).(*types.TypeName)
		if !ok || !strings.HasSuffix(name, "Server") || strings.HasPrefix(name, "Unimplemented") || strings.HasPrefix(name, "Unsafe") {
			continue
		}
		it, ok := tn.Type().Underlying().(*types.Interface)
		if !ok {
			continue
		}
		for i := 0; i < it.NumMethods(); i++ {
			sig := it.Method(i).Type().(*types.Signature)
			var ts []types.Type
			for j := 0; j < sig.Params().Len(); j++ {
				ts = append(ts, sig.Params().At(j).Type())
			}
			for j := 0; j < sig.Results().Len(); j++ {
				ts = append(ts, sig.Results().At(j).Type())
			}
			for _, t := range ts {
				pt, ok := t.(*types.Pointer)
				if !ok {
					continue
				}
				nt, ok := pt.Elem().(*types.Named)
				if !ok || nt.Obj().Pkg() == nil || nt.Obj().Pkg().Path() != pbPkg {
					continue
				}
				if seen[nt.Obj().Name()] {
					continue
				}
				seen[nt.Obj().Name()] = true
				if !types.Implements(pt, vt) {
					ob.Violate("message-without-vtproto/"+nt.Obj().Name(), nt.Obj().Pos(), "API message "+nt.Obj().Name()+" does not implement MarshalVT/UnmarshalVT: it takes the reflection arm on one side only if the other side is vtproto")
				}
			}
		}
	}
	ob.SiteS("API messages checked for the vtproto pair: " + itoa(len(seen)))
	r.Info["C18.d_messages"] = len(seen)
	if len(seen) < 20 {
		ob.Undecided("messages-floor", "fewer than 20 unary API message types found")
	}
	ob.NeedFloor(4)
}

func initFuncs(sp *ssa.Package) []*ssa.Function {
	var out []*ssa.Function
	for name, m := range sp.Members {
		if f, ok := m.(*ssa.Function); ok && strings.HasPrefix(name, "init#") {
			out = append(out, f)
		}
	}
	return out
}

func c18Compressors(w *World, r *Report) {
	ob := r.Ob("C18.e", "e-compressor-pools", "in each compressor package (gzip, snappy, zstd), each checked on its own: Compress resets the pooled writer onto its argument before returning it; the writer's Close calls the underlying Close before pool.Put and Put is reachable only there; Decompress resets a reused reader onto its argument; the reader's Read puts itself back only over the edge err == io.EOF", "a writer not reset writes into the previous call's sink; a writer returned before Close or a reader returned before EOF is used by two goroutines at once")
	for _, pkg := range []string{"gzip", "snappy", "zstd"} {
		rel := "regattaserver/encoding/" + pkg
		comp := w.Func(rel, "compressor.Compress")
		dec := w.Func(rel, "compressor.Decompress")
		wc := w.Func(rel, "writer.Close")
		rr := w.Func(rel, "reader.Read")
		if comp == nil || dec == nil || wc == nil || rr == nil {
			ob.Undecided("anchor/"+pkg, "compressor functions of "+pkg+" not found")
			continue
		}
		isResetOn := func(arg ssa.Value) func(ssa.Instruction) bool {
			return func(in ssa.Instruction) bool {
				c := plainCall(in)
				return c != nil && strings.HasSuffix(CalleeName(c), ").Reset") && len(c.Args) == 2 && sameValue(c.Args[1], arg)
			}
		}
		// Compress
		ob.Site(comp.Pos(), pkg+": Compress")
		eachInstr(comp, func(in ssa.Instruction) {
			ret, ok := in.(*ssa.Return)
			if !ok || isErrorReturn(ret) {
				return
			}
			if p := (&Walk{Barrier: isResetOn(comp.Params[1]), Target: func(x ssa.Instruction) bool { return x == in }}).Find(entry(comp)); p != nil {
				ob.Violate("writer-not-reset/"+pkg, ret.Pos(), pkg+": Compress hands out a pooled writer without resetting it onto the new sink", w.PathString(p)...)
			}
		})
		// writer.Close
		ob.Site(wc.Pos(), pkg+": writer.Close")
		isPut := func(in ssa.Instruction) bool { return isCallTo(in, "(*sync.Pool).Put") }
		isUnderClose := func(in ssa.Instruction) bool {
			c := plainCall(in)
			return c != nil && strings.HasSuffix(CalleeName(c), ").Close") && !c.IsInvoke()
		}
		nput := 0
		eachInstr(wc, func(in ssa.Instruction) {
			if isPut(in) {
				nput++
				if p := (&Walk{Barrier: isUnderClose, Target: func(x ssa.Instruction) bool { return x == in }}).Find(entry(wc)); p != nil {
					ob.Violate("put-before-close/"+pkg, in.Pos(), pkg+": the writer goes back to the pool before the underlying writer was closed (its tail is flushed into another call's sink)")
				}
			}
		})
		if nput == 0 {
			ob.Violate("writer-never-returned/"+pkg, wc.Pos(), pkg+": the writer is never returned to the pool")
		}
		// Put elsewhere for the writer type
		for _, fn := range w.ModFuncs() {
			if fn.Package() == nil || fn.Package().Pkg.Path() != modPath+"/"+rel || fn == wc || fn == rr {
				continue
			}
			eachInstr(fn, func(in ssa.Instruction) {
				if isPut(in) {
					ob.Violate("put-elsewhere/"+pkg+"@"+FnName(fn), in.Pos(), pkg+": a pooled object is returned to the pool in "+FnName(fn))
				}
			})
		}
		// Decompress: reused reader reset
		ob.Site(dec.Pos(), pkg+": Decompress")
		dctx := &ExprCtx{}
		for _, b := range dec.Blocks {
			for k := range b.Succs {
				for _, l := range dctx.EdgeLits(b, k) {
					// comma-ok true edge: the reader came from the pool
					if l.Kind == "eq" && !l.Neg && strings.HasPrefix(l.A, "dyn(") {
						if p := (&Walk{Barrier: isResetOn(dec.Params[1]), Target: isSuccessReturn}).Find(Loc{b.Succs[k], 0}); p != nil {
							ob.Violate("reader-not-reset/"+pkg, blockPos(b.Succs[k]), pkg+": Decompress hands out a reused reader without resetting it onto the new source", w.PathString(p)...)
						}
					}
				}
			}
		}
		// reader.Read: Put only on EOF
		ob.Site(rr.Pos(), pkg+": reader.Read")
		rctx := &ExprCtx{}
		nrp := 0
		eachInstr(rr, func(in ssa.Instruction) {
			if !isPut(in) {
				return
			}
			nrp++
			wk := &Walk{Target: func(x ssa.Instruction) bool { return x == in }, EdgeOK: func(b *ssa.BasicBlock, k int) bool {
				for _, l := range rctx.EdgeLits(b, k) {
					if l.Kind == "eq" && !l.Neg && strings.Contains(l.A+"|"+l.B, "io.EOF") {
						return false
					}
				}
				return true
			}}
			if p := wk.Find(entry(rr)); p != nil {
				ob.Violate("reader-put-before-eof/"+pkg, in.Pos(), pkg+": the reader goes back to the pool before EOF: the rest of the message is read from another call's source", w.PathString(p)...)
			}
		})
		_ = nrp
		// every pooled wrapper owns its codec object: the function a pool's New holds creates what
		// it returns (no writer / reader / codec pointer captured from outside the New function)
		for _, fn := range w.ModFuncs() {
			if fn.Package() == nil && fn.Parent() == nil {
				continue
			}
			top := fn
			for top.Parent() != nil {
				top = top.Parent()
			}
			if top.Package() == nil || top.Package().Pkg.Path() != modPath+"/"+rel {
				continue
			}
			eachInstr(fn, func(in ssa.Instruction) {
				st, ok := in.(*ssa.Store)
				if !ok {
					return
				}
				fa, ok := st.Addr.(*ssa.FieldAddr)
				if !ok || fieldAddrName(fa) != "New" || !typeIs(fa.X.Type(), "sync", "Pool") {
					return
				}
				mc, ok := st.Val.(*ssa.MakeClosure)
				if !ok {
					return
				}
				ob.Site(in.Pos(), pkg+": pool constructor")
				for _, b := range mc.Bindings {
					t := deref(deref(b.Type()))
					n, isNamed := t.(*types.Named)
					if !isNamed || n.Obj().Pkg() == nil {
						continue
					}
					pp := n.Obj().Pkg().Path()
					if pp == modPath+"/"+rel || pp == "sync" {
						continue // the compressor itself / its pools
					}
					ob.Violate("pool-shares-codec/"+pkg, in.Pos(), pkg+": the pool's constructor captures a "+typeString(n)+" created outside it: every pooled wrapper shares that one object, and two calls that compress or decompress at the same time write through it together")
				}
			})
		}
	}
	ob.NeedFloor(12)
}

// c18Wiring: C18.f — (1) no shared receive-buffer pool under a codec that decodes without
// copying; (2) the backup client streams, for each table, the file it opened for that table.
func c18Wiring(w *World, r *Report) {
	ob := r.Ob("C18.f", "f-buffers-owned", "the module installs no gRPC receive-buffer pool (experimental.RecvBufferPool / a shared buffer pool option) while its registered codec decodes with UnmarshalVTUnsafe, whose byte fields alias the receive buffer; in the backup client's restore loop the source of the chunk copy is created inside the iteration from the file opened in that iteration (the opened file itself or a reader constructed on it)", "a receive buffer handed back to a pool while the decoded request still points into it is overwritten by the next message; a reader bound to the first table's file streams nothing for every later table, and the server restores them empty")
	// (1)
	unsafeCodec := false
	for _, fn := range w.ModFuncs() {
		if fn.Package() == nil || fn.Package().Pkg.Path() != modPath+"/regattaserver/encoding/proto" {
			continue
		}
		eachInstr(fn, func(in ssa.Instruction) {
			if c := callOf(in); c != nil && c.IsInvoke() && c.Method.Name() == "UnmarshalVTUnsafe" {
				unsafeCodec = true
				ob.Site(in.Pos(), "codec decodes with UnmarshalVTUnsafe in "+FnName(fn))
			}
		})
	}
	for _, fn := range w.ModFuncs() {
		if isGenerated(fn) {
			continue
		}
		eachInstr(fn, func(in ssa.Instruction) {
			c := callOf(in)
			if c == nil {
				return
			}
			n := CalleeName(c)
			if strings.Contains(n, "google.golang.org/grpc") && (strings.HasSuffix(n, ".RecvBufferPool") || strings.HasSuffix(n, ".NewSharedBufferPool")) {
				ob.Site(in.Pos(), "receive buffer pool option in "+FnName(fn))
				if unsafeCodec {
					ob.Violate("recv-buffer-pool@"+FnName(fn), in.Pos(), FnName(fn)+" installs a shared gRPC receive-buffer pool, but the registered codec decodes with UnmarshalVTUnsafe: the bytes of a request a handler still holds are overwritten by the next message received")
				}
			}
		})
	}
	// (2)
	if fn := w.Func("replication/backup", "Backup.Restore"); fn != nil {
		n := 0
		eachInstr(fn, func(in ssa.Instruction) {
			c := plainCall(in)
			if c == nil || CalleeName(c) != "io.Copy" {
				return
			}
			// the copy into the stream writer
			dst := c.Args[0]
			if mi, ok := dst.(*ssa.MakeInterface); ok {
				dst = mi.X
			}
			if !typeIs(dst.Type(), modPath+"/replication/backup", "Writer") && !typeIs(dst.Type(), modPath+"/replication/snapshot", "Writer") {
				return
			}
			n++
			h, body := loopOf(in.Block())
			src := c.Args[1]
			for d := 0; d < 4; d++ {
				if mi, ok := src.(*ssa.MakeInterface); ok {
					src = mi.X
					continue
				}
				break
			}
			ob.Site(in.Pos(), "restore streams "+Expr(src))
			if h == nil {
				ob.Violate("restore-copy-not-in-loop", in.Pos(), "the chunk copy is not inside the loop over the manifest's tables")
				return
			}
			def, ok := src.(ssa.Instruction)
			if !ok || def.Block() == nil || !body[def.Block()] {
				ob.Violate("restore-source-stale", in.Pos(), "the restore streams from `"+Expr(src)+"`, which is not created in the iteration that opened the table's file: every table after the first is streamed from the first table's exhausted reader and restored empty")
				return
			}
			if _, isPhi := src.(*ssa.Phi); isPhi {
				ob.Violate("restore-source-stale", in.Pos(), "the restore streams from a reader that can be carried over from an earlier iteration (`"+Expr(src)+"`)")
			}
		})
		if n == 0 {
			ob.Undecided("shape/restore", "no chunk copy into the stream writer in Backup.Restore")
		}
	} else {
		ob.Undecided("anchor/restore", "Backup.Restore not found")
	}
	ob.NeedFloor(2)
}
