package main

// Signature changes that keep behaviour are undone before the rules run (after renames, before
// the inlining of new helpers): a reordered parameter list is put back in the reviewed order
// (declaration and every call), and a method turned into a function taking the former receiver
// first - or the reverse - is turned back. The permutation is read off the parameter names the
// reviewed list records; a change that cannot be matched that way is left alone.

import (
	"go/ast"
	"go/types"
	"sort"
	"strings"

	"golang.org/x/tools/go/packages"
	"golang.org/x/tools/go/types/typeutil"
)

func declOf(mod map[string]*packages.Package, obj *types.Func) (*ast.FuncDecl, *packages.Package, *ast.File) {
	for _, p := range mod {
		if p.Types != obj.Pkg() {
			continue
		}
		for _, f := range p.Syntax {
			for _, d := range f.Decls {
				if fd, ok := d.(*ast.FuncDecl); ok && p.TypesInfo.Defs[fd.Name] == types.Object(obj) {
					return fd, p, f
				}
			}
		}
	}
	return nil, nil, nil
}

// callsOf: every direct call of obj in the module, with its file.
func callsOf(mod map[string]*packages.Package, obj *types.Func) (calls []*ast.CallExpr, files []*ast.File, pkgs []*packages.Package) {
	for _, p := range mod {
		for _, f := range p.Syntax {
			ast.Inspect(f, func(n ast.Node) bool {
				if c, ok := n.(*ast.CallExpr); ok {
					if fn, ok := typeutil.Callee(p.TypesInfo, c).(*types.Func); ok && (fn == obj || fn.Origin() == obj) {
						calls = append(calls, c)
						files = append(files, f)
						pkgs = append(pkgs, p)
					}
				}
				return true
			})
		}
	}
	return
}

// usedAsValue: obj is referenced other than as the callee of a direct call.
func usedAsValue(mod map[string]*packages.Package, obj *types.Func, calls []*ast.CallExpr) bool {
	callee := map[*ast.Ident]bool{}
	for _, c := range calls {
		fun := c.Fun
		for {
			switch x := fun.(type) {
			case *ast.IndexExpr: // explicit instantiation f[T](…)
				fun = x.X
				continue
			case *ast.IndexListExpr:
				fun = x.X
				continue
			case *ast.ParenExpr:
				fun = x.X
				continue
			}
			break
		}
		switch f := fun.(type) {
		case *ast.Ident:
			callee[f] = true
		case *ast.SelectorExpr:
			callee[f.Sel] = true
		}
	}
	for _, p := range mod {
		for id, o := range p.TypesInfo.Uses {
			if o == types.Object(obj) && !callee[id] {
				return true
			}
		}
	}
	return false
}

func flatParams(fl *ast.FieldList) (names []string, typs []ast.Expr) {
	if fl == nil {
		return
	}
	for _, f := range fl.List {
		if len(f.Names) == 0 {
			names = append(names, "_")
			typs = append(typs, f.Type)
			continue
		}
		for _, n := range f.Names {
			names = append(names, n.Name)
			typs = append(typs, f.Type)
		}
	}
	return
}

func fixSignatures(mod map[string]*packages.Package, reviewed map[string]bool, changed map[*ast.File]*packages.Package) []string {
	var notes []string
	type revSig struct{ sig, names, recv string }
	parse := func(data string) revSig {
		parts := strings.Split(data, "\t")
		r := revSig{}
		if len(parts) > 0 {
			r.sig = parts[0]
		}
		if len(parts) > 1 {
			r.names = parts[1]
		}
		if len(parts) > 2 {
			r.recv = parts[2]
		}
		return r
	}
	var keys []string
	for k := range reviewedInfo {
		if strings.HasPrefix(k, "sig ") {
			keys = append(keys, k)
		}
	}
	sort.Strings(keys)
	for _, k := range keys {
		rs := parse(reviewedInfo[k])
		rest := strings.TrimPrefix(k, "sig ")
		// package path: everything up to the last '/'-free dot sequence
		slash := strings.LastIndexByte(rest, '/')
		dot := strings.IndexByte(rest[slash+1:], '.')
		if dot < 0 {
			continue
		}
		path := rest[:slash+1+dot]
		tail := rest[slash+1+dot+1:]
		p := mod[path]
		if p == nil || p.Types == nil {
			continue
		}
		recv, name := "", tail
		if i := strings.IndexByte(tail, '.'); i >= 0 {
			recv, name = tail[:i], tail[i+1:]
		}
		// the object as it is now
		var cur *types.Func
		if recv == "" {
			cur, _ = p.Types.Scope().Lookup(name).(*types.Func)
		} else if tn, ok := p.Types.Scope().Lookup(recv).(*types.TypeName); ok {
			if named, ok := tn.Type().(*types.Named); ok {
				for i := 0; i < named.NumMethods(); i++ {
					if named.Method(i).Name() == name {
						cur = named.Method(i)
					}
				}
			}
		}
		if cur == nil {
			// renamed as well: renameBack set the identifiers back, the objects keep the new name
			for o, old := range renamedObjs {
				f, ok := o.(*types.Func)
				if !ok || old != name || f.Pkg() == nil || f.Pkg().Path() != path {
					continue
				}
				r := f.Type().(*types.Signature).Recv()
				if (recv == "") != (r == nil) {
					continue
				}
				if r != nil {
					t := r.Type()
					if pt, ok := t.(*types.Pointer); ok {
						t = pt.Elem()
					}
					nt, ok := t.(*types.Named)
					if !ok {
						continue
					}
					tn := nt.Obj().Name()
					if o2, ok := renamedObjs[nt.Obj()]; ok {
						tn = o2
					}
					if tn != recv {
						continue
					}
				}
				cur = f
			}
		}
		oldNames := []string{}
		if rs.names != "" {
			oldNames = strings.Split(rs.names, ",")
		}
		if cur != nil {
			// ---- reordered parameters ----
			if paramNames(cur) == rs.names {
				continue
			}
			curNames := strings.Split(paramNames(cur), ",")
			if len(curNames) != len(oldNames) || len(oldNames) < 2 || cur.Type().(*types.Signature).Variadic() {
				continue
			}
			perm := make([]int, len(oldNames)) // old position i ← current position perm[i]
			ok := true
			seen := map[string]bool{}
			for i, on := range oldNames {
				perm[i] = -1
				if on == "" || on == "_" || seen[on] {
					ok = false
					break
				}
				seen[on] = true
				for j, cn := range curNames {
					if cn == on {
						perm[i] = j
					}
				}
				if perm[i] < 0 {
					ok = false
				}
			}
			if !ok {
				continue
			}
			fd, dp, df := declOf(mod, cur)
			if fd == nil {
				continue
			}
			calls, files, pkgs := callsOf(mod, cur)
			if usedAsValue(mod, cur, calls) {
				continue
			}
			// would the reviewed order give the reviewed signature?
			_, typs := flatParams(fd.Type.Params)
			var newList []*ast.Field
			for i := range oldNames {
				newList = append(newList, &ast.Field{Names: []*ast.Ident{ast.NewIdent(oldNames[i])}, Type: copyNode(typs[perm[i]]).(ast.Expr)})
			}
			bad := false
			for _, c := range calls {
				if len(c.Args) != len(oldNames) {
					bad = true
				}
			}
			if bad {
				continue
			}
			fd.Type.Params.List = newList
			changed[df] = dp
			for ci, c := range calls {
				na := make([]ast.Expr, len(c.Args))
				for i := range oldNames {
					na[i] = c.Args[perm[i]]
				}
				c.Args = na
				changed[files[ci]] = pkgs[ci]
			}
			notes = append(notes, "normalisation: parameters of "+tail+" put back in the reviewed order ("+rs.names+")")
			continue
		}
		// ---- method ↔ function ----
		if recv != "" {
			// a reviewed method T.f is gone: a function g(recv T|*T, params...) of the same package
			// that is not on the reviewed list and has the matching signature
			wantSig := strings.Replace(rs.sig, "(", "("+rs.recv+joinComma(rs.sig), 1)
			var cands []*types.Func
			for _, n := range p.Types.Scope().Names() {
				f, ok := p.Types.Scope().Lookup(n).(*types.Func)
				if !ok || reviewed[path+"."+n] {
					continue
				}
				if sigString(f) == wantSig {
					cands = append(cands, f)
				}
			}
			if len(cands) != 1 {
				continue
			}
			g := cands[0]
			fd, dp, df := declOf(mod, g)
			if fd == nil || fd.Type.Params == nil || len(fd.Type.Params.List) == 0 {
				continue
			}
			calls, files, pkgs := callsOf(mod, g)
			if usedAsValue(mod, g, calls) {
				continue
			}
			names, typs := flatParams(fd.Type.Params)
			fd.Recv = &ast.FieldList{List: []*ast.Field{{Names: []*ast.Ident{ast.NewIdent(names[0])}, Type: typs[0]}}}
			var rest []*ast.Field
			for i := 1; i < len(names); i++ {
				rest = append(rest, &ast.Field{Names: []*ast.Ident{ast.NewIdent(names[i])}, Type: copyNode(typs[i]).(ast.Expr)})
			}
			fd.Type.Params.List = rest
			fd.Name.Name = name
			changed[df] = dp
			for ci, c := range calls {
				if len(c.Args) == 0 {
					continue
				}
				var x ast.Expr = c.Args[0]
				switch x.(type) {
				case *ast.Ident, *ast.SelectorExpr, *ast.CallExpr, *ast.IndexExpr, *ast.ParenExpr:
				default:
					x = &ast.ParenExpr{X: x}
				}
				c.Fun = &ast.SelectorExpr{X: x, Sel: ast.NewIdent(name)}
				c.Args = c.Args[1:]
				changed[files[ci]] = pkgs[ci]
			}
			notes = append(notes, "normalisation: function "+g.Name()+" turned back into the method "+tail)
		}
	}
	return notes
}

// joinComma: ", " if the signature has parameters, "" otherwise (for prefixing a receiver type).
func joinComma(sig string) string {
	if strings.HasPrefix(sig, "()") {
		return ""
	}
	return ", "
}
