package main

// Signature changes that keep behaviour are undone before the rules run (after renames, before
// the inlining of new helpers): a reordered parameter list is put back in the reviewed order
// (declaration and every call), and a method turned into a function taking the former receiver
// first - or the reverse - is turned back. The permutation is read off the parameter names the
// reviewed list records; a change that cannot be matched that way is left alone.

import (
	"go/ast"
	"go/token"
	"go/types"
	"sort"
	"strings"

	"golang.org/x/tools/go/ast/astutil"
	"golang.org/x/tools/go/packages"
	"golang.org/x/tools/go/types/typeutil"
)

func declOf(mod map[string]*packages.Package, obj *types.Func) (*ast.FuncDecl, *packages.Package, *ast.File) {
	for _, p := range mod {
		if p.Types != obj.Pkg() {
			continue
		}
		for _, f := range p.Syntax {
			for _, d := range f.Decls {
				if fd, ok := d.(*ast.FuncDecl); ok && p.TypesInfo.Defs[fd.Name] == types.Object(obj) {
					return fd, p, f
				}
			}
		}
	}
	return nil, nil, nil
}

// callsOf: every direct call of obj in the module, with its file.
func callsOf(mod map[string]*packages.Package, obj *types.Func) (calls []*ast.CallExpr, files []*ast.File, pkgs []*packages.Package) {
	for _, p := range mod {
		for _, f := range p.Syntax {
			ast.Inspect(f, func(n ast.Node) bool {
				if c, ok := n.(*ast.CallExpr); ok {
					if fn, ok := typeutil.Callee(p.TypesInfo, c).(*types.Func); ok && (fn == obj || fn.Origin() == obj) {
						calls = append(calls, c)
						files = append(files, f)
						pkgs = append(pkgs, p)
					}
				}
				return true
			})
		}
	}
	return
}

// usedAsValue: obj is referenced other than as the callee of a direct call.
func usedAsValue(mod map[string]*packages.Package, obj *types.Func, calls []*ast.CallExpr) bool {
	callee := map[*ast.Ident]bool{}
	for _, c := range calls {
		fun := c.Fun
		for {
			switch x := fun.(type) {
			case *ast.IndexExpr: // explicit instantiation f[T](…)
				fun = x.X
				continue
			case *ast.IndexListExpr:
				fun = x.X
				continue
			case *ast.ParenExpr:
				fun = x.X
				continue
			}
			break
		}
		switch f := fun.(type) {
		case *ast.Ident:
			callee[f] = true
		case *ast.SelectorExpr:
			callee[f.Sel] = true
		}
	}
	for _, p := range mod {
		for id, o := range p.TypesInfo.Uses {
			if o == types.Object(obj) && !callee[id] {
				return true
			}
		}
	}
	return false
}

func flatParams(fl *ast.FieldList) (names []string, typs []ast.Expr) {
	if fl == nil {
		return
	}
	for _, f := range fl.List {
		if len(f.Names) == 0 {
			names = append(names, "_")
			typs = append(typs, f.Type)
			continue
		}
		for _, n := range f.Names {
			names = append(names, n.Name)
			typs = append(typs, f.Type)
		}
	}
	return
}

func fixSignatures(mod map[string]*packages.Package, reviewed map[string]bool, changed map[*ast.File]*packages.Package) []string {
	var notes []string
	type revSig struct{ sig, names, recv string }
	parse := func(data string) revSig {
		parts := strings.Split(data, "\t")
		r := revSig{}
		if len(parts) > 0 {
			r.sig = parts[0]
		}
		if len(parts) > 1 {
			r.names = parts[1]
		}
		if len(parts) > 2 {
			r.recv = parts[2]
		}
		return r
	}
	var keys []string
	for k := range reviewedInfo {
		if strings.HasPrefix(k, "sig ") {
			keys = append(keys, k)
		}
	}
	sort.Strings(keys)
	for _, k := range keys {
		rs := parse(reviewedInfo[k])
		rest := strings.TrimPrefix(k, "sig ")
		// package path: everything up to the last '/'-free dot sequence
		slash := strings.LastIndexByte(rest, '/')
		dot := strings.IndexByte(rest[slash+1:], '.')
		if dot < 0 {
			continue
		}
		path := rest[:slash+1+dot]
		tail := rest[slash+1+dot+1:]
		p := mod[path]
		if p == nil || p.Types == nil {
			continue
		}
		recv, name := "", tail
		if i := strings.IndexByte(tail, '.'); i >= 0 {
			recv, name = tail[:i], tail[i+1:]
		}
		// the object as it is now
		var cur *types.Func
		if recv == "" {
			cur, _ = p.Types.Scope().Lookup(name).(*types.Func)
		} else if tn, ok := p.Types.Scope().Lookup(recv).(*types.TypeName); ok {
			if named, ok := tn.Type().(*types.Named); ok {
				for i := 0; i < named.NumMethods(); i++ {
					if named.Method(i).Name() == name {
						cur = named.Method(i)
					}
				}
			}
		}
		if cur == nil {
			// renamed as well: renameBack set the identifiers back, the objects keep the new name
			for o, old := range renamedObjs {
				f, ok := o.(*types.Func)
				if !ok || old != name || f.Pkg() == nil || f.Pkg().Path() != path {
					continue
				}
				r := f.Type().(*types.Signature).Recv()
				if (recv == "") != (r == nil) {
					continue
				}
				if r != nil {
					t := r.Type()
					if pt, ok := t.(*types.Pointer); ok {
						t = pt.Elem()
					}
					nt, ok := t.(*types.Named)
					if !ok {
						continue
					}
					tn := nt.Obj().Name()
					if o2, ok := renamedObjs[nt.Obj()]; ok {
						tn = o2
					}
					if tn != recv {
						continue
					}
				}
				cur = f
			}
		}
		oldNames := []string{}
		if rs.names != "" {
			oldNames = strings.Split(rs.names, ",")
		}
		if cur != nil {
			// ---- reordered parameters ----
			if paramNames(cur) == rs.names {
				if sigString(cur) != rs.sig {
					if n := fixPointerParams(mod, cur, rs.sig, changed); n != "" {
						notes = append(notes, n)
					}
				}
				continue
			}
			curNames := strings.Split(paramNames(cur), ",")
			if len(curNames) < len(oldNames) && !cur.Type().(*types.Signature).Variadic() {
				if n := fixParamObject(mod, reviewed, cur, rs.sig, oldNames, changed); n != "" {
					notes = append(notes, n)
				}
				continue
			}
			if len(curNames) != len(oldNames) || len(oldNames) < 2 || cur.Type().(*types.Signature).Variadic() {
				continue
			}
			perm := make([]int, len(oldNames)) // old position i ← current position perm[i]
			ok := true
			seen := map[string]bool{}
			for i, on := range oldNames {
				perm[i] = -1
				if on == "" || on == "_" || seen[on] {
					ok = false
					break
				}
				seen[on] = true
				for j, cn := range curNames {
					if cn == on {
						perm[i] = j
					}
				}
				if perm[i] < 0 {
					ok = false
				}
			}
			if !ok {
				continue
			}
			fd, dp, df := declOf(mod, cur)
			if fd == nil {
				continue
			}
			calls, files, pkgs := callsOf(mod, cur)
			if usedAsValue(mod, cur, calls) {
				continue
			}
			// would the reviewed order give the reviewed signature?
			_, typs := flatParams(fd.Type.Params)
			var newList []*ast.Field
			for i := range oldNames {
				newList = append(newList, &ast.Field{Names: []*ast.Ident{ast.NewIdent(oldNames[i])}, Type: copyNode(typs[perm[i]]).(ast.Expr)})
			}
			bad := false
			for _, c := range calls {
				if len(c.Args) != len(oldNames) {
					bad = true
				}
			}
			if bad {
				continue
			}
			fd.Type.Params.List = newList
			changed[df] = dp
			for ci, c := range calls {
				na := make([]ast.Expr, len(c.Args))
				for i := range oldNames {
					na[i] = c.Args[perm[i]]
				}
				c.Args = na
				changed[files[ci]] = pkgs[ci]
			}
			notes = append(notes, "normalisation: parameters of "+tail+" put back in the reviewed order ("+rs.names+")")
			continue
		}
		// ---- method ↔ function ----
		if recv != "" {
			// a reviewed method T.f is gone: a function g(recv T|*T, params...) of the same package
			// that is not on the reviewed list and has the matching signature
			wantSig := strings.Replace(rs.sig, "(", "("+rs.recv+joinComma(rs.sig), 1)
			var cands []*types.Func
			for _, n := range p.Types.Scope().Names() {
				f, ok := p.Types.Scope().Lookup(n).(*types.Func)
				if !ok || reviewed[path+"."+n] {
					continue
				}
				if sigString(f) == wantSig {
					cands = append(cands, f)
				}
			}
			if len(cands) != 1 {
				continue
			}
			g := cands[0]
			fd, dp, df := declOf(mod, g)
			if fd == nil || fd.Type.Params == nil || len(fd.Type.Params.List) == 0 {
				continue
			}
			calls, files, pkgs := callsOf(mod, g)
			if usedAsValue(mod, g, calls) {
				continue
			}
			names, typs := flatParams(fd.Type.Params)
			fd.Recv = &ast.FieldList{List: []*ast.Field{{Names: []*ast.Ident{ast.NewIdent(names[0])}, Type: typs[0]}}}
			var rest []*ast.Field
			for i := 1; i < len(names); i++ {
				rest = append(rest, &ast.Field{Names: []*ast.Ident{ast.NewIdent(names[i])}, Type: copyNode(typs[i]).(ast.Expr)})
			}
			fd.Type.Params.List = rest
			fd.Name.Name = name
			changed[df] = dp
			for ci, c := range calls {
				if len(c.Args) == 0 {
					continue
				}
				var x ast.Expr = c.Args[0]
				switch x.(type) {
				case *ast.Ident, *ast.SelectorExpr, *ast.CallExpr, *ast.IndexExpr, *ast.ParenExpr:
				default:
					x = &ast.ParenExpr{X: x}
				}
				c.Fun = &ast.SelectorExpr{X: x, Sel: ast.NewIdent(name)}
				c.Args = c.Args[1:]
				changed[files[ci]] = pkgs[ci]
			}
			notes = append(notes, "normalisation: function "+g.Name()+" turned back into the method "+tail)
		}
	}
	return notes
}

// fixPointerParams: a parameter that the reviewed tree passes by value and the current tree by
// pointer (`update T` → `update *T`), read only inside the function (selectors and explicit
// dereferences in value position, no nil test, no store through it, not passed on), is put back:
// the declaration takes T again, `*update` becomes `update`, every call passes `x` for `&x` and
// `*p` for any other argument.
func fixPointerParams(mod map[string]*packages.Package, cur *types.Func, oldSig string, changed map[*ast.File]*packages.Package) string {
	if !strings.HasPrefix(oldSig, "(") {
		return ""
	}
	depth, end := 0, -1
	for i := 0; i < len(oldSig); i++ {
		if oldSig[i] == '(' {
			depth++
		} else if oldSig[i] == ')' {
			depth--
			if depth == 0 {
				end = i
				break
			}
		}
	}
	if end < 0 {
		return ""
	}
	oldTyps := splitTop(oldSig[1:end])
	sig := cur.Type().(*types.Signature)
	if sig.Params().Len() != len(oldTyps) || sig.Variadic() {
		return ""
	}
	if sigString(cur)[strings.Index(sigString(cur), ")"):] == "" {
		return ""
	}
	var idx []int
	for i := 0; i < sig.Params().Len(); i++ {
		ct := types.TypeString(sig.Params().At(i).Type(), pathQualifier)
		switch {
		case ct == oldTyps[i]:
		case ct == "*"+oldTyps[i]:
			idx = append(idx, i)
		default:
			return ""
		}
	}
	if len(idx) == 0 {
		return ""
	}
	fd, dp, df := declOf(mod, cur)
	if fd == nil || fd.Body == nil {
		return ""
	}
	calls, files, pkgs := callsOf(mod, cur)
	if usedAsValue(mod, cur, calls) {
		return ""
	}
	// the parameter objects
	objs := map[types.Object]int{}
	for _, i := range idx {
		objs[sig.Params().At(i)] = i
	}
	// flat list of parameter fields (one name per field is required for the rewritten ones)
	pos := 0
	fieldOf := map[int]*ast.Field{}
	for _, f := range fd.Type.Params.List {
		n := len(f.Names)
		if n == 0 {
			n = 1
		}
		for k := 0; k < n; k++ {
			if _, want := func() (int, bool) {
				for _, i := range idx {
					if i == pos {
						return i, true
					}
				}
				return 0, false
			}(); want {
				if len(f.Names) != 1 {
					return ""
				}
				if _, isStar := f.Type.(*ast.StarExpr); !isStar {
					return ""
				}
				fieldOf[pos] = f
			}
			pos++
		}
	}
	// uses inside the body
	okUse := map[*ast.Ident]bool{}
	var derefs []*ast.StarExpr
	bad := false
	var walk func(n ast.Node, lhs bool)
	walk = func(n ast.Node, lhs bool) {
		ast.Inspect(n, func(m ast.Node) bool {
			switch x := m.(type) {
			case *ast.AssignStmt:
				for _, l := range x.Lhs {
					walk(l, true)
				}
				for _, r := range x.Rhs {
					walk(r, false)
				}
				return false
			case *ast.IncDecStmt:
				walk(x.X, true)
				return false
			case *ast.UnaryExpr:
				if x.Op.String() == "&" {
					walk(x.X, true)
					return false
				}
			case *ast.SelectorExpr:
				if id, ok := x.X.(*ast.Ident); ok {
					if _, isP := objs[dp.TypesInfo.Uses[id]]; isP {
						if lhs {
							bad = true
						}
						// a method call through the pointer could have a pointer receiver
						if sel := dp.TypesInfo.Selections[x]; sel != nil && sel.Kind() != types.FieldVal {
							bad = true
						}
						okUse[id] = true
						return false
					}
				}
				walk(x.X, lhs)
				return false
			case *ast.StarExpr:
				if id, ok := x.X.(*ast.Ident); ok {
					if _, isP := objs[dp.TypesInfo.Uses[id]]; isP {
						if lhs {
							bad = true
						}
						okUse[id] = true
						derefs = append(derefs, x)
						return false
					}
				}
			}
			return true
		})
	}
	walk(fd.Body, false)
	ast.Inspect(fd.Body, func(m ast.Node) bool {
		if id, ok := m.(*ast.Ident); ok {
			if _, isP := objs[dp.TypesInfo.Uses[id]]; isP && !okUse[id] {
				bad = true
			}
		}
		return true
	})
	if bad {
		return ""
	}
	for _, c := range calls {
		if len(c.Args) != len(oldTyps) {
			return ""
		}
	}
	// rewrite
	for _, f := range fieldOf {
		f.Type = f.Type.(*ast.StarExpr).X
	}
	astutil.Apply(fd.Body, func(c *astutil.Cursor) bool {
		if se, ok := c.Node().(*ast.StarExpr); ok {
			for _, d := range derefs {
				if d == se {
					c.Replace(se.X)
					return false
				}
			}
		}
		return true
	}, nil)
	changed[df] = dp
	for ci, c := range calls {
		for _, i := range idx {
			a := c.Args[i]
			if u, ok := a.(*ast.UnaryExpr); ok && u.Op.String() == "&" {
				c.Args[i] = u.X
			} else {
				c.Args[i] = &ast.StarExpr{X: &ast.ParenExpr{X: a}}
			}
		}
		changed[files[ci]] = pkgs[ci]
	}
	return "normalisation: parameter(s) of " + cur.Name() + " passed by pointer for reading only are passed by value again, as on the reviewed tree"
}

// fixParamObject: several positional parameters of the reviewed tree were gathered into one
// parameter of a struct type that did not exist there (`readLog(q, shard, rng, max)` →
// `readLog(q, logQuery{…})`), the struct being read only, field by field, inside the function and
// written as a composite literal at every call. Put back: the declaration takes the reviewed
// parameters, `query.f` becomes the parameter that f stands for, every call passes the literal's
// field values (the zero value for a field it leaves out) in the reviewed positions.
func fixParamObject(mod map[string]*packages.Package, reviewed map[string]bool, cur *types.Func, oldSig string, oldNames []string, changed map[*ast.File]*packages.Package) string {
	if !strings.HasPrefix(oldSig, "(") {
		return ""
	}
	depth, end := 0, -1
	for i := 0; i < len(oldSig); i++ {
		if oldSig[i] == '(' {
			depth++
		} else if oldSig[i] == ')' {
			depth--
			if depth == 0 {
				end = i
				break
			}
		}
	}
	if end < 0 {
		return ""
	}
	oldTyps := splitTop(oldSig[1:end])
	if len(oldTyps) != len(oldNames) {
		return ""
	}
	sig := cur.Type().(*types.Signature)
	// the object parameter: a value of a new struct type of the module
	objIdx := -1
	var st *types.Struct
	for i := 0; i < sig.Params().Len(); i++ {
		n, ok := sig.Params().At(i).Type().(*types.Named)
		if !ok || n.Obj().Pkg() == nil || mod[n.Obj().Pkg().Path()] == nil || reviewed["type "+n.Obj().Pkg().Path()+"."+n.Obj().Name()] {
			continue
		}
		s2, ok := n.Underlying().(*types.Struct)
		if !ok {
			continue
		}
		if objIdx >= 0 {
			return "" // two candidates
		}
		objIdx, st = i, s2
	}
	if objIdx < 0 || sig.Params().Len()-1+st.NumFields() != len(oldNames) {
		return ""
	}
	// the other parameters keep name, type and relative order; the gap is filled by the fields
	src := make([]int, len(oldNames)) // old position → current parameter index (>= 0) or -(field index)-1
	used := map[int]bool{}
	ci := 0
	var gap []int
	for oi := range oldNames {
		for ci == objIdx {
			ci++
		}
		if ci < sig.Params().Len() && sig.Params().At(ci).Name() == oldNames[oi] && types.TypeString(sig.Params().At(ci).Type(), pathQualifier) == oldTyps[oi] {
			src[oi] = ci
			ci++
			continue
		}
		gap = append(gap, oi)
	}
	if len(gap) != st.NumFields() {
		return ""
	}
	fieldFor := func(oi int, byName bool) int {
		found := -1
		for fi := 0; fi < st.NumFields(); fi++ {
			if used[fi] || types.TypeString(st.Field(fi).Type(), pathQualifier) != oldTyps[oi] {
				continue
			}
			if byName && !strings.EqualFold(st.Field(fi).Name(), oldNames[oi]) {
				continue
			}
			if found >= 0 {
				return -2
			}
			found = fi
		}
		return found
	}
	assigned := map[int]bool{}
	for _, oi := range gap {
		if fi := fieldFor(oi, true); fi >= 0 {
			src[oi] = -fi - 1
			used[fi] = true
			assigned[oi] = true
		}
	}
	for _, oi := range gap {
		if assigned[oi] {
			continue
		}
		fi := fieldFor(oi, false)
		if fi < 0 {
			return ""
		}
		src[oi] = -fi - 1
		used[fi] = true
	}
	fd, dp, df := declOf(mod, cur)
	if fd == nil || fd.Body == nil {
		return ""
	}
	calls, files, pkgs := callsOf(mod, cur)
	if usedAsValue(mod, cur, calls) {
		return ""
	}
	objVar := sig.Params().At(objIdx)
	fieldParam := map[string]string{} // field name → reviewed parameter name
	for oi, sidx := range src {
		if sidx < 0 {
			fieldParam[st.Field(-sidx-1).Name()] = oldNames[oi]
		}
	}
	// the reviewed names must be free in the body
	clash := false
	newNames := map[string]bool{}
	for _, n := range fieldParam {
		newNames[n] = true
	}
	ast.Inspect(fd.Body, func(m ast.Node) bool {
		if id, ok := m.(*ast.Ident); ok && newNames[id.Name] {
			if o := dp.TypesInfo.Defs[id]; o != nil {
				clash = true
			}
			if o := dp.TypesInfo.Uses[id]; o != nil {
				if v, isVar := o.(*types.Var); !isVar || !v.IsField() {
					clash = true
				}
			}
		}
		return true
	})
	if clash {
		return ""
	}
	// uses of the object: only `obj.f` in value position
	okUse := map[*ast.Ident]bool{}
	var sels []*ast.SelectorExpr
	bad := false
	var walk func(n ast.Node, lhs bool)
	walk = func(n ast.Node, lhs bool) {
		ast.Inspect(n, func(m ast.Node) bool {
			switch x := m.(type) {
			case *ast.AssignStmt:
				for _, l := range x.Lhs {
					walk(l, true)
				}
				for _, r := range x.Rhs {
					walk(r, false)
				}
				return false
			case *ast.IncDecStmt:
				walk(x.X, true)
				return false
			case *ast.UnaryExpr:
				if x.Op.String() == "&" {
					walk(x.X, true)
					return false
				}
			case *ast.SelectorExpr:
				if id, ok := x.X.(*ast.Ident); ok && dp.TypesInfo.Uses[id] == types.Object(objVar) {
					if lhs {
						bad = true
					}
					if sel := dp.TypesInfo.Selections[x]; sel == nil || sel.Kind() != types.FieldVal || len(sel.Index()) != 1 {
						bad = true
					}
					okUse[id] = true
					sels = append(sels, x)
					return false
				}
				walk(x.X, lhs)
				return false
			}
			return true
		})
	}
	walk(fd.Body, false)
	ast.Inspect(fd.Body, func(m ast.Node) bool {
		if id, ok := m.(*ast.Ident); ok && dp.TypesInfo.Uses[id] == types.Object(objVar) && !okUse[id] {
			bad = true
		}
		return true
	})
	if bad {
		return ""
	}
	// every call writes the object as a literal
	type callPlan struct{ args []ast.Expr }
	var plans []callPlan
	for ci, c := range calls {
		if len(c.Args) != sig.Params().Len() {
			return ""
		}
		lit, ok := c.Args[objIdx].(*ast.CompositeLit)
		if !ok {
			return ""
		}
		vals := map[int]ast.Expr{}
		for k, el := range lit.Elts {
			if kv, isKV := el.(*ast.KeyValueExpr); isKV {
				id, ok := kv.Key.(*ast.Ident)
				if !ok {
					return ""
				}
				fi := -1
				for j := 0; j < st.NumFields(); j++ {
					if st.Field(j).Name() == id.Name {
						fi = j
					}
				}
				if fi < 0 {
					return ""
				}
				vals[fi] = kv.Value
			} else {
				vals[k] = el
			}
		}
		args := make([]ast.Expr, len(oldNames))
		for oi, sidx := range src {
			if sidx >= 0 {
				args[oi] = c.Args[sidx]
				continue
			}
			fi := -sidx - 1
			if v, ok := vals[fi]; ok {
				args[oi] = v
				continue
			}
			z := zeroExprFor(st.Field(fi).Type(), files[ci], pkgs[ci])
			if z == nil {
				return ""
			}
			args[oi] = z
		}
		plans = append(plans, callPlan{args})
	}
	// the declaration
	var newList []*ast.Field
	_, curTyps := flatParams(fd.Type.Params)
	for oi, sidx := range src {
		var te ast.Expr
		if sidx >= 0 {
			te = copyNode(curTyps[sidx]).(ast.Expr)
		} else {
			e, ok := typeExprIn(st.Field(-sidx-1).Type(), df, dp)
			if !ok {
				return ""
			}
			te = e
		}
		newList = append(newList, &ast.Field{Names: []*ast.Ident{ast.NewIdent(oldNames[oi])}, Type: te})
	}
	fd.Type.Params.List = newList
	isSel := map[*ast.SelectorExpr]bool{}
	for _, x := range sels {
		isSel[x] = true
	}
	astutil.Apply(fd.Body, func(c *astutil.Cursor) bool {
		if se, ok := c.Node().(*ast.SelectorExpr); ok && isSel[se] {
			c.Replace(ast.NewIdent(fieldParam[se.Sel.Name]))
			return false
		}
		return true
	}, nil)
	changed[df] = dp
	for ci, c := range calls {
		c.Args = plans[ci].args
		changed[files[ci]] = pkgs[ci]
	}
	return "normalisation: the parameter object of " + cur.Name() + " (" + objVar.Type().String() + ", not on the reviewed tree) is spread over the reviewed parameters again"
}

// zeroExprFor: an expression for the zero value of t, valid in file f (nil if there is none to write).
func zeroExprFor(t types.Type, f *ast.File, p *packages.Package) ast.Expr {
	switch u := t.Underlying().(type) {
	case *types.Basic:
		info := u.Info()
		var lit ast.Expr
		switch {
		case info&types.IsBoolean != 0:
			lit = ast.NewIdent("false")
		case info&types.IsString != 0:
			lit = &ast.BasicLit{Kind: token.STRING, Value: `""`}
		case info&types.IsNumeric != 0:
			lit = &ast.BasicLit{Kind: token.INT, Value: "0"}
		default:
			return nil
		}
		if _, named := t.(*types.Named); named {
			te, ok := typeExprIn(t, f, p)
			if !ok {
				return nil
			}
			return &ast.CallExpr{Fun: &ast.ParenExpr{X: te}, Args: []ast.Expr{lit}}
		}
		return lit
	case *types.Pointer, *types.Slice, *types.Map, *types.Chan, *types.Interface, *types.Signature:
		return ast.NewIdent("nil")
	case *types.Struct, *types.Array:
		te, ok := typeExprIn(t, f, p)
		if !ok {
			return nil
		}
		return &ast.CompositeLit{Type: te}
	}
	return nil
}

// joinComma: ", " if the signature has parameters, "" otherwise (for prefixing a receiver type).
func joinComma(sig string) string {
	if strings.HasPrefix(sig, "()") {
		return ""
	}
	return ", "
}
