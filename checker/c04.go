package main

// C04 — crash recovery exposes exactly a prefix of the log, atomically and only once.
// Decides orderings and pairings of file-system effects; the crash-point quantifier itself
// (what is durable when) is a runtime fault model and is not decided.

import (
	"go/token"
	"go/types"
	"strings"

	"golang.org/x/tools/go/ssa"
)

func init() {
	register("C04", "crash recovery exposes a log prefix: orderings of file-system effects", checkC04)
}

const rpPath = modPath + "/pebble"

func isVfsCall(in ssa.Instruction, method string) bool {
	c := callOf(in)
	if c == nil || !c.IsInvoke() || c.Method.Name() != method {
		return false
	}
	return strings.Contains(typeString(c.Value.Type()), "vfs.")
}

func isRpCall(in ssa.Instruction, names ...string) bool {
	c := callOf(in)
	if c == nil {
		return false
	}
	cal := StaticCallee(c)
	if cal == nil || cal.Package() == nil || cal.Package().Pkg.Path() != rpPath {
		return false
	}
	for _, n := range names {
		if cal.Name() == n {
			return true
		}
	}
	return false
}

func checkC04(w *World, r *Report) {
	r.Decides = "C04 is decided in its structural part only: (a) data and applied index travel in one batch (the obligations C01.a-c); (b) Sync flushes the DB and Close flushes before closing it; (c) the publish protocol of the 'current' file: temp file created, written and synced before the save step succeeds; rename then directory sync, whose result is returned, in the replace step; the data directory is created and its parent synced; no error of a non-deferred Create/Write/Sync/Rename is dropped; (d) every publication of a directory name is preceded by the creation of that directory; (e) snapshot install order in each recoverer: received files synced, new DB built, save name, replace 'current', swap, close the value returned by the swap, cleanup; the stop edge does not reach the replace; (f) cleanup removes only entries that differ from 'current' and from the directory it names, whose name is returned only when its checksum matches; (g) Open returns the index read from the DB it opened. Also: a created directory's parent is synced; nothing tears the new DB down once published; every file the package creates is complete when it is synced (h); the first-run verdict is true only when the `current` file cannot be stat-ed (i)."
	r.NotDecided = []string{"which crash points exist between two steps and what is durable at each (the fault model itself)", "Pebble's flush/manifest atomicity with the WAL disabled", "repeated crashes"}
	r.Assume = []string{"vfs semantics: file data durable after File.Sync, directory entries after a Sync on the directory", "pebble.Open creates the DB directory and syncs its parent entry; DB.Ingest is durable when it returns"}
	a := w.FsmAnchors()
	if len(a.Problems) > 0 || a.Update == nil {
		ob := r.Ob("C04.anchors", "anchors", "roles of the table state machine resolve", "")
		ob.Undecided("anchors", strings.Join(a.Problems, "; "))
		return
	}
	c01SingleBatch(w, r, a, "C04.a1", "a1-single-batch")
	c01CommitCrossed(w, r, a, "C04.a2", "a2-commit-crossed")
	c01IndexWithData(w, r, a, "C04.a3", "a3-index-with-data")
	c04Durability(w, r, a)
	c04Publish(w, r, "C04.c", "c-publish-protocol")
	c04DirBeforePublish(w, r, a)
	c04InstallOrder(w, r, a, "C04.e", "e-install-order")
	c04Cleanup(w, r)
	c04ReopenIndex(w, r, a)
	c04FileWrites(w, r, "C04.h", "h-created-files-complete-when-synced")
	c04FirstRun(w, r)
}

func c04Durability(w *World, r *Report, a *FsmA) {
	ob := r.Ob("C04.b", "b-durability-points", "every success path of the state machine's Sync crosses DB.Flush; in Close every path to DB.Close crosses DB.Flush of the same DB", "with the WAL disabled only a flush makes applied entries durable: dragonboat trims its log up to the index a successful Sync covers")
	pt := types.NewPointer(a.FSM)
	flush := "(*" + pebblePath + ".DB).Flush"
	if fn := w.MethodOf(pt, "Sync"); fn != nil {
		ob.Site(fn.Pos(), "FSM.Sync")
		if p := (&Walk{Barrier: func(in ssa.Instruction) bool { return isCallTo(in, flush) }, Target: isSuccessReturn}).Find(entry(fn)); p != nil {
			ob.Violate("sync-without-flush", fn.Pos(), "Sync can report success without flushing the DB", w.PathString(p)...)
		}
		// the flush result is what is returned (not dropped)
		eachInstr(fn, func(in ssa.Instruction) {
			if ret, ok := in.(*ssa.Return); ok && !isErrorReturn(ret) {
				if e := Expr(retVal(ret, 0)); !strings.Contains(e, ".DB).Flush(") {
					ob.Violate("sync-drops-flush-error", ret.Pos(), "Sync returns `"+e+"`, dropping the flush result")
				}
			}
		})
	} else {
		ob.Undecided("anchor/Sync", "FSM.Sync not found")
	}
	if fn := w.MethodOf(pt, "Close"); fn != nil {
		for _, cl := range callsIn(fn, false, "(*"+pebblePath+".DB).Close") {
			db := cl.Common().Args[0]
			ob.Site(cl.Pos(), "DB.Close in FSM.Close")
			isFlush := func(in ssa.Instruction) bool {
				c := plainCall(in)
				return c != nil && CalleeName(c) == flush && sameValue(c.Args[0], db)
			}
			if p := (&Walk{Barrier: isFlush, Target: func(x ssa.Instruction) bool { return x == ssa.Instruction(cl) }}).Find(entry(fn)); p != nil {
				ob.Violate("close-without-flush", cl.Pos(), "the DB is closed without a flush: applied entries in the memtable are lost although dragonboat considers them applied", w.PathString(p)...)
			}
		}
	} else {
		ob.Undecided("anchor/Close", "FSM.Close not found")
	}
	ob.NeedFloor(2)
}

func c04Publish(w *World, r *Report, id, slug string) {
	ob := r.Ob(id, slug, "SaveCurrentDBDirName: Create(tmp) then every Write then File.Sync before any success return; ReplaceCurrentDBFile: Rename then the directory sync, and the success return is the sync's result; CreateNodeDataDir: MkdirAll then sync of the parent; syncDir returns the result of Sync on the opened directory; on these paths the error of each non-deferred Create/Write/Sync/Rename/MkdirAll reaches a return", "a 'current' file that can be torn, or renamed without the directory being synced, lets a crash expose a half-switched state")
	save := w.Func("pebble", "SaveCurrentDBDirName")
	repl := w.Func("pebble", "ReplaceCurrentDBFile")
	mk := w.Func("pebble", "CreateNodeDataDir")
	sd := w.Func("pebble", "syncDir")
	if save == nil || repl == nil || mk == nil || sd == nil {
		ob.Undecided("anchor", "publish functions of package pebble not found")
		return
	}
	isSyncDir := func(in ssa.Instruction) bool {
		c := callOf(in)
		return c != nil && StaticCallee(c) == sd
	}
	// save: Create → Writes → Sync → return
	{
		var creates, writes, syncs []ssa.Instruction
		eachInstr(save, func(in ssa.Instruction) {
			switch {
			case isVfsCall(in, "Create"):
				creates = append(creates, in)
			case isVfsCall(in, "Write"):
				writes = append(writes, in)
			case isVfsCall(in, "Sync"):
				if _, isDefer := in.(*ssa.Defer); !isDefer {
					syncs = append(syncs, in)
				}
			}
		})
		for _, x := range creates {
			ob.Site(x.Pos(), "save: Create")
		}
		for _, x := range writes {
			ob.Site(x.Pos(), "save: Write")
		}
		for _, x := range syncs {
			ob.Site(x.Pos(), "save: Sync")
		}
		if len(creates) == 0 || len(writes) < 2 || len(syncs) == 0 {
			ob.Violate("save-shape", save.Pos(), "the save step no longer creates, writes (checksum and name) and syncs the temp file")
		} else {
			isSync := func(in ssa.Instruction) bool { return containsInstr(syncs, in) }
			isWrite := func(in ssa.Instruction) bool { return containsInstr(writes, in) }
			if p := (&Walk{Barrier: isSync, Target: isSuccessReturn}).Find(entry(save)); p != nil {
				ob.Violate("save-without-sync", instrPos(p.Hit), "the save step can succeed without syncing the temp file: the rename can publish an empty or torn name", w.PathString(p)...)
			}
			for _, s := range syncs {
				if p := (&Walk{Target: isWrite}).Find(after(s)); p != nil {
					ob.Violate("save-write-after-sync", instrPos(p.Hit), "the temp file is written after it was synced")
				}
			}
			for _, wr := range writes {
				if p := (&Walk{Barrier: func(in ssa.Instruction) bool { return containsInstr(creates, in) }, Target: func(x ssa.Instruction) bool { return x == wr }}).Find(entry(save)); p != nil {
					ob.Violate("save-write-before-create", wr.Pos(), "write before the temp file is created")
				}
				if p := (&Walk{Barrier: func(x ssa.Instruction) bool { return x == wr }, Target: isSync}).Find(entry(save)); p != nil {
					ob.Violate("save-sync-skips-write", wr.Pos(), "the temp file can be synced without this write having happened (checksum or name missing)", w.PathString(p)...)
				}
			}
			// the temp name differs from the published name
			e := Expr(callOf(creates[0]).Args[0])
			if strings.Contains(e, `"current")`) && !strings.Contains(e, "updating") {
				ob.Violate("save-writes-current-directly", creates[0].Pos(), "the save step writes the published file directly instead of a temp file")
			}
		}
		c04ErrorsNotDropped(w, ob, save, "save")
	}
	// replace: Rename → syncDir, success return is sync's result
	{
		var ren ssa.Instruction
		eachInstr(repl, func(in ssa.Instruction) {
			if isVfsCall(in, "Rename") {
				ren = in
			}
		})
		if ren == nil {
			ob.Violate("replace-no-rename", repl.Pos(), "the replace step does not rename the temp file")
		} else {
			ob.Site(ren.Pos(), "replace: Rename "+Expr(callOf(ren).Args[0])+" -> "+Expr(callOf(ren).Args[1]))
			if p := (&Walk{Barrier: isSyncDir, Target: isSuccessReturn}).Find(after(ren)); p != nil {
				ob.Violate("replace-without-dirsync", instrPos(p.Hit), "the rename of 'current' is not followed by a directory sync: after a crash the old name (whose directory may already be cleaned up) can reappear", w.PathString(p)...)
			}
			eachInstr(repl, func(in ssa.Instruction) {
				if ret, ok := in.(*ssa.Return); ok && !isErrorReturn(ret) {
					if e := Expr(retVal(ret, 0)); !strings.Contains(e, "syncDir(") {
						ob.Violate("replace-drops-dirsync-error", ret.Pos(), "the replace step returns `"+e+"` on success, dropping the directory sync's result")
					}
				}
			})
			if p := (&Walk{Barrier: func(x ssa.Instruction) bool { return x == ren }, Target: isSyncDir}).Find(entry(repl)); p != nil {
				ob.Violate("replace-dirsync-before-rename", ren.Pos(), "the directory is synced before the rename")
			}
			a0, a1 := Expr(callOf(ren).Args[0]), Expr(callOf(ren).Args[1])
			if !strings.Contains(a0, "updating") || strings.Contains(a1, "updating") {
				ob.Violate("replace-rename-direction", ren.Pos(), "the rename goes from `"+a0+"` to `"+a1+"`")
			}
			// the switch is the rename alone: nothing removes a file on the way (removing the
			// published file first leaves no 'current' at all if the process dies before the rename)
			eachInstr(repl, func(in ssa.Instruction) {
				if isVfsCall(in, "Remove") || isVfsCall(in, "RemoveAll") {
					ob.Violate("replace-removes-first", in.Pos(), "the replace step removes `"+Expr(callOf(in).Args[len(callOf(in).Args)-1])+"`: the switch is no longer one atomic rename - a crash between the two steps leaves no 'current' file and the next start opens an empty table")
				}
			})
		}
		c04ErrorsNotDropped(w, ob, repl, "replace")
	}
	// create dir
	{
		var mkd ssa.Instruction
		eachInstr(mk, func(in ssa.Instruction) {
			if isVfsCall(in, "MkdirAll") {
				mkd = in
			}
		})
		if mkd == nil {
			ob.Violate("createdir-shape", mk.Pos(), "CreateNodeDataDir does not create the directory")
		} else {
			ob.Site(mkd.Pos(), "create data dir: MkdirAll")
			if p := (&Walk{Barrier: isSyncDir, Target: isSuccessReturn}).Find(after(mkd)); p != nil {
				ob.Violate("createdir-without-parent-sync", instrPos(p.Hit), "the data directory is created without syncing its parent", w.PathString(p)...)
			}
			// what is synced is the parent: the new directory's entry lives there
			eachInstr(mk, func(in ssa.Instruction) {
				if !isSyncDir(in) {
					return
				}
				c := callOf(in)
				e := Expr(c.Args[len(c.Args)-1])
				ob.Site(in.Pos(), "create data dir: syncs "+e)
				if !strings.Contains(e, "path/filepath.Dir(") {
					ob.Violate("createdir-syncs-wrong-dir", in.Pos(), "after creating the data directory CreateNodeDataDir syncs `"+e+"`, not the parent directory that holds the new entry: after a power loss the table's directory is gone and Open starts an empty table at index 0")
				}
			})
		}
		c04ErrorsNotDropped(w, ob, mk, "createdir")
	}
	// syncDir returns df.Sync()
	{
		ok := false
		eachInstr(sd, func(in ssa.Instruction) {
			if ret, isR := in.(*ssa.Return); isR && !isErrorReturn(ret) {
				e := Expr(retVal(ret, 0))
				if strings.Contains(e, ").Sync(") {
					ok = true
					ob.Site(ret.Pos(), "syncDir returns "+e)
				} else if !isNilConst(retVal(ret, 0)) {
					ob.Violate("syncdir-return", ret.Pos(), "syncDir returns `"+e+"`")
				} else {
					// `return nil` is allowed only on a platform edge that is dead in this build
					// (runtime.GOOS == "windows" is a compile-time constant)
					if p := (&Walk{Target: func(x ssa.Instruction) bool { return x == in }}).Find(entry(sd)); p != nil {
						ob.Violate("syncdir-noop", ret.Pos(), "syncDir can return nil without syncing the directory", w.PathString(p)...)
					}
				}
			}
		})
		if !ok {
			ob.Violate("syncdir-no-sync", sd.Pos(), "syncDir does not return the result of Sync on the directory")
		}
	}
	ob.NeedFloor(7)
}

func blockCondString(b *ssa.BasicBlock) string {
	if len(b.Preds) != 1 {
		return ""
	}
	p := b.Preds[0]
	if iff, ok := p.Instrs[len(p.Instrs)-1].(*ssa.If); ok {
		return Expr(iff.Cond)
	}
	return ""
}

func containsInstr(l []ssa.Instruction, x ssa.Instruction) bool {
	for _, y := range l {
		if y == x {
			return true
		}
	}
	return false
}

// c04ErrorsNotDropped: every non-deferred vfs Create/Write/Sync/Rename/MkdirAll (and syncDir)
// result of error type is tested (err != nil edge leading to an error return) or returned.
func c04ErrorsNotDropped(w *World, ob *Ob, fn *ssa.Function, tag string) {
	eachInstr(fn, func(in ssa.Instruction) {
		call, ok := in.(*ssa.Call)
		if !ok {
			return
		}
		isFs := false
		for _, m := range []string{"Create", "Write", "Sync", "Rename", "MkdirAll"} {
			if isVfsCall(in, m) {
				isFs = true
			}
		}
		if cal := StaticCallee(&call.Call); cal != nil && cal.Name() == "syncDir" {
			isFs = true
		}
		if !isFs {
			return
		}
		// find the error value
		var errv ssa.Value
		if isErrorType(call.Type()) {
			errv = call
		} else if call.Referrers() != nil {
			for _, r := range *call.Referrers() {
				if ex, ok := r.(*ssa.Extract); ok && isErrorType(ex.Type()) {
					errv = ex
				}
			}
		}
		used := false
		if errv != nil && errv.Referrers() != nil {
			for _, r := range *errv.Referrers() {
				switch x := r.(type) {
				case *ssa.BinOp, *ssa.Return, *ssa.Phi:
					used = true
				case *ssa.Store:
					// stored into the named result / a local that is tested
					_ = x
					used = true
				}
			}
		}
		if !used {
			ob.Violate("fs-error-dropped/"+tag+"/"+shortName(CalleeName(&call.Call)), in.Pos(), "the error of "+shortName(CalleeName(&call.Call))+" is dropped in "+FnName(fn))
		}
	})
}

func c04DirBeforePublish(w *World, r *Report, a *FsmA) {
	ob := r.Ob("C04.d", "d-dir-before-publish", "in every function that calls the replace step, every path to it crosses the creation of the directory being published: fs.MkdirAll(dir) or the DB open (pebble.Open creates the directory), for the directory built from the same random name that is passed to the save step", "a 'current' file naming a directory that does not exist yet makes every later Open fail after a crash in between")
	n := 0
	for _, fn := range w.ModFuncs() {
		if !isFsmFunc(fn) {
			continue
		}
		for _, f := range []*ssa.Function{fn} {
			eachInstr(f, func(in ssa.Instruction) {
				if !isRpCall(in, "ReplaceCurrentDBFile") {
					return
				}
				n++
				ob.Site(in.Pos(), "replace step called in "+FnName(f))
				// the name saved
				var saved ssa.Value
				eachInstr(f, func(x ssa.Instruction) {
					if isRpCall(x, "SaveCurrentDBDirName") {
						saved = callOf(x).Args[2]
					}
				})
				if saved == nil {
					ob.Violate("publish-without-save@"+FnName(f), in.Pos(), "the replace step is called in a function that never saves a name")
					return
				}
				name := Expr(saved)
				isCreate := func(x ssa.Instruction) bool {
					c := callOf(x)
					if c == nil {
						return false
					}
					var dir ssa.Value
					switch {
					case isVfsCall(x, "MkdirAll"):
						dir = c.Args[0]
					case StaticCallee(c) != nil && StaticCallee(c).Name() == "openDB":
						dir = c.Args[len(c.Args)-1]
					case isRpCall(x, "OpenDB"):
						dir = c.Args[0]
					default:
						return false
					}
					// the directory is Join(base, <saved name>)
					return strings.Contains(Expr(dir), name)
				}
				if p := (&Walk{Barrier: isCreate, Target: func(x ssa.Instruction) bool { return x == in }}).Find(entry(f)); p != nil {
					ob.Violate("publish-before-dir-exists@"+FnName(f), in.Pos(), "'current' can be switched to `"+name+"` before that directory was created", w.PathString(p)...)
				}
				// save precedes replace
				if p := (&Walk{Barrier: func(x ssa.Instruction) bool { return isRpCall(x, "SaveCurrentDBDirName") }, Target: func(x ssa.Instruction) bool { return x == in }}).Find(entry(f)); p != nil {
					ob.Violate("replace-before-save@"+FnName(f), in.Pos(), "the replace step can run without the name having been saved in this call", w.PathString(p)...)
				}
			})
		}
	}
	ob.NeedFloor(3)
	_ = n
}

func c04InstallOrder(w *World, r *Report, a *FsmA, id, slug string) {
	ob := r.Ob(id, slug, "each snapshot recoverer, on every success path: every received file is Synced before it is closed/ingested; the new DB is built (open/ingest) before the name is saved; save → replace (success edge) → Swap; Close is called on the value returned by Swap and only after it; the cleanup is reachable only after the replace or on a path on which the replace is unreachable; the stop edge returns without reaching the replace", "any other order lets a crash or stop expose a state that is neither the old nor the new one, or closes a DB that readers still use")
	sp := w.SSAPkg(fsmRel)
	it, ok := sp.Pkg.Scope().Lookup("snapshotRecoverer").Type().Underlying().(*types.Interface)
	if !ok {
		ob.Undecided("anchor", "recoverer interface not found")
		return
	}
	n := 0
	for _, t := range w.Implementers(it) {
		fn := w.MethodOf(t, "recover")
		if fn == nil {
			continue
		}
		n++
		name := FnName(fn)
		find := func(pred func(ssa.Instruction) bool) []ssa.Instruction {
			var out []ssa.Instruction
			eachInstr(fn, func(in ssa.Instruction) {
				if pred(in) {
					out = append(out, in)
				}
			})
			return out
		}
		saves := find(func(in ssa.Instruction) bool { return isRpCall(in, "SaveCurrentDBDirName") })
		repls := find(func(in ssa.Instruction) bool { return isRpCall(in, "ReplaceCurrentDBFile") })
		swaps := find(func(in ssa.Instruction) bool {
			c := plainCall(in)
			return c != nil && strings.HasSuffix(CalleeName(c), ".Swap") && strings.Contains(Expr(c.Args[0]), ".pebble")
		})
		cleans := find(func(in ssa.Instruction) bool { return isRpCall(in, "CleanupNodeDataDir") })
		builds := find(func(in ssa.Instruction) bool {
			c := plainCall(in)
			if c == nil {
				return false
			}
			if CalleeName(c) == "(*"+pebblePath+".DB).Ingest" {
				return true
			}
			return StaticCallee(c) != nil && StaticCallee(c).Name() == "openDB"
		})
		creates := find(func(in ssa.Instruction) bool { return isVfsCall(in, "Create") })
		if len(saves) != 1 || len(repls) != 1 || len(swaps) != 1 || len(builds) == 0 {
			ob.Violate("install-shape@"+name, fn.Pos(), "the recoverer no longer has exactly one save, one replace and one swap step and a DB build")
			continue
		}
		save, repl, swap := saves[0], repls[0], swaps[0]
		ob.Site(save.Pos(), "save in "+name)
		ob.Site(repl.Pos(), "replace in "+name)
		ob.Site(swap.Pos(), "swap in "+name)
		is := func(x ssa.Instruction) func(ssa.Instruction) bool {
			return func(y ssa.Instruction) bool { return x == y }
		}
		order := func(first, then ssa.Instruction, what string) {
			if p := (&Walk{Barrier: is(first), Target: is(then)}).Find(entry(fn)); p != nil {
				ob.Violate("order/"+what+"@"+name, then.Pos(), what+": the later step is reachable without the earlier one", w.PathString(p)...)
			}
		}
		order(save, repl, "save-before-replace")
		order(repl, swap, "replace-before-swap")
		// once the new DB is swapped in the install has happened: the only error still reported is
		// that of the final removal of the old directories (closing the replaced DB fails with
		// "leaked iterators" whenever a streamed read is still open - not a failed install)
		eachInstr(fn, func(in ssa.Instruction) {
			ret, ok := in.(*ssa.Return)
			if !ok || len(ret.Results) == 0 {
				return
			}
			if (&Walk{Target: func(x ssa.Instruction) bool { return x == in }}).Find(after(swap)) == nil {
				return
			}
			v := retVal(ret, len(ret.Results)-1)
			if isNilConst(v) {
				return
			}
			e := Expr(v)
			if !strings.Contains(e, "CleanupNodeDataDir(") {
				ob.Violate("error-after-swap@"+name, ret.Pos(), name+" can return `"+e+"` after the new DB was swapped in: the install is reported as failed although the state is already published")
			}
		})
		// once published, the new DB and its directory are never torn down again - not directly
		// and not by a deferred clean-up that fires on a late error
		{
			newDB := plainCall(swap).Args[1]
			var newDir string
			for _, b := range builds {
				if c := plainCall(b); c != nil && StaticCallee(c) != nil && StaticCallee(c).Name() == "openDB" && len(c.Args) > 0 {
					newDir = strings.TrimPrefix(Expr(c.Args[len(c.Args)-1]), "^")
				}
			}
			if newDir == "" {
				// the checkpoint recoverer creates the directory itself
				for _, in := range find(func(in ssa.Instruction) bool { return isVfsCall(in, "MkdirAll") }) {
					newDir = strings.TrimPrefix(Expr(callOf(in).Args[0]), "^")
				}
			}
			rootVar := func(v ssa.Value) ssa.Value {
				for d := 0; d < 4; d++ {
					u, ok := v.(*ssa.UnOp)
					if !ok || u.Op != token.MUL {
						break
					}
					v = u.X
					if fv, ok := v.(*ssa.FreeVar); ok {
						if b := closureBinding(fv.Parent(), fv); b != nil {
							v = b
						}
					}
				}
				return v
			}
			dbVar := rootVar(newDB)
			isTeardown := func(in ssa.Instruction) string {
				c := callOf(in)
				if c == nil {
					return ""
				}
				if CalleeName(c) == "(*"+pebblePath+".DB).Close" && len(c.Args) > 0 {
					if c.Args[0] == newDB || (dbVar != newDB && rootVar(c.Args[0]) == dbVar) {
						return "closes the new DB"
					}
				}
				if (isVfsCall(in, "RemoveAll") || isVfsCall(in, "Remove")) && newDir != "" {
					if strings.TrimPrefix(Expr(c.Args[0]), "^") == newDir {
						return "removes the new DB directory"
					}
				}
				return ""
			}
			if p := (&Walk{Target: func(x ssa.Instruction) bool { return isTeardown(x) != "" }}).Find(after(repl)); p != nil {
				ob.Violate("teardown-after-publish@"+name, instrPos(p.Hit), name+" "+isTeardown(p.Hit)+" after the new directory was published", w.PathString(p)...)
			}
			lateError := (&Walk{Target: func(x ssa.Instruction) bool {
				ret, ok := x.(*ssa.Return)
				return ok && !isSuccessReturn(ret)
			}}).Find(after(repl)) != nil
			eachInstr(fn, func(in ssa.Instruction) {
				d, ok := in.(*ssa.Defer)
				if !ok {
					return
				}
				var body *ssa.Function
				switch v := d.Call.Value.(type) {
				case *ssa.MakeClosure:
					body, _ = v.Fn.(*ssa.Function)
				case *ssa.Function:
					body = v
				}
				what := ""
				if body != nil {
					eachInstr(body, func(x ssa.Instruction) {
						if t := isTeardown(x); t != "" {
							what = t
						}
					})
				} else if t := isTeardown(in); t != "" {
					what = t
				}
				// a clean-up disarmed by a flag that is set once the directory is published
				if what != "" && lateError && body != nil {
					for _, fv := range body.FreeVars {
						bt, isB := deref(fv.Type()).Underlying().(*types.Basic)
						if !isB || bt.Kind() != types.Bool {
							continue
						}
						flag := closureBinding(body, fv)
						if flag == nil {
							continue
						}
						isFlagStore := func(x ssa.Instruction) bool {
							st, ok := x.(*ssa.Store)
							return ok && st.Addr == flag
						}
						escapes := (&Walk{Barrier: isFlagStore, Target: func(x ssa.Instruction) bool {
							ret, ok := x.(*ssa.Return)
							return ok && !isSuccessReturn(ret)
						}}).Find(after(repl)) != nil
						tested := false
						eachInstr(body, func(x ssa.Instruction) {
							if iff, ok := x.(*ssa.If); ok && strings.Contains(Expr(iff.Cond), "^") && strings.Contains(Expr(iff.Cond), fv.Name()) {
								tested = true
							}
						})
						if !escapes && tested {
							what = ""
						}
					}
				}
				if what != "" && lateError {
					ob.Violate("teardown-after-publish@"+name, in.Pos(), name+" defers a clean-up that "+what+"; it also fires when a step after the publication fails (the final removal of the old directories): the replica is left with neither the old nor the new state")
				}
			})
		}
		// the last build step precedes save
		for _, b := range builds {
			ob.Site(b.Pos(), "DB build step in "+name)
		}
		lastBuild := builds[len(builds)-1]
		if p := (&Walk{Barrier: is(lastBuild), Target: is(save)}).Find(entry(fn)); p != nil {
			ob.Violate("order/build-before-save@"+name, save.Pos(), "the directory name can be saved before the new DB was built from the received files", w.PathString(p)...)
		}
		// swap only on the replace's success edge
		ctx := &ExprCtx{}
		rv := repl.(ssa.Value)
		for _, b := range fn.Blocks {
			for k := range b.Succs {
				for _, l := range ctx.EdgeLits(b, k) {
					if l.Kind == "eq" && l.Neg && l.B == "nil" && l.A == ctx.Expr(rv) {
						if p := (&Walk{Target: is(swap)}).Find(Loc{b.Succs[k], 0}); p != nil {
							ob.Violate("swap-after-failed-replace@"+name, swap.Pos(), "the DB is swapped although publishing 'current' failed")
						}
					}
				}
			}
		}
		// the swapped-in DB is the one that was built
		swapped := plainCall(swap).Args[1]
		if !strings.Contains(Expr(swapped), "openDB(") {
			ob.Violate("swap-other-db@"+name, swap.Pos(), "the DB swapped in is `"+Expr(swapped)+"`, not the one opened for the received snapshot")
		}
		// Close only on the value returned by Swap, after it
		sv := swap.(ssa.Value)
		eachInstr(fn, func(in ssa.Instruction) {
			c := callOf(in)
			if c == nil || CalleeName(c) != "(*"+pebblePath+".DB).Close" {
				return
			}
			ob.Site(in.Pos(), "DB.Close("+Expr(c.Args[0])+") in "+name)
			if c.Args[0] == sv {
				if p := (&Walk{Barrier: is(swap), Target: is(in)}).Find(entry(fn)); p != nil {
					ob.Violate("close-before-swap@"+name, in.Pos(), "the old DB is closed before the swap")
				}
				return
			}
			// closing the new DB is allowed only on abort paths on which the swap is unreachable
			if p := (&Walk{Target: is(swap)}).Find(after(in)); p != nil {
				ob.Violate("close-live-db@"+name, in.Pos(), "`"+Expr(c.Args[0])+"` is closed on a path that goes on to swap it in")
			}
			if strings.Contains(Expr(c.Args[0]), ".Load(") {
				ob.Violate("close-current-db@"+name, in.Pos(), "the currently published DB is closed before the swap: concurrent readers crash")
			}
		})
		// cleanup
		for _, cl := range cleans {
			ob.Site(cl.Pos(), "cleanup in "+name)
			// reachable from entry without replace ⇒ then replace must be unreachable afterwards (abort path)
			if p := (&Walk{Barrier: is(repl), Target: is(cl)}).Find(entry(fn)); p != nil {
				if p2 := (&Walk{Target: is(repl)}).Find(after(cl)); p2 != nil {
					ob.Violate("cleanup-before-replace@"+name, cl.Pos(), "the cleanup can run before 'current' was replaced on a path that still replaces it: it removes the directory being installed")
				}
			}
		}
		// received files: Sync before Close of the same file, every Create
		for _, cr := range creates {
			ob.Site(cr.Pos(), "received file created in "+name)
			var fv ssa.Value
			if v, ok := cr.(ssa.Value); ok && v.Referrers() != nil {
				for _, rr := range *v.Referrers() {
					if ex, ok := rr.(*ssa.Extract); ok && ex.Index == 0 {
						fv = ex
					}
				}
			}
			if fv == nil {
				continue
			}
			isSyncF := func(in ssa.Instruction) bool {
				c := callOf(in)
				if c == nil {
					return false
				}
				if c.IsInvoke() && c.Method.Name() == "Sync" && c.Value == fv {
					return true
				}
				// a helper given the file that syncs it before closing it / returning success
				if cal := StaticCallee(c); cal != nil && inModule(cal) && cal.Blocks != nil && len(cal.Params) == len(c.Args) {
					for i, a := range c.Args {
						if a == fv && helperSyncsParam(cal, i) {
							return true
						}
					}
				}
				return false
			}
			isCloseF := func(in ssa.Instruction) bool {
				c := callOf(in)
				return c != nil && c.IsInvoke() && c.Method.Name() == "Close" && c.Value == fv
			}
			if p := (&Walk{Barrier: isSyncF, Target: func(x ssa.Instruction) bool { return isCloseF(x) || x == save }}).Find(after(cr)); p != nil {
				ob.Violate("received-file-not-synced@"+name, cr.Pos(), "a received snapshot file can be closed / the name published without the file having been synced", w.PathString(p)...)
			}
		}
		// stop edge: a return of ErrSnapshotStopped must not be followed… the stop edges must not reach replace
		for _, b := range fn.Blocks {
			for _, in := range b.Instrs {
				if sel, ok := in.(*ssa.Select); ok {
					_ = sel
					// the edge "select index == 0" (stop channel ready)
					for _, bb := range fn.Blocks {
						for k := range bb.Succs {
							for _, l := range ctx.EdgeLits(bb, k) {
								if l.Kind == "int" && !l.IsNE && l.Lo == 0 && l.Hi == 0 && strings.HasPrefix(l.Terms, "select#0") {
									if p := (&Walk{Target: is(repl)}).Find(Loc{bb.Succs[k], 0}); p != nil {
										ob.Violate("stop-reaches-replace@"+name, repl.Pos(), "after the stop signal the recoverer can still publish the new directory")
									}
								}
							}
						}
					}
				}
			}
		}
	}
	if n < 2 {
		ob.Undecided("recoverers", "expected two snapshot recoverers")
	}
	ob.NeedFloor(12)
}

func c04Cleanup(w *World, r *Report) {
	ob := r.Ob("C04.f", "f-cleanup-spares-live", "in the cleanup every RemoveAll of a listed entry is reachable only over edges establishing entry != 'current' and path != Join(dir, name-read-from-current); the only other RemoveAll removes the constant temp name; the name reader returns a non-empty name only over the checksum-equal edge", "a cleanup that can remove the directory 'current' points to destroys the table")
	cl := w.Func("pebble", "CleanupNodeDataDir")
	gd := w.Func("pebble", "GetCurrentDBDirName")
	if cl == nil || gd == nil {
		ob.Undecided("anchor", "cleanup or name reader not found")
		return
	}
	ctx := &ExprCtx{}
	eachInstr(cl, func(in ssa.Instruction) {
		if !isVfsCall(in, "RemoveAll") {
			return
		}
		arg := callOf(in).Args[0]
		e := Expr(arg)
		ob.Site(in.Pos(), "RemoveAll("+e+")")
		if !inCycle(in.Block()) {
			if !strings.Contains(e, `"current.updating"`) {
				ob.Violate("cleanup-removes/"+e, in.Pos(), "the cleanup unconditionally removes `"+e+"`")
			}
			return
		}
		// guard 1: entry != "current"
		g1 := func(l Lit) bool {
			return l.Kind == "eq" && l.Neg && (l.A == `"current"` || l.B == `"current"`)
		}
		// guard 2: toDelete != Join(dir, GetCurrentDBDirName(...))
		g2 := func(l Lit) bool {
			return l.Kind == "eq" && l.Neg && strings.Contains(l.A+"|"+l.B, "GetCurrentDBDirName(") && (l.A == e || l.B == e)
		}
		for gi, g := range []func(Lit) bool{g1, g2} {
			wk := &Walk{Target: func(x ssa.Instruction) bool { return x == in }, EdgeOK: func(b *ssa.BasicBlock, k int) bool {
				for _, l := range ctx.EdgeLits(b, k) {
					if g(l) {
						return false
					}
				}
				return true
			}}
			if p := wk.Find(entry(cl)); p != nil {
				what := "the 'current' file"
				if gi == 1 {
					what = "the directory named by 'current'"
				}
				ob.Violate("cleanup-unguarded/"+itoa(gi+1), in.Pos(), "the cleanup can remove "+what, w.PathString(p)...)
			}
		}
	})
	// name reader. A checksum computed by a helper of the package (a function whose result is a
	// hash's Sum) reads like the inline computation.
	gctx := &ExprCtx{Alias: map[ssa.Value]string{}}
	eachInstr(gd, func(in ssa.Instruction) {
		call, ok := in.(*ssa.Call)
		if !ok {
			return
		}
		cal := StaticCallee(&call.Call)
		if cal == nil || cal.Blocks == nil || !inModule(cal) {
			return
		}
		sums := true
		n := 0
		eachInstr(cal, func(x ssa.Instruction) {
			if ret, isR := x.(*ssa.Return); isR && !isErrorReturn(ret) && len(ret.Results) > 0 {
				n++
				if !strings.Contains(Expr(retVal(ret, 0)), ".Sum(") {
					sums = false
				}
			}
		})
		if !sums || n == 0 {
			return
		}
		name := "checksum.Sum(" + Expr(call) + ")"
		gctx.Alias[call] = name
		if call.Referrers() != nil {
			for _, ref := range *call.Referrers() {
				if ex, isE := ref.(*ssa.Extract); isE && ex.Index == 0 {
					gctx.Alias[ex] = name
				}
			}
		}
	})
	ctx = gctx
	eachInstr(gd, func(in ssa.Instruction) {
		ret, ok := in.(*ssa.Return)
		if !ok {
			return
		}
		v := retVal(ret, 0)
		if c, ok := v.(*ssa.Const); ok && c.Value != nil && c.Value.ExactString() == `""` {
			return
		}
		ob.Site(ret.Pos(), "name reader returns "+Expr(v))
		// must be dominated by the checksum-equal edge
		wk := &Walk{Target: func(x ssa.Instruction) bool { return x == in }, EdgeOK: func(b *ssa.BasicBlock, k int) bool {
			for _, l := range ctx.EdgeLits(b, k) {
				if l.Kind == "eq" && !l.Neg && strings.Contains(l.A+"|"+l.B, ".Sum(") {
					return false
				}
			}
			return true
		}}
		if p := wk.Find(entry(gd)); p != nil {
			ob.Violate("name-without-checksum", ret.Pos(), "the name reader can return a name whose checksum was not found equal", w.PathString(p)...)
		}
	})
	ob.NeedFloor(3)
}

func c04ReopenIndex(w *World, r *Report, a *FsmA) {
	ob := r.Ob("C04.g", "g-reopen-index", "Open's success return value is the result of reading the local-index bookkeeping key from the DB it just opened", "returning anything else makes dragonboat replay applied entries (non-idempotent commands apply twice) or skip unapplied ones")
	fn := a.Open
	if fn == nil {
		ob.Undecided("anchor", "FSM.Open not found")
		return
	}
	gl := findBookkeepingGlobals(w)
	eachInstr(fn, func(in ssa.Instruction) {
		ret, ok := in.(*ssa.Return)
		if !ok || isErrorReturn(ret) {
			return
		}
		v := retVal(ret, 0)
		e := Expr(v)
		ob.Site(ret.Pos(), "Open returns "+e)
		okv := false
		if ex, isE := v.(*ssa.Extract); isE {
			if call, isC := ex.Tuple.(*ssa.Call); isC && StaticCallee(&call.Call) != nil && StaticCallee(&call.Call).Name() == "readLocalIndex" {
				db, key := call.Call.Args[0], call.Call.Args[1]
				if u, isU := key.(*ssa.UnOp); isU && u.X == ssa.Value(gl["local"]) && strings.Contains(Expr(db), "openDB(") {
					okv = true
				}
			}
		}
		if !okv {
			ob.Violate("open-index-source", ret.Pos(), "Open reports `"+e+"` as applied index, not the local index read from the DB it opened")
		}
	})
	ob.NeedFloor(1)
}

// helperSyncsParam: in fn, every path from the entry to a Close of parameter i or to a success
// return crosses a Sync of that parameter.
func helperSyncsParam(fn *ssa.Function, i int) bool {
	if i >= len(fn.Params) {
		return false
	}
	p := ssa.Value(fn.Params[i])
	isM := func(name string) func(ssa.Instruction) bool {
		return func(in ssa.Instruction) bool {
			c := callOf(in)
			return c != nil && c.IsInvoke() && c.Method.Name() == name && c.Value == p
		}
	}
	isSync, isClose := isM("Sync"), isM("Close")
	n := 0
	eachInstr(fn, func(in ssa.Instruction) {
		if isSync(in) {
			n++
		}
	})
	if n == 0 {
		return false
	}
	wk := &Walk{Barrier: isSync, Target: func(x ssa.Instruction) bool { return isClose(x) || isSuccessReturn(x) }}
	return wk.Find(entry(fn)) == nil
}

// c04FileWrites: every file the state-machine package creates is complete on disk when it is synced.
func c04FileWrites(w *World, r *Report, id, slug string) {
	ob := r.Ob(id, slug, "in every function of the state-machine package that creates a file through the vfs: a success return and the file's Close are unreachable from the Create without crossing Sync on that file, and nothing writes to the file - directly, through a bufio.Writer wrapped round it (Flush), or in a deferred call - after that Sync", "bytes written after the sync (a buffered writer flushed in a defer) are not durable: the ingested SST is truncated by a power loss although the recovery reported success")
	n := 0
	for _, fn := range w.ModFuncs() {
		if !isFsmFunc(fn) || isGenerated(fn) {
			continue
		}
		var creates []ssa.Instruction
		eachInstr(fn, func(in ssa.Instruction) {
			if isVfsCall(in, "Create") {
				creates = append(creates, in)
			}
		})
		for _, cr := range creates {
			var fv ssa.Value
			if v, ok := cr.(ssa.Value); ok && v.Referrers() != nil {
				for _, rr := range *v.Referrers() {
					if ex, ok := rr.(*ssa.Extract); ok && ex.Index == 0 {
						fv = ex
					}
				}
			}
			if fv == nil {
				continue
			}
			n++
			ob.Site(cr.Pos(), "file created in "+FnName(fn))
			// the file and the buffered writers wrapped round it (looked through captured variables)
			isFile := func(v ssa.Value) bool {
				for d := 0; d < 4; d++ {
					if v == fv {
						return true
					}
					switch x := v.(type) {
					case *ssa.MakeInterface:
						v = x.X
					case *ssa.ChangeInterface:
						v = x.X
					case *ssa.UnOp:
						if fvv, ok := x.X.(*ssa.FreeVar); ok {
							if b := closureBinding(fvv.Parent(), fvv); b != nil {
								if al, ok := b.(*ssa.Alloc); ok && al.Parent() != nil {
									for _, st := range storesTo(al.Parent(), al) {
										if st.Val == fv {
											return true
										}
									}
								}
							}
							return false
						}
						if al, ok := x.X.(*ssa.Alloc); ok && al.Parent() != nil {
							for _, st := range storesTo(al.Parent(), al) {
								if st.Val == fv {
									return true
								}
							}
						}
						return false
					default:
						return false
					}
				}
				return false
			}
			var bufs []ssa.Value
			for _, f := range withClosures(fn) {
				eachInstr(f, func(in ssa.Instruction) {
					if c := plainCall(in); c != nil && (CalleeName(c) == "bufio.NewWriter" || CalleeName(c) == "bufio.NewWriterSize") && isFile(c.Args[0]) {
						bufs = append(bufs, in.(ssa.Value))
					}
				})
			}
			isBuf := func(v ssa.Value) bool {
				for d := 0; d < 4; d++ {
					for _, b := range bufs {
						if v == b {
							return true
						}
					}
					switch x := v.(type) {
					case *ssa.MakeInterface:
						v = x.X
					case *ssa.UnOp:
						var al *ssa.Alloc
						if fvv, ok := x.X.(*ssa.FreeVar); ok {
							if b := closureBinding(fvv.Parent(), fvv); b != nil {
								al, _ = b.(*ssa.Alloc)
							}
						} else {
							al, _ = x.X.(*ssa.Alloc)
						}
						if al == nil || al.Parent() == nil {
							return false
						}
						for _, st := range storesTo(al.Parent(), al) {
							for _, b := range bufs {
								if st.Val == b {
									return true
								}
							}
						}
						return false
					default:
						return false
					}
				}
				return false
			}
			isSync := func(in ssa.Instruction) bool {
				c := callOf(in)
				return c != nil && c.IsInvoke() && c.Method.Name() == "Sync" && isFile(c.Value)
			}
			isWrite := func(in ssa.Instruction) bool {
				c := callOf(in)
				if c == nil {
					return false
				}
				if c.IsInvoke() {
					switch c.Method.Name() {
					case "Write", "WriteString", "ReadFrom", "WriteAt":
						return isFile(c.Value)
					}
					return false
				}
				n := CalleeName(c)
				switch {
				case strings.HasPrefix(n, "(*bufio.Writer)."):
					return len(c.Args) > 0 && isBuf(c.Args[0])
				case n == "io.Copy" || n == "io.CopyN" || n == "io.CopyBuffer" || n == "io.WriteString":
					return isFile(c.Args[0]) || isBuf(c.Args[0])
				}
				return false
			}
			isClose := func(in ssa.Instruction) bool {
				c := callOf(in)
				_, isDefer := in.(*ssa.Defer)
				return c != nil && !isDefer && c.IsInvoke() && c.Method.Name() == "Close" && isFile(c.Value)
			}
			if p := (&Walk{Barrier: isSync, Target: func(x ssa.Instruction) bool { return isClose(x) || isSuccessReturn(x) }}).Find(after(cr)); p != nil {
				ob.Violate("created-file-not-synced@"+FnName(fn), cr.Pos(), FnName(fn)+" can close the file it created, or return successfully, without having synced it", w.PathString(p)...)
			}
			var syncs []ssa.Instruction
			eachInstr(fn, func(in ssa.Instruction) {
				if isSync(in) {
					syncs = append(syncs, in)
				}
			})
			for _, sy := range syncs {
				// (the Create is a barrier: round the loop it is the next file that is written)
				if p := (&Walk{Barrier: func(x ssa.Instruction) bool { return x == cr }, Target: func(x ssa.Instruction) bool {
					_, isDefer := x.(*ssa.Defer)
					return !isDefer && isWrite(x)
				}}).Find(after(sy)); p != nil {
					ob.Violate("write-after-sync@"+FnName(fn), instrPos(p.Hit), FnName(fn)+" writes to the file after it was synced", w.PathString(p)...)
				}
			}
			// deferred writes run after every sync of the function body
			if len(syncs) > 0 {
				eachInstr(fn, func(in ssa.Instruction) {
					d, ok := in.(*ssa.Defer)
					if !ok {
						return
					}
					late := false
					if isWrite(in) {
						late = true
					}
					if mc, ok := d.Call.Value.(*ssa.MakeClosure); ok {
						if body, ok := mc.Fn.(*ssa.Function); ok {
							eachInstr(body, func(x ssa.Instruction) {
								if isWrite(x) {
									late = true
								}
							})
						}
					}
					if late {
						ob.Violate("write-after-sync@"+FnName(fn), in.Pos(), FnName(fn)+" defers a write (a Flush of the buffered writer) to the file: it runs after the Sync, so what it writes is not durable when the function reports success")
					}
				})
			}
		}
	}
	if n == 0 {
		ob.Undecided("shape", "no file creation found in the state-machine package")
	}
	ob.NeedFloor(1)
}
