package main

// C11 — follower read-your-writes; waiting never wedges the node.

import (
	"go/constant"
	"go/token"
	"go/types"
	"strings"

	"golang.org/x/tools/go/ssa"
)

func init() {
	register("C11", "follower read-your-writes; waiting never wedges", checkC11)
}

const storagePath = modPath + "/storage"

// queueAnchors finds the notification queue by role: the type with a method whose body is a
// `for { select … }` over its own channel fields and whose Add makes a chan error.
type queueA struct {
	Q       *types.Named
	Item    *types.Named // waiter struct: has a chan error field
	WaitFld string
	KeyFld  string // the uint64 field the heap is ordered by
	Run     *ssa.Function
	Add     *ssa.Function
	Notify  *ssa.Function
}

func findQueue(w *World) *queueA {
	p := w.Pkg("storage")
	if p == nil {
		return nil
	}
	qa := &queueA{}
	sc := p.Types.Scope()
	for _, n := range sc.Names() {
		tn, ok := sc.Lookup(n).(*types.TypeName)
		if !ok {
			continue
		}
		nt, ok := tn.Type().(*types.Named)
		if !ok {
			continue
		}
		st, ok := nt.Underlying().(*types.Struct)
		if !ok {
			continue
		}
		// waiter: struct with a `chan error` field and a context
		hasCtx := false
		wf, kf := "", ""
		for i := 0; i < st.NumFields(); i++ {
			ft := st.Field(i).Type()
			if ch, ok := ft.Underlying().(*types.Chan); ok && isErrorType(ch.Elem()) {
				wf = st.Field(i).Name()
			}
			if typeIs(ft, "context", "Context") {
				hasCtx = true
			}
			if b, ok := ft.(*types.Basic); ok && b.Kind() == types.Uint64 {
				kf = st.Field(i).Name()
			}
			// the key may be promoted from an embedded struct
			if es, ok := ft.Underlying().(*types.Struct); ok && st.Field(i).Embedded() && kf == "" {
				for j := 0; j < es.NumFields(); j++ {
					if b, ok := es.Field(j).Type().(*types.Basic); ok && b.Kind() == types.Uint64 {
						kf = es.Field(j).Name()
					}
				}
			}
		}
		if wf != "" && hasCtx {
			qa.Item, qa.WaitFld, qa.KeyFld = nt, wf, kf
		}
	}
	if qa.Item == nil {
		return nil
	}
	for _, n := range sc.Names() {
		tn, ok := sc.Lookup(n).(*types.TypeName)
		if !ok {
			continue
		}
		nt, ok := tn.Type().(*types.Named)
		if !ok {
			continue
		}
		pt := types.NewPointer(nt)
		ms := w.Prog.MethodSets.MethodSet(pt)
		for i := 0; i < ms.Len(); i++ {
			f := w.MethodOf(pt, ms.At(i).Obj().Name())
			if f == nil || f.Blocks == nil {
				continue
			}
			hasSelect := false
			eachInstr(f, func(in ssa.Instruction) {
				if s, ok := in.(*ssa.Select); ok && s.Blocking && len(s.States) >= 3 && inCycle(in.Block()) {
					hasSelect = true
				}
			})
			if hasSelect {
				qa.Q, qa.Run = nt, f
			}
		}
	}
	if qa.Q == nil {
		return nil
	}
	pt := types.NewPointer(qa.Q)
	qa.Add = w.MethodOf(pt, "Add")
	qa.Notify = w.MethodOf(pt, "Notify")
	return qa
}

func (q *queueA) isItem(t types.Type) bool { return types.Identical(deref(t), q.Item) }

// itemBase: fa addresses a field of a waiter - directly, or promoted through embedded structs;
// returns the waiter the field belongs to.
func (q *queueA) itemBase(fa *ssa.FieldAddr) (ssa.Value, bool) {
	x := fa.X
	for d := 0; d < 4; d++ {
		if q.isItem(x.Type()) {
			return x, true
		}
		inner, ok := x.(*ssa.FieldAddr)
		if !ok || !embeddedStructField(inner) {
			return nil, false
		}
		x = inner.X
	}
	return nil, false
}

// answer: send on / close of the waiter channel; returns the waiter value.
func (q *queueA) answerOf(in ssa.Instruction) ssa.Value {
	var ch ssa.Value
	switch x := in.(type) {
	case *ssa.Send:
		ch = x.Chan
	case *ssa.Call:
		if CalleeName(&x.Call) == "builtin.close" {
			ch = x.Call.Args[0]
		}
	}
	if ch == nil {
		return nil
	}
	u, ok := ch.(*ssa.UnOp)
	if !ok {
		return nil
	}
	fa, ok := u.X.(*ssa.FieldAddr)
	if !ok || !q.isItem(fa.X.Type()) || fieldAddrName(fa) != q.WaitFld {
		return nil
	}
	return fa.X
}

// eventLoopFuncs: the code that runs on the event loop's goroutine as far as it lives in the
// loop's own package: the loop function, its closures, and the package's functions it calls or
// hands on as function values (a sweep passed to a synchronous iteration helper).
func eventLoopFuncs(run *ssa.Function) []*ssa.Function {
	seen := map[*ssa.Function]bool{}
	var out []*ssa.Function
	var add func(f *ssa.Function)
	samePkg := func(f *ssa.Function) bool {
		a, b := f, run
		for a.Parent() != nil {
			a = a.Parent()
		}
		return a.Package() != nil && a.Package() == b.Package()
	}
	add = func(f *ssa.Function) {
		if f == nil || f.Blocks == nil || seen[f] || !samePkg(f) {
			return
		}
		seen[f] = true
		out = append(out, f)
		for _, a := range f.AnonFuncs {
			add(a)
		}
		eachInstr(f, func(in ssa.Instruction) {
			if _, isGo := in.(*ssa.Go); isGo {
				return // another goroutine
			}
			for _, op := range in.Operands(nil) {
				if op == nil || *op == nil {
					continue
				}
				if g, ok := (*op).(*ssa.Function); ok {
					add(g)
				}
			}
		})
	}
	add(run)
	return out
}

func isHeapCall(in ssa.Instruction, method string) (*ssa.CallCommon, bool) {
	c := plainCall(in)
	if c == nil {
		return nil, false
	}
	n := CalleeName(c)
	return c, strings.Contains(n, "util/heap.Heap") && strings.HasSuffix(n, ")."+method)
}

func checkC11(w *World, r *Report) {
	r.Decides = "C11 is decided in its structural part only: (a) each forwarding write handler returns, on success, the error received from the queue's Add for the leader response's revision and the request's table; (b) in Update the applied callback is reachable only after the commit's success edge and receives the leader index when one is present; the follower wires the Notify method of the same queue object it hands to the forwarding server and runs, the only reader of the listener field is the closure the manager hands to the state-machine factory, and the state machine's callback field is written only by the factory; (c) in every function that answers a waiter an answered waiter leaves the heap before the event loop goes on and a waiter is removed only if answered on that path; (d) the heap key of a waiter is written only when the waiter is created; (e) the waiter channel is created with a constant capacity >= 1, the event loop sends on no other channel than waiter channels and the reply of Len, has no blocking receive outside its select, and closes a waiter without error only over an edge establishing waiter.revision <= notified.revision. Also: the sweep of cancelled waiters is driven by a ticker made before the loop; (g) a shard started under a record's recovery id does not announce under the table's name before the catalogue is switched (known finding K2 at Manager.Restore)."
	r.NotDecided = []string{"timeliness ('as soon as')", "fairness of the select", "correctness of the heap algorithm"}
	r.Assume = []string{"a send on a channel with free capacity does not block", "the sweep closure runs on the event loop goroutine (iter.Consume is synchronous)"}
	q := findQueue(w)
	if q == nil || q.Run == nil || q.Add == nil || q.Notify == nil {
		ob := r.Ob("C11.anchors", "anchors", "notification queue resolves by role", "")
		ob.Undecided("anchors", "no type in package storage with a for-select event loop and a waiter struct (chan error + context)")
		return
	}
	c11Forwarding(w, r, q, "C11.a", "a-wait-before-ack")
	c11Notify(w, r, q)
	c11AnswerRemove(w, r, q)
	c11StableKey(w, r, q)
	c11NoBlock(w, r, q)
	c05Batching(w, r, "C11.f", "f-announced-index-not-ahead")
	c11ServingShard(w, r)
	c11HeapRebuild(w, r)
}

// c11ServingShard: an applied index is announced for a table only by the shard its reads go to.
func c11ServingShard(w *World, r *Report) {
	ob := r.Ob("C11.g", "g-announced-by-serving-shard", "the table manager's start function wires every state machine it starts to the applied-index listener under the table's name; a call site that starts a shard under a *recovery* id (the record's RecoverID, not its ClusterID) starts a shard that reads do not go to until the catalogue is switched - its announcements must not reach the queue under the table's name before that", "the queue releases a waiter as soon as the table's name is announced at its revision: during a snapshot recovery the recovery shard announces the stream's leader index while reads still go to the old shard - a forwarded write whose revision the stream covers is acknowledged although a read on the same node does not see it yet")
	st := w.Func("storage/table", "Manager.startTable")
	if st == nil {
		ob.Undecided("anchor", "Manager.startTable not found")
		return
	}
	// does the listener closure announce unconditionally (apart from the nil test of the listener)?
	unconditional := false
	for _, cl := range st.AnonFuncs {
		eachInstr(cl, func(in ssa.Instruction) {
			c := callOf(in)
			if c == nil || !strings.Contains(Expr(c.Value), "AppliedIndexListener") {
				return
			}
			ob.Site(in.Pos(), "state machine announces through the listener under "+Expr(c.Args[0]))
			wk := &Walk{Target: func(x ssa.Instruction) bool { return x == in }, EdgeOK: func(b *ssa.BasicBlock, k int) bool {
				iff, ok := b.Instrs[len(b.Instrs)-1].(*ssa.If)
				if !ok {
					return true
				}
				// only the listener's nil test may stand in front of the announcement
				return strings.Contains(Expr(iff.Cond), "AppliedIndexListener")
			}}
			if wk.Find(entry(cl)) != nil {
				unconditional = true
			}
		})
	}
	n := 0
	for _, ci := range w.CallersOf(st) {
		args := ci.Common().Args
		if len(args) < 3 {
			continue
		}
		id := Expr(args[2])
		n++
		ob.Site(ci.Pos(), FnName(ci.Parent())+" starts a shard under id "+id)
		pv := newIDProv()
		pv.value(args[2])
		fields := pv.Fields()
		if len(fields) > 0 {
			ob.Site(ci.Pos(), FnName(ci.Parent())+": the id derives from field(s) "+strings.Join(fields, ", "))
		}
		// the reconciliation starts shards out of a set keyed by ClusterID and RecoverID alike: on every
		// node other than the one running Restore that call site is what starts the recovery shard
		recovery := strings.Contains(id, "RecoverID") || pv.fields["RecoverID"]
		if recovery && unconditional {
			ob.Violate("recovery-shard-announces@"+FnName(ci.Parent()), ci.Pos(), FnName(ci.Parent())+" starts a recovery shard (id `"+id+"`) whose state machine announces its applied leader index under the table's own name: waiters of the table are released while reads still go to the old shard")
		}
	}
	if n == 0 {
		ob.Undecided("shape", "nobody calls startTable")
	}
	ob.NeedFloor(2)
}

func c11Forwarding(w *World, r *Report, q *queueA, id, slug string) {
	ob := r.Ob(id, slug, "in ForwardingKVServer.Put/DeleteRange/Txn every return that hands out the leader's response returns as error the value received from q.Add(ctx, string(req.Table), resp.Header.Revision)", "an acknowledgement that does not wait for the local apply breaks read-your-writes on the follower")
	for _, m := range []string{"Put", "DeleteRange", "Txn"} {
		fn := w.Func("regattaserver", "ForwardingKVServer."+m)
		if fn == nil {
			ob.Undecided("anchor/"+m, "ForwardingKVServer."+m+" not found")
			continue
		}
		n := 0
		eachInstr(fn, func(in ssa.Instruction) {
			ret, ok := in.(*ssa.Return)
			if !ok || len(ret.Results) != 2 {
				return
			}
			v := retVal(ret, 0)
			e := Expr(v)
			if isNilConst(v) || !strings.Contains(e, "KVClient).") {
				return // error returns and the local read-only transaction path
			}
			n++
			ev := retVal(ret, 1)
			ob.Site(ret.Pos(), "ForwardingKVServer."+m+" returns ("+e+", "+Expr(ev)+")")
			rcv, ok := ev.(*ssa.UnOp)
			if !ok || rcv.Op != token.ARROW {
				ob.Violate("no-wait@"+m, ret.Pos(), "the leader's response is returned with error `"+Expr(ev)+"`, not with the answer received from the notification queue")
				return
			}
			call, ok := rcv.X.(*ssa.Call)
			if !ok || !call.Call.IsInvoke() || call.Call.Method.Name() != "Add" {
				ob.Violate("no-wait@"+m, ret.Pos(), "the awaited channel is `"+Expr(rcv.X)+"`, not the result of the queue's Add")
				return
			}
			tab, rev := Expr(call.Call.Args[1]), Expr(call.Call.Args[2])
			if !strings.HasSuffix(rev, ".Header.Revision") || !strings.HasPrefix(rev, strings.TrimSuffix(e, "#0")) {
				ob.Violate("wait-revision@"+m, call.Pos(), "the handler waits for revision `"+rev+"`, not for the revision of the leader's response")
			}
			if !strings.Contains(tab, "$2.Table") {
				ob.Violate("wait-table@"+m, call.Pos(), "the handler waits on table `"+tab+"`, not on the request's table")
			}
		})
		if n == 0 {
			ob.Violate("no-forward-return@"+m, fn.Pos(), "ForwardingKVServer."+m+" has no return that hands out the leader's response")
		}
	}
	ob.NeedFloor(3)
}

func c11Notify(w *World, r *Report, q *queueA) {
	ob := r.Ob("C11.b", "b-notify-after-commit", "in Update the applied callback is not reachable before the commit call nor from its error edge; on the edge where the context's leader index is present the callback gets *leaderIndex and the local-index call is unreachable; wiring: follower stores queue.Notify (bound to the queue it passes to NewForwardingKVServer and runs) into AppliedIndexListener, that field is read only by the closures handed to the state-machine factory in startTable, which call it with their own argument, and FSM's callback field is written only by the factory from its parameter or the no-op default", "a notification before the commit (or with the wrong index, or to another queue) releases a waiter whose write is not yet readable")
	a := w.FsmAnchors()
	if len(a.Problems) > 0 || a.Update == nil {
		ob.Undecided("anchors", strings.Join(a.Problems, "; "))
		return
	}
	up := a.Update
	// callback field: the func(uint64) field of FSM
	cbField := ""
	st := a.FSM.Underlying().(*types.Struct)
	for i := 0; i < st.NumFields(); i++ {
		if sig, ok := st.Field(i).Type().Underlying().(*types.Signature); ok && sig.Params().Len() == 1 && sig.Results().Len() == 0 {
			cbField = st.Field(i).Name()
		}
	}
	if cbField == "" {
		ob.Undecided("callback-field", "no func(uint64) field in the state machine type")
		return
	}
	isCb := func(in ssa.Instruction) bool {
		c := plainCall(in)
		if c == nil {
			return false
		}
		u, ok := c.Value.(*ssa.UnOp)
		if !ok {
			return false
		}
		fa, ok := u.X.(*ssa.FieldAddr)
		return ok && types.Identical(deref(fa.X.Type()), a.FSM) && fieldAddrName(fa) == cbField
	}
	isCommit := func(in ssa.Instruction) bool {
		c := plainCall(in)
		return c != nil && StaticCallee(c) == a.CommitFn
	}
	var cbs []ssa.Instruction
	eachInstr(up, func(in ssa.Instruction) {
		if isCb(in) {
			cbs = append(cbs, in)
			ob.Site(in.Pos(), "applied callback in Update with "+Expr(plainCall(in).Args[0]))
		}
	})
	if len(cbs) == 0 {
		ob.Violate("no-callback", up.Pos(), "Update never calls the applied callback")
	}
	if p := (&Walk{Barrier: isCommit, Target: isCb}).Find(entry(up)); p != nil {
		ob.Violate("callback-before-commit", instrPos(p.Hit), "the applied callback is reachable without the commit having been crossed", w.PathString(p)...)
	}
	ctx := &ExprCtx{}
	eachInstr(up, func(in ssa.Instruction) {
		if !isCommit(in) {
			return
		}
		cv := in.(ssa.Value)
		for _, b := range up.Blocks {
			for k := range b.Succs {
				for _, l := range ctx.EdgeLits(b, k) {
					if l.Kind == "eq" && l.Neg && l.B == "nil" && l.A == ctx.Expr(cv) {
						if p := (&Walk{Target: isCb}).Find(Loc{b.Succs[k], 0}); p != nil {
							ob.Violate("callback-after-failed-commit", instrPos(p.Hit), "the applied callback is reachable from the commit's error edge", w.PathString(p)...)
						}
					}
				}
			}
		}
	})
	// leader index preferred
	lf := a.ctxLeaderField()
	hasLeader := false
	for _, b := range up.Blocks {
		for k := range b.Succs {
			for _, l := range ctx.EdgeLits(b, k) {
				if l.Kind == "eq" && l.Neg && l.B == "nil" && strings.HasSuffix(l.A, "."+lf) {
					for _, in := range (&Walk{}).ReachableInstrs(Loc{b.Succs[k], 0}) {
						if isCb(in) {
							arg := Expr(plainCall(in).Args[0])
							if strings.Contains(arg, "."+lf) {
								hasLeader = true
							} else {
								ob.Violate("callback-local-index-when-leader-present", in.Pos(), "with a leader index present the callback is called with `"+arg+"`")
							}
						}
					}
				}
			}
		}
	}
	if !hasLeader {
		ob.Violate("callback-ignores-leader-index", up.Pos(), "the applied callback is never called with the leader index of the batch")
	}
	// ---- wiring ----
	// writers of the FSM callback field
	for _, fn := range w.ModFuncs() {
		eachInstr(fn, func(in ssa.Instruction) {
			s, ok := in.(*ssa.Store)
			if !ok {
				return
			}
			fa, ok := s.Addr.(*ssa.FieldAddr)
			if !ok || !types.Identical(deref(fa.X.Type()), a.FSM) || fieldAddrName(fa) != cbField {
				return
			}
			ob.Site(in.Pos(), "writer of FSM."+cbField+" in "+FnName(fn)+": "+Expr(s.Val))
			top := fn
			for top.Parent() != nil {
				top = top.Parent()
			}
			if top.Name() != "New" || !isFsmFunc(top) {
				ob.Violate("callback-field-writer@"+FnName(fn), in.Pos(), "the state machine's applied callback is written outside its factory")
			}
		})
	}
	// every state machine the manager starts is given a callback that reaches the listener
	if newFn := w.Func(fsmRel, "New"); newFn != nil {
		for _, ci := range w.CallersOf(newFn) {
			if !strings.HasSuffix(FnName(ci.Parent()), "startTable") && !strings.Contains(FnName(ci.Parent()), "startTable$") {
				continue
			}
			args := ci.Common().Args
			cb := args[len(args)-1]
			ob.Site(ci.Pos(), "state machine factory called in "+FnName(ci.Parent())+" with callback "+Expr(cb))
			reaches := false
			for _, f := range funcsOfValue(cb, 0) {
				{
					for _, g := range withClosures(f) {
						eachInstr(g, func(x ssa.Instruction) {
							if fa, ok := x.(*ssa.FieldAddr); ok && fieldAddrName(fa) == "AppliedIndexListener" {
								reaches = true
							}
							if fv, ok := x.(*ssa.Field); ok && fieldValName(fv) == "AppliedIndexListener" {
								reaches = true
							}
						})
					}
				}
			}
			if !reaches {
				ob.Violate("factory-without-listener@"+FnName(ci.Parent()), ci.Pos(), "a table's state machine is started with the callback `"+Expr(cb)+"`, which does not reach the configured applied-index listener: writes forwarded to that table are applied but their waiters are never released")
			}
		}
	}
	// readers of AppliedIndexListener
	nread := 0
	for _, fn := range w.ModFuncs() {
		eachInstr(fn, func(in ssa.Instruction) {
			fa, ok := in.(*ssa.FieldAddr)
			var name string
			if ok {
				name = fieldAddrName(fa)
			} else if f, ok2 := in.(*ssa.Field); ok2 {
				name = fieldValName(f)
			}
			if name != "AppliedIndexListener" {
				return
			}
			// reads only (loads / calls), not the config literal stores
			isStore := false
			if ok && fa.Referrers() != nil {
				for _, rr := range *fa.Referrers() {
					if s, ok := rr.(*ssa.Store); ok && s.Addr == ssa.Value(fa) {
						isStore = true
					}
				}
			}
			if isStore {
				return
			}
			nread++
			top := fn
			for top.Parent() != nil {
				top = top.Parent()
			}
			ob.Site(in.Pos(), "reader of AppliedIndexListener in "+FnName(fn))
			if fn.Parent() == nil || top.Name() != "startTable" {
				ob.Violate("listener-reader@"+FnName(fn), in.Pos(), "AppliedIndexListener is read outside the closures handed to the state-machine factory")
			}
		})
	}
	if nread == 0 {
		ob.Violate("listener-never-read", 0, "nobody reads the AppliedIndexListener configuration: notifications never reach the queue")
	}
	// the closures call the listener with (table name, their own argument)
	if stt := w.Func("storage/table", "Manager.startTable"); stt != nil {
		for _, cl := range stt.AnonFuncs {
			eachInstr(cl, func(in ssa.Instruction) {
				c := plainCall(in)
				if c == nil || !strings.HasSuffix(Expr(c.Value), ".AppliedIndexListener") {
					return
				}
				ob.Site(in.Pos(), "listener call ("+Expr(c.Args[0])+", "+Expr(c.Args[1])+") in "+FnName(cl))
				if c.Args[1] != ssa.Value(cl.Params[0]) {
					ob.Violate("listener-arg@"+FnName(cl), in.Pos(), "the listener is called with `"+Expr(c.Args[1])+"`, not with the applied index it was given")
				}
				if !strings.HasPrefix(Expr(c.Args[0]), "^$1") {
					ob.Violate("listener-table@"+FnName(cl), in.Pos(), "the listener is called for table `"+Expr(c.Args[0])+"`, not the table being started")
				}
			})
		}
	} else {
		ob.Undecided("anchor/startTable", "Manager.startTable not found")
	}
	// follower: same queue object
	if fol := w.Func("cmd", "follower"); fol != nil {
		var qv ssa.Value
		eachInstr(fol, func(in ssa.Instruction) {
			if c, ok := in.(*ssa.Call); ok && strings.HasSuffix(CalleeName(&c.Call), "storage.NewNotificationQueue") {
				qv = c
			}
		})
		if qv == nil {
			ob.Undecided("follower-queue", "the follower command does not create a notification queue")
		} else {
			listenerOK, serverOK, runOK := false, false, false
			for _, f := range withClosures(fol) {
				eachInstr(f, func(in ssa.Instruction) {
					if s, ok := in.(*ssa.Store); ok {
						if fa, ok := s.Addr.(*ssa.FieldAddr); ok && fieldAddrName(fa) == "AppliedIndexListener" {
							ob.Site(in.Pos(), "follower sets AppliedIndexListener = "+Expr(s.Val))
							if mc, ok := s.Val.(*ssa.MakeClosure); ok && len(mc.Bindings) == 1 && sameOrCaptured(mc.Bindings[0], qv) {
								if bf, ok := mc.Fn.(*ssa.Function); ok && strings.HasPrefix(bf.Name(), "Notify") {
									listenerOK = true
								}
							}
						}
					}
					if c := callOf(in); c != nil {
						n := CalleeName(c)
						if strings.HasSuffix(n, "regattaserver.NewForwardingKVServer") {
							ob.Site(in.Pos(), "follower passes queue "+Expr(c.Args[2])+" to the forwarding server")
							if mi, ok := c.Args[2].(*ssa.MakeInterface); ok && sameOrCaptured(mi.X, qv) || sameOrCaptured(c.Args[2], qv) {
								serverOK = true
							}
						}
						if _, isGo := in.(*ssa.Go); isGo && strings.HasSuffix(n, "IndexNotificationQueue).Run") && sameOrCaptured(c.Args[0], qv) {
							ob.Site(in.Pos(), "follower runs the queue's event loop")
							runOK = true
						}
					}
				})
			}
			if !listenerOK {
				ob.Violate("follower-listener", fol.Pos(), "the follower does not register the Notify method of its notification queue as applied-index listener")
			}
			if !serverOK {
				ob.Violate("follower-server-queue", fol.Pos(), "the forwarding server does not get the queue whose Notify is registered")
			}
			if !runOK {
				ob.Violate("follower-run", fol.Pos(), "the follower does not start the event loop of the queue it registers")
			}
		}
	} else {
		ob.Undecided("anchor/follower", "cmd.follower not found")
	}
	ob.NeedFloor(9)
}

// sameOrCaptured: v is the SSA value x, possibly through a local variable, a captured
// variable or an interface conversion (identity, not structural equality: two calls of the
// same constructor are different objects).
func sameOrCaptured(v, x ssa.Value) bool {
	for i := 0; i < 8; i++ {
		if v == x {
			return true
		}
		switch y := v.(type) {
		case *ssa.MakeInterface:
			v = y.X
		case *ssa.ChangeType:
			v = y.X
		case *ssa.UnOp:
			if y.Op != token.MUL {
				return false
			}
			switch ad := y.X.(type) {
			case *ssa.Alloc:
				sts := storesTo(ad.Parent(), ad)
				if len(sts) != 1 {
					return false
				}
				v = sts[0].Val
			case *ssa.FreeVar:
				b := closureBinding(ad.Parent(), ad)
				al, ok := b.(*ssa.Alloc)
				if !ok {
					return false
				}
				sts := storesTo(al.Parent(), al)
				if len(sts) != 1 {
					return false
				}
				v = sts[0].Val
			default:
				return false
			}
		case *ssa.FreeVar:
			b := closureBinding(y.Parent(), y)
			if b == nil {
				return false
			}
			v = b
		default:
			return false
		}
	}
	return false
}

func c11AnswerRemove(w *World, r *Report, q *queueA) {
	ob := r.Ob("C11.c", "c-answer-once-and-leave", "in every function that answers a waiter (send on / close of its channel): Peek/Pop form - after the answer a Pop of the same heap is crossed before the next Peek, the next select or a return, and every path from a Peek to a Pop crosses an answer; omission form (loop over the heap's slice that rebuilds it) - within an iteration an answered waiter is not appended to the retained slice, an unanswered one is, and after the loop the heap content is replaced by the retained slice unless an edge establishes that nothing was dropped", "an answered waiter that stays queued is answered again (the third send on the capacity-1 channel blocks the event loop for ever); a waiter removed without answer never returns")
	var answerers []*ssa.Function
	for _, fn := range w.ModFuncs() {
		has := false
		eachInstr(fn, func(in ssa.Instruction) {
			if q.answerOf(in) != nil {
				has = true
			}
		})
		if has {
			answerers = append(answerers, fn)
		}
	}
	for _, fn := range answerers {
		peekForm, rangeForm := false, false
		eachInstr(fn, func(in ssa.Instruction) {
			wv := q.answerOf(in)
			if wv == nil {
				return
			}
			if c, ok := wv.(*ssa.Call); ok {
				if _, isPeek := isHeapCall(c, "Peek"); isPeek {
					peekForm = true
					return
				}
			}
			if u, ok := wv.(*ssa.UnOp); ok {
				if ia, ok := u.X.(*ssa.IndexAddr); ok && strings.HasSuffix(Expr(ia.X), ".Slice") {
					rangeForm = true
					return
				}
			}
			if ex, ok := wv.(*ssa.Extract); ok {
				if _, ok := ex.Tuple.(*ssa.Next); ok {
					rangeForm = true
					return
				}
			}
			ob.Undecided("answer-form@"+FnName(fn), "a waiter is answered that is neither the heap's Peek result nor an element of a loop over its slice: `"+Expr(wv)+"`")
		})
		if peekForm {
			c11PeekForm(w, ob, q, fn)
		}
		if rangeForm {
			c11RangeForm(w, ob, q, fn)
		}
	}
	if len(answerers) == 0 {
		ob.Undecided("no-answerer", "nobody answers waiters")
	}
	ob.NeedFloor(3)
}

func c11PeekForm(w *World, ob *Ob, q *queueA, fn *ssa.Function) {
	isPop := func(heap ssa.Value) func(ssa.Instruction) bool {
		return func(in ssa.Instruction) bool {
			c, ok := isHeapCall(in, "Pop")
			return ok && sameValue(c.Args[0], heap)
		}
	}
	isPeek := func(in ssa.Instruction) bool { _, ok := isHeapCall(in, "Peek"); return ok }
	eachInstr(fn, func(in ssa.Instruction) {
		wv := q.answerOf(in)
		if wv == nil {
			return
		}
		pk, ok := wv.(*ssa.Call)
		if !ok {
			return
		}
		if _, isPk := isHeapCall(pk, "Peek"); !isPk {
			return
		}
		heap := pk.Call.Args[0]
		ob.Site(in.Pos(), "answer of the Peek waiter in "+FnName(fn))
		wk := &Walk{Barrier: isPop(heap), Target: func(x ssa.Instruction) bool {
			if isPeek(x) || isAnyReturn(x) || q.answerOf(x) != nil {
				return true
			}
			_, isSel := x.(*ssa.Select)
			return isSel
		}}
		if p := wk.Find(after(in)); p != nil {
			ob.Violate("answered-not-removed@"+FnName(fn), in.Pos(), "an answered waiter can stay in the heap: it is answered again at the next notification or sweep and the send eventually blocks the event loop", w.PathString(p)...)
		}
	})
	// every Pop is preceded by an answer since the last Peek
	eachInstr(fn, func(in ssa.Instruction) {
		if !isPeek(in) {
			return
		}
		heap := plainCall(in).Args[0]
		wk := &Walk{Barrier: func(x ssa.Instruction) bool { return q.answerOf(x) != nil }, Target: isPop(heap)}
		if p := wk.Find(after(in)); p != nil {
			ob.Violate("removed-not-answered@"+FnName(fn), instrPos(p.Hit), "a waiter can be popped without having been answered: its caller waits for ever", w.PathString(p)...)
		}
	})
}

// appendedValues: element values appended by a builtin append call with a literal variadic list.
func appendedValues(c *ssa.CallCommon) []ssa.Value {
	if CalleeName(c) != "builtin.append" || len(c.Args) != 2 {
		return nil
	}
	sl, ok := c.Args[1].(*ssa.Slice)
	if !ok {
		return nil
	}
	al, ok := sl.X.(*ssa.Alloc)
	if !ok || al.Referrers() == nil {
		return nil
	}
	var out []ssa.Value
	for _, r := range *al.Referrers() {
		if ia, ok := r.(*ssa.IndexAddr); ok && ia.Referrers() != nil {
			for _, rr := range *ia.Referrers() {
				if st, ok := rr.(*ssa.Store); ok && st.Addr == ssa.Value(ia) {
					out = append(out, st.Val)
				}
			}
		}
	}
	return out
}

func c11RangeForm(w *World, ob *Ob, q *queueA, fn *ssa.Function) {
	var answers, keeps []ssa.Instruction
	var elem ssa.Value
	eachInstr(fn, func(in ssa.Instruction) {
		if wv := q.answerOf(in); wv != nil {
			answers = append(answers, in)
			elem = wv
		}
	})
	eachInstr(fn, func(in ssa.Instruction) {
		if c := plainCall(in); c != nil {
			for _, v := range appendedValues(c) {
				if v == elem {
					keeps = append(keeps, in)
				}
			}
		}
	})
	isAnswer := func(x ssa.Instruction) bool { return q.answerOf(x) != nil }
	isKeep := func(x ssa.Instruction) bool {
		for _, k := range keeps {
			if k == x {
				return true
			}
		}
		return false
	}
	for _, a := range answers {
		ob.Site(a.Pos(), "answer of a swept waiter in "+FnName(fn))
	}
	if len(keeps) == 0 {
		ob.Violate("sweep-keeps-nothing@"+FnName(fn), fn.Pos(), "the sweep answers waiters while looping over the heap's slice but never collects the waiters to retain: answered waiters stay queued (or everyone is dropped)")
		return
	}
	scc := sccOf(answers[0].Block())
	h := loopHeader(scc)
	if h == nil {
		ob.Undecided("sweep-loop@"+FnName(fn), "the answer is not inside a reducible loop")
		return
	}
	inIter := func(b *ssa.BasicBlock, k int) bool { return scc[b.Succs[k]] && b.Succs[k] != h }
	for _, a := range answers {
		if p := (&Walk{Target: isKeep, EdgeOK: inIter}).Find(after(a)); p != nil {
			ob.Violate("answered-kept@"+FnName(fn), a.Pos(), "a waiter answered by the sweep is also retained in the heap: it is answered again by the next sweep", w.PathString(p)...)
		}
	}
	for _, s := range h.Succs {
		if !scc[s] {
			continue
		}
		wk := &Walk{Barrier: func(x ssa.Instruction) bool { return isAnswer(x) || isKeep(x) }, Target: func(x ssa.Instruction) bool { return x.Block() == h }, EdgeOK: func(b *ssa.BasicBlock, k int) bool { return scc[b.Succs[k]] }}
		if p := wk.Find(Loc{s, 0}); p != nil {
			ob.Violate("unanswered-dropped@"+FnName(fn), blockPos(s), "the sweep can drop a waiter from the heap without answering it", w.PathString(p)...)
		}
	}
	for _, k := range keeps {
		ob.Site(k.Pos(), "retained-waiter append in "+FnName(fn))
	}
	// replacement after the loop
	isReplace := func(x ssa.Instruction) bool {
		st, ok := x.(*ssa.Store)
		if !ok {
			return false
		}
		if st.Addr == ssa.Value(fn.Params[0]) {
			return strings.Contains(Expr(st.Val), "heap.New(")
		}
		if fa, ok := st.Addr.(*ssa.FieldAddr); ok && fieldAddrName(fa) == "Slice" {
			return true
		}
		return false
	}
	nrep := 0
	eachInstr(fn, func(in ssa.Instruction) {
		if isReplace(in) {
			nrep++
			ob.Site(in.Pos(), "heap content replaced in "+FnName(fn))
		}
	})
	if nrep == 0 {
		ob.Violate("sweep-no-replace@"+FnName(fn), fn.Pos(), "the sweep never replaces the heap's content with the retained waiters")
		return
	}
	ctx := &ExprCtx{}
	for k, s := range h.Succs {
		if scc[s] {
			continue
		}
		_ = k
		wk := &Walk{Barrier: isReplace, Target: isAnyReturn, EdgeOK: func(b *ssa.BasicBlock, kk int) bool {
			for _, l := range ctx.EdgeLits(b, kk) {
				if l.Kind == "int" && !l.IsNE && l.Lo == 0 && l.Hi == 0 && strings.Count(l.Terms, "len(") == 2 && strings.Contains(l.Terms, ".Slice") {
					return false // nothing was dropped
				}
			}
			return true
		}}
		if p := wk.Find(Loc{s, 0}); p != nil {
			ob.Violate("sweep-replace-skipped@"+FnName(fn), instrPos(p.Hit), "the sweep can return without installing the retained waiters although some were answered", w.PathString(p)...)
		}
	}
}

func c11StableKey(w *World, r *Report, q *queueA) {
	ob := r.Ob("C11.d", "d-stable-heap-key", "the waiter's revision field (the heap key) is stored only into a freshly allocated waiter", "changing the key of a queued waiter breaks the heap order: waiters are answered late or never")
	for _, fn := range w.ModFuncs() {
		eachInstr(fn, func(in ssa.Instruction) {
			st, ok := in.(*ssa.Store)
			if !ok {
				return
			}
			fa, ok := st.Addr.(*ssa.FieldAddr)
			if !ok || fieldAddrName(fa) != q.KeyFld {
				return
			}
			base, isItem := q.itemBase(fa)
			if !isItem {
				return
			}
			ob.Site(in.Pos(), "store to waiter."+q.KeyFld+" in "+FnName(fn))
			if al, ok := base.(*ssa.Alloc); !ok || al.Parent() != fn {
				ob.Violate("key-mutated@"+FnName(fn), in.Pos(), "the heap key of an existing waiter is overwritten in "+FnName(fn))
			}
		})
	}
	ob.NeedFloor(1)
}

func c11NoBlock(w *World, r *Report, q *queueA) {
	ob := r.Ob("C11.e", "e-loop-cannot-block", "every store to the waiter's channel field is a make with constant capacity >= 1; in the event loop and its closures every send is on a waiter channel or the reply channel of the Len request, there is no receive outside the select; the waiter is closed (success) only over an edge establishing waiter.revision <= notification.revision", "an unbuffered waiter channel or any other blocking operation lets one slow or cancelled caller stall every other caller and the apply path")

	// the sweep of cancelled waiters is driven by a ticker created before the loop: a timer made
	// in the select (time.After) starts again with every event, and under steady traffic never fires
	eachInstr(q.Run, func(in ssa.Instruction) {
		sel, ok := in.(*ssa.Select)
		if !ok {
			return
		}
		for _, st := range sel.States {
			if st.Dir != types.RecvOnly {
				continue
			}
			e := Expr(st.Chan)
			if strings.Contains(e, "time.After(") || strings.Contains(e, "time.NewTimer(") || strings.Contains(e, "time.Tick(") {
				if def, ok := st.Chan.(ssa.Instruction); ok && def.Block() != nil && inCycle(def.Block()) {
					ob.Violate("sweep-timer-restarts", in.Pos(), "the event loop waits on `"+e+"`, created anew in every iteration: the sweep only runs after a full interval without any add, notification or length request - under steady traffic a cancelled waiter is never answered")
				}
			}
		}
	})
	for _, fn := range w.ModFuncs() {
		eachInstr(fn, func(in ssa.Instruction) {
			st, ok := in.(*ssa.Store)
			if !ok {
				return
			}
			fa, ok := st.Addr.(*ssa.FieldAddr)
			if !ok || !q.isItem(fa.X.Type()) || fieldAddrName(fa) != q.WaitFld {
				return
			}
			ob.Site(in.Pos(), "waiter channel = "+Expr(st.Val)+" in "+FnName(fn))
			mc, ok := st.Val.(*ssa.MakeChan)
			if !ok {
				if ct, ok2 := st.Val.(*ssa.ChangeType); ok2 {
					mc, ok = ct.X.(*ssa.MakeChan)
				}
			}
			if !ok {
				ob.Violate("waitch-not-made@"+FnName(fn), in.Pos(), "the waiter channel is `"+Expr(st.Val)+"`, capacity unknown")
				return
			}
			c, isC := mc.Size.(*ssa.Const)
			n := int64(0)
			if isC && c.Value != nil {
				n, _ = constant.Int64Val(constant.ToInt(c.Value))
			}
			if !isC || n < 1 {
				ob.Violate("waitch-unbuffered@"+FnName(fn), in.Pos(), "the waiter channel is created with capacity `"+Expr(mc.Size)+"`: answering a waiter whose caller is gone blocks the event loop")
			}
		})
	}
	for _, fn := range eventLoopFuncs(q.Run) {
		eachInstr(fn, func(in ssa.Instruction) {
			switch x := in.(type) {
			case *ssa.Send:
				e := Expr(x.Chan)
				ob.Site(in.Pos(), "send on "+e+" in "+FnName(fn))
				if q.answerOf(in) != nil {
					return
				}
				if strings.HasSuffix(e, ".waitCh") && strings.Contains(e, "select#") {
					return // reply to the Len request: the requester is blocked in the matching receive
				}
				// more generally: the reply channel carried by a request that this select received
				// (the requester sends the request and then blocks in the receive of the reply)
				if replyOfReceivedRequest(x.Chan) {
					return
				}
				ob.Violate("loop-send@"+FnName(fn), in.Pos(), "the event loop sends on `"+e+"`, which may block it")
			case *ssa.UnOp:
				if x.Op == token.ARROW {
					ob.Violate("loop-receive@"+FnName(fn), in.Pos(), "the event loop blocks in a receive on `"+Expr(x.X)+"` outside its select")
				}
			case *ssa.Select:
				if x != nil && !inCycle(in.Block()) {
					ob.Violate("loop-extra-select@"+FnName(fn), in.Pos(), "a second select in the event loop")
				}
			}
		})
	}
	// success edge of the notify arm
	ctx := &ExprCtx{Alias: map[ssa.Value]string{}}
	eachInstr(q.Run, func(in ssa.Instruction) {
		c, ok := in.(*ssa.Call)
		if !ok || CalleeName(&c.Call) != "builtin.close" || q.answerOf(in) == nil {
			return
		}
		wv := q.answerOf(in)
		ctx.Alias[wv] = "waiter"
		ob.Site(in.Pos(), "waiter released without error")
		// required: waiter.revision - X.revision <= 0 for some notification X
		wk := &Walk{Target: func(x ssa.Instruction) bool { return x == in }, EdgeOK: func(b *ssa.BasicBlock, k int) bool {
			for _, l := range ctx.EdgeLits(b, k) {
				if l.Kind != "int" || l.IsNE {
					continue
				}
				t := l.Terms
				// forms: "X.revision-waiter.revision >= 0" or "waiter.revision-X.revision <= 0" after sign normalisation
				if strings.Contains(t, "waiter."+q.KeyFld) && strings.Count(t, "."+q.KeyFld) == 2 {
					neg := strings.Contains(t, "-waiter."+q.KeyFld)
					if (neg && l.Lo >= 0 && l.Hi >= posInf) || (!neg && l.Hi <= 0 && l.Lo <= negInf) {
						return false
					}
				}
			}
			return true
		}}
		if p := wk.Find(entry(q.Run)); p != nil {
			ob.Violate("release-unguarded", in.Pos(), "a waiter can be released without error although the notified revision is below its revision", w.PathString(p)...)
		}
	})
	ob.NeedFloor(5)
}

// funcsOfValue: the functions a function-typed value may be: a closure literal, a function, or
// what a (statically resolved or literal) callee returns.
func funcsOfValue(v ssa.Value, depth int) []*ssa.Function {
	if depth > 4 {
		return nil
	}
	switch x := v.(type) {
	case *ssa.MakeClosure:
		if f, ok := x.Fn.(*ssa.Function); ok {
			return []*ssa.Function{f}
		}
	case *ssa.Function:
		return []*ssa.Function{x}
	case *ssa.ChangeType:
		return funcsOfValue(x.X, depth+1)
	case *ssa.Phi:
		var out []*ssa.Function
		for _, e := range x.Edges {
			out = append(out, funcsOfValue(e, depth+1)...)
		}
		return out
	case *ssa.Call:
		var callees []*ssa.Function
		if cal := StaticCallee(&x.Call); cal != nil {
			callees = append(callees, cal)
		} else {
			callees = funcsOfValue(x.Call.Value, depth+1)
		}
		var out []*ssa.Function
		for _, cal := range callees {
			if cal.Blocks == nil {
				continue
			}
			eachInstr(cal, func(in ssa.Instruction) {
				if ret, ok := in.(*ssa.Return); ok && len(ret.Results) > 0 {
					out = append(out, funcsOfValue(retVal(ret, 0), depth+1)...)
				}
			})
		}
		return out
	}
	return nil
}

// replyOfReceivedRequest: the channel is a field of a value that a select of the loop received.
func replyOfReceivedRequest(v ssa.Value) bool {
	for d := 0; d < 8; d++ {
		switch x := v.(type) {
		case *ssa.UnOp:
			v = x.X
		case *ssa.FieldAddr:
			v = x.X
		case *ssa.Field:
			v = x.X
		case *ssa.Alloc:
			if x.Parent() == nil {
				return false
			}
			sts := storesTo(x.Parent(), x)
			if len(sts) != 1 {
				return false
			}
			v = sts[0].Val
		case *ssa.Extract:
			_, isSel := x.Tuple.(*ssa.Select)
			return isSel && x.Index >= 2
		default:
			return false
		}
	}
	return false
}
