package main

import (
	"go/token"
	"strings"

	"golang.org/x/tools/go/ssa"
)

// c11HeapRebuild: the queue's sweep rebuilds a table's heap from the surviving waiters through the
// heap constructor; the notification loop only ever looks at the top. The constructor's heapify
// loop has to sift down every internal node, the root included.
func c11HeapRebuild(w *World, r *Report) {
	ob := r.Ob("C11.h", "h-heap-rebuild-covers-root", "the heap constructor the sweep rebuilds a table's waiters with sifts down every internal node: its loop counter starts at len(items)/2-1 (or above), goes down by one, the loop is continued exactly while the counter is >= 0, and every iteration crosses the sift-down of (counter, len)", "the notification loop peeks only at the top of the heap and stops at the first waiter above the announced index: if the rebuilt heap's root is not the smallest revision, waiters whose revision is already applied are not answered until a later, larger announcement - a forwarded write hangs although it is applied")
	fn := w.Func("util/heap", "New")
	if fn == nil || len(fn.Blocks) == 0 {
		ob.Undecided("anchor", "util/heap.New not found")
		return
	}
	if len(fn.Params) < 2 {
		ob.Undecided("shape", "util/heap.New takes no items")
		return
	}
	isDown := func(in ssa.Instruction) bool {
		c := callOf(in)
		return c != nil && strings.HasSuffix(CalleeName(c), ").down")
	}
	found := 0
	seen := map[*ssa.BasicBlock]bool{}
	for _, b := range fn.Blocks {
		h, body := loopOf(b)
		if h == nil || seen[h] {
			continue
		}
		seen[h] = true
		// does this loop sift down?
		var down *ssa.CallCommon
		eachInstr(fn, func(in ssa.Instruction) {
			if body[in.Block()] && isDown(in) {
				down = callOf(in)
			}
		})
		if down == nil {
			continue
		}
		found++
		ob.Site(blockPos(h), "heapify loop of the constructor")
		var cnt *ssa.Phi
		for _, in := range h.Instrs {
			phi, ok := in.(*ssa.Phi)
			if !ok {
				break
			}
			if isIntegerType(phi.Type()) && len(down.Args) >= 2 && down.Args[len(down.Args)-2] == ssa.Value(phi) {
				cnt = phi
			}
		}
		if cnt == nil {
			ob.Undecided("shape/counter", "the sift-down inside the constructor's loop is not called with the loop counter")
			continue
		}
		ctx := &ExprCtx{Alias: map[ssa.Value]string{cnt: "cnt"}}
		for i, e := range cnt.Edges {
			pred := h.Preds[i]
			if !body[pred] {
				// start value: len/2 - 1, or len - 1
				s := Expr(e)
				ob.Site(cnt.Pos(), "the counter starts at "+s)
				okStart := false
				if bo, ok := e.(*ssa.BinOp); ok && bo.Op == token.SUB {
					if k, isC := constInt(bo.Y); isC && k == 1 {
						x := bo.X
						if q, ok := x.(*ssa.BinOp); ok && q.Op == token.QUO {
							if k2, isC := constInt(q.Y); isC && k2 == 2 {
								x = q.X
							}
						}
						if strings.HasPrefix(Expr(x), "len(") && strings.Contains(Expr(x), "$1") {
							okStart = true
						}
					}
				}
				if !okStart {
					ob.Violate("heapify-start", cnt.Pos(), "the constructor's sift-down loop starts at `"+s+"`, not at len(items)/2-1: internal nodes above it are never sifted")
				}
			} else {
				bo, ok := e.(*ssa.BinOp)
				one := false
				if ok && bo.Op == token.SUB && bo.X == ssa.Value(cnt) {
					if k, isC := constInt(bo.Y); isC && k == 1 {
						one = true
					}
				}
				if !one {
					ob.Violate("heapify-step", cnt.Pos(), "the constructor's sift-down loop advances its counter by `"+Expr(e)+"`, not down by one")
				}
			}
		}
		want, _ := intLit(Lin{T: map[string]int64{"cnt": 1}, C: 0, nn: map[string]bool{}}, token.GEQ)
		okBound := false
		for k, s := range h.Succs {
			if !body[s] || s == h {
				continue
			}
			for _, lt := range ctx.EdgeLits(h, k) {
				if lt.Kind == "int" && lt.Terms == want.Terms {
					okBound = true
					if !(lt.Implies(want) && want.Implies(lt)) {
						ob.Violate("heapify-bound", blockPos(h), "the constructor's sift-down loop continues while `"+lt.String()+"`; sifting every internal node including the root needs `"+want.String()+"`")
					}
				}
			}
			inBody := func(b *ssa.BasicBlock, k int) bool { return body[b.Succs[k]] }
			if p := (&Walk{Barrier: isDown, Target: func(x ssa.Instruction) bool { return x.Block() == h }, EdgeOK: inBody}).Find(Loc{s, 0}); p != nil {
				ob.Violate("heapify-skips", blockPos(s), "an iteration of the constructor's loop can return to the loop head without sifting its node down")
			}
		}
		if !okBound {
			ob.Undecided("shape/bound", "the head of the constructor's loop does not compare the counter with a constant")
		}
		if len(down.Args) >= 1 {
			n := Expr(down.Args[len(down.Args)-1])
			if !strings.HasPrefix(n, "len(") {
				ob.Violate("heapify-extent", blockPos(h), "the sift-down is bounded by `"+n+"`, not by the number of items")
			}
		}
	}
	if found == 0 {
		ob.Undecided("shape", "the heap constructor has no loop that sifts nodes down (a different construction: not decided)")
	}
	// the sweep is what relies on it
	ob.NeedFloor(2)
}
