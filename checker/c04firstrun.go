package main

import (
	"go/constant"
	"go/token"
	"strings"

	"golang.org/x/tools/go/ssa"
)

// c04FirstRun: the state machine treats a data directory as "first run" exactly when the `current`
// file cannot be stat-ed. Anything else that makes the first-run test true sends an initialised
// table through the first-run branch of Open: a fresh empty DB is created and published over the
// synced one.
func c04FirstRun(w *World, r *Report) {
	ob := r.Ob("C04.i", "i-first-run-iff-no-current", "the first-run test of the pebble helper package (the boolean function the state machine's Open branches on) returns true only over the failure edge of its Stat of Join(dir, 'current'), and false only after that Stat; Open calls it", "a first-run verdict for a directory that has a `current` file (for instance because a half-written `current.updating` lies beside it after a crash in the middle of a snapshot install) makes Open create an empty DB and publish it: the table comes back at index 0 although a prefix was durable")
	fn := w.Func("pebble", "IsNewRun")
	if fn == nil || len(fn.Blocks) == 0 {
		ob.Undecided("anchor", "pebble.IsNewRun not found")
		return
	}
	// the Stat of the current file
	var stat *ssa.Call
	nStat := 0
	eachInstr(fn, func(in ssa.Instruction) {
		c, ok := in.(*ssa.Call)
		if !ok || !c.Call.IsInvoke() || c.Call.Method.Name() != "Stat" || len(c.Call.Args) != 1 {
			return
		}
		nStat++
		e := Expr(c.Call.Args[0])
		ob.Site(c.Pos(), "IsNewRun stats "+e)
		if strings.Contains(e, "Join(") && strings.Contains(e, `"current"`) {
			stat = c
		}
	})
	if stat == nil {
		ob.Violate("no-stat-of-current", fn.Pos(), "the first-run test does not stat Join(dir, \"current\")")
		return
	}
	// failure edge of that Stat
	isFail := func(b *ssa.BasicBlock, k int) bool {
		iff, ok := b.Instrs[len(b.Instrs)-1].(*ssa.If)
		if !ok {
			return false
		}
		bo, ok := iff.Cond.(*ssa.BinOp)
		if !ok || (bo.Op != token.NEQ && bo.Op != token.EQL) {
			return false
		}
		x, y := bo.X, bo.Y
		if isNilConst(x) {
			x, y = y, x
		}
		ex, ok := x.(*ssa.Extract)
		if !ok || ex.Tuple != ssa.Value(stat) || ex.Index != 1 || !isNilConst(y) {
			return false
		}
		if bo.Op == token.NEQ {
			return k == 0
		}
		return k == 1
	}
	notFail := func(b *ssa.BasicBlock, k int) bool { return !isFail(b, k) }
	isStat := func(in ssa.Instruction) bool { return in == ssa.Instruction(stat) }
	boolOf := func(v ssa.Value) (val, known bool) {
		if c, ok := v.(*ssa.Const); ok && c.Value != nil && c.Value.Kind() == constant.Bool {
			return constant.BoolVal(c.Value), true
		}
		return false, false
	}
	check := func(target ssa.Instruction, val bool, pos token.Pos) {
		tgt := func(x ssa.Instruction) bool { return x == target }
		if val {
			if p := (&Walk{Target: tgt, EdgeOK: notFail}).Find(entry(fn)); p != nil {
				ob.Violate("first-run-with-current-present", pos, "the first-run test can answer true on a path that does not cross the failure edge of the Stat of the `current` file: an initialised directory is taken for a new one")
			}
		} else {
			if p := (&Walk{Target: tgt, Barrier: isStat}).Find(entry(fn)); p != nil {
				ob.Violate("not-first-run-without-stat", pos, "the first-run test can answer false without having looked for the `current` file")
			}
		}
	}
	nRet := 0
	eachInstr(fn, func(in ssa.Instruction) {
		ret, ok := in.(*ssa.Return)
		if !ok || len(ret.Results) != 1 {
			return
		}
		nRet++
		v := retVal(ret, 0)
		ob.Site(ret.Pos(), "IsNewRun returns "+Expr(v))
		if b, known := boolOf(v); known {
			check(ret, b, ret.Pos())
			return
		}
		switch x := v.(type) {
		case *ssa.BinOp:
			xx, yy := x.X, x.Y
			if isNilConst(xx) {
				xx, yy = yy, xx
			}
			if ex, ok := xx.(*ssa.Extract); ok && ex.Tuple == ssa.Value(stat) && ex.Index == 1 && isNilConst(yy) {
				if x.Op != token.NEQ {
					ob.Violate("first-run-with-current-present", ret.Pos(), "the first-run test answers `"+Expr(v)+"`: true when the `current` file exists")
				}
				return
			}
		case *ssa.Phi:
			all := true
			for i, e := range x.Edges {
				b, known := boolOf(e)
				if !known {
					all = false
					break
				}
				pred := x.Block().Preds[i]
				check(pred.Instrs[len(pred.Instrs)-1], b, ret.Pos())
			}
			if all {
				return
			}
		}
		ob.Undecided("shape/return@"+itoa(nRet), "the value returned by the first-run test (`"+Expr(v)+"`) is neither a constant nor the Stat's error compared with nil")
	})
	if nRet == 0 {
		ob.Undecided("shape", "the first-run test has no return")
	}
	// Open branches on it
	a := w.FsmAnchors()
	used := false
	if a.Open != nil {
		for _, f := range withClosures(a.Open) {
			eachInstr(f, func(in ssa.Instruction) {
				if c := callOf(in); c != nil && StaticCallee(c) == fn {
					used = true
					ob.Site(in.Pos(), "Open asks the first-run test")
				}
			})
		}
	}
	if !used {
		ob.Violate("open-does-not-ask", fn.Pos(), "the state machine's Open does not call the first-run test")
	}
	ob.NeedFloor(3)
}
