package main

// C02 — transactions are atomic if/then/else.

import (
	"fmt"
	"go/constant"
	"go/types"
	"strings"

	"golang.org/x/tools/go/ssa"
)

func init() {
	register("C02", "transactions: one branch, in order, all or nothing", checkC02)
}

// sccOf returns the blocks of the strongly connected component (cycle) containing b, nil if b is not in a cycle.
func sccOf(b *ssa.BasicBlock) map[*ssa.BasicBlock]bool {
	fwd := reachBlocks(b, func(x *ssa.BasicBlock) []*ssa.BasicBlock { return x.Succs })
	bwd := reachBlocks(b, func(x *ssa.BasicBlock) []*ssa.BasicBlock { return x.Preds })
	out := map[*ssa.BasicBlock]bool{}
	for x := range fwd {
		if bwd[x] {
			out[x] = true
		}
	}
	if len(out) == 0 {
		return nil
	}
	out[b] = true
	return out
}

// reachBlocks: blocks reachable from b in ≥1 step.
func reachBlocks(b *ssa.BasicBlock, next func(*ssa.BasicBlock) []*ssa.BasicBlock) map[*ssa.BasicBlock]bool {
	seen := map[*ssa.BasicBlock]bool{}
	st := append([]*ssa.BasicBlock{}, next(b)...)
	for len(st) > 0 {
		x := st[len(st)-1]
		st = st[:len(st)-1]
		if seen[x] {
			continue
		}
		seen[x] = true
		st = append(st, next(x)...)
	}
	return seen
}

// loopOf returns the innermost natural loop containing b: its header and body (nil if b is
// in no loop). A natural loop of a back edge u→h (h dominates u) is h plus every block that
// reaches u without passing through h.
func loopOf(b *ssa.BasicBlock) (*ssa.BasicBlock, map[*ssa.BasicBlock]bool) {
	fn := b.Parent()
	var bestH *ssa.BasicBlock
	var best map[*ssa.BasicBlock]bool
	for _, h := range fn.Blocks {
		body := map[*ssa.BasicBlock]bool{}
		for _, u := range h.Preds {
			if !h.Dominates(u) {
				continue
			}
			// collect nodes reaching u without passing h
			body[h] = true
			st := []*ssa.BasicBlock{u}
			for len(st) > 0 {
				x := st[len(st)-1]
				st = st[:len(st)-1]
				if body[x] {
					continue
				}
				body[x] = true
				st = append(st, x.Preds...)
			}
		}
		if len(body) == 0 || !body[b] {
			continue
		}
		if best == nil || len(body) < len(best) {
			best, bestH = body, h
		}
	}
	return bestH, best
}

// loopHeader: the block of the cycle that dominates all others.
func loopHeader(scc map[*ssa.BasicBlock]bool) *ssa.BasicBlock {
	for h := range scc {
		all := true
		for x := range scc {
			if !h.Dominates(x) {
				all = false
				break
			}
		}
		if all {
			return h
		}
	}
	return nil
}

// isConstBool reports whether v is the boolean constant val.
func isConstBool(v ssa.Value, val bool) bool {
	c, ok := v.(*ssa.Const)
	return ok && c.Value != nil && c.Value.Kind() == constant.Bool && constant.BoolVal(c.Value) == val
}

func isRequestOpSlice(t types.Type) bool {
	s, ok := t.Underlying().(*types.Slice)
	return ok && typeIs(s.Elem(), pbPkg, "RequestOp")
}

func checkC02(w *World, r *Report) {
	r.Decides = "C02 is decided in its structural part only: (a) the operation list applied on the compare-true edge is the transaction's Success list and on the other edge the Failure list (through the handler's call site), the two applications exclude each other and the reported flag/result equals the compare outcome on each edge, for the write path, the read-only path and the table layer; (b) the predicates are evaluated before any operation of the branch and on the batch/snapshot the operations use; (c) from every 'predicate failed' edge of the compare helper (missing key, empty range, a key of the range or the key itself failing the comparison, a failed term of the conjunction) only `return false` is reachable, and the operator table compares the stored value (left) with the given one for each of the four operators; (d) every operation arm appends exactly one response per iteration; (e) the read-only path uses one snapshot for predicates and operations; (f) a transaction is classified read-only only if every operation of both lists is a range read, and only then is it served by the read path / locally on a follower; (g) every operation of the executed branch - and every command around the transaction in a sequence or apply call - is applied: no counted loop of the apply path stops early with success or skips elements (C01.i). Also: every operation list is walked in full (g) and the apply batch is mutated only with plain write operations (h)."
	r.NotDecided = []string{"the values predicates and operations evaluate to", "isolation inside Pebble", "equality of the answers of the read-only and the write path"}
	r.Assume = []string{"C01.a-d hold inside the transaction (same context and batch)", "bytes.Compare returns -1, 0 or 1"}
	a := w.FsmAnchors()
	if len(a.Problems) > 0 || a.Update == nil || a.Lookup == nil {
		ob := r.Ob("C02.anchors", "anchors", "roles of the table state machine resolve", "")
		ob.Undecided("anchors", strings.Join(a.Problems, "; "))
		return
	}
	// compare helper: fsm function (pebble.Reader, []*Compare) → (bool, error)
	cmpFn := a.CompareHelper()
	if cmpFn == nil {
		ob := r.Ob("C02.anchors", "anchors", "compare helper resolves", "")
		ob.Undecided("compare-helper", "no function (pebble.Reader, []*regattapb.Compare) in "+fsmRel)
		return
	}
	c02Branch(w, r, a, cmpFn)
	c02Predicates(w, r, a, cmpFn)
	c02Responses(w, r, a)
	c02OneSnapshot(w, r, a, "C02.e", "e-one-snapshot")
	c02Readonly(w, r, a, "C02.f", "f-readonly-classification")
	applyLoopComplete(w, r, a, "C02.g", "g-every-operation-applied")
	c01WriteKinds(w, r, a, "C02.h", "h-plain-write-operations")
	// a predicate is looked up under its own key: the shared key buffer is empty at every encode
	c12BufferReuse(w, r, "C02.i", "i-predicates-under-their-own-keys")
}

// findCompareSplit finds, in fn, the call of the compare helper, its boolean result and the If on it.
func findCompareSplit(fn, cmpFn *ssa.Function) (call *ssa.Call, ok ssa.Value, iff *ssa.If) {
	eachInstr(fn, func(in ssa.Instruction) {
		if c, isC := in.(*ssa.Call); isC && StaticCallee(&c.Call) == cmpFn {
			call = c
		}
	})
	if call == nil {
		return
	}
	for _, ref := range *call.Referrers() {
		if ex, isE := ref.(*ssa.Extract); isE && ex.Index == 0 {
			ok = ex
		}
	}
	if ok == nil {
		return
	}
	eachInstr(fn, func(in ssa.Instruction) {
		if i, isI := in.(*ssa.If); isI && i.Cond == ok {
			iff = i
		}
	})
	return
}

func c02Branch(w *World, r *Report, a *FsmA, cmpFn *ssa.Function) {
	ob := r.Ob("C02.a", "a-branch-and-flag", "on the compare-true edge exactly the Success list is applied and true/ResultSuccess/Succeeded is reported, on the other edge exactly the Failure list and false; the two applications are mutually unreachable (write path through the handler's call site, read-only path in Lookup, Succeeded in the table layer)", "a swapped or shared branch executes the wrong operations or reports the wrong flag")
	// ---- write path ----
	var wfn *ssa.Function
	for _, fn := range sortedFuncs(a.applyReach()) {
		if c, _, _ := findCompareSplit(fn, cmpFn); c != nil {
			wfn = fn
		}
	}
	if wfn == nil {
		ob.Undecided("write-path", "no function of the apply path calls the compare helper")
	} else {
		_, okv, iff := findCompareSplit(wfn, cmpFn)
		if iff == nil {
			ob.Undecided("write-path-shape@"+FnName(wfn), "the compare result is not branched on directly")
		} else {
			ob.Site(iff.Pos(), "branch on compare result in "+FnName(wfn))
			isApply := func(in ssa.Instruction) bool {
				c := plainCall(in)
				if c == nil {
					return false
				}
				for _, x := range c.Args {
					if isRequestOpSlice(x.Type()) {
						return true
					}
				}
				return false
			}
			listOf := func(in ssa.Instruction) ssa.Value {
				for _, x := range plainCall(in).Args {
					if isRequestOpSlice(x.Type()) {
						return x
					}
				}
				return nil
			}
			// resolve a list value to its source expression at the (unique) caller when it is a parameter
			resolve := func(v ssa.Value) string {
				if p, isP := v.(*ssa.Parameter); isP {
					idx := -1
					for i, q := range wfn.Params {
						if q == p {
							idx = i
						}
					}
					callers := w.CallersOf(wfn)
					var exprs []string
					for _, ci := range callers {
						exprs = append(exprs, Expr(ci.Common().Args[idx]))
					}
					return strings.Join(uniq(exprs), "|")
				}
				return Expr(v)
			}
			for k, want := range []string{"Success", "Failure"} {
				start := Loc{iff.Block().Succs[k], 0}
				var applies []ssa.Instruction
				for _, in := range (&Walk{}).ReachableInstrs(start) {
					if isApply(in) {
						applies = append(applies, in)
					}
				}
				if len(applies) != 1 {
					ob.Violate(fmt.Sprintf("branch-%s-applications@%s", want, FnName(wfn)), iff.Pos(), fmt.Sprintf("%d operation-list applications are reachable on the %s edge, exactly one expected", len(applies), want))
					continue
				}
				// a list selected before the single application (`branch := fail; if ok { branch = success }`)
				// is a phi: on this outcome it carries the edges not taken only under the other outcome
				var sourcesOn func(v ssa.Value, outcome bool, d int) []string
				sourcesOn = func(v ssa.Value, outcome bool, d int) []string {
					if phi, isPhi := v.(*ssa.Phi); isPhi && d < 4 {
						var out []string
						for i, e := range phi.Edges {
							pred := phi.Block().Preds[i]
							if outcome && edgeEstablishes(pred, phi.Block(), LNotBool(Expr(okv))) {
								continue
							}
							if !outcome && edgeEstablishes(pred, phi.Block(), LBool(Expr(okv))) {
								continue
							}
							out = append(out, sourcesOn(e, outcome, d+1)...)
						}
						return out
					}
					return []string{resolve(v)}
				}
				src := strings.Join(uniq(sourcesOn(listOf(applies[0]), k == 0, 0)), "|")
				ob.Site(applies[0].Pos(), "on the "+want+" edge the list `"+src+"` is applied")
				if !strings.HasSuffix(src, "."+want) || strings.Contains(src, "|") {
					ob.Violate("branch-list/"+want+"@"+FnName(wfn), applies[0].Pos(), "on the compare-"+map[int]string{0: "true", 1: "false"}[k]+" edge the list `"+src+"` is applied, expected the transaction's "+want+" list")
				}
				// reported flag on this edge
				for _, in := range (&Walk{}).ReachableInstrs(start) {
					ret, isR := in.(*ssa.Return)
					if !isR || len(ret.Results) == 0 {
						continue
					}
					if b, isB := ret.Results[0].Type().Underlying().(*types.Basic); isB && b.Kind() == types.Bool {
						v := retVal(ret, 0)
						if !(isConstBool(v, k == 0) || v == okv) {
							ob.Violate("flag/"+want+"@"+FnName(wfn), ret.Pos(), "on the "+want+" edge the function reports `"+Expr(v)+"` as outcome")
						}
					}
				}
			}
		}
		// handler maps the flag to the update result: ResultSuccess iff succeeded
		for _, ci := range w.CallersOf(wfn) {
			h := ci.Parent()
			var succ ssa.Value
			if cv, isV := ci.(ssa.Value); isV && cv.Referrers() != nil {
				for _, ref := range *cv.Referrers() {
					if ex, isE := ref.(*ssa.Extract); isE && ex.Index == 0 {
						succ = ex
					}
				}
			}
			if succ == nil {
				ob.Undecided("handler-flag@"+FnName(h), "the handler does not use the transaction outcome")
				continue
			}
			okFlag := false
			eachInstr(h, func(in ssa.Instruction) {
				ret, isR := in.(*ssa.Return)
				if !isR || isErrorReturn(ret) {
					return
				}
				phi, isPhi := retVal(ret, 0).(*ssa.Phi)
				if !isPhi || len(phi.Edges) != 2 {
					return
				}
				// which pred is on the !succ side
				for i, e := range phi.Edges {
					c, isC := e.(*ssa.Const)
					if !isC || c.Value == nil {
						return
					}
					val, _ := constant.Int64Val(constant.ToInt(c.Value))
					pred := phi.Block().Preds[i]
					// pred is reached over the edge where succ is false?
					onFalse := edgeEstablishes(pred, phi.Block(), LNotBool(Expr(succ)))
					onTrue := edgeEstablishes(pred, phi.Block(), LBool(Expr(succ)))
					ob.Site(ret.Pos(), fmt.Sprintf("handler result %d on edge succ=%v/%v in %s", val, onTrue, !onFalse, FnName(h)))
					if (onFalse && val != 0) || (onTrue && val != 1) {
						ob.Violate("handler-result@"+FnName(h), ret.Pos(), "the handler reports ResultSuccess/ResultFailure inverted with respect to the transaction outcome")
					}
					if onFalse || onTrue {
						okFlag = true
					}
				}
			})
			if !okFlag {
				ob.Undecided("handler-flag-shape@"+FnName(h), "could not relate the handler's update result to the transaction outcome")
			}
		}
	}
	// ---- table layer: Succeeded = (res.Value == ResultSuccess) ----
	if fn := w.Func("storage/table", "ActiveTable.Txn"); fn != nil {
		found := false
		eachInstr(fn, func(in ssa.Instruction) {
			st, isS := in.(*ssa.Store)
			if !isS {
				return
			}
			fa, isF := st.Addr.(*ssa.FieldAddr)
			if !isF || !typeIs(fa.X.Type(), pbPkg, "TxnResponse") || fieldAddrName(fa) != "Succeeded" {
				return
			}
			found = true
			l, okL := (&ExprCtx{}).CondLit(st.Val)
			ob.Site(in.Pos(), "ActiveTable.Txn sets Succeeded = "+l.String())
			// two result codes exist (0 failure, 1 success): `== 1`, `!= 0` and `>= 1` say the same
			good := okL && l.Kind == "int" && strings.HasSuffix(l.Terms, ".Value") &&
				((!l.IsNE && l.Lo == 1 && (l.Hi == 1 || l.Hi >= posInf)) || (l.IsNE && l.NE == 0))
			if !good {
				ob.Violate("table-succeeded", in.Pos(), "Succeeded is computed as `"+l.String()+"`, expected result.Value == ResultSuccess")
			}
		})
		if !found {
			ob.Undecided("table-succeeded-shape", "ActiveTable.Txn does not set TxnResponse.Succeeded")
		}
	} else {
		ob.Undecided("anchor@ActiveTable.Txn", "storage/table.ActiveTable.Txn not found")
	}
	// ---- read-only path in Lookup (or the helper Lookup hands the transaction to) ----
	ro := a.ROTxn()
	if _, okv, iff := findCompareSplit(ro, cmpFn); iff != nil {
		ob.Site(iff.Pos(), "branch on compare result in "+FnName(ro))
		for k, forbidden := range []string{"Failure", "Success"} {
			for _, in := range (&Walk{}).ReachableInstrs(Loc{iff.Block().Succs[k], 0}) {
				if fa, isF := in.(*ssa.FieldAddr); isF && typeIs(fa.X.Type(), pbPkg, "TxnRequest") && fieldAddrName(fa) == forbidden {
					ob.Violate("lookup-branch/"+forbidden, in.Pos(), "the read-only path reads the "+forbidden+" list on the edge where the other branch must run")
				}
			}
		}
		for _, want := range []string{"Success", "Failure"} {
			n := 0
			eachInstr(ro, func(in ssa.Instruction) {
				if fa, isF := in.(*ssa.FieldAddr); isF && typeIs(fa.X.Type(), pbPkg, "TxnRequest") && fieldAddrName(fa) == want {
					n++
				}
			})
			if n == 0 {
				ob.Violate("lookup-branch-missing/"+want, iff.Pos(), "the read-only path never reads the "+want+" list")
			}
		}
		found := false
		eachInstr(ro, func(in ssa.Instruction) {
			st, isS := in.(*ssa.Store)
			if !isS {
				return
			}
			fa, isF := st.Addr.(*ssa.FieldAddr)
			if !isF || !typeIs(fa.X.Type(), pbPkg, "TxnResponse") || fieldAddrName(fa) != "Succeeded" {
				return
			}
			found = true
			ob.Site(in.Pos(), "Lookup sets Succeeded = "+Expr(st.Val))
			if st.Val != okv {
				ob.Violate("lookup-succeeded", in.Pos(), "the read-only path reports Succeeded = `"+Expr(st.Val)+"`, not the compare outcome")
			}
		})
		if !found {
			ob.Violate("lookup-succeeded", ro.Pos(), "the read-only path never sets Succeeded")
		}
	} else {
		ob.Undecided("lookup-shape", "the read-only transaction path in Lookup does not branch on the compare helper's result")
	}
	ob.NeedFloor(6)
}

// edgeEstablishes: does the edge pred→succ (or the chain of single-predecessor blocks leading to
// pred) establish the literal?
func edgeEstablishes(pred, succ *ssa.BasicBlock, want Lit) bool {
	ctx := &ExprCtx{}
	b, s := pred, succ
	for i := 0; i < 4; i++ {
		for k, x := range b.Succs {
			if x != s {
				continue
			}
			for _, l := range ctx.EdgeLits(b, k) {
				if l.Implies(want) {
					return true
				}
			}
		}
		if len(b.Preds) != 1 {
			return false
		}
		b, s = b.Preds[0], b
	}
	return false
}

func c02Predicates(w *World, r *Report, a *FsmA, cmpFn *ssa.Function) {
	obB := r.Ob("C02.b", "b-predicates-first", "in the function that applies a transaction no operation-list application can precede the compare helper, and the helper reads the reader it is given (no other DB handle)", "predicates evaluated after an operation see the transaction's own effects")
	for _, fn := range sortedFuncs(a.applyReach()) {
		call, _, _ := findCompareSplit(fn, cmpFn)
		if call == nil {
			continue
		}
		obB.Site(call.Pos(), "compare helper called in "+FnName(fn))
		isApply := func(in ssa.Instruction) bool {
			c := plainCall(in)
			if c == nil || in == ssa.Instruction(call) {
				return false
			}
			for _, x := range c.Args {
				if isRequestOpSlice(x.Type()) {
					return true
				}
			}
			return false
		}
		// the write path evaluates the predicates on the apply batch, made indexed beforehand
		rd := call.Call.Args[0]
		if mi, ok := rd.(*ssa.MakeInterface); ok {
			rd = mi.X
		}
		if !a.isCtxFieldLoad(rd, a.BatchFld) {
			obB.Violate("compare-reader@"+FnName(fn), call.Pos(), "the predicates of a transaction in the apply path are evaluated on `"+Expr(rd)+"`, not on the apply batch: writes of earlier entries of the same apply call are invisible to them")
		} else {
			isEnsure := func(in ssa.Instruction) bool {
				c := plainCall(in)
				return c != nil && StaticCallee(c) == a.Indexed
			}
			if p := (&Walk{Barrier: isEnsure, Target: func(in ssa.Instruction) bool { return in == ssa.Instruction(call) }}).Find(entry(fn)); p != nil {
				obB.Violate("compare-before-indexed@"+FnName(fn), call.Pos(), "the predicates are evaluated on the batch before it was made indexed", w.PathString(p)...)
			}
		}
		if p := (&Walk{Target: isApply, Barrier: func(in ssa.Instruction) bool { return in == ssa.Instruction(call) }}).Find(entry(fn)); p != nil {
			obB.Violate("ops-before-compare@"+FnName(fn), instrPos(p.Hit), "operations of the transaction can be applied before its predicates are evaluated", w.PathString(p)...)
		}
	}
	// the compare helper's code: the function, its closures, and the fsm functions it hands a
	// predicate to (the per-predicate arms as closures or as named functions), except the
	// single-value comparison. Parameters of such a function read as the helper's arguments.
	cmpScope := withClosures(cmpFn)
	cmpAlias := map[ssa.Value]string{}
	for _, f := range withClosures(cmpFn) {
		eachInstr(f, func(in ssa.Instruction) {
			c := plainCall(in)
			if c == nil {
				return
			}
			cal := StaticCallee(c)
			if cal == nil || cal.Blocks == nil || !isFsmFunc(cal) || cal == cmpFn || len(c.Args) != len(cal.Params) {
				return
			}
			if len(cal.Params) == 2 && typeIs(cal.Params[0].Type(), pbPkg, "Compare") {
				return // the single-value comparison (operator table below)
			}
			takesCompare := false
			for _, p := range cal.Params {
				if typeIs(p.Type(), pbPkg, "Compare") {
					takesCompare = true
				}
			}
			if !takesCompare || len(w.CallersOf(cal)) != 1 {
				return
			}
			for _, g := range cmpScope {
				if g == cal {
					return
				}
			}
			for i, p := range cal.Params {
				cmpAlias[p] = strings.TrimLeft(Expr(c.Args[i]), "^")
			}
			cmpScope = append(cmpScope, withClosures(cal)...)
		})
	}
	cmpExpr := func(v ssa.Value) string { return (&ExprCtx{Alias: cmpAlias}).Expr(v) }
	// inside the helper every Get/NewIter goes through the reader parameter
	for _, f := range cmpScope {
		eachInstr(f, func(in ssa.Instruction) {
			c := callOf(in)
			if c == nil {
				return
			}
			n := CalleeName(c)
			if strings.HasSuffix(n, ").Get") || strings.HasSuffix(n, ").NewIter") {
				if !strings.Contains(n, pebblePath) {
					return
				}
				obB.Site(in.Pos(), "compare helper reads through "+Expr(c.Value))
				root := strings.TrimLeft(cmpExpr(c.Value), "^")
				if !c.IsInvoke() || root != "$0" {
					obB.Violate("compare-other-reader@"+FnName(f), in.Pos(), "the compare helper reads `"+Expr(c.Value)+"`, not the reader it was given")
				}
			}
		})
	}
	obB.NeedFloor(3)

	obC := r.Ob("C02.c", "c-predicate-semantics", "in the compare helper, from every 'failed' edge (single comparison false, First() false on the range, key not found / Get error, a term of the conjunction false) only `return false` is reachable; the operator table maps EQUAL/NOT_EQUAL/GREATER/LESS to bytes.Equal / !bytes.Equal / bytes.Compare(stored, given) == 1 / == -1 with the stored value as left operand", "otherwise a predicate on a missing key or empty range, or one failing key of a range, lets the success branch run; or the comparison is evaluated the wrong way round")
	var single *ssa.Function
	kinds := map[string]int{}
	for _, f := range cmpScope {
		ctx := &ExprCtx{}
		for _, b := range f.Blocks {
			iff, isI := b.Instrs[len(b.Instrs)-1].(*ssa.If)
			if !isI {
				continue
			}
			failEdge := -1
			kind := ""
			cond := iff.Cond
			switch x := cond.(type) {
			case *ssa.Call:
				cal := StaticCallee(&x.Call)
				n := CalleeName(&x.Call)
				switch {
				case cal != nil && inModule(cal) && len(cal.Params) == 2 && typeIs(cal.Params[0].Type(), pbPkg, "Compare"):
					single = cal
					failEdge, kind = 1, "comparison"
				case strings.HasSuffix(n, ".Iterator).First"):
					failEdge, kind = 1, "empty-range"
				case n == "errors.Is":
					if strings.Contains(ctx.Expr(x.Call.Args[1]), "ErrNotFound") {
						failEdge, kind = 0, "not-found"
					}
				}
			case *ssa.BinOp:
				if l, okL := ctx.CondLit(cond); okL && l.Kind == "eq" && l.B == "nil" && strings.Contains(l.A, ").Get(") && strings.HasSuffix(l.A, "#2") {
					kind = "get-error"
					if l.Neg {
						failEdge = 0
					} else {
						failEdge = 1
					}
				}
			case *ssa.Phi, *ssa.Extract:
				e := ctx.Expr(cond)
				if f == cmpFn && strings.Contains(e, "$") && strings.Contains(e, "#0") {
					failEdge, kind = 1, "conjunction-term"
				}
			}
			if failEdge < 0 {
				continue
			}
			kinds[kind]++
			obC.Site(iff.Cond.Pos(), kind+" test in "+FnName(f))
			for _, in := range (&Walk{}).ReachableInstrs(Loc{b.Succs[failEdge], 0}) {
				ret, isR := in.(*ssa.Return)
				if !isR || len(ret.Results) == 0 {
					continue
				}
				if !isConstBool(retVal(ret, 0), false) {
					obC.Violate("failed-"+kind+"-not-false@"+FnName(f), ret.Pos(), "after a failed "+kind+" test the helper can return `"+Expr(retVal(ret, 0))+"` instead of false", w.Pos(iff.Cond.Pos()))
				}
			}
		}
	}
	for _, k := range []string{"comparison", "empty-range", "conjunction-term"} {
		if kinds[k] == 0 {
			obC.Violate("test-missing/"+k, cmpFn.Pos(), "the compare helper has no `"+k+"` test any more")
		}
	}
	if kinds["comparison"] < 2 {
		obC.Violate("test-missing/comparison-arm", cmpFn.Pos(), "the single-key and the range arm must each test the comparison")
	}
	if kinds["not-found"] == 0 && kinds["get-error"] == 0 {
		obC.Violate("test-missing/not-found", cmpFn.Pos(), "the compare helper does not test for a missing key")
	}
	// operator table
	if single == nil {
		obC.Undecided("operator-table", "single comparison function not found")
	} else {
		c02OperatorTable(w, obC, single)
	}
	obC.NeedFloor(9)
}

func c02OperatorTable(w *World, ob *Ob, fn *ssa.Function) {
	pb := w.ByPath[pbPkg]
	enumT, _ := pb.Types.Scope().Lookup("Compare_CompareResult").Type().(*types.Named)
	names := map[int64]string{}
	for _, n := range pb.Types.Scope().Names() {
		if c, ok := pb.Types.Scope().Lookup(n).(*types.Const); ok && types.Identical(c.Type(), enumT) {
			v, _ := constant.Int64Val(c.Val())
			names[v] = strings.TrimPrefix(n, "Compare_")
		}
	}
	ctx := &ExprCtx{}
	seen := map[string]bool{}
	for _, b := range fn.Blocks {
		iff, ok := b.Instrs[len(b.Instrs)-1].(*ssa.If)
		if !ok {
			continue
		}
		l, ok := ctx.CondLit(iff.Cond)
		if !ok || l.Kind != "int" || l.IsNE || l.Lo != l.Hi || !strings.HasSuffix(l.Terms, ".Result") {
			continue
		}
		opName := names[l.Lo]
		arm := b.Succs[0]
		// value produced by the arm: phi edge in a successor, or returned
		var val ssa.Value
		for _, s := range arm.Succs {
			pi := predIndex(arm, s)
			for _, in := range s.Instrs {
				phi, isPhi := in.(*ssa.Phi)
				if !isPhi {
					break
				}
				if b, isB := phi.Type().Underlying().(*types.Basic); isB && b.Kind() == types.Bool {
					val = phi.Edges[pi]
				}
			}
		}
		if ret, isR := arm.Instrs[len(arm.Instrs)-1].(*ssa.Return); isR && len(ret.Results) == 1 {
			val = retVal(ret, 0)
		}
		if val == nil {
			ob.Undecided("operator-arm/"+opName, "cannot find the value computed by the "+opName+" arm")
			continue
		}
		vl, ok := ctx.CondLit(val)
		if !ok {
			ob.Undecided("operator-arm/"+opName, "opaque expression in the "+opName+" arm")
			continue
		}
		seen[opName] = true
		ob.Site(val.Pos(), "operator "+opName+" ⇒ "+vl.String())
		stored := "$1"
		okArm := false
		switch opName {
		case "EQUAL", "NOT_EQUAL":
			if vl.Kind == "eq" && (vl.A == stored || vl.B == stored) && (strings.Contains(vl.A+vl.B, "GetValue(") || strings.Contains(vl.A+vl.B, ".Value")) {
				okArm = vl.Neg == (opName == "NOT_EQUAL")
			}
		case "GREATER", "LESS":
			if vl.Kind == "int" && strings.HasPrefix(vl.Terms, "bytes.Compare(") {
				args := strings.TrimSuffix(strings.TrimPrefix(vl.Terms, "bytes.Compare("), ")")
				lo, hi := vl.Lo, vl.Hi
				if vl.IsNE {
					break
				}
				if lo < -1 {
					lo = -1
				}
				if hi > 1 {
					hi = 1
				}
				if !strings.HasPrefix(args, stored+",") {
					// operands the other way round: Compare(given, stored) ⋈ k ⇔ Compare(stored, given) ⋈' -k
					if strings.HasSuffix(args, ","+stored) {
						lo, hi = -hi, -lo
					} else {
						break
					}
				}
				want := int64(1)
				if opName == "LESS" {
					want = -1
				}
				okArm = lo == want && hi == want
			}
		}
		if !okArm {
			ob.Violate("operator/"+opName, val.Pos(), "operator "+opName+" is evaluated as `"+vl.String()+"` (stored value is "+stored+"): wrong relation or operands the wrong way round")
		}
	}
	for _, n := range []string{"EQUAL", "NOT_EQUAL", "GREATER", "LESS"} {
		if !seen[n] {
			ob.Violate("operator-missing/"+n, fn.Pos(), "the operator table has no case for "+n)
		}
	}
	// what decides whether a predicate is evaluated at all: only its target kind and the presence
	// of a compare value - never the content of that value (a predicate against the empty value is
	// a predicate)
	for _, b := range fn.Blocks {
		iff, ok := b.Instrs[len(b.Instrs)-1].(*ssa.If)
		if !ok {
			continue
		}
		l, ok := ctx.CondLit(iff.Cond)
		if !ok || l.Kind != "int" || l.IsNE || l.Lo != l.Hi || !strings.HasSuffix(l.Terms, ".Result") {
			continue
		}
		for d := b.Idom(); d != nil; d = d.Idom() {
			dif, ok := d.Instrs[len(d.Instrs)-1].(*ssa.If)
			if !ok {
				continue
			}
			dl, ok := ctx.CondLit(dif.Cond)
			if !ok {
				ob.Violate("predicate-gate", dif.Cond.Pos(), "whether a predicate is evaluated depends on an opaque condition")
				continue
			}
			switch {
			case dl.Kind == "int" && (strings.HasSuffix(dl.Terms, ".Target") || strings.HasSuffix(dl.Terms, ".Result")):
			case dl.Kind == "eq" && dl.B == "nil" && strings.HasSuffix(dl.A, ".TargetUnion"):
			default:
				ob.Violate("predicate-gate", dif.Cond.Pos(), "whether a value predicate is evaluated depends on `"+dl.String()+"`: for the inputs that fail it the predicate counts as satisfied")
			}
		}
		break
	}
}

func c02Responses(w *World, r *Report, a *FsmA) {
	ob := r.Ob("C02.d", "d-one-response-per-op", "in every loop that builds transaction responses (or the read-only operation list) each iteration that handles an operation appends exactly one element: no second append is reachable within the iteration and no operation arm returns to the loop head without an append", "otherwise the n-th response no longer belongs to the n-th operation")
	check := func(fn *ssa.Function, armOnly bool) {
		var appends []ssa.Instruction
		eachInstr(fn, func(in ssa.Instruction) {
			if c := plainCall(in); c != nil && CalleeName(c) == "builtin.append" && inCycle(in.Block()) {
				if s, ok := c.Args[0].Type().Underlying().(*types.Slice); ok && (typeIs(s.Elem(), pbPkg, "ResponseOp") || typeIs(s.Elem(), pbPkg, "RequestOp_Range")) {
					appends = append(appends, in)
				}
			}
		})
		isAppend := func(in ssa.Instruction) bool {
			for _, x := range appends {
				if x == in {
					return true
				}
			}
			return false
		}
		for _, ap := range appends {
			scc := sccOf(ap.Block())
			h := loopHeader(scc)
			if h == nil {
				ob.Undecided("loop-shape@"+FnName(fn), "irreducible loop around an append")
				continue
			}
			ob.Site(ap.Pos(), "append in loop of "+FnName(fn))
			inLoopNotHeader := func(b *ssa.BasicBlock, k int) bool { return scc[b.Succs[k]] && b.Succs[k] != h }
			if p := (&Walk{Target: isAppend, EdgeOK: inLoopNotHeader}).Find(after(ap)); p != nil {
				ob.Violate("second-append@"+FnName(fn), instrPos(p.Hit), "two responses can be appended for one operation", w.PathString(p)...)
			}
		}
		// arms: from each type-assert true edge (or, without arms, from the loop body) the loop head is not reachable without an append
		if armOnly {
			eachInstr(fn, func(in ssa.Instruction) {
				iff, ok := in.(*ssa.If)
				if !ok {
					return
				}
				ex, ok := iff.Cond.(*ssa.Extract)
				if !ok {
					return
				}
				if _, ok := ex.Tuple.(*ssa.TypeAssert); !ok || !inCycle(iff.Block()) {
					return
				}
				scc := sccOf(iff.Block())
				h := loopHeader(scc)
				if h == nil {
					return
				}
				arm := iff.Block().Succs[0]
				ob.Site(iff.Cond.Pos(), "operation arm "+(&ExprCtx{}).Expr(iff.Cond)+" in "+FnName(fn))
				p := (&Walk{Barrier: isAppend, Target: func(x ssa.Instruction) bool { return x.Block() == h }, EdgeOK: func(b *ssa.BasicBlock, k int) bool { return scc[b.Succs[k]] }}).Find(Loc{arm, 0})
				if p != nil {
					ob.Violate("arm-without-append@"+FnName(fn), iff.Cond.Pos(), "an operation arm can finish its iteration without appending a response: later responses shift by one", w.PathString(p)...)
				}
			})
		} else {
			for _, ap := range appends {
				scc := sccOf(ap.Block())
				h := loopHeader(scc)
				if h == nil {
					continue
				}
				// a full iteration without the append
				for _, s := range h.Succs {
					if !scc[s] {
						continue
					}
					p := (&Walk{Barrier: isAppend, Target: func(x ssa.Instruction) bool { return x.Block() == h }, EdgeOK: func(b *ssa.BasicBlock, k int) bool { return scc[b.Succs[k]] }}).Find(Loc{s, 0})
					if p != nil {
						ob.Violate("iteration-without-append@"+FnName(fn), ap.Pos(), "an iteration of the loop can skip its append: an operation gets no response", w.PathString(p)...)
					}
				}
			}
		}
	}
	if ops := w.Func(fsmRel, "handleTxnOps"); ops != nil {
		check(ops, true)
	} else {
		ob.Undecided("anchor@handleTxnOps", "transaction operation loop not found")
	}
	check(a.ROTxn(), false)
	ob.NeedFloor(6)
}

func c02OneSnapshot(w *World, r *Report, a *FsmA, id, slug string) {
	ob := r.Ob(id, slug, "in the read-only transaction arm of Lookup every pebble.Reader handed to the compare helper and to the range reads is the same NewSnapshot() result", "predicates and reads on different views are not atomic")
	ro := a.ROTxn()
	var arm *ssa.BasicBlock
	ctx := &ExprCtx{}
	if ro != a.Lookup {
		arm = ro.Blocks[0] // the arm hands the transaction to a helper: the helper is the arm
	} else {
		for _, b := range ro.Blocks {
			for k := range b.Succs {
				for _, l := range ctx.EdgeLits(b, k) {
					if l.Kind == "eq" && !l.Neg && strings.HasPrefix(l.A, "dyn(") && l.B == "*regattapb.TxnRequest" {
						arm = b.Succs[k]
					}
				}
			}
		}
	}
	if arm == nil {
		ob.Undecided("arm", "no *regattapb.TxnRequest arm in Lookup")
		return
	}
	var views []ssa.Value
	for _, b := range ro.Blocks {
		if !arm.Dominates(b) {
			continue
		}
		for _, in := range b.Instrs {
			if mi, ok := in.(*ssa.MakeInterface); ok && typeIs(mi.Type(), pebblePath, "Reader") {
				views = append(views, mi.X)
				ob.Site(arm.Instrs[0].Pos(), "reader "+Expr(mi.X)+" in the read-only transaction arm")
			}
		}
	}
	if len(views) < 2 {
		ob.Undecided("shape", "expected a reader for the predicates and one for the operations in the read-only arm")
		return
	}
	for _, v := range views {
		if v != views[0] {
			ob.Violate("two-views", arm.Instrs[0].Pos(), "the read-only transaction reads `"+Expr(views[0])+"` and `"+Expr(v)+"`: predicates and operations do not see one state")
		}
		if call, ok := v.(*ssa.Call); !ok || !strings.HasSuffix(CalleeName(&call.Call), ".DB).NewSnapshot") {
			ob.Violate("not-a-snapshot", arm.Instrs[0].Pos(), "the read-only transaction reads `"+Expr(v)+"`, not a snapshot: concurrent writes tear it")
		}
	}
	ob.NeedFloor(2)
}

func c02Readonly(w *World, r *Report, a *FsmA, id, slug string) {
	ob := r.Ob(id, slug, "IsReadonly: from every edge on which an operation is not a range read only `return false` is reachable, and both lists are inspected; the table layer takes the read path, and the forwarding server answers locally, only on the IsReadonly()==true edge", "a transaction with a write classified read-only is executed by the read path: its writes are silently dropped")
	isro := w.Func("regattapb", "TxnRequest.IsReadonly")
	if isro == nil {
		ob.Undecided("anchor", "regattapb.TxnRequest.IsReadonly not found")
		return
	}
	ctx := &ExprCtx{}
	lists := map[string]bool{}
	for _, b := range isro.Blocks {
		iff, ok := b.Instrs[len(b.Instrs)-1].(*ssa.If)
		if !ok {
			continue
		}
		l, ok := ctx.CondLit(iff.Cond)
		if !ok || l.Kind != "eq" || !strings.HasPrefix(l.A, "dyn(") {
			continue
		}
		ob.Site(iff.Cond.Pos(), "IsReadonly test "+l.String())
		if l.B != "*regattapb.RequestOp_RequestRange" {
			ob.Violate("readonly-wrong-arm", iff.Cond.Pos(), "IsReadonly tests for "+l.B+", not for the range operation")
			continue
		}
		for _, f := range []string{"Success", "Failure"} {
			if strings.Contains(l.A, "$0."+f+"[") {
				lists[f] = true
			}
		}
		fail := 1
		if l.Neg {
			fail = 0
		}
		for _, in := range (&Walk{}).ReachableInstrs(Loc{b.Succs[fail], 0}) {
			if ret, ok := in.(*ssa.Return); ok && !isConstBool(retVal(ret, 0), false) {
				ob.Violate("readonly-true-after-write-op", ret.Pos(), "IsReadonly can return `"+Expr(retVal(ret, 0))+"` although an operation is not a range read")
			}
		}
	}
	for _, f := range []string{"Success", "Failure"} {
		if !lists[f] {
			ob.Violate("readonly-list-ignored/"+f, isro.Pos(), "IsReadonly does not inspect the "+f+" list")
		}
	}
	// consumers
	type site struct{ rel, fn, what string }
	for _, s := range []site{{"storage/table", "ActiveTable.Txn", "read"}, {"regattaserver", "ForwardingKVServer.Txn", "local"}} {
		fn := w.Func(s.rel, s.fn)
		if fn == nil {
			ob.Undecided("anchor@"+s.fn, s.fn+" not found")
			continue
		}
		isSink := func(in ssa.Instruction) bool {
			c := plainCall(in)
			if c == nil {
				return false
			}
			if s.what == "read" {
				cal := StaticCallee(c)
				return cal != nil && cal.Origin() != nil && cal.Origin().Name() == "readTable" || (cal != nil && strings.HasPrefix(cal.Name(), "readTable"))
			}
			return CalleeName(c) == "(*"+modPath+"/regattaserver.KVServer).Txn"
		}
		n := 0
		eachInstr(fn, func(in ssa.Instruction) {
			if isSink(in) {
				n++
				ob.Site(in.Pos(), "read-only service of a transaction in "+s.fn)
			}
		})
		if n == 0 {
			ob.Undecided("shape@"+s.fn, "no read-path call found in "+s.fn)
			continue
		}
		wk := &Walk{Target: isSink, EdgeOK: func(b *ssa.BasicBlock, k int) bool {
			for _, l := range ctx.EdgeLits(b, k) {
				if l.Kind == "bool" && !l.Neg && strings.Contains(l.A, ".IsReadonly(") {
					return false
				}
			}
			return true
		}}
		if p := wk.Find(entry(fn)); p != nil {
			ob.Violate("served-readonly-unguarded@"+s.fn, instrPos(p.Hit), s.fn+" can serve a transaction through the read path without IsReadonly() having returned true", w.PathString(p)...)
		}
	}
	ob.NeedFloor(4)
}
