package main

// C03 — replicas converge: state depends only on the log, not on batching.

import (
	"go/token"
	"go/types"
	"strconv"
	"strings"

	"golang.org/x/tools/go/ssa"
)

func init() {
	register("C03", "replicas converge; state independent of batching", checkC03)
}

func checkC03(w *World, r *Report) {
	r.Decides = "C03 is decided in its structural part only: (a) no value written to the apply batch, to the entry results or returned by a command handler derives from the wall clock, randomness, the environment, host identity or a per-replica field, and no map iteration or goroutine feeds those sinks; (b) every field of the apply context that is written per entry and read by the commit after the loop is either assigned on every entry from a non-optional source or assigned from an optional source only when that source is present (so the commit does not depend on where the batch was cut); (c) every command result carries the entry's own index as revision; (d) switching the batch to an indexed one loses nothing; (e) both snapshot formats carry bookkeeping keys together with the data (SST: unfiltered iterator over the prepared snapshot, every pair written; checkpoint: flush before checkpoint, every listed file written); (f) Update applies every entry of an apply call: the loop visits entries[0..len-1] one by one, every iteration crosses the command step, and the loop is never left with success from inside an iteration; (g) a snapshot is recovered in the format its own header names, whatever format this replica is configured to produce (C08.a). (h) no local of the entry loop carried from one entry to the next reaches a write or a reported result; (i) every command is decoded into a fresh or fully reset message; (j) only plain write operations reach the batch."
	r.NotDecided = []string{"equality of two replicas' content (needs Pebble determinism)", "restart and snapshot interleavings beyond the orderings of C04/C08"}
	r.Assume = []string{"metrics and logging are not replicated state", "the log entries themselves are identical on all replicas (Raft)"}
	a := w.FsmAnchors()
	if len(a.Problems) > 0 || a.Update == nil {
		ob := r.Ob("C03.anchors", "anchors", "roles of the table state machine resolve", "")
		ob.Undecided("anchors", strings.Join(a.Problems, "; "))
		return
	}
	c03Determinism(w, r, a)
	c03Carry(w, r, a, "C03.b", "b-no-carry-across-entries")
	c03Revision(w, r, a, "C03.c", "c-result-revision")
	c01ReadOwnBatch(w, r, a, "C03.d", "d-indexed-switch")
	c03Snapshots(w, r, a, "C03.e", "e-snapshots-carry-bookkeeping")
	applyLoopComplete(w, r, a, "C03.f", "f-every-entry-applied")
	c08Dispatch(w, r, a, "C03.g", "g-snapshot-format-from-stream")
	c03NoCarriedLocals(w, r, a, "C03.h", "h-no-local-carried-across-entries")
	c01FreshDecode(w, r, a, "C03.i", "i-fresh-decode-target")
	c01WriteKinds(w, r, a, "C03.j", "j-plain-write-operations")
}

func c03Determinism(w *World, r *Report, a *FsmA) {
	ob := r.Ob("C03.a", "a-replicated-determinism", "forward taint from forbidden sources (time.Now/Since, math/rand, crypto/rand, os.Getenv/Hostname/Getpid, per-replica FSM fields nodeID/dirname) and ordering constructs (range over a map, go statements) in the module functions reachable from Update must not reach a Pebble batch write, a store into sm.Result / CommandResult / ResponseOp messages, or a handler's return value", "a replica-dependent value in replicated state makes replicas diverge")
	scope := a.applyReach()
	t := NewTaint(w, scope)
	nsrc := 0
	for _, fn := range sortedFuncs(scope) {
		if isGenerated(fn) {
			continue
		}
		eachInstr(fn, func(in ssa.Instruction) {
			if c, ok := in.(*ssa.Call); ok {
				if s := forbiddenSource(&c.Call); s != "" {
					nsrc++
					ob.Site(in.Pos(), "source ("+s+") "+CalleeName(&c.Call)+" in "+FnName(fn))
					if _, isTuple := c.Type().(*types.Tuple); isTuple && c.Referrers() != nil {
						for _, rr := range *c.Referrers() {
							if ex, ok := rr.(*ssa.Extract); ok {
								t.Mark(ex, s+" ("+CalleeName(&c.Call)+")")
							}
						}
					} else {
						t.Mark(c, s+" ("+CalleeName(&c.Call)+")")
					}
				}
			}
			// per-replica fields of the state machine
			if fa, ok := in.(*ssa.FieldAddr); ok && types.Identical(deref(fa.X.Type()), a.FSM) {
				switch fieldAddrName(fa) {
				case "nodeID", "dirname":
					if fa.Referrers() != nil {
						for _, rr := range *fa.Referrers() {
							if u, ok := rr.(*ssa.UnOp); ok {
								t.Mark(u, "per-replica field "+fieldAddrName(fa))
							}
						}
					}
				}
			}
		})
	}
	handlerSet := map[*ssa.Function]bool{}
	for _, h := range a.Handlers {
		handlerSet[h] = true
	}
	t.IsSink = func(in ssa.Instruction, v ssa.Value) string {
		if c := callOf(in); c != nil {
			n := CalleeName(c)
			if batchWrites[n] || dbWrites[n] {
				return "argument of " + shortName(n)
			}
		}
		if st, ok := in.(*ssa.Store); ok && st.Val == v {
			if fa, ok := st.Addr.(*ssa.FieldAddr); ok {
				bt := deref(fa.X.Type())
				if typeIs(bt, smPath, "Result") || typeIs(bt, pbPkg, "CommandResult") || typeIs(bt, pbPkg, "ResponseOp_Put") || typeIs(bt, pbPkg, "ResponseOp_DeleteRange") || typeIs(bt, pbPkg, "ResponseOp_Range") || typeIs(bt, pbPkg, "KeyValue") {
					return "store to " + typeString(bt) + "." + fieldAddrName(fa)
				}
			}
		}
		if ret, ok := in.(*ssa.Return); ok && handlerSet[ret.Parent()] {
			return "return value of handler " + FnName(ret.Parent())
		}
		return ""
	}
	t.Run()
	seen := map[string]bool{}
	for _, h := range t.Hits {
		k := "nondeterministic-value@" + FnName(h.At.Parent())
		if seen[k+h.Sink] {
			continue
		}
		seen[k+h.Sink] = true
		ob.Violate(k, instrPos(h.At), "a value derived from "+h.Reason+" reaches replicated state ("+h.Sink+")")
	}
	// ordering constructs
	for _, fn := range sortedFuncs(scope) {
		if isGenerated(fn) || !isFsmFunc(fn) {
			continue
		}
		eachInstr(fn, func(in ssa.Instruction) {
			switch x := in.(type) {
			case *ssa.Range:
				if _, ok := x.X.Type().Underlying().(*types.Map); ok {
					ob.Site(in.Pos(), "range over a map in "+FnName(fn))
					scc := sccOf(in.Block())
					// the loop of this range: blocks that can reach a Next on this iterator
					hasSink := false
					for b := range sccOfRange(x) {
						for _, i2 := range b.Instrs {
							if c := callOf(i2); c != nil && (batchWrites[CalleeName(c)] || CalleeName(c) == "builtin.append") {
								hasSink = true
							}
						}
					}
					_ = scc
					if hasSink {
						ob.Violate("map-order@"+FnName(fn), in.Pos(), "iteration over a map (random order) feeds batch writes or results in the apply path")
					}
				}
			case *ssa.Go:
				ob.Site(in.Pos(), "go statement in "+FnName(fn))
				ob.Violate("goroutine@"+FnName(fn), in.Pos(), "the apply path starts a goroutine: the order of its effects depends on the scheduler")
			case *ssa.Select:
				if len(x.States) > 1 || (len(x.States) == 1 && !x.Blocking) {
					ob.Site(in.Pos(), "select in "+FnName(fn))
					ob.Violate("select@"+FnName(fn), in.Pos(), "the apply path takes a scheduling-dependent branch (select)")
				}
			}
		})
	}
	ob.SiteS("apply path: " + itoa(len(scope)) + " module functions examined, " + itoa(nsrc) + " forbidden-source calls")
	r.Info["C03.a_functions_in_apply_path"] = len(scope)
	ob.NeedFloor(1)
}

func itoa(i int) string { return strconv.Itoa(i) }

// sccOfRange: the loop blocks of a range statement (cycle through the block of its Next).
func sccOfRange(rg *ssa.Range) map[*ssa.BasicBlock]bool {
	if rg.Referrers() == nil {
		return nil
	}
	for _, r := range *rg.Referrers() {
		if nx, ok := r.(*ssa.Next); ok {
			return sccOf(nx.Block())
		}
	}
	return nil
}

// c03Carry — C03.b (also C05.c): per-entry context fields read by the commit after the loop.
func c03Carry(w *World, r *Report, a *FsmA, id, slug string) {
	ob := r.Ob(id, slug, "if the commit is not crossed inside every iteration of Update's loop, each apply-context field stored in the per-entry path (parse step, handlers) and read by the commit function must be total (stored on every path through the parse step from a non-pointer source) or presence-guarded (a store from an optional, pointer-typed source is reachable only over an edge establishing source != nil)", "otherwise what the commit persists depends on which entry happens to be last in the apply batch: replicas that batch differently diverge (leader index lost when the last entry carries none)")
	// commit inside the loop?
	isCommitCall := func(in ssa.Instruction) bool {
		c := plainCall(in)
		return c != nil && StaticCallee(c) == a.CommitFn
	}
	commitInLoop := false
	eachInstr(a.Update, func(in ssa.Instruction) {
		if isCommitCall(in) && inCycle(in.Block()) {
			commitInLoop = true
		}
	})
	// fields read in commit
	read := map[string]bool{}
	eachInstr(a.CommitFn, func(in ssa.Instruction) {
		if fa, ok := in.(*ssa.FieldAddr); ok && types.Identical(deref(fa.X.Type()), a.Ctx) && fa.Referrers() != nil {
			for _, rr := range *fa.Referrers() {
				if u, ok := rr.(*ssa.UnOp); ok && u.X == ssa.Value(fa) {
					read[fieldAddrName(fa)] = true
				}
			}
		}
	})
	// also fields read by Update after the loop (appliedFunc argument)
	perEntry := w.Reach(append([]*ssa.Function{a.ParseFn}, a.Handlers...), isGenerated)
	nf := 0
	for _, fn := range sortedFuncs(perEntry) {
		if fn == a.Indexed || fn == a.CommitFn {
			continue
		}
		eachInstr(fn, func(in ssa.Instruction) {
			st, ok := in.(*ssa.Store)
			if !ok {
				return
			}
			fa, ok := st.Addr.(*ssa.FieldAddr)
			if !ok || !types.Identical(deref(fa.X.Type()), a.Ctx) {
				return
			}
			fld := fieldAddrName(fa)
			if !read[fld] {
				return
			}
			nf++
			ob.Site(in.Pos(), "per-entry store to context."+fld+" in "+FnName(fn)+" from "+Expr(st.Val))
			if commitInLoop {
				return
			}
			_, optional := st.Val.Type().Underlying().(*types.Pointer)
			if optional {
				want := LNotNil(Expr(st.Val))
				ctx := &ExprCtx{}
				wk := &Walk{Target: func(x ssa.Instruction) bool { return x == in }, EdgeOK: func(b *ssa.BasicBlock, k int) bool {
					for _, l := range ctx.EdgeLits(b, k) {
						if l.Implies(want) {
							return false
						}
					}
					return true
				}}
				if p := wk.Find(entry(fn)); p != nil {
					ob.Violate("carry-field-unguarded/"+fld+"@"+FnName(fn), in.Pos(), "context."+fld+" is overwritten from the optional `"+Expr(st.Val)+"` without testing that it is present, but it is persisted once per apply batch: an entry without it erases the value of an earlier entry of the same batch", w.PathString(p)...)
				}
				// presence is the only condition: once the source is known to be present every way
				// to a success return of the step takes it over. A further condition - on the value
				// already held, say - makes the result depend on which entries share an apply call,
				// because the context does not outlive the call.
				for _, b := range fn.Blocks {
					for k := range b.Succs {
						for _, l := range ctx.EdgeLits(b, k) {
							if !l.Implies(want) {
								continue
							}
							isThis := func(x ssa.Instruction) bool {
								s2, ok := x.(*ssa.Store)
								if !ok {
									return false
								}
								f2, ok := s2.Addr.(*ssa.FieldAddr)
								return ok && types.Identical(deref(f2.X.Type()), a.Ctx) && fieldAddrName(f2) == fld
							}
							if p := (&Walk{Barrier: isThis, Target: isSuccessReturn}).Find(Loc{b.Succs[k], 0}); p != nil {
								ob.Violate("carry-field-conditional/"+fld+"@"+FnName(fn), in.Pos(), "context."+fld+" is not always taken from an entry that carries it: whether it is depends on more than its presence (e.g. on the value seen earlier in the same apply call), so replicas that group the entries differently record different values", w.PathString(p)...)
							}
						}
					}
				}
			} else {
				// total: every success path of fn crosses a store to this field
				isStore := func(x ssa.Instruction) bool {
					s2, ok := x.(*ssa.Store)
					if !ok {
						return false
					}
					f2, ok := s2.Addr.(*ssa.FieldAddr)
					return ok && types.Identical(deref(f2.X.Type()), a.Ctx) && fieldAddrName(f2) == fld
				}
				if p := (&Walk{Barrier: isStore, Target: isSuccessReturn}).Find(entry(fn)); p != nil {
					ob.Violate("carry-field-partial/"+fld+"@"+FnName(fn), in.Pos(), "context."+fld+" is not assigned on every path of the per-entry step although the commit reads it after the loop", w.PathString(p)...)
				}
			}
		})
	}
	if commitInLoop {
		ob.SiteS("the commit is crossed inside the loop: nothing is carried across entries")
	}
	ob.NeedFloor(2)
}

// c03Revision — C03.c (also C10.a): every CommandResult literal of the apply path has Revision = context index.
func c03Revision(w *World, r *Report, a *FsmA, id, slug string) {
	ob := r.Ob(id, slug, "every regattapb.CommandResult built in the apply path stores Revision from the apply context's index field (the index of the entry being applied)", "otherwise the revision reported for a command is not its position in the log")
	idx := a.ctxIndexField()
	for _, fn := range sortedFuncs(a.applyReach()) {
		if isGenerated(fn) {
			continue
		}
		eachInstr(fn, func(in ssa.Instruction) {
			al, ok := in.(*ssa.Alloc)
			if !ok || !typeIs(al.Type(), pbPkg, "CommandResult") {
				return
			}
			sts := storesToField(fn, al, "Revision")
			ob.Site(al.Pos(), "CommandResult literal in "+FnName(fn))
			if len(sts) == 0 {
				ob.Violate("revision-missing@"+FnName(fn), al.Pos(), "a CommandResult is built without Revision")
				return
			}
			for _, st := range sts {
				if !a.isCtxFieldLoad(st.Val, idx) {
					ob.Violate("revision-source@"+FnName(fn), st.Pos(), "Revision is set from `"+Expr(st.Val)+"`, not from the index of the entry being applied")
				}
			}
		})
	}
	ob.NeedFloor(7)
}

func c03Snapshots(w *World, r *Report, a *FsmA, id, slug string) {
	ob := r.Ob(id, slug, "SST format: the saving iterator is opened with nil options on the snapshot passed in, and every pair it yields reaches the SST writer's Set before the iterator is advanced; checkpoint format: Flush precedes Checkpoint on the same DB, and every listed file gets its tar header (regular files their content) before the next one", "a snapshot that filters or skips keys loses the applied/leader index or data: a replica recovered from it differs from one that applied the log")
	// recoverer implementers
	sp := w.SSAPkg(fsmRel)
	var saves, prepares []*ssa.Function
	if it, ok := sp.Pkg.Scope().Lookup("snapshotRecoverer").Type().Underlying().(*types.Interface); ok {
		for _, t := range w.Implementers(it) {
			if f := w.MethodOf(t, "save"); f != nil {
				saves = append(saves, f)
			}
			if f := w.MethodOf(t, "prepare"); f != nil {
				prepares = append(prepares, f)
			}
		}
	}
	if len(saves) < 2 {
		ob.Undecided("anchor", "expected two snapshot recoverers")
		return
	}
	for _, fn := range saves {
		nis := callsIn(fn, false, pebbleNewIter...)
		if len(nis) > 0 {
			// SST format
			for _, ni := range nis {
				args := ni.Common().Args
				opt := args[len(args)-1]
				ob.Site(ni.Pos(), "saving iterator in "+FnName(fn)+" on "+Expr(args[0])+" options "+Expr(opt))
				if !isNilConst(opt) {
					ob.Violate("save-iterator-filtered@"+FnName(fn), ni.Pos(), "the snapshot saver opens its iterator with options `"+Expr(opt)+"`: bounds or filters drop keys (bookkeeping keys sort above all user keys)")
				}
				if !strings.Contains(Expr(args[0]), "$1.(") {
					ob.Violate("save-iterator-source@"+FnName(fn), ni.Pos(), "the snapshot saver iterates `"+Expr(args[0])+"`, not the view prepared for this snapshot")
				}
			}
			isSet := func(in ssa.Instruction) bool {
				c := plainCall(in)
				if c == nil || !strings.HasSuffix(CalleeName(c), "sstable.Writer).Set") {
					return false
				}
				return strings.Contains(Expr(c.Args[1]), ".Iterator).Key(") && strings.Contains(Expr(c.Args[2]), ".Iterator).Value(")
			}
			nset := 0
			eachInstr(fn, func(in ssa.Instruction) {
				if isSet(in) {
					nset++
					ob.Site(in.Pos(), "SST writer Set(iter.Key(), iter.Value())")
				}
			})
			if nset == 0 {
				ob.Violate("save-no-set@"+FnName(fn), fn.Pos(), "the SST saver never writes the iterator's current pair")
			}
			// from the Valid()==true edge, Next is not reachable without Set
			ctx := &ExprCtx{}
			for _, b := range fn.Blocks {
				for k := range b.Succs {
					for _, l := range ctx.EdgeLits(b, k) {
						if l.Kind == "bool" && !l.Neg && strings.Contains(l.A, ".Iterator).Valid(") {
							isNext := func(in ssa.Instruction) bool {
								return isCallTo(in, "(*"+pebblePath+".Iterator).Next", "(*"+pebblePath+".Iterator).First")
							}
							if p := (&Walk{Barrier: isSet, Target: isNext}).Find(Loc{b.Succs[k], 0}); p != nil {
								ob.Violate("save-skips-pair@"+FnName(fn), instrPos(p.Hit), "the SST saver can advance past a pair without writing it", w.PathString(p)...)
							}
						}
					}
				}
			}
		} else {
			// checkpoint format: every listed file is written
			isHdr := func(in ssa.Instruction) bool { return isCallTo(in, "(*archive/tar.Writer).WriteHeader") }
			isCopy := func(in ssa.Instruction) bool {
				c := plainCall(in)
				return c != nil && CalleeName(c) == "io.Copy" && strings.Contains(Expr(c.Args[0]), "tar.NewWriter")
			}
			var hdr ssa.Instruction
			eachInstr(fn, func(in ssa.Instruction) {
				if isHdr(in) {
					hdr = in
				}
			})
			if hdr == nil {
				ob.Undecided("checkpoint-save-shape@"+FnName(fn), "no tar header write in the checkpoint saver")
				continue
			}
			ob.Site(hdr.Pos(), "tar WriteHeader in "+FnName(fn))
			scc := sccOf(hdr.Block())
			h := loopHeader(scc)
			if h == nil {
				ob.Violate("checkpoint-save-no-loop@"+FnName(fn), hdr.Pos(), "the tar header is not written inside the loop over the listed files")
				continue
			}
			for _, s := range h.Succs {
				if !scc[s] {
					continue
				}
				if p := (&Walk{Barrier: isHdr, Target: func(x ssa.Instruction) bool { return x.Block() == h }, EdgeOK: func(b *ssa.BasicBlock, k int) bool { return scc[b.Succs[k]] }}).Find(Loc{s, 0}); p != nil {
					ob.Violate("checkpoint-file-skipped@"+FnName(fn), hdr.Pos(), "a listed checkpoint file can be skipped without being written to the archive", w.PathString(p)...)
				}
			}
			// regular files: content copied
			ctx := &ExprCtx{}
			ncopy := 0
			for _, b := range fn.Blocks {
				for k := range b.Succs {
					for _, l := range ctx.EdgeLits(b, k) {
						if l.Kind == "bool" && l.Neg && strings.Contains(l.A, "IsDir(") {
							ncopy++
							ob.Site(blockPos(b.Succs[k]), "regular-file edge in "+FnName(fn))
							if p := (&Walk{Barrier: isCopy, Target: func(x ssa.Instruction) bool { return x.Block() == h }, EdgeOK: func(bb *ssa.BasicBlock, kk int) bool { return scc[bb.Succs[kk]] }}).Find(Loc{b.Succs[k], 0}); p != nil {
								ob.Violate("checkpoint-content-skipped@"+FnName(fn), blockPos(b.Succs[k]), "the content of a regular checkpoint file can be left out of the archive", w.PathString(p)...)
							}
						}
					}
				}
			}
			if ncopy == 0 {
				ob.Violate("checkpoint-no-content@"+FnName(fn), hdr.Pos(), "the checkpoint saver has no regular-file branch that copies content")
			}
		}
	}
	// the view is pinned by prepare, save only reads what was prepared
	isPin := func(in ssa.Instruction) bool {
		return isCallTo(in, "(*"+pebblePath+".DB).NewSnapshot", "(*"+pebblePath+".DB).Checkpoint")
	}
	for _, fn := range prepares {
		ob.Site(fn.Pos(), "prepare "+FnName(fn))
		if p := (&Walk{Barrier: isPin, Target: isSuccessReturn}).Find(entry(fn)); p != nil {
			ob.Violate("prepare-does-not-pin@"+FnName(fn), fn.Pos(), "prepare can return without pinning a view (NewSnapshot / Checkpoint): the image is taken when it is saved, after further writes, and no longer matches the index dragonboat records for it", w.PathString(p)...)
		}
	}
	for _, fn := range saves {
		for _, f := range withClosures(fn) {
			eachInstr(f, func(in ssa.Instruction) {
				c := callOf(in)
				if c == nil {
					return
				}
				n := CalleeName(c)
				if isPin(in) || n == "(*"+pebblePath+".DB).NewIter" || n == "(*"+pebblePath+".DB).Flush" || (strings.HasSuffix(n, ".Load") && strings.Contains(Expr(c.Args[0]), ".pebble")) {
					ob.Violate("save-reads-live-db@"+FnName(fn), in.Pos(), "the snapshot saver touches the live DB ("+shortName(n)+") instead of the prepared view")
				}
			})
		}
	}
	// the SST saver sends the last (partly filled) table: from the loop's exit every success return
	// crosses a length-delimited write (the sstable writer buffers a block before anything reaches
	// the memory file, so "nothing in the file" does not mean "nothing left")
	for _, fn := range saves {
		var wl []ssa.Instruction
		eachInstr(fn, func(in ssa.Instruction) {
			if c := plainCall(in); c != nil && StaticCallee(c) != nil && StaticCallee(c).Name() == "writeLenDelimited" {
				wl = append(wl, in)
			}
		})
		if len(wl) == 0 {
			continue
		}
		var outside []ssa.Instruction
		for _, x := range wl {
			if !inCycle(x.Block()) {
				outside = append(outside, x)
			}
		}
		if len(outside) == 0 {
			ob.Violate("save-drops-tail@"+FnName(fn), fn.Pos(), "the SST saver writes tables only inside its loop: what was collected since the last full table is never sent")
			continue
		}
		isTail := func(x ssa.Instruction) bool { return containsInstr(outside, x) }
		for _, b := range fn.Blocks {
			if !inCycle(b) {
				continue
			}
			for _, sb := range b.Succs {
				if inCycle(sb) {
					continue
				}
				// an exit of the loop
				if p := (&Walk{Barrier: isTail, Target: isSuccessReturn}).Find(Loc{sb, 0}); p != nil {
					if ret, ok := p.Hit.(*ssa.Return); ok && !isErrorReturn(ret) && !strings.Contains(Expr(retVal(ret, 0)), "ErrSnapshotStopped") {
						ob.Violate("save-drops-tail@"+FnName(fn), instrPos(p.Hit), "the SST saver can finish successfully without sending the table it was still filling: the highest keys - always including the two index keys - are not transferred", w.PathString(p)...)
					}
				}
			}
		}
	}
	// a deferred clean-up of a saver / recoverer / prepare does not overwrite the result
	for _, fn := range append(append([]*ssa.Function{}, saves...), prepares...) {
		c03DeferOverwrites(w, ob, fn)
	}
	// prepare of the checkpoint format: Flush before Checkpoint on the same DB
	for _, fn := range prepares {
		cps := callsIn(fn, false, "(*"+pebblePath+".DB).Checkpoint")
		for _, cp := range cps {
			db := cp.Common().Args[0]
			ob.Site(cp.Pos(), "Checkpoint in "+FnName(fn))
			isFlush := func(in ssa.Instruction) bool {
				c := plainCall(in)
				return c != nil && CalleeName(c) == "(*"+pebblePath+".DB).Flush" && sameValue(c.Args[0], db)
			}
			if p := (&Walk{Barrier: isFlush, Target: func(x ssa.Instruction) bool { return x == ssa.Instruction(cp) }}).Find(entry(fn)); p != nil {
				ob.Violate("checkpoint-without-flush@"+FnName(fn), cp.Pos(), "the checkpoint is taken without flushing the same DB first: with the WAL disabled the memtable content is not in the checkpoint", w.PathString(p)...)
			}
		}
	}
	ob.NeedFloor(7)
}

// replicatedSink: the places where a value becomes replicated state or a reported result.
func replicatedSink(a *FsmA) func(in ssa.Instruction, v ssa.Value) string {
	handlerSet := map[*ssa.Function]bool{}
	for _, h := range a.Handlers {
		handlerSet[h] = true
	}
	return func(in ssa.Instruction, v ssa.Value) string {
		if c := callOf(in); c != nil {
			n := CalleeName(c)
			if batchWrites[n] || dbWrites[n] {
				return "argument of " + shortName(n)
			}
		}
		if st, ok := in.(*ssa.Store); ok && st.Val == v {
			if fa, ok := st.Addr.(*ssa.FieldAddr); ok {
				bt := deref(fa.X.Type())
				if typeIs(bt, smPath, "Result") || typeIs(bt, smPath, "Entry") || typeIs(bt, pbPkg, "CommandResult") || typeIs(bt, pbPkg, "ResponseOp_Put") || typeIs(bt, pbPkg, "ResponseOp_DeleteRange") || typeIs(bt, pbPkg, "ResponseOp_Range") {
					return "store to " + typeString(bt) + "." + fieldAddrName(fa)
				}
			}
		}
		if ret, ok := in.(*ssa.Return); ok && handlerSet[ret.Parent()] {
			return "return value of handler " + FnName(ret.Parent())
		}
		return ""
	}
}

// c03NoCarriedLocals: a local of Update that is carried from one entry of the apply call to the
// next (a loop-header phi other than the induction variable) reaches no batch write and no entry
// result. What an entry reports and writes then depends only on the entry and on the state, not on
// which entries happened to be applied in the same call before it.
func c03NoCarriedLocals(w *World, r *Report, a *FsmA, id, slug string) {
	ob := r.Ob(id, slug, "in the loops of the apply path over the entries of an apply call (Update and the functions it hands the entries to), no loop-carried local - a loop-header phi other than the induction variable - flows into a batch write, a stored entry result or a handler's return value (forward data flow through phis, conversions, struct construction and calls)", "dragonboat groups committed entries into apply calls differently on every replica and on replay: a result or write that depends on an earlier entry of the same call differs between replicas")
	t := NewTaint(w, a.applyReach())
	n := 0
	for _, fn := range sortedFuncs(a.applyReach()) {
		if !isFsmFunc(fn) || isGenerated(fn) {
			continue
		}
		for _, sl := range sliceLoops(fn) {
			// only loops over the entries of the apply call
			st, isSlice := sl.Slice.Type().Underlying().(*types.Slice)
			if !isSlice || !typeIs(st.Elem(), smPath, "Entry") {
				continue
			}
			n++
			for _, in := range sl.Head.Instrs {
				phi, ok := in.(*ssa.Phi)
				if !ok {
					break
				}
				if phi == sl.Counter || isInductionPhi(phi) {
					continue
				}
				ob.Site(phi.Pos(), "local carried across entries in "+FnName(fn)+": "+phi.Comment)
				t.Mark(phi, "a local ("+phi.Comment+") carried over from an earlier entry of the same apply call")
			}
		}
	}
	if n == 0 {
		ob.Undecided("shape", "no loop over the entries of an apply call found in the apply path")
		return
	}
	t.IsSink = replicatedSink(a)
	t.Run()
	seen := map[string]bool{}
	for _, h := range t.Hits {
		k := "carried-local@" + FnName(h.At.Parent())
		if seen[k+h.Sink] {
			continue
		}
		seen[k+h.Sink] = true
		ob.Violate(k, instrPos(h.At), h.Reason+" reaches "+h.Sink+": what this entry reports or writes depends on the entries applied before it in the same call")
	}
}

func isInductionPhi(phi *ssa.Phi) bool {
	for _, e := range phi.Edges {
		if bo, ok := e.(*ssa.BinOp); ok && (bo.Op == token.ADD || bo.Op == token.SUB) {
			if bo.X == ssa.Value(phi) || bo.Y == ssa.Value(phi) {
				if _, isC := bo.Y.(*ssa.Const); isC {
					return true
				}
				if _, isC := bo.X.(*ssa.Const); isC {
					return true
				}
			}
		}
	}
	return false
}

// c01FreshDecode: every command is decoded into a message that holds nothing of an earlier one.
func c01FreshDecode(w *World, r *Report, a *FsmA, id, slug string) {
	ob := r.Ob(id, slug, "every UnmarshalVT / UnmarshalVTUnsafe / proto.Unmarshal into a *regattapb.Command in the module decodes into a message allocated for this decode (a `new` of the same activation, not reused round a loop) or one that a full Reset() (the generated `*x = Command{}`) emptied on every way there; ResetVT and pooled messages are not accepted - they keep zero-length, non-nil slices, and a missing optional field then reads as present", "a single-key delete decoded into a recycled message keeps the previous command's (empty, non-nil) range_end and runs as a range delete; whether that happens depends on which entries share an apply call")
	isCmdPtr := func(t types.Type) bool {
		pt, ok := t.(*types.Pointer)
		return ok && typeIs(pt.Elem(), pbPkg, "Command")
	}
	root := func(v ssa.Value) ssa.Value {
		for d := 0; d < 6; d++ {
			switch x := v.(type) {
			case *ssa.MakeInterface:
				v = x.X
			case *ssa.ChangeInterface:
				v = x.X
			case *ssa.ChangeType:
				v = x.X
			default:
				return v
			}
		}
		return v
	}
	for _, fn := range w.ModFuncs() {
		if isGenerated(fn) || fn.Synthetic != "" {
			continue
		}
		eachInstr(fn, func(in ssa.Instruction) {
			c := callOf(in)
			if c == nil {
				return
			}
			n := CalleeName(c)
			var target ssa.Value
			switch {
			case strings.HasSuffix(n, ".Command).UnmarshalVT") || strings.HasSuffix(n, ".Command).UnmarshalVTUnsafe"):
				target = c.Args[0]
			case n == "google.golang.org/protobuf/proto.Unmarshal" && len(c.Args) == 2:
				target = root(c.Args[1])
			case c.IsInvoke() && (c.Method.Name() == "UnmarshalVT" || c.Method.Name() == "UnmarshalVTUnsafe"):
				target = root(c.Value)
			}
			if target == nil || !isCmdPtr(target.Type()) {
				return
			}
			ob.Site(in.Pos(), "command decoded into "+Expr(target)+" in "+FnName(fn))
			isReset := func(x ssa.Instruction) bool {
				cc := callOf(x)
				if cc == nil || len(cc.Args) == 0 {
					return false
				}
				if !strings.HasSuffix(CalleeName(cc), ".Command).Reset") {
					return false
				}
				return cc.Args[0] == target || sameValue(cc.Args[0], target)
			}
			isThis := func(x ssa.Instruction) bool { return x == in }
			if al, ok := target.(*ssa.Alloc); ok && al.Parent() == fn {
				// fresh, unless the decode sits in a loop the allocation is outside of
				h, body := loopOf(in.Block())
				if h == nil || body[al.Block()] {
					return
				}
				if p := (&Walk{Barrier: isReset, Target: isThis, EdgeOK: func(b *ssa.BasicBlock, k int) bool { return body[b.Succs[k]] }}).Find(after(in)); p != nil {
					ob.Violate("decode-into-used-message@"+FnName(fn), in.Pos(), "the loop decodes the next command into the message of the previous one without a full Reset() in between", w.PathString(p)...)
				}
				return
			}
			if p := (&Walk{Barrier: isReset, Target: isThis}).Find(entry(fn)); p != nil {
				ob.Violate("decode-into-used-message@"+FnName(fn), in.Pos(), "the command is decoded into `"+Expr(target)+"`, a message that is neither allocated for this decode nor emptied by a full Reset() on every way here (ResetVT and pooled messages keep zero-length slices: absent fields read as present)", w.PathString(p)...)
			}
		})
	}
	ob.NeedFloor(2)
}

// c03DeferOverwrites: a deferred closure stores into a named result of fn unconditionally (not
// behind a test of that result): whatever the body returned - an error, the stop signal - is replaced.
func c03DeferOverwrites(w *World, ob *Ob, fn *ssa.Function) {
	eachInstr(fn, func(in ssa.Instruction) {
		d, ok := in.(*ssa.Defer)
		if !ok {
			return
		}
		mc, ok := d.Call.Value.(*ssa.MakeClosure)
		if !ok {
			return
		}
		body, ok := mc.Fn.(*ssa.Function)
		if !ok {
			return
		}
		for i, fv := range body.FreeVars {
			al, ok := mc.Bindings[i].(*ssa.Alloc)
			if !ok || !isErrorType(deref(al.Type())) || !strings.HasPrefix(al.Comment, "") {
				continue
			}
			// is the captured variable a named result? (it is loaded by the returns of fn)
			named := false
			eachInstr(fn, func(x ssa.Instruction) {
				if ret, ok := x.(*ssa.Return); ok {
					for _, rv := range ret.Results {
						if u, ok := rv.(*ssa.UnOp); ok && u.X == ssa.Value(al) {
							named = true
						}
					}
				}
			})
			if !named {
				continue
			}
			isTest := func(b *ssa.BasicBlock, k int) bool {
				iff, ok := b.Instrs[len(b.Instrs)-1].(*ssa.If)
				if !ok {
					return false
				}
				return strings.Contains(Expr(iff.Cond), "^") && strings.Contains(Expr(iff.Cond), "nil")
			}
			eachInstr(body, func(x ssa.Instruction) {
				st, ok := x.(*ssa.Store)
				if !ok || st.Addr != ssa.Value(fv) {
					return
				}
				// reachable from the closure's entry without crossing a test of the result?
				wk := &Walk{Target: func(y ssa.Instruction) bool { return y == x }, EdgeOK: func(b *ssa.BasicBlock, k int) bool { return !isTest(b, k) }}
				if wk.Find(entry(body)) != nil {
					ob.Violate("deferred-result-overwrite@"+FnName(fn), x.Pos(), FnName(fn)+" defers a closure that assigns its result unconditionally: an error or the stop signal returned by the body is replaced (an interrupted save is reported as complete)")
				}
			})
		}
	})
}
