package main

// C16 — invalid requests are rejected without effect; no request can crash a server.

import (
	"fmt"
	"go/constant"
	"go/token"
	"go/types"
	"sort"
	"strconv"
	"strings"

	"golang.org/x/tools/go/ssa"
)

func init() {
	register("C16", "invalid requests rejected without effect; no request crashes a server", checkC16)
}

const (
	codesPath  = "google.golang.org/grpc/codes"
	statusPath = "google.golang.org/grpc/status"
)

func grpcCode(w *World, name string) int64 {
	p := w.ByPath[codesPath]
	if p == nil {
		return -1
	}
	c, ok := p.Types.Scope().Lookup(name).(*types.Const)
	if !ok {
		return -1
	}
	v, _ := constant.Int64Val(c.Val())
	return v
}

// statusCodeOf: v is status.Error/Errorf(codes.K, …) → K, else -1.
func statusCodeOf(v ssa.Value) int64 {
	call, ok := v.(*ssa.Call)
	if !ok {
		return -1
	}
	n := CalleeName(&call.Call)
	if n != statusPath+".Error" && n != statusPath+".Errorf" {
		return -1
	}
	c, ok := call.Call.Args[0].(*ssa.Const)
	if !ok || c.Value == nil {
		return -1
	}
	k, _ := constant.Int64Val(constant.ToInt(c.Value))
	return k
}

// reqParam finds the request parameter (pointer to a regattapb *Request type) and aliases it "req".
func reqParam(fn *ssa.Function) *ssa.Parameter {
	for _, p := range fn.Params {
		if n, ok := deref(p.Type()).(*types.Named); ok && n.Obj().Pkg() != nil && n.Obj().Pkg().Path() == pbPkg && strings.HasSuffix(n.Obj().Name(), "Request") {
			return p
		}
	}
	return nil
}

type guard struct {
	name   string
	clause []Lit // disjunction that must hold at the sink
	code   string
}

func lenGE1(e string) Lit { return LIntGe("len("+e+")", 1) }

func checkC16(w *World, r *Report) {
	r.Decides = "C16 is decided in its structural part only: (a) for every KV RPC the storage call is unreachable unless the documented request-shape guards were established (table and key present, limit >= 0, not keys_only and count_only together, revision filters zero) and the rejecting returns carry InvalidArgument / Unimplemented; (b) every proposal built from request data is reachable only under 0 < len(key) <= max and len(value) <= max for each pair it can create, including puts nested in either branch of a transaction (through the validator, whose nil return is unreachable from any failing check); (d) storage errors are mapped to non-OK statuses, an unknown table to NotFound; (e) the follower registers the read-only tables service (Create/Delete answer Unimplemented unconditionally) and the forwarding KV service; (f) the explicit crash surface (panic statements and unchecked type assertions reachable from the RPC methods, Lookup and Update) equals the reviewed table, and the request→response type table of Lookup agrees with every instantiation of the read helper."
	r.NotDecided = []string{"absence of every runtime panic (nil dereferences in dependencies, out-of-memory, Pebble internals)", "'state unchanged' beyond 'no proposal is reachable on a rejecting path'", "rejection of nested range/delete operations or empty oneofs (the statement ties the limits to record-creating paths)"}
	r.Assume = []string{"gRPC turns a returned status error into a non-OK response without side effects", "the leader cluster applies the same KV guards to forwarded writes"}
	c16Guards(w, r)
	c16Limits(w, r)
	c16Status(w, r)
	c16Follower(w, r)
	c16CrashSurface(w, r)
	if a := w.FsmAnchors(); len(a.Problems) == 0 && a.Update != nil {
		c02Readonly(w, r, a, "C16.g", "g-readonly-classification")
		c16ApplyErrors(w, r, a)
	}
}

func c16Guards(w *World, r *Report) {
	ob := r.Ob("C16.a", "a-request-shape-guards", "per KV handler: cut every edge that establishes a literal of the guard clause; the call into the storage service must then be unreachable from the entry; the return on the rejecting edge is status.Error(f) with the documented code", "a missing guard lets a malformed request reach storage (empty key pair, negative limit as unlimited, unsupported filter silently ignored)")
	inv, unimpl := grpcCode(w, "InvalidArgument"), grpcCode(w, "Unimplemented")
	type hdef struct {
		name    string
		key     bool
		rangeRq bool
	}
	for _, h := range []hdef{{"Range", true, true}, {"IterateRange", true, true}, {"Put", true, false}, {"DeleteRange", true, false}, {"Txn", false, false}} {
		fn := w.Func("regattaserver", "KVServer."+h.name)
		if fn == nil {
			ob.Undecided("anchor/"+h.name, "KVServer."+h.name+" not found")
			continue
		}
		rp := reqParam(fn)
		if rp == nil {
			ob.Undecided("req-param/"+h.name, "request parameter of KVServer."+h.name+" not found")
			continue
		}
		ctx := &ExprCtx{Alias: map[ssa.Value]string{rp: "req"}}
		isStorage := func(in ssa.Instruction) bool {
			c := plainCall(in)
			if c == nil || !c.IsInvoke() {
				return false
			}
			n, ok := c.Value.Type().(*types.Named)
			return ok && n.Obj().Name() == "KVService"
		}
		nsink := 0
		eachInstr(fn, func(in ssa.Instruction) {
			if isStorage(in) {
				nsink++
			}
		})
		if nsink == 0 {
			ob.Undecided("sink/"+h.name, "KVServer."+h.name+" does not call the storage service")
			continue
		}
		gs := []guard{{"table-present", []Lit{lenGE1("req.Table")}, "InvalidArgument"}}
		if h.key {
			gs = append(gs, guard{"key-present", []Lit{lenGE1("req.Key")}, "InvalidArgument"})
		}
		if h.rangeRq {
			gs = append(gs,
				guard{"limit-non-negative", []Lit{LIntGe("req.Limit", 0)}, "InvalidArgument"},
				guard{"not-keys-only-and-count-only", []Lit{LNotBool("req.KeysOnly"), LNotBool("req.CountOnly")}, "InvalidArgument"},
				guard{"min-mod-revision-zero", []Lit{LIntLe("req.MinModRevision", 0)}, "Unimplemented"},
				guard{"max-mod-revision-zero", []Lit{LIntLe("req.MaxModRevision", 0)}, "Unimplemented"},
				guard{"min-create-revision-zero", []Lit{LIntLe("req.MinCreateRevision", 0)}, "Unimplemented"},
				guard{"max-create-revision-zero", []Lit{LIntLe("req.MaxCreateRevision", 0)}, "Unimplemented"})
		}
		// where the request is vetted: the handler, and validation helpers it hands the request to
		// and whose error it returns unchanged
		type scope struct {
			fn  *ssa.Function
			ctx *ExprCtx
		}
		scopes := []scope{{fn, ctx}}
		eachInstr(fn, func(in ssa.Instruction) {
			call, ok := in.(*ssa.Call)
			if !ok {
				return
			}
			cal := StaticCallee(&call.Call)
			if cal == nil || cal.Blocks == nil || !inModule(cal) || errorResultIndex(cal) < 0 || cal.Signature.Results().Len() != 1 {
				return
			}
			hctx := &ExprCtx{Alias: map[ssa.Value]string{}}
			hit := false
			for i, a := range call.Call.Args {
				if a == ssa.Value(rp) && i < len(cal.Params) {
					hctx.Alias[cal.Params[i]] = "req"
					hit = true
				}
			}
			if !hit {
				return
			}
			// the handler returns the helper's error as it is
			passes := false
			eachInstr(fn, func(x ssa.Instruction) {
				if ret, isR := x.(*ssa.Return); isR {
					if ei := errorResultIndex(fn); ei >= 0 && retVal(ret, ei) == ssa.Value(call) {
						passes = true
					}
				}
			})
			if passes {
				scopes = append(scopes, scope{cal, hctx})
			}
		})
		for _, g := range gs {
			ob.SiteS("KVServer." + h.name + ": " + g.name)
			var rejecting []Loc
			wk := &Walk{Target: isStorage, EdgeOK: func(b *ssa.BasicBlock, k int) bool {
				return !ctx.EdgeEstablishes(b, k, g.clause)
			}}
			if p := wk.Find(entry(fn)); p != nil {
				ob.Violate("guard-missing/"+g.name+"@"+h.name, instrPos(p.Hit), "KVServer."+h.name+" can call the storage service without `"+litsString(g.clause)+"` having been established", w.PathString(p)...)
				continue
			}
			// rejecting edges: edges whose literal implies the negation of the whole clause's first literal … for
			// single-literal clauses the negation; for the two-literal clause the edge where both flags are true.
			for _, sc := range scopes {
				for _, b := range sc.fn.Blocks {
					for k := range b.Succs {
						ls := sc.ctx.EdgeLits(b, k)
						if len(g.clause) > 1 {
							hasK, hasC := false, false
							for _, l := range ls {
								hasK = hasK || l.Implies(LBool("req.KeysOnly"))
								hasC = hasC || l.Implies(LBool("req.CountOnly"))
							}
							if hasK && hasC {
								rejecting = append(rejecting, Loc{b.Succs[k], 0})
								continue
							}
						}
						for _, l := range ls {
							if len(g.clause) == 1 {
								for _, n := range g.clause[0].Not() {
									if l.Implies(n) {
										rejecting = append(rejecting, Loc{b.Succs[k], 0})
									}
								}
							} else if l.Implies(LBool("req.CountOnly")) && edgeDominatedBy(sc.ctx, b, LBool("req.KeysOnly")) {
								rejecting = append(rejecting, Loc{b.Succs[k], 0})
							} else if l.Implies(LBool("req.KeysOnly")) && edgeDominatedBy(sc.ctx, b, LBool("req.CountOnly")) {
								rejecting = append(rejecting, Loc{b.Succs[k], 0})
							}
						}
					}
				}
			}
			want := inv
			if g.code == "Unimplemented" {
				want = unimpl
			}
			for _, rj := range rejecting {
				// the rejecting block must return directly with the documented code
				ret, ok := rj.B.Instrs[len(rj.B.Instrs)-1].(*ssa.Return)
				if !ok {
					// allow rundefers etc.; search the first return reachable without branching
					continue
				}
				ei := errorResultIndex(rj.B.Parent())
				code := statusCodeOf(retVal(ret, ei))
				if code != want {
					ob.Violate("reject-code/"+g.name+"@"+h.name, ret.Pos(), fmt.Sprintf("KVServer.%s rejects a request violating `%s` with `%s` (code %d), %s expected", h.name, g.name, Expr(retVal(ret, ei)), code, g.code))
				}
			}
			if len(rejecting) == 0 {
				ob.Undecided("reject-edge/"+g.name+"@"+h.name, "no rejecting edge found for "+g.name)
			}
		}
	}
	// the forwarding server adds no path around these guards: it reaches the storage service only
	// through the embedded KVServer's methods (or forwards to the leader)
	if nt := w.NamedType("regattaserver", "ForwardingKVServer"); nt != nil {
		ms := w.Prog.MethodSets.MethodSet(types.NewPointer(nt))
		for i := 0; i < ms.Len(); i++ {
			fn := w.MethodOf(types.NewPointer(nt), ms.At(i).Obj().Name())
			if fn == nil || fn.Blocks == nil || fn.Signature.Recv() == nil || !strings.Contains(fn.Signature.Recv().Type().String(), "ForwardingKVServer") {
				continue
			}
			ob.Site(fn.Pos(), "forwarding override "+FnName(fn))
			for _, f := range withClosures(fn) {
				eachInstr(f, func(in ssa.Instruction) {
					c := callOf(in)
					if c == nil || !c.IsInvoke() {
						return
					}
					if n, ok := c.Value.Type().(*types.Named); ok && n.Obj().Name() == "KVService" {
						ob.Violate("forwarding-bypasses-guards@"+FnName(fn), in.Pos(), FnName(fn)+" calls the storage service directly ("+c.Method.Name()+"), bypassing the request guards and status mapping of KVServer")
					}
				})
			}
		}
	}
	ob.NeedFloor(5*1 + 4 + 2*6)
}

func litsString(ls []Lit) string {
	var s []string
	for _, l := range ls {
		s = append(s, l.String())
	}
	return strings.Join(s, " ∨ ")
}

// edgeDominatedBy: block b is reached only over an edge establishing lit (one level of
// single-predecessor chain).
func edgeDominatedBy(ctx *ExprCtx, b *ssa.BasicBlock, lit Lit) bool {
	for i := 0; i < 3 && len(b.Preds) == 1; i++ {
		p := b.Preds[0]
		for k, s := range p.Succs {
			if s != b {
				continue
			}
			for _, l := range ctx.EdgeLits(p, k) {
				if l.Implies(lit) {
					return true
				}
			}
		}
		b = p
	}
	return false
}

func c16Limits(w *World, r *Report) {
	ob := r.Ob("C16.b", "b-size-limits", "in the table layer every proposal/read built from request data is unreachable unless 1 <= len(key) <= key.LatestVersionLen and len(value) <= MaxValueLen were established for the request's own pair; for a transaction the proposal is unreachable unless validator(req.Success) == nil and validator(req.Failure) == nil were established, and inside the validator no nil return is reachable from an edge on which a nested put violates one of the three limits", "an oversize or empty key/value written through any path is a record the rest of the system cannot handle (invisible to range reads, dropped by snapshots, over the transport limit)")
	maxKey := int64(1024)
	if p := w.Pkg(keyRel); p != nil {
		if c, ok := p.Types.Scope().Lookup("LatestVersionLen").(*types.Const); ok {
			maxKey, _ = constant.Int64Val(c.Val())
		}
	}
	maxVal := int64(2 * 1024 * 1024)
	if p := w.Pkg("storage/table"); p != nil {
		if c, ok := p.Types.Scope().Lookup("MaxValueLen").(*types.Const); ok {
			maxVal, _ = constant.Int64Val(c.Val())
		}
	}
	isSink := func(in ssa.Instruction) bool {
		c := plainCall(in)
		if c == nil {
			return false
		}
		if c.IsInvoke() && (c.Method.Name() == "SyncPropose" || c.Method.Name() == "SyncRead" || c.Method.Name() == "StaleRead") {
			return true
		}
		if cal := StaticCallee(c); cal != nil {
			n := cal.Name()
			if cal.Origin() != nil {
				n = cal.Origin().Name()
			}
			return n == "proposeTable" || n == "readTable"
		}
		return false
	}
	type need struct {
		name string
		lit  Lit
	}
	check := func(method string, needs []need) *ssa.Function {
		fn := w.Func("storage/table", "ActiveTable."+method)
		if fn == nil {
			ob.Undecided("anchor/"+method, "ActiveTable."+method+" not found")
			return nil
		}
		rp := reqParam(fn)
		if rp == nil {
			ob.Undecided("req-param/"+method, "request parameter not found")
			return nil
		}
		ctx := &ExprCtx{Alias: map[ssa.Value]string{rp: "req"}}
		for _, nd := range needs {
			ob.SiteS("ActiveTable." + method + ": " + nd.name + " (" + nd.lit.String() + ")")
			wk := &Walk{Target: isSink, EdgeOK: func(b *ssa.BasicBlock, k int) bool {
				for _, l := range ctx.EdgeLits(b, k) {
					if l.Implies(nd.lit) {
						return false
					}
				}
				return true
			}}
			if p := wk.Find(entry(fn)); p != nil {
				ob.Violate("limit-missing/"+nd.name+"@"+method, instrPos(p.Hit), "ActiveTable."+method+" can propose/read without `"+nd.lit.String()+"` having been established", w.PathString(p)...)
			}
		}
		return fn
	}
	keyMin := need{"key-non-empty", lenGE1("req.Key")}
	keyMax := need{"key-length", LIntLe("len(req.Key)", maxKey)}
	check("Put", []need{keyMin, keyMax, {"value-length", LIntLe("len(req.Value)", maxVal)}})
	check("Delete", []need{keyMin, keyMax})
	check("Range", []need{keyMax, {"range-end-length", LIntLe("len(req.RangeEnd)", maxKey)}})
	// transaction: validator on both lists
	if fn := w.Func("storage/table", "ActiveTable.Txn"); fn != nil {
		rp := reqParam(fn)
		ctx := &ExprCtx{Alias: map[ssa.Value]string{rp: "req"}}
		validators := map[*ssa.Function]bool{}
		for _, list := range []string{"Success", "Failure"} {
			ob.SiteS("ActiveTable.Txn: nested operations of " + list + " validated")
			wk := &Walk{Target: func(in ssa.Instruction) bool {
				c := plainCall(in)
				return c != nil && c.IsInvoke() && c.Method.Name() == "SyncPropose"
			}, EdgeOK: func(b *ssa.BasicBlock, k int) bool {
				for _, l := range ctx.EdgeLits(b, k) {
					if l.Kind == "eq" && !l.Neg && l.B == "nil" && strings.HasSuffix(l.A, "(req."+list+")") {
						// remember the validator function
						if iff, ok := b.Instrs[len(b.Instrs)-1].(*ssa.If); ok {
							if bo, ok := iff.Cond.(*ssa.BinOp); ok {
								for _, o := range []ssa.Value{bo.X, bo.Y} {
									if call, ok := o.(*ssa.Call); ok {
										if cal := StaticCallee(&call.Call); cal != nil && inModule(cal) {
											validators[cal] = true
										}
									}
								}
							}
						}
						return false
					}
				}
				return true
			}}
			if p := wk.Find(entry(fn)); p != nil {
				ob.Violate("nested-put-limits/"+list, instrPos(p.Hit), "ActiveTable.Txn can propose a transaction without the nested operations of its "+list+" branch having been validated: a nested put with an empty or oversize key or an oversize value is accepted", w.PathString(p)...)
			}
		}
		for v := range validators {
			c16Validator(w, ob, v, maxKey, maxVal)
		}
		if len(validators) == 0 {
			ob.Violate("nested-put-limits/no-validator", fn.Pos(), "ActiveTable.Txn does not validate nested operations")
		}
	} else {
		ob.Undecided("anchor/Txn", "ActiveTable.Txn not found")
	}
	ob.NeedFloor(9)
}

// c16Validator: inside the validator of nested operations no nil return is reachable from an
// edge on which a nested put violates a limit, and all three limits are tested.
func c16Validator(w *World, ob *Ob, fn *ssa.Function, maxKey, maxVal int64) {
	ctx := &ExprCtx{}
	// the nested put value: result of GetRequestPut / type assertion to RequestOp_RequestPut → alias "put"
	eachInstr(fn, func(in ssa.Instruction) {
		if v, ok := in.(ssa.Value); ok && typeIs(v.Type(), pbPkg, "RequestOp_Put") {
			if _, isPtr := v.Type().(*types.Pointer); isPtr {
				if ctx.Alias == nil {
					ctx.Alias = map[ssa.Value]string{}
				}
				ctx.Alias[v] = "put"
			}
		}
	})
	type good struct {
		name string
		lit  Lit
	}
	goods := []good{
		{"empty-key", lenGE1("put.Key")},
		{"key-too-long", LIntLe("len(put.Key)", maxKey)},
		{"value-too-long", LIntLe("len(put.Value)", maxVal)},
	}
	// from the point where the nested put is known, the next operation (loop head) or a nil return
	// is reachable only after each limit was established for this put (directly or through a
	// helper given the put's key and value) - or over the edge on which the operation is no put
	var starts []ssa.Instruction
	for v := range ctx.Alias {
		if in, ok := v.(ssa.Instruction); ok {
			starts = append(starts, in)
		}
	}
	if len(starts) == 0 {
		ob.Violate("validator-misses/no-put@"+FnName(fn), fn.Pos(), "the validator of nested transaction operations does not look at nested puts")
	}
	for _, gd := range goods {
		okAll := true
		for _, st := range starts {
			h, body := loopOf(st.Block())
			wk := &Walk{
				Target: func(x ssa.Instruction) bool {
					if h != nil && x.Block() == h && x == h.Instrs[0] {
						return true
					}
					return isSuccessReturn(x)
				},
				EdgeOK: func(b *ssa.BasicBlock, k int) bool {
					for _, l := range ctx.EdgeLits(b, k) {
						if l.Implies(gd.lit) {
							return false
						}
						if l.Kind == "eq" && !l.Neg && l.B == "nil" && l.A == "put" {
							return false // not a put
						}
						if l.Kind == "eq" && l.Neg && strings.HasPrefix(l.A, "dyn(") && strings.Contains(l.B, "RequestOp_RequestPut") {
							return false // not a put (type switch form)
						}
					}
					_ = body
					return true
				},
			}
			if p := wk.Find(after(st)); p != nil {
				okAll = false
				ob.Violate("validator-misses/"+gd.name+"@"+FnName(fn), instrPos(p.Hit), "the validator of nested transaction operations can go on to the next operation (or return nil) without `"+gd.lit.String()+"` having been established for a nested put", w.PathString(p)...)
			}
		}
		if okAll && len(starts) > 0 {
			ob.SiteS("validator " + FnName(fn) + " establishes " + gd.lit.String() + " for every nested put")
		}
	}
	// every put of the list is looked at: the nil return is not reachable from inside the loop other than through the loop head
	for _, b := range fn.Blocks {
		scc := sccOf(b)
		if scc == nil {
			continue
		}
		h := loopHeader(scc)
		if b == h {
			continue
		}
		for _, s := range b.Succs {
			if scc[s] {
				continue
			}
			// an exit from the loop body (not through the loop head): only error returns may follow
			for _, in := range (&Walk{}).ReachableInstrs(Loc{s, 0}) {
				if ret, ok := in.(*ssa.Return); ok && !isErrorReturn(ret) {
					ob.Violate("validator-early-nil@"+FnName(fn), ret.Pos(), "the validator can return nil from inside its loop: later operations are not validated")
				}
			}
		}
	}
}

func c16Status(w *World, r *Report) {
	ob := r.Ob("C16.d", "d-status-mapping", "in every KV and Tables handler, from the err != nil edge of the storage/tables call only error returns are reachable, and (KV) the edge errors.Is(err, ErrTableNotFound) returns codes.NotFound", "an error swallowed on this edge acknowledges a request that had no effect; an unknown table must be NotFound")
	nf := grpcCode(w, "NotFound")
	handlers := []string{"KVServer.Range", "KVServer.IterateRange", "KVServer.Put", "KVServer.DeleteRange", "KVServer.Txn", "TablesServer.Create", "TablesServer.Delete", "TablesServer.List"}
	for _, hn := range handlers {
		fn := w.Func("regattaserver", hn)
		if fn == nil {
			ob.Undecided("anchor/"+hn, hn+" not found")
			continue
		}
		isKV := strings.HasPrefix(hn, "KVServer")
		ctx := &ExprCtx{}
		var svc ssa.Value
		eachInstr(fn, func(in ssa.Instruction) {
			c := plainCall(in)
			if c == nil || !c.IsInvoke() {
				return
			}
			if n, ok := c.Value.Type().(*types.Named); ok && (n.Obj().Name() == "KVService" || n.Obj().Name() == "TableService") {
				svc = in.(ssa.Value)
			}
		})
		if svc == nil {
			ob.Undecided("shape/"+hn, "no service call in "+hn)
			continue
		}
		ctx.Alias = map[ssa.Value]string{svc: "svc"}
		ob.Site(svc.Pos(), "service call in "+hn)
		ei := errorResultIndex(fn)
		nedges := 0
		// the ErrTableNotFound → NotFound mapping: on the errors.Is edge, in the handler or in the
		// error-mapping helper the handler hands the service error to
		scanNotFound := func(l Lit, succ *ssa.BasicBlock, ei int) {
			if l.Kind == "eq" && !l.Neg && strings.HasPrefix(l.A, "svc") && strings.Contains(l.B, "ErrTableNotFound") {
				// every feasible way on from the edge ends in a return of the NotFound status (the
				// status may travel through a variable: phis are resolved along the path)
				good, n := true, 0
				var at token.Pos
				for _, path := range enumPaths(succ, 400) {
					if !pathFeasible(path) {
						continue
					}
					last := path[len(path)-1]
					ret, isRet := last.Instrs[len(last.Instrs)-1].(*ssa.Return)
					if !isRet {
						continue
					}
					n++
					at = ret.Pos()
					if statusCodeOf(resolveAlong(retVal(ret, ei), path, len(path)-1)) != nf {
						good = false
					}
				}
				if !good || n == 0 {
					ob.Violate("not-found-code@"+hn, blockPos(succ), hn+" does not answer an unknown table with codes.NotFound")
				} else {
					ob.Site(at, hn+" maps ErrTableNotFound to NotFound")
				}
			}
		}
		if isKV {
			eachInstr(fn, func(in ssa.Instruction) {
				c := plainCall(in)
				if c == nil {
					return
				}
				cal := StaticCallee(c)
				if cal == nil || cal.Blocks == nil || !inModule(cal) || errorResultIndex(cal) < 0 {
					return
				}
				hctx := &ExprCtx{Alias: map[ssa.Value]string{}}
				hit := false
				for i, a := range c.Args {
					if e := ctx.Expr(a); strings.HasPrefix(e, "svc") && i < len(cal.Params) && isErrorType(a.Type()) {
						hctx.Alias[cal.Params[i]] = e
						hit = true
					}
				}
				if !hit {
					return
				}
				for _, b := range cal.Blocks {
					for k := range b.Succs {
						for _, l := range hctx.EdgeLits(b, k) {
							scanNotFound(l, b.Succs[k], errorResultIndex(cal))
						}
					}
				}
			})
		}
		for _, b := range fn.Blocks {
			for k := range b.Succs {
				for _, l := range ctx.EdgeLits(b, k) {
					if l.Kind == "eq" && l.Neg && l.B == "nil" && (l.A == "svc" || strings.HasPrefix(l.A, "svc#")) {
						nedges++
						for _, in := range (&Walk{}).ReachableInstrs(Loc{b.Succs[k], 0}) {
							if ret, ok := in.(*ssa.Return); ok && !isErrorReturn(ret) {
								ob.Violate("error-swallowed@"+hn, ret.Pos(), hn+" can return `"+Expr(retVal(ret, ei))+"` after the service call failed")
							}
						}
					}
					if isKV {
						scanNotFound(l, b.Succs[k], ei)
					}
				}
			}
		}
		if nedges == 0 {
			ob.Violate("error-unchecked@"+hn, svc.Pos(), hn+" does not test the error of its service call")
		}
		if isKV {
			found := false
			for _, s := range obSitesContaining(ob, hn+" maps ErrTableNotFound") {
				_ = s
				found = true
			}
			if !found {
				ob.Violate("not-found-missing@"+hn, svc.Pos(), hn+" has no ErrTableNotFound → NotFound mapping")
			}
		}
	}
	ob.NeedFloor(8)
}

func obSitesContaining(ob *Ob, s string) []string {
	var out []string
	for _, x := range ob.Sites {
		if strings.Contains(x, s) {
			out = append(out, x)
		}
	}
	return out
}

func c16Follower(w *World, r *Report) {
	ob := r.Ob("C16.e", "e-follower-services", "in the follower command the value registered with RegisterTablesServer is a *ReadonlyTablesServer whose Create and Delete have a single return path answering codes.Unimplemented, and the value registered with RegisterKVServer is a *ForwardingKVServer", "a follower that registers the writable tables service mutates its catalogue behind the leader's back")
	fol := w.Func("cmd", "follower")
	if fol == nil {
		ob.Undecided("anchor", "cmd.follower not found")
		return
	}
	unimpl := grpcCode(w, "Unimplemented")
	seen := map[string]bool{}
	for _, f := range withClosures(fol) {
		eachInstr(f, func(in ssa.Instruction) {
			c := plainCall(in)
			if c == nil {
				return
			}
			n := CalleeName(c)
			var want string
			switch n {
			case pbPkg + ".RegisterTablesServer":
				want = "*regattaserver.ReadonlyTablesServer"
			case pbPkg + ".RegisterKVServer":
				want = "*regattaserver.ForwardingKVServer"
			default:
				return
			}
			dyn := "?"
			if mi, ok := c.Args[1].(*ssa.MakeInterface); ok {
				dyn = typeString(mi.X.Type())
			}
			ob.Site(in.Pos(), "follower registers "+dyn+" with "+strings.TrimPrefix(n, pbPkg+"."))
			seen[n] = true
			if dyn != want {
				ob.Violate("follower-registers/"+strings.TrimPrefix(n, pbPkg+"."), in.Pos(), "the follower registers "+dyn+", expected "+want)
			}
		})
	}
	for _, n := range []string{pbPkg + ".RegisterTablesServer", pbPkg + ".RegisterKVServer"} {
		if !seen[n] {
			ob.Violate("follower-missing/"+strings.TrimPrefix(n, pbPkg+"."), fol.Pos(), "the follower does not call "+n)
		}
	}
	for _, m := range []string{"Create", "Delete"} {
		fn := w.Func("regattaserver", "ReadonlyTablesServer."+m)
		if fn == nil || strings.Contains(fn.Synthetic, "wrapper") || (fn.Signature.Recv() != nil && !strings.Contains(fn.Signature.Recv().Type().String(), "ReadonlyTablesServer")) {
			ob.Violate("readonly-override-missing/"+m, 0, "ReadonlyTablesServer does not override "+m+": the follower would execute the leader's implementation")
			continue
		}
		ob.Site(fn.Pos(), "ReadonlyTablesServer."+m)
		eachInstr(fn, func(in ssa.Instruction) {
			ret, ok := in.(*ssa.Return)
			if !ok {
				return
			}
			if statusCodeOf(retVal(ret, 1)) != unimpl {
				ob.Violate("readonly-not-unimplemented/"+m, ret.Pos(), "ReadonlyTablesServer."+m+" can return `"+Expr(retVal(ret, 1))+"`, not codes.Unimplemented")
			}
		})
		eachInstr(fn, func(in ssa.Instruction) {
			if c := plainCall(in); c != nil && c.IsInvoke() {
				ob.Violate("readonly-has-effect/"+m, in.Pos(), "ReadonlyTablesServer."+m+" calls into a service")
			}
		})
	}
	ob.NeedFloor(4)
}

// reviewed crash surface: explicit panics and unchecked type assertions reachable from the
// request paths, each with the reason it cannot be triggered by a request.
var reviewedCrashSurface = map[string]string{
	`panic:"unknown command type"`:                                                                 "dispatcher is exhaustive over the generated enum (C01.h) and logs are self-produced",
	`panic:storage/table/key.DecodeBytes()`:                                                        "only encoder-built keys are written (C01.f): decode cannot fail",
	`panic:"empty slice"`:                                                                          "queue: Peek/Pop only inside loops bounded by Len() read in the same arm",
	`panic:"iter.Pull: next called again before yield"`:                                            "iter.Pull protocol: the streaming handler alternates next strictly, single consumer",
	`panic:"iter.Pull: yield called again before next"`:                                            "iter.Pull protocol: the streaming handler alternates next strictly, single consumer",
	`panic:"blocking select matched no case"`:                                                      "compiler-generated for a select without default",
	`assert:typeparam#0<-StaleRead()|SyncRead()`:                                                   "covered by the Lookup type table agreement below",
	`assert:bool<-(*github.com/lni/dragonboat/v4.NodeHost).StaleRead()`:                            "covered by the metadata Lookup type table agreement below",
	`assert:storage/kv.Pair<-(*github.com/lni/dragonboat/v4.NodeHost).StaleRead()`:                 "covered by the metadata Lookup type table agreement below",
	`assert:[]storage/kv.Pair<-(*github.com/lni/dragonboat/v4.NodeHost).StaleRead()`:               "covered by the metadata Lookup type table agreement below",
	`assert:*storage/table/fsm.PathResponse<-(*github.com/lni/dragonboat/v4.NodeHost).StaleRead()`: "PathRequest is answered with *PathResponse by the same table",
}

// crashSig describes an explicit panic or an unchecked type assertion by what it does, not by
// where it stands: `panic:<what is thrown>` / `assert:<asserted type><-<where the value comes from>`.
// Moving the statement into a helper keeps its signature; a new kind of statement has a new one.
func crashSig(in ssa.Instruction) string {
	strip := func(v ssa.Value) ssa.Value {
		for {
			switch x := v.(type) {
			case *ssa.MakeInterface:
				v = x.X
			case *ssa.ChangeInterface:
				v = x.X
			case *ssa.ChangeType:
				v = x.X
			default:
				return v
			}
		}
	}
	var origins func(v ssa.Value, d int, out map[string]bool)
	closuresOf := func(v ssa.Value) []*ssa.Function {
		var fs []*ssa.Function
		var walk func(v ssa.Value, d int)
		walk = func(v ssa.Value, d int) {
			if d > 4 {
				return
			}
			switch x := v.(type) {
			case *ssa.MakeClosure:
				if f, ok := x.Fn.(*ssa.Function); ok {
					fs = append(fs, f)
				}
			case *ssa.Function:
				fs = append(fs, x)
			case *ssa.Phi:
				for _, e := range x.Edges {
					walk(e, d+1)
				}
			}
		}
		walk(v, 0)
		return fs
	}
	origins = func(v ssa.Value, d int, out map[string]bool) {
		v = strip(v)
		idx := 0
		if ex, ok := v.(*ssa.Extract); ok {
			v, idx = ex.Tuple, ex.Index
		}
		if d > 5 {
			out["value:"+typeString(v.Type())] = true
			return
		}
		switch x := v.(type) {
		case *ssa.Const:
			if x.Value != nil && x.Value.Kind() == constant.String {
				out[strconv.Quote(constant.StringVal(x.Value))] = true
			} else {
				out["const"] = true
			}
			return
		case *ssa.Phi:
			for _, e := range x.Edges {
				origins(e, d+1, out)
			}
			return
		case *ssa.Call:
			if !x.Call.IsInvoke() && StaticCallee(&x.Call) == nil {
				// a call of a local function value: what the closure(s) return
				if fs := closuresOf(x.Call.Value); len(fs) > 0 {
					for _, f := range fs {
						eachInstr(f, func(in ssa.Instruction) {
							if ret, ok := in.(*ssa.Return); ok && idx < len(ret.Results) {
								origins(retVal(ret, idx), d+1, out)
							}
						})
					}
					return
				}
			}
			n := CalleeName(&x.Call)
			if x.Call.IsInvoke() {
				n = x.Call.Method.Name()
			} else if cal := StaticCallee(&x.Call); cal != nil && inModule(cal) {
				n = FnName(cal)
				if cal.Origin() != nil {
					n = FnName(cal.Origin())
				}
			}
			for _, a := range x.Call.Args {
				if c, ok := strip(a).(*ssa.Const); ok && c.Value != nil && c.Value.Kind() == constant.String {
					out[n+"("+strconv.Quote(constant.StringVal(c.Value))+")"] = true
					return
				}
			}
			out[n+"()"] = true
			return
		case *ssa.Parameter:
			out["parameter"] = true
			return
		case *ssa.UnOp:
			if al, ok := x.X.(*ssa.Alloc); ok && al.Parent() != nil {
				sts := storesTo(al.Parent(), al)
				if len(sts) > 0 {
					for _, st := range sts {
						origins(st.Val, d+1, out)
					}
					return
				}
			}
		}
		out["value:"+typeString(v.Type())] = true
	}
	origin := func(v ssa.Value) string {
		m := map[string]bool{}
		origins(v, 0, m)
		var ks []string
		for k := range m {
			ks = append(ks, k)
		}
		sort.Strings(ks)
		return strings.Join(ks, "|")
	}
	assertedName := func(x *ssa.TypeAssert) string {
		fn := x.Parent()
		for f := fn; f != nil; f = f.Parent() {
			if f.Origin() != nil {
				for i, ta := range f.TypeArgs() {
					if types.Identical(ta, x.AssertedType) {
						return "typeparam#" + itoa(i)
					}
				}
			}
		}
		return typeString(x.AssertedType)
	}
	switch x := in.(type) {
	case *ssa.Panic:
		return "panic:" + origin(x.X)
	case *ssa.TypeAssert:
		if !x.CommaOk {
			return "assert:" + assertedName(x) + "<-" + origin(x.X)
		}
	}
	return ""
}

func c16CrashSurface(w *World, r *Report) {
	ob := r.Ob("C16.f", "f-crash-surface", "the set of explicit panic statements and unchecked (non comma-ok) type assertions in non-generated module functions reachable from the KV/Tables RPC methods, FSM.Lookup and FSM.Update equals the reviewed table (each entry with the reason a request cannot trigger it); the request→response type table of FSM.Lookup agrees with every instantiation of the read helper", "a new panic or unchecked assertion on a request path lets a request terminate the serving process (there is no recovery interceptor)")
	var roots []*ssa.Function
	for _, t := range []string{"KVServer", "ForwardingKVServer", "TablesServer", "ReadonlyTablesServer"} {
		nt := w.NamedType("regattaserver", t)
		if nt == nil {
			continue
		}
		ms := w.Prog.MethodSets.MethodSet(types.NewPointer(nt))
		for i := 0; i < ms.Len(); i++ {
			if f := w.MethodOf(types.NewPointer(nt), ms.At(i).Obj().Name()); f != nil && inModule(f) && !isGenerated(f) {
				roots = append(roots, f)
			}
		}
	}
	a := w.FsmAnchors()
	if a.Update != nil {
		roots = append(roots, a.Update, a.Lookup)
	}
	// the storage services behind the interfaces
	for _, n := range []string{"Engine.Range", "Engine.IterateRange", "Engine.Put", "Engine.Delete", "Engine.Txn"} {
		if f := w.Func("storage", n); f != nil {
			roots = append(roots, f)
		}
	}
	for _, n := range []string{"Manager.CreateTable", "Manager.DeleteTable", "Manager.GetTables", "Manager.GetTable"} {
		if f := w.Func("storage/table", n); f != nil {
			roots = append(roots, f)
		}
	}
	if q := findQueue(w); q != nil {
		roots = append(roots, q.Run, q.Add)
	}
	reach := w.ReachModIfaces(roots, isGenerated)
	found := map[string]token2{}
	for _, fn := range sortedFuncs(reach) {
		if isGenerated(fn) {
			continue
		}
		name := FnName(fn)
		if fn.Origin() != nil {
			name = FnName(fn.Origin())
		}
		_ = name
		eachInstr(fn, func(in ssa.Instruction) {
			if sig := crashSig(in); sig != "" {
				if _, dup := found[sig]; !dup {
					found[sig] = token2{in}
				}
			}
		})
	}
	var keys []string
	for k := range found {
		keys = append(keys, k)
	}
	sort.Strings(keys)
	for _, k := range keys {
		reason, ok := reviewedCrashSurface[k]
		ob.Site(instrPos(found[k].in), k+" — "+reason)
		if !ok {
			ob.Violate("unreviewed/"+k, instrPos(found[k].in), "`"+k+"` in "+FnName(found[k].in.Parent())+" is reachable from a request path and is not in the reviewed crash-surface table")
		}
	}
	r.Info["C16.f_functions_on_request_paths"] = len(reach)
	// Lookup type table vs readTable instantiations
	c16LookupTable(w, ob, a)
	c16MetaLookupTable(w, ob)
	c16Allocations(w, ob, reach)
	ob.NeedFloor(8)
}

type token2 struct{ in ssa.Instruction }

func c16LookupTable(w *World, ob *Ob, a *FsmA) {
	if a.Lookup == nil {
		return
	}
	// arms of Lookup: dyn(l) == T  →  set of result types returned (MakeInterface) in blocks dominated by the arm
	ctx := &ExprCtx{}
	arms := map[string]map[string]bool{}
	for _, b := range a.Lookup.Blocks {
		for k := range b.Succs {
			for _, l := range ctx.EdgeLits(b, k) {
				if l.Kind == "eq" && !l.Neg && strings.HasPrefix(l.A, "dyn($1)") {
					arm := b.Succs[k]
					set := map[string]bool{}
					for _, bb := range a.Lookup.Blocks {
						if !arm.Dominates(bb) {
							continue
						}
						for _, in := range bb.Instrs {
							ret, ok := in.(*ssa.Return)
							if !ok || isErrorReturn(ret) {
								continue
							}
							dynTypesOf(retVal(ret, 0), 0, set)
						}
					}
					arms[l.B] = set
				}
			}
		}
	}
	var rt *ssa.Function
	for _, fn := range w.ModFuncs() {
		if fn.Origin() == nil && fn.Name() == "readTable" && fn.Package() != nil && fn.Package().Pkg.Path() == modPath+"/storage/table" {
			rt = fn
		}
	}
	if rt == nil {
		ob.Undecided("lookup-table/read-helper", "read helper not found")
		return
	}
	for _, inst := range instantiations(w, rt) {
		S := typeString(inst.Signature.Results().At(0).Type())
		for _, ci := range w.CallersOf(inst) {
			req := ci.Common().Args[3]
			T := dynTypeOf(req)
			ob.Site(ci.Pos(), "read helper: request "+T+" expects response "+S)
			set, ok := arms[T]
			if !ok {
				ob.Violate("lookup-table/no-arm/"+T, ci.Pos(), "Lookup has no arm for request type "+T+" sent by "+FnName(ci.Parent()))
				continue
			}
			for got := range set {
				if got != S {
					ob.Violate("lookup-table/mismatch/"+T, ci.Pos(), "Lookup answers "+T+" with "+got+" but "+FnName(ci.Parent())+" asserts "+S+": every such request panics in the assertion")
				}
			}
		}
	}
}

func dynTypeOf(v ssa.Value) string {
	switch x := v.(type) {
	case *ssa.MakeInterface:
		return typeString(x.X.Type())
	case *ssa.Extract:
		// tail call `return f(...)`: result type of f
		if call, ok := x.Tuple.(*ssa.Call); ok {
			sig := call.Call.Signature()
			if sig != nil && sig.Results().Len() > x.Index {
				return typeString(sig.Results().At(x.Index).Type())
			}
		}
	case *ssa.Phi:
		if len(x.Edges) > 0 {
			return dynTypeOf(x.Edges[0])
		}
	}
	return typeString(v.Type())
}

// dynTypesOf: the dynamic types an interface value may carry: conversions, phis, and - for the
// interface-typed result of a module helper (`return p.lookupX(req)`) - what the helper returns.
func dynTypesOf(v ssa.Value, depth int, out map[string]bool) {
	if depth > 4 {
		out[typeString(v.Type())] = true
		return
	}
	switch x := v.(type) {
	case *ssa.MakeInterface:
		out[typeString(x.X.Type())] = true
		return
	case *ssa.Phi:
		for _, e := range x.Edges {
			dynTypesOf(e, depth+1, out)
		}
		return
	case *ssa.Const:
		if x.Value == nil {
			return // nil interface
		}
	case *ssa.Extract:
		if call, ok := x.Tuple.(*ssa.Call); ok {
			sig := call.Call.Signature()
			if sig != nil && sig.Results().Len() > x.Index {
				rt := sig.Results().At(x.Index).Type()
				if _, isI := rt.Underlying().(*types.Interface); isI {
					if cal := StaticCallee(&call.Call); cal != nil && cal.Blocks != nil && inModule(cal) {
						eachInstr(cal, func(in ssa.Instruction) {
							if ret, ok := in.(*ssa.Return); ok && !isErrorReturn(ret) {
								dynTypesOf(retVal(ret, x.Index), depth+1, out)
							}
						})
						return
					}
				}
				out[typeString(rt)] = true
				return
			}
		}
	}
	out[typeString(v.Type())] = true
}

// lookupArms: for a Lookup-like function, request dynamic type → set of dynamic result types.
func lookupArms(fn *ssa.Function) map[string]map[string]bool {
	ctx := &ExprCtx{}
	arms := map[string]map[string]bool{}
	for _, b := range fn.Blocks {
		for k := range b.Succs {
			for _, l := range ctx.EdgeLits(b, k) {
				if l.Kind == "eq" && !l.Neg && strings.HasPrefix(l.A, "dyn($1)") {
					arm := b.Succs[k]
					set := map[string]bool{}
					for _, bb := range fn.Blocks {
						if !arm.Dominates(bb) {
							continue
						}
						for _, in := range bb.Instrs {
							ret, ok := in.(*ssa.Return)
							if !ok || isErrorReturn(ret) {
								continue
							}
							dynTypesOf(retVal(ret, 0), 0, set)
						}
					}
					arms[l.B] = set
				}
			}
		}
	}
	return arms
}

// c16MetaLookupTable: RaftStore read methods assert the type the metadata state machine's
// Lookup returns for the query type they send.
func c16MetaLookupTable(w *World, ob *Ob) {
	lk := w.Func("storage/kv", "LFSM.Lookup")
	rs := w.NamedType("storage/kv", "RaftStore")
	if lk == nil || rs == nil {
		ob.Undecided("meta-lookup-table/anchor", "storage/kv LFSM.Lookup or RaftStore not found")
		return
	}
	arms := lookupArms(lk)
	ms := w.Prog.MethodSets.MethodSet(types.NewPointer(rs))
	for i := 0; i < ms.Len(); i++ {
		fn := w.MethodOf(types.NewPointer(rs), ms.At(i).Obj().Name())
		if fn == nil || fn.Blocks == nil {
			continue
		}
		var T, S string
		eachInstr(fn, func(in ssa.Instruction) {
			if c := plainCall(in); c != nil && strings.HasSuffix(CalleeName(c), "NodeHost).StaleRead") || c != nil && strings.HasSuffix(CalleeName(c), "NodeHost).SyncRead") {
				T = dynTypeOf(c.Args[len(c.Args)-1])
			}
			if ta, ok := in.(*ssa.TypeAssert); ok && !ta.CommaOk {
				S = typeString(ta.AssertedType)
			}
		})
		if T == "" || S == "" {
			continue
		}
		ob.Site(fn.Pos(), "metadata read: query "+T+" expects "+S+" in "+FnName(fn))
		set, ok := arms[T]
		if !ok {
			ob.Violate("meta-lookup-table/no-arm/"+T, fn.Pos(), "the metadata state machine's Lookup has no arm for "+T)
			continue
		}
		for got := range set {
			if got != S {
				ob.Violate("meta-lookup-table/mismatch/"+T, fn.Pos(), "the metadata Lookup answers "+T+" with "+got+" but "+FnName(fn)+" asserts "+S+": every catalogue read panics")
			}
		}
	}
}

// c16Allocations: implicit crash surface - make() with a size that is not provably
// non-negative on a request path panics ("makeslice: len/cap out of range") for wire-controlled
// negative values (e.g. the limit of a range operation nested in a transaction, which no
// handler validates).
func c16Allocations(w *World, ob *Ob, reach map[*ssa.Function]bool) {
	// the gzip reader parses the header when it is built: a body that is not a gzip stream gives
	// a nil reader and an error - the error is tested before the reader is handed to gRPC
	for _, fn := range w.ModFuncs() {
		if fn.Package() == nil && fn.Parent() == nil {
			continue
		}
		eachInstr(fn, func(in ssa.Instruction) {
			c := plainCall(in)
			if c == nil || !strings.HasSuffix(CalleeName(c), "/gzip.NewReader") || !inModule(fn) {
				return
			}
			ob.Site(in.Pos(), "gzip reader built in "+FnName(fn))
			tested := false
			if v, ok := in.(ssa.Value); ok && v.Referrers() != nil {
				for _, rr := range *v.Referrers() {
					if ex, ok := rr.(*ssa.Extract); ok && ex.Index == 1 && ex.Referrers() != nil {
						for _, u := range *ex.Referrers() {
							if _, isDbg := u.(*ssa.DebugRef); !isDbg {
								tested = true
							}
						}
					}
				}
			}
			if !tested {
				ob.Violate("gzip-reader-error-ignored@"+FnName(fn), in.Pos(), FnName(fn)+" ignores the error of gzip.NewReader: for a request body that is not a gzip stream the reader is nil, and the first Read on it panics the handler goroutine - the process dies")
			}
		})
	}
	n := 0
	for _, fn := range sortedFuncs(reach) {
		if isGenerated(fn) {
			continue
		}
		eachInstr(fn, func(in ssa.Instruction) {
			ms, ok := in.(*ssa.MakeSlice)
			if !ok {
				return
			}
			for _, sz := range []ssa.Value{ms.Len, ms.Cap} {
				if sz == nil {
					continue
				}
				n++
				// bounded above: a wire-controlled size is a crash (cap out of range) or an
				// out-of-memory kill as well when it is huge
				if !boundedAbove(sz, 0) {
					ob.Violate("unbounded-make@"+FnName(fn), in.Pos(), "make() with size `"+Expr(sz)+"` that has no upper bound in sight (not a constant, a length, or a minimum with one) on a request path: a huge wire value (a range limit of MaxInt64) panics with `makeslice: cap out of range` or exhausts memory")
					continue
				}
				// guarded? every path to the make crosses an edge establishing size >= 0 (for a
				// minimum: each operand on its own)
				var proven func(v ssa.Value, d int) bool
				proven = func(v ssa.Value, d int) bool {
					if nonNegative(v, 0) {
						return true
					}
					ctx := &ExprCtx{}
					if lin, okL := ctx.linear(v); okL {
						if need, okN := intLit(lin, token.GEQ); okN {
							wk := &Walk{Target: func(x ssa.Instruction) bool { return x == in }, EdgeOK: func(b *ssa.BasicBlock, k int) bool {
								for _, l := range ctx.EdgeLits(b, k) {
									if l.Implies(need) {
										return false
									}
								}
								return true
							}}
							if wk.Find(entry(fn)) == nil {
								return true
							}
						}
					}
					if call, ok := v.(*ssa.Call); ok && d < 3 && CalleeName(&call.Call) == "builtin.min" {
						for _, a := range call.Call.Args {
							if !proven(a, d+1) {
								return false
							}
						}
						return true
					}
					if cv, ok := v.(*ssa.Convert); ok && d < 3 {
						return proven(cv.X, d+1)
					}
					return false
				}
				guarded := proven(sz, 0)
				if !guarded {
					ob.Violate("unbounded-make@"+FnName(fn), in.Pos(), "make() with size `"+Expr(sz)+"` that is not provably non-negative on a request path: a negative wire value (e.g. a nested range limit) panics the handler or the apply worker")
				}
			}
		})
	}
	ob.SiteS("make() sizes examined on request paths: " + itoa(n))
}

// boundedAbove: syntactic proof that an integer value cannot be arbitrarily large: built from
// constants, lengths and capacities (of data already in memory), minima with such a value, sums
// and products of such values. A captured variable is looked through to what was stored in it.
func boundedAbove(v ssa.Value, depth int) bool {
	if depth > 8 {
		return false
	}
	switch x := v.(type) {
	case *ssa.Const:
		return true
	case *ssa.Convert:
		return boundedAbove(x.X, depth+1)
	case *ssa.ChangeType:
		return boundedAbove(x.X, depth+1)
	case *ssa.Call:
		switch CalleeName(&x.Call) {
		case "builtin.len", "builtin.cap":
			return true
		case "builtin.min":
			for _, a := range x.Call.Args {
				if boundedAbove(a, depth+1) {
					return true
				}
			}
			return false
		case "builtin.max":
			for _, a := range x.Call.Args {
				if !boundedAbove(a, depth+1) {
					return false
				}
			}
			return true
		}
		// sizes computed by the message itself (SizeVT and the like) are lengths of data in memory
		if x.Call.IsInvoke() {
			return strings.HasPrefix(x.Call.Method.Name(), "Size") || x.Call.Method.Name() == "Len"
		}
		if cal := StaticCallee(&x.Call); cal != nil {
			return strings.HasPrefix(cal.Name(), "Size") || cal.Name() == "Len" || strings.HasSuffix(cal.Name(), "Len")
		}
		return false
	case *ssa.BinOp:
		switch x.Op {
		case token.ADD, token.MUL, token.SUB, token.QUO, token.REM, token.SHL, token.SHR, token.AND:
			if x.Op == token.QUO || x.Op == token.REM || x.Op == token.SHR || x.Op == token.AND {
				return boundedAbove(x.X, depth+1) || boundedAbove(x.Y, depth+1)
			}
			return boundedAbove(x.X, depth+1) && boundedAbove(x.Y, depth+1)
		}
		return false
	case *ssa.Phi:
		for _, e := range x.Edges {
			if e == ssa.Value(x) {
				continue
			}
			if !boundedAbove(e, depth+1) {
				return false
			}
		}
		return true
	case *ssa.UnOp:
		if x.Op == token.MUL {
			switch a := x.X.(type) {
			case *ssa.FreeVar:
				if b := closureBinding(a.Parent(), a); b != nil {
					if al, ok := b.(*ssa.Alloc); ok && al.Parent() != nil {
						for _, st := range storesTo(al.Parent(), al) {
							if !boundedAbove(st.Val, depth+1) {
								return false
							}
						}
						return true
					}
				}
				return false
			case *ssa.Alloc:
				if a.Parent() == nil {
					return false
				}
				sts := storesTo(a.Parent(), a)
				if len(sts) == 0 {
					return false
				}
				for _, st := range sts {
					if !boundedAbove(st.Val, depth+1) {
						return false
					}
				}
				return true
			case *ssa.Global:
				return true // configuration, not the wire
			case *ssa.FieldAddr:
				// a field of a module struct that is not a wire message: configuration / own state
				if n, ok := deref(a.X.Type()).(*types.Named); ok && n.Obj().Pkg() != nil {
					return n.Obj().Pkg().Path() != pbPkg
				}
				return false
			}
		}
		return false
	case *ssa.Extract:
		return false
	}
	return false
}

var nnAssumed = map[*ssa.Phi]bool{}

// nonNegative: syntactic proof that an integer value is >= 0.
func nonNegative(v ssa.Value, depth int) bool {
	if depth > 6 {
		return false
	}
	if isUnsigned(v.Type()) {
		return true
	}
	switch x := v.(type) {
	case *ssa.Const:
		return x.Value != nil && constant.Sign(constant.ToInt(x.Value)) >= 0
	case *ssa.Convert:
		// widening from unsigned or from a non-negative value
		if isUnsigned(x.X.Type()) {
			return true
		}
		return nonNegative(x.X, depth+1)
	case *ssa.ChangeType:
		return nonNegative(x.X, depth+1)
	case *ssa.Call:
		n := CalleeName(&x.Call)
		switch n {
		case "builtin.len", "builtin.cap":
			return true
		case "builtin.min":
			for _, a := range x.Call.Args {
				if !nonNegative(a, depth+1) {
					return false
				}
			}
			return true
		case "builtin.max":
			for _, a := range x.Call.Args {
				if nonNegative(a, depth+1) {
					return true
				}
			}
			return false
		}
		for _, suf := range []string{").Len", ").Size", ").SizeVT", ").Cap", ".EncodedLen", ".MaxEncodedLen"} {
			if strings.HasSuffix(n, suf) {
				return true
			}
		}
	case *ssa.BinOp:
		switch x.Op {
		case token.ADD, token.MUL:
			return nonNegative(x.X, depth+1) && nonNegative(x.Y, depth+1)
		case token.QUO, token.REM, token.SHR, token.AND:
			return nonNegative(x.X, depth+1) && nonNegative(x.Y, depth+1)
		}
	case *ssa.Phi:
		// coinductive: a loop counter starting >= 0 and only growing is >= 0
		if nnAssumed[x] {
			return true
		}
		nnAssumed[x] = true
		defer delete(nnAssumed, x)
		for _, e := range x.Edges {
			if e == ssa.Value(x) {
				continue
			}
			if !nonNegative(e, depth+1) {
				return false
			}
		}
		return true
	case *ssa.UnOp:
		if x.Op == token.MUL {
			if al, ok := x.X.(*ssa.Alloc); ok && al.Parent() != nil {
				sts := storesTo(al.Parent(), al)
				if len(sts) == 0 {
					return false
				}
				for _, st := range sts {
					if !nonNegative(st.Val, depth+1) {
						return false
					}
				}
				return true
			}
			if fv, ok := x.X.(*ssa.FreeVar); ok {
				if b, ok := closureBinding(fv.Parent(), fv).(*ssa.Alloc); ok && b.Parent() != nil {
					for _, st := range storesTo(b.Parent(), b) {
						if !nonNegative(st.Val, depth+1) {
							return false
						}
					}
					return len(storesTo(b.Parent(), b)) > 0
				}
			}
		}
	case *ssa.Extract:
		if call, ok := x.Tuple.(*ssa.Call); ok {
			n := CalleeName(&call.Call)
			if (strings.HasSuffix(n, ").Read") || strings.HasSuffix(n, ").Write") || n == "builtin.copy") && x.Index == 0 {
				return true
			}
		}
	}
	return false
}

// applyErrorReviewed: the error returns on the apply path that were read and found not to depend
// on the content of a request (function | what is returned → why it is not request content).
var applyErrorReviewed = map[string]string{
	"(storage/table/key.Encoder).Encode|the sentinel storage/table/key.ErrUnknownKeyVersion": "the version of the key being encoded is a constant the state machine sets (key.LatestVersion), never a wire value",
	"storage/table/key.DecodeBytes|the sentinel storage/table/key.ErrMissingKeyHeader":       "decoding a key read back from the DB: a corrupted store, not a request",
	"storage/table/key.DecodeBytes|the sentinel storage/table/key.ErrUnknownKeyVersion":      "decoding a key read back from the DB: a corrupted store, not a request",
}

// c16ApplyErrors: nothing on the apply path turns the content of a committed command into an error.
func c16ApplyErrors(w *World, r *Report, a *FsmA) {
	ob := r.Ob("C16.h", "h-apply-never-refuses", "no module function reachable from the state machine's Update returns an error it made itself (a sentinel variable, errors.New, fmt.Errorf, a status error): every error on the apply path is handed on from Pebble, the key encoder's writer or a (un)marshal call", "an error returned from Update is fatal for dragonboat (the apply worker panics), on every replica and again on every restart: a request that passed the API and was committed must be applied, so validation belongs in front of the proposal, never behind it")
	n := 0
	for _, fn := range sortedFuncs(a.applyReach()) {
		if isGenerated(fn) || fn.Synthetic != "" || errorResultIndex(fn) < 0 {
			continue
		}
		ei := errorResultIndex(fn)
		eachInstr(fn, func(in ssa.Instruction) {
			ret, ok := in.(*ssa.Return)
			if !ok || len(ret.Results) <= ei {
				return
			}
			n++
			var made func(v ssa.Value, d int) string
			made = func(v ssa.Value, d int) string {
				if d > 6 {
					return ""
				}
				switch x := v.(type) {
				case *ssa.UnOp:
					if g, ok := x.X.(*ssa.Global); ok && x.Op == token.MUL {
						return "the sentinel " + globalName(g)
					}
				case *ssa.MakeInterface:
					return made(x.X, d+1)
				case *ssa.ChangeInterface:
					return made(x.X, d+1)
				case *ssa.Phi:
					for _, e := range x.Edges {
						if m := made(e, d+1); m != "" {
							return m
						}
					}
				case *ssa.Call:
					switch n := CalleeName(&x.Call); n {
					case "errors.New", "fmt.Errorf", "google.golang.org/grpc/status.Error", "google.golang.org/grpc/status.Errorf", "github.com/cockroachdb/errors.New", "github.com/cockroachdb/errors.Errorf":
						return "a new error (" + n + ")"
					}
				}
				return ""
			}
			if m := made(retVal(ret, ei), 0); m != "" {
				ob.Site(in.Pos(), FnName(fn)+" returns "+m)
				if why, ok := applyErrorReviewed[FnName(fn)+"|"+m]; ok {
					ob.SiteS("reviewed: " + FnName(fn) + " / " + m + " - " + why)
					return
				}
				ob.Violate("apply-path-makes-error@"+FnName(fn), in.Pos(), FnName(fn)+", reachable from Update, returns "+m+": a committed command that triggers it crashes every replica that applies it")
			}
		})
	}
	ob.SiteS("error returns examined on the apply path: " + itoa(n))
	if n == 0 {
		ob.Undecided("shape", "no error return on the apply path")
	}
}
