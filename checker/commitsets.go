package main

// Bookkeeping writes of the commit function, seen through one level of helper: either
//   PutUint64(buf, v); ctx.batch.Set(G, buf)           in the commit function itself, or
//   ctx.helper(G, v)  with  helper(key, val) { PutUint64(buf, val); return ctx.batch.Set(key, buf) }
// Both forms yield the same record: which bookkeeping global is the key, which uint64 is the value.

import (
	"go/types"
	"strings"

	"golang.org/x/tools/go/ssa"
)

type bkSet struct {
	At     ssa.Instruction // instruction in the commit function (the Set, or the helper call)
	Key    ssa.Value       // key operand as seen in the commit function
	KeyG   *ssa.Global     // the package-level key it loads (nil otherwise)
	Val    ssa.Value       // uint64 the value buffer is filled from on every path (nil otherwise)
	Helper *ssa.Function
}

// setIndexSummary: fn is a set-index helper: its only batch write is one Set on its receiver's
// (first parameter's) batch, keyed by parameter keyIdx, whose value buffer is filled by
// PutUint64 from parameter valIdx on every path, and no success return is reachable without it.
func (a *FsmA) setIndexSummary(fn *ssa.Function) (keyIdx, valIdx int, ok bool) {
	if fn == nil || fn.Blocks == nil || len(fn.Params) < 3 || !types.Identical(deref(fn.Params[0].Type()), a.Ctx) {
		return
	}
	var sets []*ssa.CallCommon
	var setIns []ssa.Instruction
	other := false
	eachInstr(fn, func(in ssa.Instruction) {
		c := callOf(in)
		if c == nil {
			return
		}
		n := CalleeName(c)
		if n == "(*"+pebblePath+".Batch).Set" {
			sets = append(sets, c)
			setIns = append(setIns, in)
		} else if batchWrites[n] || dbWrites[n] || n == batchCommit || n == batchApply {
			other = true
		}
	})
	if other || len(sets) != 1 {
		return
	}
	c := sets[0]
	if !a.isCtxFieldLoad(c.Args[0], a.BatchFld) {
		return
	}
	if u, isU := c.Args[0].(*ssa.UnOp); !isU || u.X.(*ssa.FieldAddr).X != ssa.Value(fn.Params[0]) {
		return
	}
	idx := func(v ssa.Value) int {
		for i, p := range fn.Params {
			if ssa.Value(p) == v {
				return i
			}
		}
		return -1
	}
	keyIdx = idx(c.Args[1])
	if keyIdx < 0 {
		return
	}
	buf := c.Args[2]
	valIdx = -1
	isFill := func(x ssa.Instruction) bool {
		cc := plainCall(x)
		if cc == nil || !strings.HasSuffix(CalleeName(cc), ".PutUint64") || len(cc.Args) < 3 || cc.Args[1] != buf {
			return false
		}
		if j := idx(cc.Args[2]); j >= 0 {
			valIdx = j
			return true
		}
		return false
	}
	eachInstr(fn, func(x ssa.Instruction) { isFill(x) })
	if valIdx < 0 {
		return
	}
	if p := (&Walk{Barrier: isFill, Target: func(x ssa.Instruction) bool { return x == setIns[0] }}).Find(entry(fn)); p != nil {
		return
	}
	// no success return without the Set
	isSucc := func(x ssa.Instruction) bool {
		ret, isR := x.(*ssa.Return)
		return isR && !isErrorReturn(ret) && !returnsResultOf(ret, setIns[0])
	}
	if p := (&Walk{Barrier: func(x ssa.Instruction) bool { return x == setIns[0] }, Target: isSucc}).Find(entry(fn)); p != nil {
		return
	}
	return keyIdx, valIdx, true
}

// returnsResultOf: `return call(...)` of that very call.
func returnsResultOf(ret *ssa.Return, call ssa.Instruction) bool {
	for i := range ret.Results {
		if v, ok := retVal(ret, i).(ssa.Instruction); ok && v == call {
			return true
		}
	}
	return false
}

// CommitHelpers: set-index helpers called (only) from the commit function.
func (a *FsmA) CommitHelpers() map[*ssa.Function][2]int {
	out := map[*ssa.Function][2]int{}
	if a.CommitFn == nil {
		return out
	}
	eachInstr(a.CommitFn, func(in ssa.Instruction) {
		c := plainCall(in)
		if c == nil {
			return
		}
		cal := StaticCallee(c)
		if cal == nil || !isFsmFunc(cal) {
			return
		}
		if _, done := out[cal]; done {
			return
		}
		k, v, ok := a.setIndexSummary(cal)
		if !ok {
			return
		}
		for _, ci := range a.w.CallersOf(cal) {
			if ci.Parent() != a.CommitFn {
				return
			}
		}
		out[cal] = [2]int{k, v}
	})
	return out
}

// bookkeepingSets lists the bookkeeping writes of the commit function in both forms.
func (a *FsmA) bookkeepingSets() []bkSet {
	fn := a.CommitFn
	var out []bkSet
	helpers := a.CommitHelpers()
	globalOf := func(v ssa.Value) *ssa.Global {
		if u, ok := v.(*ssa.UnOp); ok {
			if g, ok := u.X.(*ssa.Global); ok {
				return g
			}
		}
		return nil
	}
	eachInstr(fn, func(in ssa.Instruction) {
		c := plainCall(in)
		if c == nil {
			return
		}
		if CalleeName(c) == "(*"+pebblePath+".Batch).Set" && a.isCtxFieldLoad(c.Args[0], a.BatchFld) {
			s := bkSet{At: in, Key: c.Args[1], KeyG: globalOf(c.Args[1])}
			buf := c.Args[2]
			var val ssa.Value
			isFill := func(x ssa.Instruction) bool {
				cc := plainCall(x)
				if cc == nil || !strings.HasSuffix(CalleeName(cc), ".PutUint64") || len(cc.Args) < 3 || cc.Args[1] != buf {
					return false
				}
				val = cc.Args[2]
				return true
			}
			n := 0
			eachInstr(fn, func(x ssa.Instruction) {
				if isFill(x) {
					n++
				}
			})
			if n == 1 && (&Walk{Barrier: isFill, Target: func(x ssa.Instruction) bool { return x == in }}).Find(entry(fn)) == nil {
				s.Val = val
			}
			out = append(out, s)
			return
		}
		if cal := StaticCallee(c); cal != nil {
			if kv, ok := helpers[cal]; ok && c.Args[0] == ssa.Value(fn.Params[0]) {
				out = append(out, bkSet{At: in, Key: c.Args[kv[0]], KeyG: globalOf(c.Args[kv[0]]), Val: c.Args[kv[1]], Helper: cal})
			}
		}
	})
	return out
}
