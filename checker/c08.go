package main

// C08 — in-cluster snapshots are faithful, point-in-time and installed atomically.

import (
	"go/types"
	"strings"

	"golang.org/x/tools/go/ssa"
)

func init() {
	register("C08", "in-cluster snapshots: format dispatch, prepared view, install order, no handle outlives the lookup", checkC08)
}

func checkC08(w *World, r *Report) {
	r.Decides = "C08 is decided in its structural part only: (a) format dispatch is a bijection: the header a recoverer writes selects that same recoverer on the receiving side, the type byte is written and read at the same offset, SaveSnapshot writes the header of the recoverer that saves and RecoverFromSnapshot dispatches on the header it read with the same byte order; (b) save reads the view prepared for it (prepare pins a snapshot / checkpoint, the savers do not touch the live DB, every pair and every file is written; flush precedes checkpoint); (c) install order and interruption (the obligations of C04.e) and the publish protocol of the current-directory file (C04.c: write, sync, rename, directory sync); (d) no closure that captures a Pebble handle flows into a value returned by the state machine's Lookup; (e) the recoverers take bytes off the snapshot stream only through readers that deliver exactly what was asked for (io.ReadFull, io.Copy of a limited reader, binary.Read, the tar reader) - never through one bare Read, which may return less. Also: after the swap an install returns no error but the clean-up's; received files are complete when synced (f)."
	r.NotDecided = []string{"byte-faithfulness of the SST / tar transfer", "outcomes of concurrent readers other than the escape of a handle", "crash interruption (see C04's caveat)"}
	r.Assume = []string{"dragonboat excludes Lookup and RecoverFromSnapshot from each other only for the duration of the Lookup call itself"}
	a := w.FsmAnchors()
	if len(a.Problems) > 0 || a.Update == nil {
		ob := r.Ob("C08.anchors", "anchors", "roles of the table state machine resolve", "")
		ob.Undecided("anchors", strings.Join(a.Problems, "; "))
		return
	}
	c08Dispatch(w, r, a, "C08.a", "a-format-dispatch-bijection")
	c03Snapshots(w, r, a, "C08.b", "b-save-reads-prepared-view")
	c04InstallOrder(w, r, a, "C08.c", "c-install-order")
	c04Publish(w, r, "C08.c2", "c2-publish-protocol")
	c08Escape(w, r, a)
	c08StreamReads(w, r, a)
	c04FileWrites(w, r, "C08.f", "f-received-files-complete-when-synced")
}

func c08Dispatch(w *World, r *Report, a *FsmA, id, slug string) {
	ob := r.Ob(id, slug, "for each recoverer type T: T.getHeader sets the snapshot type to a constant k_T and the recoverer selector returns T for k_T; setSnapshotType and snapshotType use the same constant byte index; SaveSnapshot writes getHeader() of the same recoverer value whose save it calls; RecoverFromSnapshot reads the header with the byte order SaveSnapshot wrote it with and passes header.snapshotType() to the selector", "a header that selects the other format makes every transfer between replicas (and every restart from a snapshot) fail or, worse, be parsed as the wrong format")
	sp := w.SSAPkg(fsmRel)
	it, ok := sp.Pkg.Scope().Lookup("snapshotRecoverer").Type().Underlying().(*types.Interface)
	if !ok {
		ob.Undecided("anchor", "recoverer interface not found")
		return
	}
	pt := types.NewPointer(a.FSM)
	sel := w.MethodOf(pt, "getRecoverer")
	if sel == nil {
		ob.Undecided("anchor/selector", "recoverer selector not found")
		return
	}
	// selector table: constant → dynamic type
	table := map[int64]string{}
	ctx := &ExprCtx{}
	for _, b := range sel.Blocks {
		for k := range b.Succs {
			for _, l := range ctx.EdgeLits(b, k) {
				if l.Kind == "int" && !l.IsNE && l.Lo == l.Hi && l.Terms == "$1" {
					for _, in := range b.Succs[k].Instrs {
						if ret, ok := in.(*ssa.Return); ok {
							table[l.Lo] = dynTypeOf(retVal(ret, 0))
						}
					}
				}
			}
		}
	}
	for k, t := range table {
		ob.SiteS("selector: type " + itoa(int(k)) + " → " + t)
	}
	n := 0
	for _, t := range w.Implementers(it) {
		gh := w.MethodOf(t, "getHeader")
		if gh == nil {
			continue
		}
		n++
		var kT int64 = -1
		eachInstr(gh, func(in ssa.Instruction) {
			if c := plainCall(in); c != nil && StaticCallee(c) != nil && StaticCallee(c).Name() == "setSnapshotType" {
				if v, isC := constInt(c.Args[1]); isC {
					kT = v
				}
			}
		})
		ts := typeString(t)
		ob.Site(gh.Pos(), ts+" writes header type "+itoa(int(kT)))
		if kT < 0 {
			ob.Violate("header-type-unknown/"+ts, gh.Pos(), ts+".getHeader does not set a constant snapshot type")
			continue
		}
		if table[kT] != ts {
			ob.Violate("dispatch-mismatch/"+ts, gh.Pos(), ts+" writes header type "+itoa(int(kT))+", for which the selector returns `"+table[kT]+"`")
		}
	}
	if n < 2 {
		ob.Undecided("recoverers", "expected two recoverers")
	}
	// byte offsets
	setF := w.Func(fsmRel, "snapshotHeader.setSnapshotType")
	getF := w.Func(fsmRel, "snapshotHeader.snapshotType")
	if setF == nil || getF == nil {
		ob.Undecided("anchor/header", "header accessors not found")
	} else {
		idx := func(fn *ssa.Function) int64 {
			r := int64(-1)
			eachInstr(fn, func(in ssa.Instruction) {
				if ia, ok := in.(*ssa.IndexAddr); ok {
					if v, isC := constInt(ia.Index); isC {
						r = v
					}
				}
			})
			return r
		}
		si, gi := idx(setF), idx(getF)
		ob.SiteS("type byte written at " + itoa(int(si)) + ", read at " + itoa(int(gi)))
		if si < 0 || si != gi {
			ob.Violate("type-byte-offset", setF.Pos(), "the snapshot type is written at header byte "+itoa(int(si))+" but read at byte "+itoa(int(gi)))
		}
	}
	// SaveSnapshot
	if save := w.MethodOf(pt, "SaveSnapshot"); save != nil {
		var hdrOf, saveOn, order string
		eachInstr(save, func(in ssa.Instruction) {
			c := plainCall(in)
			if c == nil {
				return
			}
			if CalleeName(c) == "encoding/binary.Write" {
				order = Expr(c.Args[1])
				e := Expr(c.Args[2])
				if i := strings.Index(e, ".getHeader("); i >= 0 {
					hdrOf = e[i+len(".getHeader("):]
					hdrOf = strings.TrimSuffix(hdrOf, ")")
				}
			}
			if c.IsInvoke() && c.Method.Name() == "save" {
				saveOn = Expr(c.Value)
			}
		})
		ob.Site(save.Pos(), "SaveSnapshot: header of "+hdrOf+", save on "+saveOn+", order "+order)
		if hdrOf == "" || hdrOf != saveOn {
			ob.Violate("save-header-of-other", save.Pos(), "SaveSnapshot writes the header of `"+hdrOf+"` but saves with `"+saveOn+"`")
		}
		if rec := w.MethodOf(pt, "RecoverFromSnapshot"); rec != nil {
			rorder, arg := "", ""
			eachInstr(rec, func(in ssa.Instruction) {
				c := plainCall(in)
				if c == nil {
					return
				}
				if CalleeName(c) == "encoding/binary.Read" {
					rorder = Expr(c.Args[1])
				}
				if StaticCallee(c) == sel {
					arg = Expr(c.Args[1])
				}
			})
			ob.Site(rec.Pos(), "RecoverFromSnapshot: order "+rorder+", selector argument "+arg)
			if rorder != order {
				ob.Violate("header-byte-order", rec.Pos(), "the header is written "+order+" but read "+rorder)
			}
			if !strings.Contains(arg, ".snapshotType(") {
				ob.Violate("recover-dispatch-arg", rec.Pos(), "RecoverFromSnapshot selects the recoverer by `"+arg+"`, not by the header it read")
			}
		}
	} else {
		ob.Undecided("anchor/SaveSnapshot", "SaveSnapshot not found")
	}
	ob.NeedFloor(6)
}

func isPebbleHandle(t types.Type) bool {
	t = deref(t)
	return typeIs(t, pebblePath, "Reader") || typeIs(t, pebblePath, "DB") || typeIs(t, pebblePath, "Batch") || typeIs(t, pebblePath, "Snapshot") || typeIs(t, pebblePath, "Iterator")
}

// capturesHandle: the closure binds a Pebble handle (directly or as a captured variable).
func capturesHandle(mc *ssa.MakeClosure) string {
	for _, b := range mc.Bindings {
		if isPebbleHandle(b.Type()) {
			return typeString(deref(b.Type()))
		}
	}
	return ""
}

// escapingClosures: closures capturing a Pebble handle that flow into a return value of fn
// (through conversions, phis, and results of module callees - bounded depth).
func escapingClosures(w *World, fn *ssa.Function, depth int, seen map[*ssa.Function]bool) []*ssa.MakeClosure {
	if fn == nil || fn.Blocks == nil || depth > 5 || seen[fn] {
		return nil
	}
	seen[fn] = true
	var out []*ssa.MakeClosure
	var visit func(v ssa.Value, d int)
	visit = func(v ssa.Value, d int) {
		if d > 8 {
			return
		}
		switch x := v.(type) {
		case *ssa.MakeClosure:
			if capturesHandle(x) != "" {
				out = append(out, x)
			}
		case *ssa.ChangeType:
			visit(x.X, d+1)
		case *ssa.MakeInterface:
			visit(x.X, d+1)
		case *ssa.ChangeInterface:
			visit(x.X, d+1)
		case *ssa.Phi:
			for _, e := range x.Edges {
				visit(e, d+1)
			}
		case *ssa.Extract:
			visit(x.Tuple, d+1)
		case *ssa.Call:
			if cal := StaticCallee(&x.Call); cal != nil && inModule(cal) {
				out = append(out, escapingClosures(w, cal, depth+1, seen)...)
				// a closure passed into a module helper that wraps it lazily (e.g. a mapping helper)
				for _, a := range x.Call.Args {
					if _, isFn := a.Type().Underlying().(*types.Signature); isFn {
						visit(a, d+1)
					}
				}
			}
		case *ssa.UnOp:
			if al, ok := x.X.(*ssa.Alloc); ok && al.Parent() != nil {
				for _, st := range storesTo(al.Parent(), al) {
					visit(st.Val, d+1)
				}
			}
		}
	}
	eachInstr(fn, func(in ssa.Instruction) {
		if ret, ok := in.(*ssa.Return); ok {
			for i := range ret.Results {
				visit(retVal(ret, i), 0)
			}
		}
	})
	return out
}

func c08Escape(w *World, r *Report, a *FsmA) {
	ob := r.Ob("C08.d", "d-no-handle-outlives-lookup", "no closure that binds a pebble.Reader / *pebble.DB / *pebble.Batch / *pebble.Snapshot / *pebble.Iterator flows (through conversions, phis and the results of module callees) into a value returned by the state machine's Lookup", "the closure runs after Lookup returned, outside dragonboat's lookup/recover exclusion: a snapshot install in between swaps and closes the DB it captured and the first use panics with 'pebble: closed' inside the stream's coroutine - the process exits")
	if a.Lookup == nil {
		ob.Undecided("anchor", "Lookup not found")
		return
	}
	esc := escapingClosures(w, a.Lookup, 0, map[*ssa.Function]bool{})
	seen := map[*ssa.MakeClosure]bool{}
	for _, mc := range esc {
		if seen[mc] {
			continue
		}
		seen[mc] = true
		f, _ := mc.Fn.(*ssa.Function)
		name := "?"
		if f != nil {
			name = f.Name()
		}
		ob.Site(mc.Pos(), "closure "+name+" capturing "+capturesHandle(mc)+" is returned by Lookup")
		ob.Violate(name, instrPos(mc), "the lazily evaluated closure "+name+" captures a "+capturesHandle(mc)+" and is handed out by Lookup: it opens its iterator after Lookup returned")
	}
	// positive control: the number of closures in the lookup path that capture a handle at all
	n := 0
	for _, fn := range sortedFuncs(w.ReachModIfaces([]*ssa.Function{a.Lookup}, isGenerated)) {
		eachInstr(fn, func(in ssa.Instruction) {
			if mc, ok := in.(*ssa.MakeClosure); ok && capturesHandle(mc) != "" {
				n++
				ob.Site(in.Pos(), "closure capturing a Pebble handle in "+FnName(fn))
			}
		})
	}
	r.Info["C08.d_handle_capturing_closures_on_lookup_path"] = n
	ob.NeedFloor(1)
}

// c08StreamReads: C08.e — no bare Read on the snapshot stream.
func c08StreamReads(w *World, r *Report, a *FsmA) {
	ob := r.Ob("C08.e", "e-stream-read-fully", "in RecoverFromSnapshot and the recoverers no Read method is invoked directly on the snapshot stream (an io.Reader parameter or a reader derived from it): bytes are taken off it through io.ReadFull / io.ReadAtLeast / io.Copy* / io.CopyN / binary.Read / a tar reader, which loop until the requested amount was delivered", "io.Reader.Read may return fewer bytes than asked for (a decompressing or network reader does): a single Read desynchronises the stream - the rest of the file is read as the next length prefix")
	sp := w.SSAPkg(fsmRel)
	if sp == nil {
		ob.Undecided("anchor", "package not loaded")
		return
	}
	it, ok := sp.Pkg.Scope().Lookup("snapshotRecoverer").Type().Underlying().(*types.Interface)
	if !ok {
		ob.Undecided("anchor", "recoverer interface not found")
		return
	}
	var fns []*ssa.Function
	for _, t := range w.Implementers(it) {
		if f := w.MethodOf(t, "recover"); f != nil {
			fns = append(fns, f)
		}
	}
	if f := w.MethodOf(types.NewPointer(a.FSM), "RecoverFromSnapshot"); f != nil {
		fns = append(fns, f)
	}
	isReader := func(t types.Type) bool {
		n, ok := t.(*types.Named)
		return ok && n.Obj().Pkg() != nil && n.Obj().Pkg().Path() == "io" && n.Obj().Name() == "Reader"
	}
	for _, top := range fns {
		ob.Site(top.Pos(), "recover path "+FnName(top))
		for _, f := range withClosures(top) {
			eachInstr(f, func(in ssa.Instruction) {
				c := callOf(in)
				if c == nil || !c.IsInvoke() || c.Method.Name() != "Read" {
					return
				}
				if !isReader(c.Value.Type()) {
					return
				}
				ob.Violate("bare-read@"+FnName(f), in.Pos(), "the recover path calls Read on the snapshot stream `"+Expr(c.Value)+"` once and goes on as if the buffer had been filled: a reader that delivers less (dragonboat hands in a decompressing reader) desynchronises the stream")
			})
		}
	}
	ob.NeedFloor(3)
}
