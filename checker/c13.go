package main

// C13 — the metadata store is a deterministic compare-and-set register map.

import (
	"go/constant"
	"go/token"
	"go/types"
	"strconv"
	"strings"

	"golang.org/x/tools/go/ssa"
)

func init() {
	register("C13", "metadata store: deterministic compare-and-set register map", checkC13)
}

const kvPath = modPath + "/storage/kv"

func checkC13(w *World, r *Report) {
	r.Decides = "C13 is decided in its structural part only: (a) in the metadata state machine's Update the map writes are reachable only over 'key not stored' or 'stored.Ver == supplied.Ver'; the mismatch edge reports ResultCodeVersionMismatch with the marshalled stored pair and writes nothing; (b) the version given to a stored pair is the log entry's index; (c) the client maps the mismatch code to an error in Set and Delete and returns proposal errors; (d) no clock/random/environment value or goroutine reaches the map writes or results; (e) snapshot symmetry: MarshalJSON and UnmarshalJSON use the same map field, recover decodes into the store prepare marshals, and recovery replaces the map; (f) every MapStore method that touches the map holds the mutex until it returns (write lock for writers); (g) no lookup method writes the map, and the two directory listings decide membership by the same component-wise prefix test (sibling agreement). (h) the map store's Set and Delete are unconditional; (i) every entry is decoded into a value of its own and changes only the key it names."
	r.NotDecided = []string{"glob semantics of path.Match and the directory-listing helpers", "JSON round trip of arbitrary strings", "that log indices are unique and increasing (Raft)"}
	r.Assume = []string{"dragonboat applies entries in index order on every replica"}
	sp := w.SSAPkg("storage/kv")
	if sp == nil {
		ob := r.Ob("C13.anchors", "anchors", "package storage/kv loads", "")
		ob.Undecided("anchors", "storage/kv not loaded")
		return
	}
	// T_meta: implements IConcurrentStateMachine
	var meta *types.Named
	if smp := w.ByPath[smPath]; smp != nil {
		if it, ok := smp.Types.Scope().Lookup("IConcurrentStateMachine").Type().Underlying().(*types.Interface); ok {
			for _, t := range w.Implementers(it) {
				if n, ok := deref(t).(*types.Named); ok && n.Obj().Pkg().Path() == kvPath {
					meta = n
				}
			}
		}
	}
	if meta == nil {
		ob := r.Ob("C13.anchors", "anchors", "metadata state machine resolves", "")
		ob.Undecided("anchors", "no type implementing statemachine.IConcurrentStateMachine in storage/kv")
		return
	}
	up := w.MethodOf(types.NewPointer(meta), "Update")
	c13Gate(w, r, up, "C13.a", "C13.b")
	c13Client(w, r)
	c13Determinism(w, r, up)
	c13Snapshot(w, r, meta, "C13.e", "e-snapshot-symmetry")
	c13Locks(w, r)
	c13Listings(w, r)
	c13StoreOps(w, r, "C13.h", "h-store-operations-unconditional")
	c13UpdateScope(w, r, "C13.i", "i-update-own-key-fresh-decode")
}

func c13Gate(w *World, r *Report, up *ssa.Function, idA, idB string) {
	obA := r.Ob(idA, "a-version-gate", "in the metadata Update: store.Set / store.Delete are reachable only over an edge establishing Get-error != nil (key not stored) or stored.Ver == update.Ver; on the edge stored.Ver != update.Ver the entry's result is ResultCodeVersionMismatch with Data = marshal(stored pair) and neither Set nor Delete is reachable before the next entry", "without the gate two racing creations or lease requests both succeed")
	obB := r.Ob(idB, "b-version-is-index", "the version argument of store.Set (and the version reported in the success result) derives from the entry's Index", "versions that are not the log index are not unique/increasing: a stale version can match again")
	if up == nil {
		obA.Undecided("anchor", "metadata Update not found")
		return
	}
	isDirectWrite := func(in ssa.Instruction) bool {
		c := plainCall(in)
		if c == nil {
			return false
		}
		n := CalleeName(c)
		return n == "(*"+kvPath+".MapStore).Set" || n == "(*"+kvPath+".MapStore).Delete"
	}
	// a write step: the store call itself, or a call of a module helper that performs it
	writeHelpers := map[ssa.Instruction][]*ssa.Function{}
	eachInstr(up, func(in ssa.Instruction) {
		if isDirectWrite(in) {
			return
		}
		for _, f := range stepFuncs(in, 0, map[*ssa.Function]bool{}) {
			has := false
			eachInstr(f, func(x ssa.Instruction) {
				if isDirectWrite(x) {
					has = true
				}
			})
			if has {
				writeHelpers[in] = append(writeHelpers[in], f)
			}
		}
	})
	isWrite := func(in ssa.Instruction) bool {
		return isDirectWrite(in) || len(writeHelpers[in]) > 0
	}
	var get ssa.Value
	eachInstr(up, func(in ssa.Instruction) {
		if c := plainCall(in); c != nil && CalleeName(c) == "(*"+kvPath+".MapStore).Get" {
			get = in.(ssa.Value)
		}
	})
	if get == nil {
		obA.Violate("no-lookup", up.Pos(), "Update does not look the key up before writing: no version gate")
		return
	}
	ctx := &ExprCtx{Alias: map[ssa.Value]string{get: "get"}}
	nw := 0
	countWrites := func(f *ssa.Function) {
		eachInstr(f, func(in ssa.Instruction) {
			if isDirectWrite(in) {
				nw++
				obA.Site(in.Pos(), "map write "+shortName(CalleeName(plainCall(in)))+" in "+FnName(f))
			}
		})
	}
	countWrites(up)
	for _, fs := range writeHelpers {
		for _, f := range fs {
			countWrites(f)
		}
	}
	if nw < 2 {
		obA.Violate("writes-missing", up.Pos(), "Update no longer has both a Set and a Delete")
	}
	h, body := loopOf(get.(ssa.Instruction).Block())
	start := entry(up)
	if h != nil {
		start = Loc{h, 0}
	}
	gate := func(l Lit) bool {
		// key not stored
		if l.Kind == "eq" && l.Neg && l.B == "nil" && l.A == "get#1" {
			return true
		}
		// versions equal:  get#0.Ver - update.Ver == 0
		if l.Kind == "int" && !l.IsNE && l.Lo == 0 && l.Hi == 0 && strings.Contains(l.Terms, "get#0.Ver") && strings.Contains(l.Terms, ".KVPair.Ver") {
			return true
		}
		return false
	}
	wk := &Walk{Target: isWrite, EdgeOK: func(b *ssa.BasicBlock, k int) bool {
		for _, l := range ctx.EdgeLits(b, k) {
			if gate(l) {
				return false
			}
		}
		if body != nil && b.Succs[k] == h {
			return false // stay within one entry
		}
		return true
	}}
	if p := wk.Find(start); p != nil {
		obA.Violate("write-ungated", instrPos(p.Hit), "a pair can be set or deleted without the key having been found absent or its version equal to the supplied one", w.PathString(p)...)
	}
	// mismatch edge
	mismatch := int64(2)
	if c, ok := w.Pkg("storage/kv").Types.Scope().Lookup("ResultCodeVersionMismatch").(*types.Const); ok {
		mismatch, _ = constant.Int64Val(c.Val())
	}
	nm := 0
	for _, b := range up.Blocks {
		for k := range b.Succs {
			for _, l := range ctx.EdgeLits(b, k) {
				if l.Kind == "int" && l.IsNE && l.NE == 0 && strings.Contains(l.Terms, "get#0.Ver") && strings.Contains(l.Terms, ".KVPair.Ver") {
					nm++
					obA.Site(blockPos(b.Succs[k]), "version-mismatch edge")
					wk := &Walk{Target: isWrite, EdgeOK: func(bb *ssa.BasicBlock, kk int) bool { return bb.Succs[kk] != h }}
					if p := wk.Find(Loc{b.Succs[k], 0}); p != nil {
						obA.Violate("write-after-mismatch", instrPos(p.Hit), "after a version mismatch the pair is still written", w.PathString(p)...)
					}
					// result: Value = mismatch code, Data = marshal(get#0)
					okCode, okData := false, false
					for _, in := range (&Walk{EdgeOK: func(bb *ssa.BasicBlock, kk int) bool { return bb.Succs[kk] != h }}).ReachableInstrs(Loc{b.Succs[k], 0}) {
						st, ok := in.(*ssa.Store)
						if !ok {
							continue
						}
						fa, ok := st.Addr.(*ssa.FieldAddr)
						if !ok || !typeIs(fa.X.Type(), smPath, "Result") {
							continue
						}
						switch fieldAddrName(fa) {
						case "Value":
							if c, ok := st.Val.(*ssa.Const); ok && c.Value != nil && c.Int64() == mismatch {
								okCode = true
							}
						case "Data":
							if strings.Contains(ctx.Expr(st.Val), "json.Marshal(get#0)") {
								okData = true
							}
						}
					}
					if !okCode {
						obA.Violate("mismatch-code", blockPos(b.Succs[k]), "the mismatch edge does not report ResultCodeVersionMismatch")
					}
					if !okData {
						obA.Violate("mismatch-data", blockPos(b.Succs[k]), "the mismatch edge does not report the stored pair")
					}
				}
			}
		}
	}
	if nm == 0 {
		obA.Violate("no-mismatch-edge", up.Pos(), "Update has no version comparison")
	}
	// every entry of the batch is processed and gets a result: no successful exit from inside the
	// loop, and no way back to the loop head without a result having been stored
	if h != nil {
		isResult := func(x ssa.Instruction) bool {
			st, ok := x.(*ssa.Store)
			if !ok {
				return false
			}
			if typeIs(st.Val.Type(), smPath, "Result") {
				return true
			}
			fa, ok := st.Addr.(*ssa.FieldAddr)
			return ok && typeIs(fa.X.Type(), smPath, "Result")
		}
		for b := range body {
			if b == h {
				continue
			}
			for k, sblk := range b.Succs {
				if body[sblk] {
					continue
				}
				_ = k
				for _, in := range (&Walk{}).ReachableInstrs(Loc{sblk, 0}) {
					if ret, ok := in.(*ssa.Return); ok && !isErrorReturn(ret) {
						obA.Violate("batch-cut-short", blockPos(sblk), "the loop over the entries of an apply call can be left with success from inside an iteration: later entries of the batch are skipped without result, and replicas that batch differently diverge")
					}
				}
			}
		}
		for _, sblk := range h.Succs {
			if !body[sblk] {
				continue
			}
			if p := (&Walk{Barrier: isResult, Target: func(x ssa.Instruction) bool { return x.Block() == h }, EdgeOK: func(b *ssa.BasicBlock, k int) bool { return body[b.Succs[k]] }}).Find(Loc{sblk, 0}); p != nil {
				obA.Violate("entry-without-result", blockPos(sblk), "an entry can be passed over without a result being stored for it", w.PathString(p)...)
			}
		}
		obA.Site(blockPos(h), "loop over the entries of an apply call")
	}
	obA.NeedFloor(4)
	// version = entry index
	nset := 0
	// verFromIndex: the place (field address chain) read by `ver` was stored from the entry's index
	// on every path from the start of the iteration to `at`
	verStoredBefore := func(wantPlace string, at ssa.Instruction) bool {
		isVerStore := func(x ssa.Instruction) bool {
			st, ok := x.(*ssa.Store)
			if !ok {
				return false
			}
			f2, ok := st.Addr.(*ssa.FieldAddr)
			if !ok || fieldAddrName(f2) != "Ver" || ctx.place(f2) != wantPlace {
				return false
			}
			return isFieldReadOf(st.Val, smPath, "Entry", "Index") || strings.HasSuffix(ctx.Expr(st.Val), ".Index")
		}
		return (&Walk{Barrier: isVerStore, Target: func(x ssa.Instruction) bool { return x == at }}).Find(start) == nil
	}
	eachInstr(up, func(in ssa.Instruction) {
		c := plainCall(in)
		if c == nil || CalleeName(c) != "(*"+kvPath+".MapStore).Set" {
			return
		}
		nset++
		ver := c.Args[3]
		e := ctx.Expr(ver)
		obB.Site(in.Pos(), "Set version argument "+e)
		// `update.KVPair.Ver` must have been stored from ent.Index on every path
		okv := false
		if t, f, ok := fieldRead(ver); ok && f == "Ver" && t != nil {
			okv = verStoredBefore(ctx.place(ver.(*ssa.UnOp).X.(*ssa.FieldAddr)), in)
		}
		if isFieldReadOf(ver, smPath, "Entry", "Index") {
			okv = true
		}
		if !okv {
			obB.Violate("version-source", in.Pos(), "a pair is stored with version `"+e+"`, which is not (on every path) the index of the entry being applied")
		}
	})
	// Set inside a helper Update calls: the version is a field of a (struct) parameter; at the call
	// site that field of the argument must have been stored from the entry's index
	for cs, fs := range writeHelpers {
		cc := plainCall(cs)
		for _, f := range fs {
			eachInstr(f, func(in ssa.Instruction) {
				c := plainCall(in)
				if c == nil || CalleeName(c) != "(*"+kvPath+".MapStore).Set" {
					return
				}
				nset++
				e := Expr(c.Args[3])
				obB.Site(in.Pos(), "Set version argument "+e+" in "+FnName(f))
				okv := false
				if StaticCallee(cc) == f && strings.HasPrefix(e, "$") && strings.Contains(e, ".") {
					idx, _ := strconv.Atoi(e[1:strings.Index(e, ".")])
					path := e[strings.Index(e, "."):]
					if idx < len(cc.Args) {
						if u, ok := cc.Args[idx].(*ssa.UnOp); ok {
							okv = verStoredBefore(ctx.place(u.X)+path, cs)
						} else {
							okv = verStoredBefore(strings.TrimPrefix(ctx.Expr(cc.Args[idx]), "&")+path, cs)
						}
					}
				}
				if !okv {
					obB.Violate("version-source", in.Pos(), "a pair is stored with version `"+e+"` (in "+FnName(f)+"), which is not (on every path) the index of the entry being applied")
				}
			})
		}
	}
	if nset == 0 {
		obB.Undecided("shape", "no Set in Update")
	}
	obB.NeedFloor(1)
}

func c13Client(w *World, r *Report) {
	ob := r.Ob("C13.c", "c-client-mapping", "RaftStore.Set and RaftStore.Delete: a nil error return is unreachable over the edge res.Value == ResultCodeVersionMismatch, and unreachable from the proposal's error edge", "a client that ignores the mismatch code believes its compare-and-set succeeded")
	for _, m := range []string{"Set", "Delete"} {
		fn := w.Func("storage/kv", "RaftStore."+m)
		if fn == nil {
			ob.Undecided("anchor/"+m, "RaftStore."+m+" not found")
			continue
		}
		var prop ssa.Value
		eachInstr(fn, func(in ssa.Instruction) {
			if isSyncProposeCall(in) {
				prop = in.(ssa.Value)
			}
		})
		if prop == nil {
			ob.Undecided("shape/"+m, "no proposal in RaftStore."+m)
			continue
		}
		ob.Site(prop.Pos(), "proposal in RaftStore."+m)
		ctx := &ExprCtx{Alias: map[ssa.Value]string{prop: "prop"}}
		nmis := 0
		for _, b := range fn.Blocks {
			for k := range b.Succs {
				for _, l := range ctx.EdgeLits(b, k) {
					bad := false
					if l.Kind == "int" && !l.IsNE && l.Lo == 2 && l.Hi == 2 && strings.HasSuffix(l.Terms, "prop#0.Value") {
						bad = true
						nmis++
					}
					if l.Kind == "eq" && l.Neg && l.B == "nil" && l.A == "prop#1" {
						bad = true
					}
					if !bad {
						continue
					}
					for _, in := range (&Walk{}).ReachableInstrs(Loc{b.Succs[k], 0}) {
						if ret, ok := in.(*ssa.Return); ok && !isErrorReturn(ret) {
							ob.Violate("nil-after-failure@"+m, ret.Pos(), "RaftStore."+m+" can return a nil error although the proposal failed or reported a version mismatch ("+l.String()+")")
						}
					}
				}
			}
		}
		if nmis == 0 {
			ob.Violate("mismatch-ignored@"+m, fn.Pos(), "RaftStore."+m+" never tests the result for ResultCodeVersionMismatch")
		}
		// the proposal error is tested
		wk := &Walk{Target: isSuccessReturn, EdgeOK: func(b *ssa.BasicBlock, k int) bool {
			for _, l := range ctx.EdgeLits(b, k) {
				if l.Kind == "eq" && !l.Neg && l.B == "nil" && l.A == "prop#1" {
					return false
				}
			}
			return true
		}}
		if p := wk.Find(after(prop.(ssa.Instruction))); p != nil {
			ob.Violate("proposal-error-ignored@"+m, instrPos(p.Hit), "RaftStore."+m+" can succeed without having tested the proposal's error", w.PathString(p)...)
		}
		// Set reports the pair the state machine answered with (the stored one on a mismatch): a
		// pair other than the zero Pair is returned only after the result data was decoded
		if m == "Set" {
			isDecode := func(in ssa.Instruction) bool {
				c := plainCall(in)
				if c == nil || len(c.Args) != 2 {
					return false
				}
				n := CalleeName(c)
				return (n == "encoding/json.Unmarshal" || strings.HasSuffix(n, ".Unmarshal")) && strings.Contains(ctx.Expr(c.Args[0]), "prop#0.Data")
			}
			nDec := 0
			eachInstr(fn, func(in ssa.Instruction) {
				if isDecode(in) {
					nDec++
				}
			})
			if nDec == 0 {
				ob.Violate("result-not-decoded@Set", fn.Pos(), "RaftStore.Set never decodes the pair the state machine answered with")
			}
			tgt := func(in ssa.Instruction) bool {
				ret, ok := in.(*ssa.Return)
				if !ok || len(ret.Results) < 1 {
					return false
				}
				e := Expr(retVal(ret, 0))
				return !strings.HasSuffix(e, "zero") && !strings.Contains(e, "complit") || strings.Contains(e, "local:pair")
			}
			if p := (&Walk{Barrier: isDecode, Target: tgt}).Find(after(prop.(ssa.Instruction))); p != nil {
				ob.Violate("pair-not-decoded@Set", instrPos(p.Hit), "RaftStore.Set can hand out a pair without having decoded the state machine's answer: on a version mismatch the caller gets its own request back instead of the stored pair", w.PathString(p)...)
			}
		}
	}
	ob.NeedFloor(2)
}

// c13StoreOps: the map store's Set and Delete do what they are told on every path.
func c13StoreOps(w *World, r *Report, id, slug string) {
	ob := r.Ob(id, slug, "MapStore.Set: every path from the entry to a return crosses the map write, and the pair written carries the key, the value and the version it was given; MapStore.Delete: every path crosses the delete of the key", "the version gate sits in the state machine, which reports the entry's index as the new version: a Set that skips the write (value unchanged, ...) leaves the old version in the store while the writer is told the new one - the next compare-and-set with the reported version is refused, one with the stale version succeeds")
	ms := w.NamedType("storage/kv", "MapStore")
	if ms == nil {
		ob.Undecided("anchor", "MapStore not found")
		return
	}
	pt := types.NewPointer(ms)
	if fn := w.MethodOf(pt, "Set"); fn != nil && len(fn.Params) == 4 {
		var wr *ssa.MapUpdate
		n := 0
		eachInstr(fn, func(in ssa.Instruction) {
			if mu, ok := in.(*ssa.MapUpdate); ok {
				wr = mu
				n++
			}
		})
		if n != 1 {
			ob.Violate("set-shape", fn.Pos(), "MapStore.Set no longer writes the map exactly once")
		} else {
			ob.Site(wr.Pos(), "MapStore.Set writes "+Expr(wr.Value)+" under "+Expr(wr.Key))
			if p := (&Walk{Barrier: func(x ssa.Instruction) bool { return x == ssa.Instruction(wr) }, Target: isAnyReturn}).Find(entry(fn)); p != nil {
				ob.Violate("set-skips-write", instrPos(p.Hit), "MapStore.Set can return without having written the pair: the stored version stays behind the one the state machine reports", w.PathString(p)...)
			}
			if Expr(wr.Key) != "$1" {
				ob.Violate("set-key", wr.Pos(), "MapStore.Set writes under `"+Expr(wr.Key)+"`, not under the key it was given")
			}
			// the fields of the stored pair
			want := map[string]string{"Key": "$1", "Value": "$2", "Ver": "$3"}
			got := map[string]string{}
			if al, ok := rootAlloc(wr.Value); ok {
				for _, st := range storesToFields(fn, al) {
					got[st.field] = Expr(st.val)
				}
			}
			for f, wv := range want {
				if got[f] != wv {
					ob.Violate("set-pair/"+f, wr.Pos(), "the pair MapStore.Set stores has "+f+" = `"+got[f]+"`, expected the "+strings.ToLower(f)+" it was given")
				}
			}
		}
	} else {
		ob.Undecided("anchor/Set", "MapStore.Set not found")
	}
	if fn := w.MethodOf(pt, "Delete"); fn != nil {
		var del ssa.Instruction
		eachInstr(fn, func(in ssa.Instruction) {
			if c := callOf(in); c != nil && CalleeName(c) == "builtin.delete" {
				del = in
			}
		})
		if del == nil {
			ob.Violate("delete-shape", fn.Pos(), "MapStore.Delete no longer deletes from the map")
		} else {
			ob.Site(del.Pos(), "MapStore.Delete deletes "+Expr(callOf(del).Args[1]))
			if p := (&Walk{Barrier: func(x ssa.Instruction) bool { return x == del }, Target: isAnyReturn}).Find(entry(fn)); p != nil {
				ob.Violate("delete-skips", instrPos(p.Hit), "MapStore.Delete can return without having deleted the key", w.PathString(p)...)
			}
			if Expr(callOf(del).Args[1]) != "$1" {
				ob.Violate("delete-key", del.Pos(), "MapStore.Delete deletes `"+Expr(callOf(del).Args[1])+"`, not the key it was given")
			}
		}
	} else {
		ob.Undecided("anchor/Delete", "MapStore.Delete not found")
	}
	ob.NeedFloor(2)
}

type fieldStore struct {
	field string
	val   ssa.Value
}

// rootAlloc: the local struct a loaded value comes from (`*t` with t an Alloc).
func rootAlloc(v ssa.Value) (*ssa.Alloc, bool) {
	if u, ok := v.(*ssa.UnOp); ok && u.Op == token.MUL {
		al, ok := u.X.(*ssa.Alloc)
		return al, ok
	}
	return nil, false
}

// storesToFields: the field stores into a local struct.
func storesToFields(fn *ssa.Function, al *ssa.Alloc) []fieldStore {
	var out []fieldStore
	eachInstr(fn, func(in ssa.Instruction) {
		if st, ok := in.(*ssa.Store); ok {
			if fa, ok := st.Addr.(*ssa.FieldAddr); ok && fa.X == ssa.Value(al) {
				out = append(out, fieldStore{fieldAddrName(fa), st.Val})
			}
		}
	})
	return out
}

func c13Determinism(w *World, r *Report, up *ssa.Function) {
	ob := r.Ob("C13.d", "d-determinism", "forward taint from clock/random/environment sources in the functions reachable from the metadata Update must not reach MapStore writes or the entry results; no go statement or select on that path", "replicas of the catalogue/lease store would diverge")
	if up == nil {
		ob.Undecided("anchor", "metadata Update not found")
		return
	}
	scope := w.ReachModIfaces([]*ssa.Function{up}, isGenerated)
	t := NewTaint(w, scope)
	for _, fn := range sortedFuncs(scope) {
		eachInstr(fn, func(in ssa.Instruction) {
			if c, ok := in.(*ssa.Call); ok {
				if s := forbiddenSource(&c.Call); s != "" {
					ob.Site(in.Pos(), "source ("+s+") in "+FnName(fn))
					if _, isTuple := c.Type().(*types.Tuple); isTuple && c.Referrers() != nil {
						for _, rr := range *c.Referrers() {
							if ex, ok := rr.(*ssa.Extract); ok {
								t.Mark(ex, s)
							}
						}
					} else {
						t.Mark(c, s)
					}
				}
			}
			switch in.(type) {
			case *ssa.Go:
				ob.Violate("goroutine@"+FnName(fn), in.Pos(), "the metadata apply path starts a goroutine")
			case *ssa.Select:
				ob.Violate("select@"+FnName(fn), in.Pos(), "the metadata apply path selects")
			}
		})
	}
	t.IsSink = func(in ssa.Instruction, v ssa.Value) string {
		if c := callOf(in); c != nil {
			n := CalleeName(c)
			if n == "(*"+kvPath+".MapStore).Set" || n == "(*"+kvPath+".MapStore).Delete" {
				return "argument of " + shortName(n)
			}
		}
		if st, ok := in.(*ssa.Store); ok && st.Val == v {
			if fa, ok := st.Addr.(*ssa.FieldAddr); ok && typeIs(fa.X.Type(), smPath, "Result") {
				return "entry result"
			}
			if _, ok := st.Addr.(*ssa.IndexAddr); ok && strings.Contains(Expr(st.Addr), "Result") {
				return "entry result"
			}
		}
		return ""
	}
	t.Run()
	for _, h := range t.Hits {
		ob.Violate("nondeterministic-value@"+FnName(h.At.Parent()), instrPos(h.At), "a value derived from "+h.Reason+" reaches the replicated metadata ("+h.Sink+")")
	}
	ob.SiteS("metadata apply path: " + itoa(len(scope)) + " module functions examined")
	ob.NeedFloor(1)
}

func c13Snapshot(w *World, r *Report, meta *types.Named, id, slug string) {
	ob := r.Ob(id, slug, "MapStore.MarshalJSON marshals the map field that UnmarshalJSON decodes into, after replacing it by a fresh map; the state machine's PrepareSnapshot marshals its store field and RecoverFromSnapshot decodes into the same field", "a snapshot that restores into a different or merged map resurrects deleted tables/leases")
	mj := w.Func("storage/kv", "MapStore.MarshalJSON")
	uj := w.Func("storage/kv", "MapStore.UnmarshalJSON")
	if mj == nil || uj == nil {
		ob.Undecided("anchor", "MapStore JSON methods not found")
		return
	}
	var mField, uField string
	eachInstr(mj, func(in ssa.Instruction) {
		if c := plainCall(in); c != nil && CalleeName(c) == "encoding/json.Marshal" {
			mField = Expr(c.Args[0])
			ob.Site(in.Pos(), "MarshalJSON marshals "+mField)
		}
	})
	fresh := false
	eachInstr(uj, func(in ssa.Instruction) {
		if c := plainCall(in); c != nil && CalleeName(c) == "encoding/json.Unmarshal" {
			uField = strings.TrimPrefix(Expr(c.Args[1]), "&")
			ob.Site(in.Pos(), "UnmarshalJSON decodes into "+uField)
			// a fresh map stored before
			isFresh := func(x ssa.Instruction) bool {
				st, ok := x.(*ssa.Store)
				if !ok {
					return false
				}
				_, isMk := st.Val.(*ssa.MakeMap)
				return isMk && strings.TrimPrefix(Expr(st.Addr), "&") == uField
			}
			if p := (&Walk{Barrier: isFresh, Target: func(x ssa.Instruction) bool { return x == in }}).Find(entry(uj)); p == nil {
				fresh = true
			}
		}
	})
	if mField == "" || uField == "" || mField != uField {
		ob.Violate("json-asymmetric", mj.Pos(), "MarshalJSON marshals `"+mField+"` but UnmarshalJSON decodes into `"+uField+"`")
	}
	if !fresh {
		ob.Violate("recover-merges", uj.Pos(), "UnmarshalJSON decodes into the existing map: keys deleted since the snapshot survive a recovery")
	}
	pt := types.NewPointer(meta)
	ps := w.MethodOf(pt, "PrepareSnapshot")
	rc := w.MethodOf(pt, "RecoverFromSnapshot")
	if ps == nil || rc == nil {
		ob.Undecided("anchor/sm", "PrepareSnapshot/RecoverFromSnapshot not found")
		return
	}
	var pField, rField string
	eachInstr(ps, func(in ssa.Instruction) {
		if c := plainCall(in); c != nil && CalleeName(c) == "encoding/json.Marshal" {
			pField = Expr(c.Args[0])
			ob.Site(in.Pos(), "PrepareSnapshot marshals "+pField)
		}
	})
	eachInstr(rc, func(in ssa.Instruction) {
		if c := plainCall(in); c != nil && strings.HasSuffix(CalleeName(c), "json.Decoder).Decode") {
			rField = Expr(c.Args[1])
			ob.Site(in.Pos(), "RecoverFromSnapshot decodes into "+rField)
		}
		if c := plainCall(in); c != nil && CalleeName(c) == "encoding/json.Unmarshal" {
			rField = Expr(c.Args[1])
		}
	})
	if pField == "" || pField != rField {
		ob.Violate("sm-snapshot-asymmetric", ps.Pos(), "PrepareSnapshot marshals `"+pField+"` but RecoverFromSnapshot decodes into `"+rField+"`")
	}
	ob.NeedFloor(4)
}

func c13Locks(w *World, r *Report) {
	ob := r.Ob("C13.f", "f-lock-discipline", "every MapStore method that reads or writes the map field acquires the mutex before the first access and releases it only through a deferred unlock; methods that write the map (assignment, delete, map update) take the write lock", "an unlocked access races with the concurrent lookups dragonboat issues on a concurrent state machine")
	ms := w.NamedType("storage/kv", "MapStore")
	if ms == nil {
		ob.Undecided("anchor", "MapStore not found")
		return
	}
	mset := w.Prog.MethodSets.MethodSet(types.NewPointer(ms))
	for i := 0; i < mset.Len(); i++ {
		fn := w.MethodOf(types.NewPointer(ms), mset.At(i).Obj().Name())
		if fn == nil || fn.Blocks == nil {
			continue
		}
		var accesses []ssa.Instruction
		writes := false
		for _, f := range withClosures(fn) {
			eachInstr(f, func(in ssa.Instruction) {
				fa, ok := in.(*ssa.FieldAddr)
				if !ok || !types.Identical(deref(fa.X.Type()), ms) || fieldAddrName(fa) != "m" {
					return
				}
				accesses = append(accesses, in)
				if fa.Referrers() != nil {
					for _, rr := range *fa.Referrers() {
						if st, ok := rr.(*ssa.Store); ok && st.Addr == ssa.Value(fa) {
							writes = true
						}
						if u, ok := rr.(*ssa.UnOp); ok && u.Referrers() != nil {
							for _, r2 := range *u.Referrers() {
								if _, ok := r2.(*ssa.MapUpdate); ok {
									writes = true
								}
								if c := callOf(r2); c != nil && CalleeName(c) == "builtin.delete" {
									writes = true
								}
							}
						}
					}
				}
			})
		}
		if len(accesses) == 0 {
			continue
		}
		name := FnName(fn)
		ob.Site(fn.Pos(), name+" touches the map (writes="+map[bool]string{true: "yes", false: "no"}[writes]+")")
		lockName := "RLock"
		if writes {
			lockName = "Lock"
		}
		isLock := func(in ssa.Instruction) bool {
			c := plainCall(in)
			if c == nil {
				return false
			}
			n := CalleeName(c)
			if writes {
				return n == "(*sync.RWMutex).Lock" || n == "(*sync.Mutex).Lock"
			}
			return n == "(*sync.RWMutex).RLock" || n == "(*sync.RWMutex).Lock" || n == "(*sync.Mutex).Lock"
		}
		for _, ac := range accesses {
			if ac.Parent() != fn {
				continue
			}
			if p := (&Walk{Barrier: isLock, Target: func(x ssa.Instruction) bool { return x == ac }}).Find(entry(fn)); p != nil {
				ob.Violate("unlocked-access@"+name, ac.Pos(), name+" touches the map without holding "+lockName, w.PathString(p)...)
			}
		}
		// not released before the access: from an explicit (not deferred) unlock no access is
		// reachable without the lock having been taken again
		eachInstr(fn, func(in ssa.Instruction) {
			if !isExplicitUnlock(in) {
				return
			}
			for _, ac := range accesses {
				if ac.Parent() != fn {
					continue
				}
				if p := (&Walk{Barrier: isLock, Target: func(x ssa.Instruction) bool { return x == ac }}).Find(after(in)); p != nil {
					ob.Violate("early-unlock@"+name, in.Pos(), name+" releases the mutex and touches the map afterwards", w.PathString(p)...)
				}
			}
		})
	}
	ob.NeedFloor(7)
}

// c13Listings: C13.g — lookups are reads, and the two directory listings agree on how a key
// qualifies (a contradiction rule between siblings: it needs no knowledge of what the listing
// should return, only that List and ListDir decide membership the same way).
func c13Listings(w *World, r *Report) {
	ob := r.Ob("C13.g", "g-lookups-read-and-agree", "no lookup method of the map store (Get, Exists, GetAll, GetAllValues, List, ListDir) writes the store's map; if one of the two directory listings admits a key into its result only over the true edge of the component-wise path-prefix helper (or whole-key equality with the query), so does the other", "a lookup that writes changes what later lookups return; a listing that trusts a string prefix where its sibling compares path components reports entries of a sibling directory whose name merely starts with the queried name")
	ms := w.NamedType("storage/kv", "MapStore")
	if ms == nil {
		ob.Undecided("anchor", "MapStore not found")
		return
	}
	pt := types.NewPointer(ms)
	for _, m := range []string{"Get", "Exists", "GetAll", "GetAllValues", "List", "ListDir"} {
		fn := w.MethodOf(pt, m)
		if fn == nil {
			ob.Undecided("anchor/"+m, "MapStore."+m+" not found")
			continue
		}
		ob.Site(fn.Pos(), "lookup method MapStore."+m)
		for _, f := range withClosures(fn) {
			eachInstr(f, func(in ssa.Instruction) {
				var target ssa.Value
				switch x := in.(type) {
				case *ssa.MapUpdate:
					target = x.Map
				case *ssa.Store:
					if fa, ok := x.Addr.(*ssa.FieldAddr); ok && types.Identical(deref(fa.X.Type()), ms) {
						ob.Violate("lookup-writes-store@"+m, in.Pos(), "the lookup MapStore."+m+" assigns the store's field "+fieldAddrName(fa))
					}
					return
				default:
					if c := callOf(in); c != nil && (CalleeName(c) == "builtin.delete" || CalleeName(c) == "builtin.clear") {
						target = c.Args[0]
					}
				}
				if target == nil {
					return
				}
				if t, f, ok := fieldRead(target); ok && f == "m" && types.Identical(deref(t), ms) {
					ob.Violate("lookup-writes-store@"+m, in.Pos(), "the lookup MapStore."+m+" modifies the store's map")
				}
			})
		}
	}
	// sibling agreement of the listings
	isTermsHelper := func(c *ssa.CallCommon) bool {
		cal := StaticCallee(c)
		if cal == nil || cal.Pkg == nil || cal.Pkg.Pkg.Path() != kvPath || len(cal.Params) != 2 || cal.Signature.Results().Len() != 1 {
			return false
		}
		for _, p := range cal.Params {
			s, ok := p.Type().Underlying().(*types.Slice)
			if !ok {
				return false
			}
			if b, ok := s.Elem().Underlying().(*types.Basic); !ok || b.Kind() != types.String {
				return false
			}
		}
		b, ok := cal.Signature.Results().At(0).Type().Underlying().(*types.Basic)
		return ok && b.Kind() == types.Bool
	}
	type verdict struct {
		guarded, unguarded []ssa.Instruction
	}
	res := map[string]*verdict{}
	for _, m := range []string{"List", "ListDir"} {
		fn := w.MethodOf(pt, m)
		if fn == nil {
			continue
		}
		v := &verdict{}
		res[m] = v
		// guard edges: true edge of the terms helper, or of whole-key equality with the query ($1)
		ctx := &ExprCtx{}
		guardEdge := func(b *ssa.BasicBlock, k int) bool {
			iff, ok := b.Instrs[len(b.Instrs)-1].(*ssa.If)
			if !ok {
				return false
			}
			if call, ok := iff.Cond.(*ssa.Call); ok && isTermsHelper(&call.Call) && k == 0 {
				return true
			}
			for _, l := range ctx.EdgeLits(b, k) {
				if l.Kind == "eq" && !l.Neg && (l.A == "$1" || l.B == "$1") && (strings.HasSuffix(l.A, ".Key") || strings.HasSuffix(l.B, ".Key")) {
					return true
				}
			}
			return false
		}
		eachInstr(fn, func(in ssa.Instruction) {
			mu, ok := in.(*ssa.MapUpdate)
			if !ok {
				return
			}
			if _, isMake := mu.Map.(*ssa.MakeMap); !isMake {
				return
			}
			wk := &Walk{Target: func(x ssa.Instruction) bool { return x == in }, EdgeOK: func(b *ssa.BasicBlock, k int) bool { return !guardEdge(b, k) }}
			if wk.Find(entry(fn)) == nil {
				v.guarded = append(v.guarded, in)
			} else {
				v.unguarded = append(v.unguarded, in)
			}
		})
		ob.SiteS("MapStore." + m + ": " + itoa(len(v.guarded)) + " result insertion(s) behind the component-wise prefix test, " + itoa(len(v.unguarded)) + " not")
	}
	if l, d := res["List"], res["ListDir"]; l != nil && d != nil {
		for _, pair := range []struct {
			name  string
			a, b  *verdict
			other string
		}{{"List", l, d, "ListDir"}, {"ListDir", d, l, "List"}} {
			if len(pair.b.guarded) > 0 && len(pair.b.unguarded) == 0 {
				for _, in := range pair.a.unguarded {
					ob.Violate("listing-disagrees@"+pair.name, in.Pos(), "MapStore."+pair.name+" admits a key into its result without the component-wise path-prefix test that MapStore."+pair.other+" applies: keys of a sibling directory whose name starts with the queried one are listed")
				}
			}
		}
	}
	ob.NeedFloor(7)
}

// metaUpdate: the Update method of the metadata state machine (implements IConcurrentStateMachine in storage/kv).
func metaUpdate(w *World) *ssa.Function {
	smp := w.ByPath[smPath]
	if smp == nil {
		return nil
	}
	it, ok := smp.Types.Scope().Lookup("IConcurrentStateMachine").Type().Underlying().(*types.Interface)
	if !ok {
		return nil
	}
	for _, t := range w.Implementers(it) {
		if n, ok := deref(t).(*types.Named); ok && n.Obj().Pkg().Path() == kvPath {
			return w.MethodOf(types.NewPointer(n), "Update")
		}
	}
	return nil
}

// metaType: the metadata state machine type (implements IConcurrentStateMachine in storage/kv).
func metaType(w *World) *types.Named {
	smp := w.ByPath[smPath]
	if smp == nil {
		return nil
	}
	it, ok := smp.Types.Scope().Lookup("IConcurrentStateMachine").Type().Underlying().(*types.Interface)
	if !ok {
		return nil
	}
	for _, t := range w.Implementers(it) {
		if n, ok := deref(t).(*types.Named); ok && n.Obj().Pkg().Path() == kvPath {
			return n
		}
	}
	return nil
}

// isExplicitUnlock: a plain (not deferred) call of Unlock / RUnlock of a sync mutex.
func isExplicitUnlock(in ssa.Instruction) bool {
	c := plainCall(in)
	if c == nil {
		return false
	}
	n := CalleeName(c)
	return strings.HasPrefix(n, "(*sync.") && strings.HasSuffix(n, "Unlock")
}

// c13UpdateScope: an entry of the metadata log is decoded into a value of its own and changes the
// key it names, nothing else.
func c13UpdateScope(w *World, r *Report, id, slug string) {
	ob := r.Ob(id, slug, "in the metadata state machine's Update: the value every entry is decoded into (json.Unmarshal) is allocated inside the entry loop; every MapStore Set / Delete reachable from Update is given the key of the decoded update (…KVPair.Key), and none sits in a loop other than the entry loop", "a decode target reused across the entries of one apply call keeps what the previous entry left in fields the next one omits (a version 0 inherits the previous version: two create-if-absent writes in one batch both succeed); an update that also deletes keys nested under its own erases the id sequence when a table named 'sys' is deleted")
	up := metaUpdate(w)
	if up == nil {
		ob.Undecided("anchor", "metadata Update not found")
		return
	}
	// the entry loop
	var entryLoop *sliceLoop
	for _, sl := range sliceLoops(up) {
		if st, ok := sl.Slice.Type().Underlying().(*types.Slice); ok && typeIs(st.Elem(), smPath, "Entry") {
			entryLoop = sl
		}
	}
	if entryLoop == nil {
		ob.Undecided("shape", "no loop over the entries in the metadata Update")
		return
	}
	scope := map[*ssa.Function]bool{up: true}
	eachInstr(up, func(in ssa.Instruction) {
		if c := plainCall(in); c != nil {
			if cal := StaticCallee(c); cal != nil && cal.Blocks != nil && cal.Pkg == up.Pkg {
				scope[cal] = true
			}
		}
	})
	for fn := range scope {
		eachInstr(fn, func(in ssa.Instruction) {
			c := plainCall(in)
			if c == nil {
				return
			}
			n := CalleeName(c)
			if (n == "encoding/json.Unmarshal" || strings.HasSuffix(n, ".Unmarshal")) && len(c.Args) == 2 && fn == up {
				t := c.Args[1]
				for d := 0; d < 3; d++ {
					if mi, ok := t.(*ssa.MakeInterface); ok {
						t = mi.X
					}
				}
				ob.Site(in.Pos(), "entry decoded into "+Expr(t))
				al, ok := t.(*ssa.Alloc)
				if !ok || al.Parent() != up || !entryLoop.Body[al.Block()] {
					ob.Violate("decode-target-reused", in.Pos(), "the entries of one apply call are decoded into `"+Expr(t)+"`, a value that is not allocated per entry: fields an entry omits keep what the previous entry left there")
				}
			}
			if strings.HasSuffix(n, "kv.MapStore).Set") || strings.HasSuffix(n, "kv.MapStore).Delete") {
				k := Expr(c.Args[1])
				ob.Site(in.Pos(), shortName(n)+" under "+k)
				if !strings.HasSuffix(k, ".KVPair.Key") && !strings.HasSuffix(k, ".Key") {
					ob.Violate("update-touches-other-key", in.Pos(), "the metadata Update changes `"+k+"`, not the key its entry names")
				}
				if h, _ := loopOf(in.Block()); h != nil && (fn != up || h != entryLoop.Head) {
					ob.Violate("update-touches-other-key", in.Pos(), "the metadata Update changes the store in a loop of its own: one entry changes more than the key it names")
				}
			}
		})
	}
	ob.NeedFloor(3)
}
