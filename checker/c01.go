package main

// C01 — a table behaves as an ordered byte-string map. Decides the batching, bookkeeping and
// key-space discipline of the apply path (not map semantics).

import (
	"fmt"
	"go/constant"
	"go/token"
	"go/types"
	"strings"

	"golang.org/x/tools/go/ssa"
)

func init() {
	register("C01", "table is an ordered byte-string map: batching, bookkeeping and key-space discipline", checkC01)
}

func checkC01(w *World, r *Report) {
	r.Decides = "C01 is decided in its structural part only: (a) all writes of an apply call go to the one batch of the apply context, none to the DB directly; (b) the commit is crossed after the handlers and never inside a command; (c) the applied-index key is written into the same batch from the entry's own index before the commit; (d) reads inside the apply path go through the context's batch and only after it was made indexed (the old batch applied into it); (e) the read that feeds prev_kv/deleted precedes the write; (f) keys handed to writes and bounds come only from the user-key encoder or a fresh incremented copy of the maximum user key, bookkeeping keys are touched only by the commit function and the index readers, package-level key slices are never handed to a function that writes through its parameter; (g) range reads are bounded on both sides and the single-key read is exact; (h) every command kind and every transaction operation kind has a handler; (i) Update applies every entry of an apply call, one by one from entries[0] to the last, and never leaves its loop with success from inside an iteration - likewise the loops over a sequence, a batch and a transaction branch; (j) the stored key is an injective, order preserving encoding of the user key (the obligations C12.a-c). (k) every command is decoded into a message allocated for that decode or fully reset; (l) the apply batch is mutated only with Set, Delete and DeleteRange; (m) the store's comparer is the bytewise default with the identity split."
	r.NotDecided = []string{"that Pebble's batch and iterator semantics compose to sorted-map behaviour", "the arithmetic of the bound increment", "response values"}
	r.Assume = []string{"pebble: a batch is applied atomically by Commit; a non-indexed batch cannot be read", "SeekPrefixGE with a comparer whose Split is the identity is an exact-match seek"}
	a := w.FsmAnchors()
	if len(a.Problems) > 0 || a.Update == nil {
		ob := r.Ob("C01.anchors", "anchors", "roles of the table state machine resolve", "")
		ob.Undecided("anchors", strings.Join(a.Problems, "; "))
		return
	}
	c01SingleBatch(w, r, a, "C01.a", "a-single-batch")
	c01CommitCrossed(w, r, a, "C01.b", "b-commit-crossed")
	c01IndexWithData(w, r, a, "C01.c", "c-index-with-data")
	c01ReadOwnBatch(w, r, a, "C01.d", "d-read-own-batch")
	c01ReadBeforeWrite(w, r, a)
	c01KeySpace(w, r, a, "C01.f", "f-key-space")
	c01Bounds(w, r, a, "C01.g", "g-bounded-exact-reads")
	c01Exhaustive(w, r, a)
	applyLoopComplete(w, r, a, "C01.i", "i-every-entry-applied")
	c12Layout(w, r, "C01", ".j1", ".j2", ".j3")
	c12BufferReuse(w, r, "C01.j4", "j4-encode-into-empty-buffer")
	c01FreshDecode(w, r, a, "C01.k", "k-fresh-decode-target")
	c01WriteKinds(w, r, a, "C01.l", "l-plain-write-operations")
	c12Comparer(w, r, "C01.m", "m-bytewise-comparer")
	c14Dir(w, r, "C01.n", "n-fresh-directory-per-shard")
}

// c01WriteKinds: the apply path mutates the batch only with operations whose effect does not
// depend on the key's history.
func c01WriteKinds(w *World, r *Report, a *FsmA, id, slug string) {
	ob := r.Ob(id, slug, "every mutating Pebble batch call reachable from Update is Set, Delete or DeleteRange (plus Apply of the old batch in the make-indexed function): no SingleDelete, DeleteSized, Merge, deferred or range-key operation", "SingleDelete removes only the newest version of a key: a key the table overwrote resurfaces, after the next flush or compaction, with its older value - at different times on different replicas; Merge and the others have no counterpart in the map the table is supposed to be")
	plain := map[string]bool{}
	for _, m := range []string{"Set", "Delete", "DeleteRange"} {
		plain["(*"+pebblePath+".Batch)."+m] = true
	}
	n := 0
	for _, fn := range sortedFuncs(a.applyReach()) {
		eachInstr(fn, func(in ssa.Instruction) {
			c := callOf(in)
			if c == nil {
				return
			}
			name := CalleeName(c)
			if !batchWrites[name] {
				return
			}
			n++
			ob.Site(in.Pos(), shortName(name)+" in "+FnName(fn))
			if !plain[name] {
				ob.Violate("write-kind@"+FnName(fn), in.Pos(), FnName(fn)+" mutates the apply batch with "+shortName(name)+", whose effect depends on how often the key was written before")
			}
		})
	}
	if n == 0 {
		ob.Undecided("shape", "no batch write found in the apply path")
	}
	ob.NeedFloor(3)
}

// ---- C01.a ----
func c01SingleBatch(w *World, r *Report, a *FsmA, id, slug string) {
	ob := r.Ob(id, slug, "in the module functions reachable from the state machine's Update every mutating Pebble call is a Batch method whose receiver is the apply context's batch field (or the fresh indexed batch inside the make-indexed function); no mutating *pebble.DB method is reachable", "a write outside the batch survives a failed or crashed apply call: part of a batch or transaction becomes visible")
	for _, fn := range sortedFuncs(a.applyReach()) {
		eachInstr(fn, func(in ssa.Instruction) {
			c := callOf(in)
			if c == nil {
				return
			}
			n := CalleeName(c)
			if dbWrites[n] {
				ob.Site(in.Pos(), "DB write "+n+" in "+FnName(fn))
				ob.Violate("db-write@"+FnName(fn), in.Pos(), "the apply path writes to the DB directly ("+n+"), outside the apply batch")
				return
			}
			if !batchWrites[n] && n != batchApply {
				return
			}
			recv := c.Args[0]
			ob.Site(in.Pos(), fmt.Sprintf("%s on %s in %s", strings.TrimPrefix(n, "(*"+pebblePath+".Batch)."), Expr(recv), FnName(fn)))
			if a.isCtxFieldLoad(recv, a.BatchFld) {
				return
			}
			if fn == a.Indexed && n == batchApply {
				// indexed.Apply(c.batch): receiver is the NewIndexedBatch result
				if call, ok := recv.(*ssa.Call); ok && CalleeName(&call.Call) == "(*"+pebblePath+".DB).NewIndexedBatch" {
					return
				}
			}
			ob.Violate("foreign-batch@"+FnName(fn), in.Pos(), "a write of the apply path goes to `"+Expr(recv)+"`, not to the apply context's batch")
		})
	}
	ob.NeedFloor(5)
}

// ---- C01.b ----
func c01CommitCrossed(w *World, r *Report, a *FsmA, id, slug string) {
	ob := r.Ob(id, slug, "in Update every path from a command handler call to a success return crosses the commit function; no Batch.Commit is reachable from inside a command handler; no path leads from a handler's error edge to the commit", "a command acknowledged without commit is lost; a commit inside a command cuts a sequence or transaction in two")
	isCommitCall := func(in ssa.Instruction) bool {
		c := plainCall(in)
		if c == nil {
			return false
		}
		if CalleeName(c) == batchCommit {
			return true
		}
		cal := StaticCallee(c)
		return cal != nil && inModule(cal) && MustPerform(cal, func(x ssa.Instruction) bool { return isCallTo(x, batchCommit) }, 3)
	}
	isHandle := func(in ssa.Instruction) bool {
		c := plainCall(in)
		if c == nil || !c.IsInvoke() {
			return false
		}
		n, ok := c.Value.Type().(*types.Named)
		return ok && n == a.CmdIface
	}
	nh := 0
	eachInstr(a.Update, func(in ssa.Instruction) {
		if !isHandle(in) {
			return
		}
		nh++
		ob.Site(in.Pos(), "handler call in Update")
		if p := (&Walk{Barrier: isCommitCall, Target: isSuccessReturn}).Find(after(in)); p != nil {
			ob.Violate("return-without-commit@Update", instrPos(p.Hit), "Update can return successfully after handling a command without crossing the commit", w.PathString(p)...)
		}
		// error edge of the handler must not reach commit: find `err != nil` test of the handle result
		hv := in.(ssa.Value)
		ctx := &ExprCtx{Alias: map[ssa.Value]string{hv: "handle"}}
		for _, b := range a.Update.Blocks {
			for k := range b.Succs {
				for _, l := range ctx.EdgeLits(b, k) {
					if l.Kind == "eq" && l.Neg && l.B == "nil" && strings.HasPrefix(l.A, "handle#") {
						if p := (&Walk{Target: isCommitCall}).Find(Loc{b.Succs[k], 0}); p != nil {
							ob.Violate("commit-after-handler-error@Update", instrPos(p.Hit), "the commit is reachable from the error edge of a command handler: a partially applied command would be committed", w.PathString(p)...)
						}
					}
				}
			}
		}
	})
	if nh == 0 {
		ob.Undecided("shape@Update", "no call of the command interface found in Update")
	}
	// no commit inside handlers
	hr := w.Reach(a.Handlers, isGenerated)
	for _, fn := range sortedFuncs(hr) {
		for _, ci := range callsIn(fn, false, batchCommit) {
			if fn == a.CommitFn {
				// the commit function itself must not be reachable from handlers
			}
			ob.Violate("commit-inside-command@"+FnName(fn), ci.Pos(), "Batch.Commit is reachable from a command handler ("+FnName(fn)+")")
		}
	}
	for _, h := range a.Handlers {
		ob.Site(h.Pos(), "command handler "+FnName(h))
	}
	ob.NeedFloor(1 + 7)
}

// ---- C01.c ----
func c01IndexWithData(w *World, r *Report, a *FsmA, id, slug string) {
	ob := r.Ob(id, slug, "in the commit function every path to Batch.Commit crosses a Set on the context's batch whose key is the local-index bookkeeping key and whose value was filled (PutUint64) from the context's index field; that field is written only by the parse step, from Entry.Index; in Update the parse step is crossed before every handler call of the same iteration", "otherwise the applied index a table reports differs from the index of the last command applied")
	idxFld := a.ctxIndexField()
	if idxFld == "" {
		ob.Undecided("anchor", "index field of the apply context not found")
		return
	}
	fn := a.CommitFn
	sysLocal := findBookkeepingGlobals(w)["local"]
	if sysLocal == nil {
		ob.Undecided("anchor", "local-index bookkeeping key not found")
		return
	}
	// the Set(sysLocalIndex, buf) with buf filled from ctx.index - written out in the commit
	// function or through a set-index helper (commitsets.go)
	var goodSets []ssa.Instruction
	for _, s := range a.bookkeepingSets() {
		if s.KeyG != sysLocal {
			continue
		}
		via := ""
		if s.Helper != nil {
			via = " through " + FnName(s.Helper)
		}
		ob.Site(s.At.Pos(), "Set(local index key, …)"+via+" in "+FnName(fn))
		if s.Val == nil || !a.isCtxFieldLoad(s.Val, idxFld) {
			ob.Violate("index-value@"+FnName(fn), s.At.Pos(), "the value written under the local-index key is not (on every path) filled from the context's index field")
			continue
		}
		goodSets = append(goodSets, s.At)
	}
	isGood := func(x ssa.Instruction) bool {
		for _, g := range goodSets {
			if g == x {
				return true
			}
		}
		return false
	}
	for _, ci := range callsIn(fn, false, batchCommit) {
		ob.Site(ci.Pos(), "Batch.Commit in "+FnName(fn))
		if !a.isCtxFieldLoad(ci.Common().Args[0], a.BatchFld) {
			ob.Violate("commit-other-batch@"+FnName(fn), ci.Pos(), "the commit function commits `"+Expr(ci.Common().Args[0])+"`, not the context's batch")
		}
		if p := (&Walk{Barrier: isGood, Target: func(x ssa.Instruction) bool { return x == ci }}).Find(entry(fn)); p != nil {
			ob.Violate("commit-without-index@"+FnName(fn), ci.Pos(), "Batch.Commit is reachable without the local index having been written into the same batch", w.PathString(p)...)
		}
	}
	// writers of ctx.index program wide
	for _, f := range w.ModFuncs() {
		eachInstr(f, func(in ssa.Instruction) {
			st, ok := in.(*ssa.Store)
			if !ok || !a.isCtxFieldAddr(st.Addr, idxFld) {
				return
			}
			ob.Site(in.Pos(), "store to context."+idxFld+" in "+FnName(f))
			if !isFieldReadOf(st.Val, smPath, "Entry", "Index") {
				ob.Violate("index-writer@"+FnName(f), in.Pos(), "the context's index is set from `"+Expr(st.Val)+"`, not from the index of the entry being applied")
			}
		})
	}
	// parse before handle in each iteration of Update
	isParse := func(in ssa.Instruction) bool {
		c := plainCall(in)
		return c != nil && StaticCallee(c) == a.ParseFn
	}
	isHandle := func(in ssa.Instruction) bool {
		c := plainCall(in)
		if c == nil || !c.IsInvoke() {
			return false
		}
		n, ok := c.Value.Type().(*types.Named)
		return ok && n == a.CmdIface
	}
	eachInstr(a.Update, func(in ssa.Instruction) {
		if !isHandle(in) {
			return
		}
		if p := (&Walk{Barrier: isParse, Target: isHandle}).Find(entry(a.Update)); p != nil {
			ob.Violate("handle-without-parse@Update", in.Pos(), "a command can be handled without the parse step having set the context's index for it", w.PathString(p)...)
		}
		if p := (&Walk{Barrier: isParse, Target: isHandle}).Find(after(in)); p != nil {
			ob.Violate("handle-without-parse@Update", in.Pos(), "a second command can be handled without the parse step having set the context's index for it", w.PathString(p)...)
		}
		// the handled command is the parse result, the parsed entry is updates[i]
	})
	ob.NeedFloor(3)
}

// findBookkeepingGlobals: package-level []byte variables of the fsm package initialised from a
// key.Key literal; classified by the key type constant and name bytes.
func findBookkeepingGlobals(w *World) map[string]*ssa.Global {
	out := map[string]*ssa.Global{}
	sp := w.SSAPkg(fsmRel)
	if sp == nil {
		return out
	}
	initFn := sp.Func("init")
	if initFn == nil {
		return out
	}
	userC, sysC := keyTypeConsts(w)
	eachInstr(initFn, func(in ssa.Instruction) {
		st, ok := in.(*ssa.Store)
		if !ok {
			return
		}
		g, ok := st.Addr.(*ssa.Global)
		if !ok {
			return
		}
		call, ok := st.Val.(*ssa.Call)
		if !ok || len(call.Call.Args) != 1 || !typeIs(call.Call.Args[0].Type(), keyPath, "Key") {
			return
		}
		// the argument is a load of a local key.Key literal
		kt, name := keyLiteral(call.Call.Args[0])
		switch {
		case kt == sysC && name == "index":
			out["local"] = g
		case kt == sysC && name == "leader_index":
			out["leader"] = g
		case kt == sysC:
			out["sys:"+name] = g
		case kt == userC:
			out["maxuser"] = g
		}
	})
	if g, ok := sp.Members["wildcard"].(*ssa.Global); ok {
		out["wildcard"] = g
	}
	return out
}

func keyTypeConsts(w *World) (user, sys int64) {
	p := w.Pkg(keyRel)
	if p == nil {
		return -1, -1
	}
	get := func(n string) int64 {
		c, ok := p.Types.Scope().Lookup(n).(*types.Const)
		if !ok {
			return -1
		}
		v, _ := constant.Int64Val(c.Val())
		return v
	}
	return get("TypeUser"), get("TypeSystem")
}

// keyLiteral reads KeyType constant and Key bytes (when a string conversion) of a key.Key value.
func keyLiteral(v ssa.Value) (kt int64, name string) {
	kt = -1
	u, ok := v.(*ssa.UnOp)
	if !ok {
		return
	}
	al, ok := u.X.(*ssa.Alloc)
	if !ok || al.Referrers() == nil {
		return
	}
	for _, ref := range *al.Referrers() {
		fa, ok := ref.(*ssa.FieldAddr)
		if !ok {
			continue
		}
		for _, st := range storesTo(al.Parent(), fa) {
			switch fieldAddrName(fa) {
			case "KeyType":
				if c, ok := st.Val.(*ssa.Const); ok && c.Value != nil {
					kt, _ = constant.Int64Val(constant.ToInt(c.Value))
				}
			case "Key":
				if cv, ok := st.Val.(*ssa.Convert); ok {
					if c, ok := cv.X.(*ssa.Const); ok && c.Value != nil && c.Value.Kind() == constant.String {
						name = constant.StringVal(c.Value)
					}
				} else {
					name = Expr(st.Val)
				}
			}
		}
	}
	return
}

// ---- C01.d ----
func c01ReadOwnBatch(w *World, r *Report, a *FsmA, id, slug string) {
	ob := r.Ob(id, slug, "every read in the apply path (a *pebble.Batch or *pebble.DB converted to pebble.Reader, or Get/NewIter called on one) uses the context's batch, never the DB, and is preceded on every path - in the function or at all of its call sites - by the make-indexed call; the make-indexed function applies the old batch into the indexed one before it replaces it", "otherwise a command reads the state before the current apply batch: 'range delete then put with prev_kv' in one batch answers with deleted data")
	reach := a.applyReach()
	isEnsure := func(in ssa.Instruction) bool {
		c := plainCall(in)
		return c != nil && StaticCallee(c) == a.Indexed
	}
	// covered(fn, instr): every path entry→instr crosses EnsureIndexed, or every caller is covered
	var covered func(fn *ssa.Function, at ssa.Instruction, depth int) (bool, []string)
	covered = func(fn *ssa.Function, at ssa.Instruction, depth int) (bool, []string) {
		p := (&Walk{Barrier: isEnsure, Target: func(x ssa.Instruction) bool { return x == at }}).Find(entry(fn))
		if p == nil {
			return true, nil
		}
		if depth <= 0 || fn == a.Update {
			return false, w.PathString(p)
		}
		var callers []ssa.CallInstruction
		for _, ci := range w.CallersOf(fn) {
			if reach[ci.Parent()] {
				callers = append(callers, ci)
			}
		}
		if len(callers) == 0 {
			// reached through the command interface (a handle method): its caller is Update/sequence
			return false, w.PathString(p)
		}
		for _, ci := range callers {
			if ok, wit := covered(ci.Parent(), ci, depth-1); !ok {
				return false, append([]string{"called from " + FnName(ci.Parent()) + " at " + w.Pos(ci.Pos())}, wit...)
			}
		}
		return true, nil
	}
	for _, fn := range sortedFuncs(reach) {
		if fn == a.Indexed || fn == a.CommitFn || !isFsmFunc(fn) {
			continue
		}
		eachInstr(fn, func(in ssa.Instruction) {
			var src ssa.Value
			what := ""
			if mi, ok := in.(*ssa.MakeInterface); ok && typeIs(mi.Type(), pebblePath, "Reader") {
				src, what = mi.X, "conversion to pebble.Reader"
			} else if c := callOf(in); c != nil {
				switch CalleeName(c) {
				case "(*" + pebblePath + ".Batch).Get", "(*" + pebblePath + ".Batch).NewIter", "(*" + pebblePath + ".DB).Get", "(*" + pebblePath + ".DB).NewIter", "(*" + pebblePath + ".DB).NewSnapshot":
					src, what = c.Args[0], CalleeName(c)
				}
			}
			if src == nil {
				return
			}
			ob.Site(in.Pos(), what+" of "+Expr(src)+" in "+FnName(fn))
			if typeIs(src.Type(), pebblePath, "DB") || typeIs(src.Type(), pebblePath, "Snapshot") {
				ob.Violate("reads-db@"+FnName(fn), in.Pos(), "the apply path reads `"+Expr(src)+"` (the DB), not the apply batch: effects of earlier commands of the same batch are invisible")
				return
			}
			if !a.isCtxFieldLoad(src, a.BatchFld) {
				ob.Violate("reads-foreign-batch@"+FnName(fn), in.Pos(), "the apply path reads `"+Expr(src)+"`, not the context's batch")
				return
			}
			if ok, wit := covered(fn, in, 3); !ok {
				ob.Violate("read-before-indexed@"+FnName(fn), in.Pos(), "the batch is read without the make-indexed call having been crossed on every path to this read", wit...)
			}
		})
	}
	// make-indexed: Apply(old) before the new batch is stored
	fn := a.Indexed
	nst := 0
	eachInstr(fn, func(in ssa.Instruction) {
		st, ok := in.(*ssa.Store)
		if !ok || !a.isCtxFieldAddr(st.Addr, a.BatchFld) {
			return
		}
		nst++
		ob.Site(in.Pos(), "make-indexed stores the new batch")
		nb := st.Val
		if call, ok := nb.(*ssa.Call); !ok || CalleeName(&call.Call) != "(*"+pebblePath+".DB).NewIndexedBatch" {
			ob.Violate("indexed-not-indexed@"+FnName(fn), in.Pos(), "the batch installed by the make-indexed function is `"+Expr(nb)+"`, not a NewIndexedBatch result")
		} else if !a.isCtxFieldLoad(call.Call.Args[0], a.DBFld) {
			ob.Violate("indexed-other-db@"+FnName(fn), in.Pos(), "the indexed batch is created on `"+Expr(call.Call.Args[0])+"`, not on the context's DB")
		}
		isApplyOld := func(x ssa.Instruction) bool {
			c := plainCall(x)
			return c != nil && CalleeName(c) == batchApply && c.Args[0] == nb && a.isCtxFieldLoad(c.Args[1], a.BatchFld)
		}
		if p := (&Walk{Barrier: isApplyOld, Target: func(x ssa.Instruction) bool { return x == in }}).Find(entry(fn)); p != nil {
			ob.Violate("apply-old-missing@"+FnName(fn), in.Pos(), "the indexed batch replaces the old one without the old batch having been applied into it: commands already in the batch are lost", w.PathString(p)...)
		}
		// error of Apply must abort: the store is not reachable from the error edge — covered by path rule above only if Apply is crossed; check error handled
	})
	if nst == 0 {
		ob.Undecided("shape@"+FnName(fn), "the make-indexed function never stores the context's batch")
	}
	// all other writers of the batch field must store an indexed batch or a NewBatch at construction
	ob.NeedFloor(6)
}

// ---- C01.e ----
func c01ReadBeforeWrite(w *World, r *Report, a *FsmA) {
	ob := r.Ob("C01.e", "e-read-precedes-write", "in a function that both reads through the batch and writes to it for one operation, no path leads from the write back to the read", "a prev_kv / deleted answer computed after the write describes the new state, not the previous one")
	reach := a.applyReach()
	for _, fn := range sortedFuncs(reach) {
		if !isFsmFunc(fn) || fn == a.Indexed {
			continue
		}
		isRead := func(in ssa.Instruction) bool {
			if mi, ok := in.(*ssa.MakeInterface); ok && typeIs(mi.Type(), pebblePath, "Reader") {
				return true
			}
			return isCallTo(in, "(*"+pebblePath+".Batch).Get", "(*"+pebblePath+".Batch).NewIter")
		}
		var writes []ssa.Instruction
		hasRead := false
		eachInstr(fn, func(in ssa.Instruction) {
			if c := callOf(in); c != nil && batchWrites[CalleeName(c)] {
				writes = append(writes, in)
			}
			if isRead(in) {
				hasRead = true
			}
		})
		if !hasRead || len(writes) == 0 {
			continue
		}
		// loops over several operations legitimately read after an earlier operation's write;
		// the rule is per operation, so it applies to loop-free functions only.
		loop := false
		for _, b := range fn.Blocks {
			if inCycle(b) {
				loop = true
			}
		}
		if loop {
			continue
		}
		for _, wr := range writes {
			ob.Site(wr.Pos(), "write after read in "+FnName(fn))
			if p := (&Walk{Target: isRead}).Find(after(wr)); p != nil {
				ob.Violate("read-after-write@"+FnName(fn), instrPos(p.Hit), "the batch is read after the operation's own write", w.PathString(p)...)
			}
		}
	}
	ob.NeedFloor(3)
}

// ---- C01.f ----
func c01KeySpace(w *World, r *Report, a *FsmA, id, slug string) {
	ob := r.Ob(id, slug, "keys handed to batch writes outside the commit function are Bytes() of a buffer that was filled by the user-key encoder on every path, or the incremented fresh copy of the maximum user key; bookkeeping keys are loaded only by the commit function (as Set key) and as the key argument of the index reader; the user-key encoder builds a key with the user type constant, bookkeeping keys with the system constant, user < system; package-level key slices are never passed to a function that writes through its parameter", "otherwise a user command can read, shadow or alter the bookkeeping, or the wildcard bound drifts after its first use")
	gl := findBookkeepingGlobals(w)
	for _, k := range []string{"local", "leader", "maxuser", "wildcard"} {
		if gl[k] == nil {
			ob.Undecided("anchor/"+k, "package-level key `"+k+"` not found")
		}
	}
	userC, sysC := keyTypeConsts(w)
	if !(userC >= 0 && userC < sysC) {
		ob.Violate("type-order", 0, fmt.Sprintf("key type constants: user=%d system=%d, user < system required so that bookkeeping keys sort above every user key", userC, sysC))
	}
	enc := w.Func(fsmRel, "encodeUserKey")
	if enc == nil {
		ob.Undecided("anchor/encoder", "user-key encoder not found")
		return
	}
	// encoder stores the user constant
	{
		found := false
		eachInstr(enc, func(in ssa.Instruction) {
			st, ok := in.(*ssa.Store)
			if !ok {
				return
			}
			fa, ok := st.Addr.(*ssa.FieldAddr)
			if !ok || !typeIs(fa.X.Type(), keyPath, "Key") || fieldAddrName(fa) != "KeyType" {
				return
			}
			found = true
			ob.Site(in.Pos(), "user-key encoder sets KeyType")
			c, ok := st.Val.(*ssa.Const)
			v := int64(-1)
			if ok && c.Value != nil {
				v, _ = constant.Int64Val(constant.ToInt(c.Value))
			}
			if v != userC {
				ob.Violate("encoder-type", in.Pos(), "the user-key encoder builds keys with type `"+Expr(st.Val)+"`, not the user type constant")
			}
		})
		if !found {
			ob.Violate("encoder-type", enc.Pos(), "the user-key encoder does not set the key type")
		}
	}
	isEncodeInto := func(buf ssa.Value) func(ssa.Instruction) bool {
		return func(x ssa.Instruction) bool {
			c := plainCall(x)
			if c == nil || StaticCallee(c) != enc {
				return false
			}
			if mi, ok := c.Args[0].(*ssa.MakeInterface); ok {
				return sameValue(mi.X, buf)
			}
			return sameValue(c.Args[0], buf)
		}
	}
	// classify a key value
	var keyOK func(fn *ssa.Function, at ssa.Instruction, v ssa.Value, depth int) string
	keyOK = func(fn *ssa.Function, at ssa.Instruction, v ssa.Value, depth int) string {
		if depth > 4 {
			return "too deep"
		}
		switch x := v.(type) {
		case *ssa.Phi:
			for _, e := range x.Edges {
				if s := keyOK(fn, at, e, depth+1); s != "" {
					return s
				}
			}
			return ""
		case *ssa.Call:
			n := CalleeName(&x.Call)
			if n == "(*bytes.Buffer).Bytes" {
				buf := x.Call.Args[0]
				if p := (&Walk{Barrier: isEncodeInto(buf), Target: func(i ssa.Instruction) bool { return i == ssa.Instruction(x) }}).Find(entry(fn)); p != nil {
					return "Bytes() of a buffer that the user-key encoder has not filled on every path"
				}
				return ""
			}
			if cal := StaticCallee(&x.Call); cal != nil && cal.Name() == "incrementRightmostByte" {
				return freshCopyOf(x.Call.Args[0], gl["maxuser"])
			}
			return "result of " + n
		case *ssa.UnOp:
			if al, ok := x.X.(*ssa.Alloc); ok {
				for _, st := range storesTo(fn, al) {
					if s := keyOK(fn, at, st.Val, depth+1); s != "" {
						return s
					}
				}
				return ""
			}
			if fa, ok := x.X.(*ssa.FieldAddr); ok && typeIs(fa.X.Type(), pebblePath, "IterOptions") {
				// options field: check its stores
				for _, st := range storesToField(fn, fa.X, fieldAddrName(fa)) {
					if s := keyOK(fn, at, st.Val, depth+1); s != "" {
						return s
					}
				}
				return ""
			}
		case *ssa.MakeSlice:
			// a fresh slice: must be filled by copy from an encoder buffer
			return freshCopyFromEncoder(fn, x, isEncodeInto)
		}
		return "`" + Expr(v) + "`"
	}
	reach := a.applyReach()
	lk := w.Reach([]*ssa.Function{a.Lookup}, isGenerated)
	for f := range lk {
		reach[f] = true
	}
	commitHelpers := a.CommitHelpers()
	for _, s := range a.bookkeepingSets() {
		if s.Helper != nil && s.KeyG == nil {
			ob.Violate("key-source@"+FnName(a.CommitFn), s.At.Pos(), "the commit function writes `"+Expr(s.Key)+"` through "+FnName(s.Helper)+": not a bookkeeping key")
		}
	}
	for _, fn := range sortedFuncs(reach) {
		if !isFsmFunc(fn) || fn == a.CommitFn {
			continue
		}
		if _, isH := commitHelpers[fn]; isH {
			continue // a set-index helper of the commit function: its key is checked at the call sites above
		}
		eachInstr(fn, func(in ssa.Instruction) {
			c := callOf(in)
			if c == nil {
				return
			}
			n := CalleeName(c)
			var keys []ssa.Value
			switch {
			case n == "(*"+pebblePath+".Batch).DeleteRange":
				keys = []ssa.Value{c.Args[1], c.Args[2]}
			case batchWrites[n]:
				keys = []ssa.Value{c.Args[1]}
			case strings.HasSuffix(n, ".Iterator).SeekPrefixGE"), strings.HasSuffix(n, ".Iterator).SeekGE"), strings.HasSuffix(n, ".Iterator).SeekLT"):
				keys = []ssa.Value{c.Args[1]}
			case n == "("+pebblePath+".Reader).Get" && fn.Name() != "readLocalIndex":
				keys = []ssa.Value{c.Args[0]}
			}
			for _, k := range keys {
				ob.Site(in.Pos(), "key of "+shortName(n)+" in "+FnName(fn)+": "+Expr(k))
				if s := keyOK(fn, in, k, 0); s != "" {
					ob.Violate("key-source@"+FnName(fn), in.Pos(), "a key handed to "+shortName(n)+" is "+s+" - not the output of the user-key encoder nor the wildcard bound")
				}
			}
		})
		// iterator bounds
		eachInstr(fn, func(in ssa.Instruction) {
			st, ok := in.(*ssa.Store)
			if !ok {
				return
			}
			fa, ok := st.Addr.(*ssa.FieldAddr)
			if !ok || !typeIs(fa.X.Type(), pebblePath, "IterOptions") {
				return
			}
			fld := fieldAddrName(fa)
			if fld != "LowerBound" && fld != "UpperBound" {
				return
			}
			ob.Site(in.Pos(), "iterator "+fld+" in "+FnName(fn))
			if s := keyOK(fn, in, st.Val, 0); s != "" {
				ob.Violate("bound-source@"+FnName(fn)+"/"+fld, in.Pos(), "iterator "+fld+" is "+s)
			}
		})
	}
	// loads of bookkeeping / package-level key slices program wide
	for role, g := range gl {
		if g == nil {
			continue
		}
		for _, f := range w.ModFuncs() {
			eachInstr(f, func(in ssa.Instruction) {
				u, ok := in.(*ssa.UnOp)
				if !ok || u.X != g || u.Referrers() == nil {
					return
				}
				for _, ref := range *u.Referrers() {
					use := classifyKeyUse(ref, u)
					if ci, isC := ref.(*ssa.Call); isC && f == a.CommitFn {
						if kv, isH := commitHelpers[StaticCallee(&ci.Call)]; isH && ci.Call.Args[kv[0]] == ssa.Value(u) {
							use = "set-key"
						}
					}
					ob.Site(ref.Pos(), fmt.Sprintf("%s key %s used as %s in %s", role, g.Name(), use, FnName(f)))
					switch use {
					case "copy-src", "equal", "len", "debug":
					case "set-key":
						if (role == "local" || role == "leader" || strings.HasPrefix(role, "sys:")) && f != a.CommitFn {
							ob.Violate("bookkeeping-written@"+FnName(f), ref.Pos(), "bookkeeping key "+g.Name()+" is written outside the commit function")
						}
						if role == "maxuser" || role == "wildcard" {
							ob.Violate("bound-key-written@"+FnName(f), ref.Pos(), g.Name()+" is used as a key of a write")
						}
					case "index-reader-arg":
					case "mutator-arg":
						ob.Violate("global-key-mutated@"+FnName(f)+"/"+g.Name(), ref.Pos(), "package-level key "+g.Name()+" is passed to a function that writes through its parameter: its value drifts after the first call")
					default:
						if role == "local" || role == "leader" || strings.HasPrefix(role, "sys:") {
							ob.Violate("bookkeeping-use@"+FnName(f), ref.Pos(), "bookkeeping key "+g.Name()+" is used in an unexpected way ("+use+") in "+FnName(f))
						} else if use == "store-elem" {
							ob.Violate("global-key-mutated@"+FnName(f)+"/"+g.Name(), ref.Pos(), "package-level key "+g.Name()+" is modified in place")
						}
					}
				}
			})
			// stores to the global outside init
			eachInstr(f, func(in ssa.Instruction) {
				if st, ok := in.(*ssa.Store); ok && st.Addr == g && f.Name() != "init" {
					ob.Violate("global-key-reassigned@"+FnName(f), in.Pos(), "package-level key "+g.Name()+" is reassigned outside package initialisation")
				}
			})
		}
	}
	// key.Key literals with the system type outside package initialisation
	for _, f := range w.ModFuncs() {
		if isGenerated(f) || strings.HasSuffix(f.String(), keyRel+".init") {
			continue
		}
		eachInstr(f, func(in ssa.Instruction) {
			st, ok := in.(*ssa.Store)
			if !ok {
				return
			}
			fa, ok := st.Addr.(*ssa.FieldAddr)
			if !ok || !typeIs(fa.X.Type(), keyPath, "Key") || fieldAddrName(fa) != "KeyType" {
				return
			}
			c, ok := st.Val.(*ssa.Const)
			if !ok || c.Value == nil {
				return
			}
			v, _ := constant.Int64Val(constant.ToInt(c.Value))
			if v == sysC && f.Name() != "init" {
				ob.Violate("system-key-built@"+FnName(f), in.Pos(), "a system-type key is built outside package initialisation, in "+FnName(f))
			}
		})
	}
	ob.NeedFloor(12)
}

func storesToField(fn *ssa.Function, base ssa.Value, fld string) []*ssa.Store {
	var out []*ssa.Store
	if base.Referrers() == nil {
		return nil
	}
	for _, r := range *base.Referrers() {
		fa, ok := r.(*ssa.FieldAddr)
		if !ok || fieldAddrName(fa) != fld {
			continue
		}
		out = append(out, storesTo(fn, fa)...)
	}
	return out
}

// freshCopyOf: v must be a freshly made slice into which `copy(v, *global)` was done.
func freshCopyOf(v ssa.Value, g *ssa.Global) string {
	// look through locals / phi
	switch x := v.(type) {
	case *ssa.UnOp:
		if al, ok := x.X.(*ssa.Alloc); ok {
			for _, st := range storesTo(al.Parent(), al) {
				if _, isCall := st.Val.(*ssa.Call); isCall {
					continue // the reassignment from the increment itself
				}
				if s := freshCopyOf(st.Val, g); s != "" {
					return s
				}
			}
			return ""
		}
		if fa, ok := x.X.(*ssa.FieldAddr); ok {
			for _, st := range storesToField(x.Parent(), fa.X, fieldAddrName(fa)) {
				if _, isCall := st.Val.(*ssa.Call); isCall {
					continue
				}
				if s := freshCopyOf(st.Val, g); s != "" {
					return s
				}
			}
			return ""
		}
		if gg, ok := x.X.(*ssa.Global); ok {
			return "the package-level slice " + gg.Name() + " itself (incremented in place)"
		}
	case *ssa.MakeSlice:
		if x.Referrers() != nil {
			for _, r := range *x.Referrers() {
				if c := callOf(r); c != nil && CalleeName(c) == "builtin.copy" && c.Args[0] == ssa.Value(x) {
					if u, ok := c.Args[1].(*ssa.UnOp); ok && u.X == g {
						return ""
					}
				}
			}
		}
		// the made slice may be stored to a variable/field first and copied through a load of it
		return freshViaPlace(x, g)
	}
	return "`" + Expr(v) + "` (not a fresh copy of the maximum user key)"
}

func freshViaPlace(ms *ssa.MakeSlice, g *ssa.Global) string {
	if ms.Referrers() == nil {
		return "an uninitialised slice"
	}
	fn := ms.Parent()
	for _, r := range *ms.Referrers() {
		st, ok := r.(*ssa.Store)
		if !ok || st.Val != ssa.Value(ms) {
			continue
		}
		// find copy(load(place), *g) in the function
		place := Expr(st.Addr)
		found := false
		eachInstr(fn, func(in ssa.Instruction) {
			c := callOf(in)
			if c == nil || CalleeName(c) != "builtin.copy" {
				return
			}
			if u, ok := c.Args[0].(*ssa.UnOp); ok && Expr(u.X) == place {
				if s, ok := c.Args[1].(*ssa.UnOp); ok && s.X == g {
					found = true
				}
			}
		})
		if found {
			return ""
		}
	}
	return "a fresh slice that is not filled from the maximum user key"
}

// freshCopyFromEncoder: a made slice used as key/bound must be filled by copy from Bytes() of an encoder buffer.
func freshCopyFromEncoder(fn *ssa.Function, ms *ssa.MakeSlice, isEncodeInto func(ssa.Value) func(ssa.Instruction) bool) string {
	// copy(dst, buf.Bytes()) where dst is ms or a load of the place ms was stored to
	places := map[string]bool{}
	if ms.Referrers() != nil {
		for _, r := range *ms.Referrers() {
			if st, ok := r.(*ssa.Store); ok && st.Val == ssa.Value(ms) {
				places[Expr(st.Addr)] = true
			}
		}
	}
	res := "a fresh slice that is not filled from an encoded user key"
	eachInstr(fn, func(in ssa.Instruction) {
		c := callOf(in)
		if c == nil || CalleeName(c) != "builtin.copy" {
			return
		}
		dstOK := c.Args[0] == ssa.Value(ms)
		if u, ok := c.Args[0].(*ssa.UnOp); ok && places[Expr(u.X)] {
			dstOK = true
		}
		if !dstOK {
			return
		}
		if call, ok := c.Args[1].(*ssa.Call); ok && CalleeName(&call.Call) == "(*bytes.Buffer).Bytes" {
			buf := call.Call.Args[0]
			if p := (&Walk{Barrier: isEncodeInto(buf), Target: func(i ssa.Instruction) bool { return i == in }}).Find(entry(fn)); p == nil {
				res = ""
			}
		}
		if u, ok := c.Args[1].(*ssa.UnOp); ok {
			if g, ok := u.X.(*ssa.Global); ok && g.Name() == "maxUserKey" {
				// the wildcard bound before increment: exactly as long as the maximum key, and
				// handed to the increment before it is used (the guard of the increment is checked
				// by the increment rule)
				res = "a copy of the maximum user key used as a bound without the rightmost-byte increment: keys that extend the maximum key (1020-1024 bytes of 0xFF) lie beyond it"
				eachInstr(fn, func(x ssa.Instruction) {
					ic := plainCall(x)
					if ic == nil || StaticCallee(ic) == nil || StaticCallee(ic).Name() != "incrementRightmostByte" {
						return
					}
					a := ic.Args[0]
					if a == ssa.Value(ms) {
						res = ""
					}
					if lu, ok := a.(*ssa.UnOp); ok && places[Expr(lu.X)] {
						res = ""
					}
				})
				if e := Expr(ms.Len); res == "" && (strings.Contains(e, "+") || !strings.Contains(e, "len(")) {
					res = "a copy of the maximum user key of length `" + e + "`, not of the key's own length"
				}
			}
		}
	})
	return res
}

func classifyKeyUse(ref ssa.Instruction, v ssa.Value) string {
	switch x := ref.(type) {
	case *ssa.IndexAddr:
		if x.Referrers() != nil {
			for _, rr := range *x.Referrers() {
				if st, ok := rr.(*ssa.Store); ok && st.Addr == ssa.Value(x) {
					return "store-elem"
				}
			}
		}
		return "index-read"
	case *ssa.MakeInterface:
		return "debug"
	case *ssa.DebugRef:
		return "debug"
	case ssa.CallInstruction:
		c := x.Common()
		n := CalleeName(c)
		for i, a := range c.Args {
			if a != v {
				continue
			}
			switch {
			case n == "builtin.copy" && i == 1:
				return "copy-src"
			case n == "builtin.copy" && i == 0:
				return "mutator-arg"
			case n == "builtin.append" && i == 0:
				return "mutator-arg"
			case n == "builtin.len", n == "builtin.cap":
				return "len"
			case n == "bytes.Equal", n == "bytes.Compare":
				return "equal"
			case batchWrites[n] && i >= 1:
				return "set-key"
			}
			if cal := StaticCallee(c); cal != nil && inModule(cal) {
				if writesThroughParam(cal, i, 0) {
					return "mutator-arg"
				}
				if paramOnlyGetKey(cal, i) {
					return "index-reader-arg"
				}
				return "arg of " + FnName(cal)
			}
			return "arg of " + n
		}
	}
	return fmt.Sprintf("%T", ref)
}

// paramOnlyGetKey: the parameter is used only as the key of Reader.Get.
func paramOnlyGetKey(fn *ssa.Function, i int) bool {
	return paramOnlyGetKeyD(fn, i, 0)
}

func paramOnlyGetKeyD(fn *ssa.Function, i int, depth int) bool {
	if i >= len(fn.Params) || fn.Params[i].Referrers() == nil || depth > 2 {
		return false
	}
	ok := false
	for _, r := range *fn.Params[i].Referrers() {
		if _, isDbg := r.(*ssa.DebugRef); isDbg {
			continue
		}
		c := callOf(r)
		if c != nil && strings.HasSuffix(CalleeName(c), ").Get") && (typeIs(c.Value.Type(), pebblePath, "Reader") || c.IsInvoke()) {
			ok = true
			continue
		}
		// handed on to a module function that itself only reads under it
		if c != nil {
			if cal := StaticCallee(c); cal != nil && inModule(cal) && cal.Blocks != nil {
				passed := false
				for j, a := range c.Args {
					if a == ssa.Value(fn.Params[i]) {
						if !paramOnlyGetKeyD(cal, j, depth+1) {
							return false
						}
						passed = true
					}
				}
				if passed {
					ok = true
					continue
				}
			}
		}
		return false
	}
	return ok
}

// ---- C01.g ----
func c01Bounds(w *World, r *Report, a *FsmA, id, slug string) {
	ob := r.Ob(id, slug, "the range generator's iterator options are the result of the bounds builder, which sets LowerBound and UpperBound on every success path and chooses the wildcard bound exactly under bytes.Equal(end, wildcard); the single-key read uses Get or a prefix seek whose comparer Split is the identity", "an unbounded range read leaks bookkeeping keys; a non-exact single read returns the successor of a missing key")
	_, gens := findRangeGenerators(w)
	bounds := w.Func(fsmRel, "iterOptionsForBounds")
	if bounds == nil {
		ob.Undecided("anchor", "bounds builder not found")
		return
	}
	for _, gen := range gens {
		for _, ni := range callsIn(gen, false, pebbleNewIter...) {
			args := ni.Common().Args
			opt := args[len(args)-1]
			e := (&ExprCtx{Alias: paramAliases(w, gen)}).Expr(opt)
			ob.Site(ni.Pos(), "NewIter options "+e)
			if !strings.Contains(e, "iterOptionsForBounds(") || !strings.HasSuffix(e, "#0") {
				ob.Violate("generator-unbounded@"+FnName(gen), ni.Pos(), "the range generator opens its iterator with options `"+e+"`, not the result of the bounds builder")
			}
		}
	}
	// both bounds stored on every success path
	for _, fld := range []string{"LowerBound", "UpperBound"} {
		isStore := func(in ssa.Instruction) bool {
			st, ok := in.(*ssa.Store)
			if !ok {
				return false
			}
			fa, ok := st.Addr.(*ssa.FieldAddr)
			return ok && typeIs(fa.X.Type(), pebblePath, "IterOptions") && fieldAddrName(fa) == fld
		}
		ob.SiteS("bounds builder sets " + fld)
		if p := (&Walk{Barrier: isStore, Target: isSuccessReturn}).Find(entry(bounds)); p != nil {
			ob.Violate("bound-missing/"+fld, instrPos(p.Hit), "the bounds builder can return options without "+fld, w.PathString(p)...)
		}
	}
	// wildcard test
	gl := findBookkeepingGlobals(w)
	checkWildcard := func(fn *ssa.Function) {
		found := false
		ctx := &ExprCtx{}
		for _, b := range fn.Blocks {
			iff, ok := b.Instrs[len(b.Instrs)-1].(*ssa.If)
			if !ok {
				continue
			}
			l, ok := ctx.CondLit(iff.Cond)
			if !ok || l.Kind != "eq" || l.Neg {
				continue
			}
			if gl["wildcard"] != nil && (strings.HasSuffix(l.A, "."+gl["wildcard"].Name()) || strings.HasSuffix(l.B, "."+gl["wildcard"].Name())) {
				found = true
				ob.Site(iff.Cond.Pos(), "wildcard test "+l.String()+" in "+FnName(fn))
				// the increment must be reachable only over the true edge
				isInc := func(in ssa.Instruction) bool {
					c := plainCall(in)
					return c != nil && StaticCallee(c) != nil && StaticCallee(c).Name() == "incrementRightmostByte"
				}
				if p := (&Walk{Target: isInc, EdgeOK: func(bb *ssa.BasicBlock, k int) bool { return !(bb == b && k == 0) }}).Find(entry(fn)); p != nil {
					ob.Violate("wildcard-bound-unguarded@"+FnName(fn), instrPos(p.Hit), "the wildcard upper bound is used although range_end is not the wildcard", w.PathString(p)...)
				}
				// and the encoded bound only over the false edge
			}
		}
		if !found {
			ob.Violate("wildcard-test-missing@"+FnName(fn), fn.Pos(), "no bytes.Equal(range_end, wildcard) test in "+FnName(fn))
		}
	}
	checkWildcard(bounds)
	if hd := w.Func(fsmRel, "handleDelete"); hd != nil {
		checkWildcard(hd)
	}
	// single-key read exactness
	if sl := w.Func(fsmRel, "singleLookup"); sl != nil {
		exact := false
		eachInstr(sl, func(in ssa.Instruction) {
			c := callOf(in)
			if c == nil {
				return
			}
			n := CalleeName(c)
			switch {
			case strings.HasSuffix(n, ".Iterator).SeekPrefixGE"), strings.HasSuffix(n, ").Get"):
				exact = true
				ob.Site(in.Pos(), "single-key read uses "+shortName(n))
			case strings.HasSuffix(n, ".Iterator).SeekGE"):
				// exact only if the hit is used under an equality test of iter.Key() with the sought key
				ob.Site(in.Pos(), "single-key read uses "+shortName(n))
				sought := Expr(c.Args[1])
				ctx := &ExprCtx{}
				wk := &Walk{
					Target: func(x ssa.Instruction) bool {
						if al, ok := x.(*ssa.Alloc); ok && typeIs(al.Type(), pbPkg, "KeyValue") {
							return true
						}
						return isCallTo(x, "(*"+pebblePath+".Iterator).Value")
					},
					EdgeOK: func(b *ssa.BasicBlock, k int) bool {
						for _, l := range ctx.EdgeLits(b, k) {
							if l.Kind == "eq" && !l.Neg && strings.Contains(l.A+"|"+l.B, ".Iterator).Key(") && (l.A == sought || l.B == sought) {
								return false
							}
							// the not-found edge of the seek itself
							if l.Kind == "bool" && l.Neg && strings.Contains(l.A, ".Iterator).SeekGE(") {
								return false
							}
						}
						return true
					},
				}
				if p := wk.Find(after(in)); p != nil {
					ob.Violate("single-read-inexact", in.Pos(), "the single-key read positions with SeekGE and uses the hit without an equality test of the found key: a missing key answers with its successor", w.PathString(p)...)
				} else {
					exact = true
				}
			case strings.HasSuffix(n, ".Iterator).First"), strings.HasSuffix(n, ".Iterator).SeekLT"):
				ob.Site(in.Pos(), "single-key read uses "+shortName(n))
				ob.Violate("single-read-inexact", in.Pos(), "the single-key read positions with "+shortName(n)+": a missing key answers with its successor")
			}
		})
		if !exact {
			ob.Undecided("shape@singleLookup", "no exact positioning call found in the single-key read")
		}
	} else {
		ob.Undecided("anchor/singleLookup", "single-key read not found")
	}
	// comparer Split is the identity (len of its argument) and is what DefaultOptions installs
	if sp := w.Func("pebble", "split"); sp != nil {
		okSplit := true
		eachInstr(sp, func(in ssa.Instruction) {
			if ret, ok := in.(*ssa.Return); ok {
				if Expr(ret.Results[0]) != "len($0)" {
					okSplit = false
				}
			}
		})
		ob.Site(sp.Pos(), "comparer Split")
		if !okSplit {
			ob.Violate("split-not-identity", sp.Pos(), "the comparer's Split does not return len(key): a prefix seek is no longer an exact match")
		}
		if do := w.Func("pebble", "DefaultOptions"); do != nil {
			found := false
			eachInstr(do, func(in ssa.Instruction) {
				st, ok := in.(*ssa.Store)
				if !ok {
					return
				}
				fa, ok := st.Addr.(*ssa.FieldAddr)
				if ok && fieldAddrName(fa) == "Split" {
					if f, ok := st.Val.(*ssa.Function); ok && f == sp {
						found = true
					} else if ct, ok := st.Val.(*ssa.ChangeType); ok && ct.X == ssa.Value(sp) {
						found = true
					} else {
						ob.Violate("split-other", in.Pos(), "the comparer's Split is `"+Expr(st.Val)+"`")
					}
				}
			})
			if !found {
				ob.Violate("split-not-installed", do.Pos(), "DefaultOptions does not install the identity Split")
			}
		}
	} else {
		ob.Undecided("anchor/split", "pebble.split not found")
	}
	checkPooledEscapes(w, ob, fsmRel)
	ob.NeedFloor(6)
}

// ---- C01.h ----
func c01Exhaustive(w *World, r *Report, a *FsmA) {
	ob := r.Ob("C01.h", "h-exhaustive", "the command dispatcher compares the command type against every constant of the generated Command_CommandType enum; the transaction operation loop has a type-switch arm for every implementer of the generated RequestOp oneof", "an unhandled kind panics the apply path (dispatcher) or silently produces no response (oneof)")
	pb := w.ByPath[pbPkg]
	if pb == nil {
		ob.Undecided("anchor", "regattapb not loaded")
		return
	}
	// enum constants
	enumT, _ := pb.Types.Scope().Lookup("Command_CommandType").Type().(*types.Named)
	consts := map[int64]string{}
	for _, n := range pb.Types.Scope().Names() {
		if c, ok := pb.Types.Scope().Lookup(n).(*types.Const); ok && types.Identical(c.Type(), enumT) {
			v, _ := constant.Int64Val(c.Val())
			consts[v] = n
		}
	}
	disp := w.Func(fsmRel, "wrapCommand")
	if disp == nil {
		ob.Undecided("anchor/dispatcher", "command dispatcher not found")
	} else {
		seen := map[int64]bool{}
		eachInstr(disp, func(in ssa.Instruction) {
			bo, ok := in.(*ssa.BinOp)
			if !ok || bo.Op != token.EQL {
				return
			}
			if c, ok := bo.Y.(*ssa.Const); ok && types.Identical(c.Type(), enumT) {
				v, _ := constant.Int64Val(constant.ToInt(c.Value))
				seen[v] = true
			}
		})
		// or a lookup table: a package-level map keyed by the enum, filled at initialisation
		eachInstr(disp, func(in ssa.Instruction) {
			lk, ok := in.(*ssa.Lookup)
			if !ok {
				return
			}
			u, ok := lk.X.(*ssa.UnOp)
			if !ok {
				return
			}
			g, ok := u.X.(*ssa.Global)
			if !ok {
				return
			}
			mt, ok := g.Type().(*types.Pointer).Elem().Underlying().(*types.Map)
			if !ok || !types.Identical(mt.Key(), enumT) {
				return
			}
			if initFn := g.Pkg.Func("init"); initFn != nil {
				var stored ssa.Value
				eachInstr(initFn, func(x ssa.Instruction) {
					if st, ok := x.(*ssa.Store); ok && st.Addr == ssa.Value(g) {
						stored = st.Val
					}
				})
				eachInstr(initFn, func(x ssa.Instruction) {
					if mu, ok := x.(*ssa.MapUpdate); ok && mu.Map == stored {
						if c, ok := mu.Key.(*ssa.Const); ok && c.Value != nil {
							v, _ := constant.Int64Val(constant.ToInt(c.Value))
							seen[v] = true
						}
					}
				})
			}
		})
		for v, n := range consts {
			ob.SiteS("dispatcher case " + n)
			if !seen[v] {
				ob.Violate("dispatcher-missing/"+n, disp.Pos(), "the command dispatcher has no case for "+n)
			}
		}
	}
	// oneof arms
	oneof, _ := pb.Types.Scope().Lookup("isRequestOp_Request").Type().Underlying().(*types.Interface)
	ops := w.Func(fsmRel, "handleTxnOps")
	if oneof == nil || ops == nil {
		ob.Undecided("anchor/oneof", "RequestOp oneof or the transaction op loop not found")
	} else {
		arms := map[string]bool{}
		eachInstr(ops, func(in ssa.Instruction) {
			if ta, ok := in.(*ssa.TypeAssert); ok {
				arms[typeString(ta.AssertedType)] = true
			}
		})
		for _, t := range w.Implementers(oneof) {
			ts := typeString(t)
			ob.SiteS("oneof arm " + ts)
			if !arms[ts] {
				ob.Violate("oneof-arm-missing/"+ts, ops.Pos(), "the transaction operation loop has no arm for "+ts)
			}
		}
	}
	ob.NeedFloor(10)
}
