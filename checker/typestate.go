package main

// E4: finite forward dataflow with sets of abstract states per block (path-sensitive on
// tested results through the Edge refinement hook).

import "golang.org/x/tools/go/ssa"

type TS[S comparable] struct {
	Fn   *ssa.Function
	Init S
	// Transfer maps a state across an instruction. Returning no state kills the path.
	Transfer func(in ssa.Instruction, s S) []S
	// Edge refines / filters a state flowing from b to b.Succs[k] (after b's last instruction
	// and before the phis of the successor). ok=false: edge infeasible for this state.
	Edge func(b *ssa.BasicBlock, k int, s S) (S, bool)
	// AtReturn is called for every state reaching a Return instruction.
	AtReturn  func(ret *ssa.Return, s S)
	MaxStates int
	Overflow  bool
}

func (t *TS[S]) Run() {
	if t.MaxStates == 0 {
		t.MaxStates = 4096
	}
	in := map[*ssa.BasicBlock]map[S]bool{}
	type item struct {
		b *ssa.BasicBlock
		s S
	}
	var work []item
	push := func(b *ssa.BasicBlock, s S) {
		m := in[b]
		if m == nil {
			m = map[S]bool{}
			in[b] = m
		}
		if m[s] {
			return
		}
		if len(m) >= t.MaxStates {
			t.Overflow = true
			return
		}
		m[s] = true
		work = append(work, item{b, s})
	}
	push(t.Fn.Blocks[0], t.Init)
	for len(work) > 0 {
		it := work[len(work)-1]
		work = work[:len(work)-1]
		states := []S{it.s}
		for _, ins := range it.b.Instrs {
			if ret, ok := ins.(*ssa.Return); ok {
				if t.AtReturn != nil {
					for _, s := range states {
						t.AtReturn(ret, s)
					}
				}
				states = nil
				break
			}
			if _, ok := ins.(*ssa.Panic); ok {
				states = nil
				break
			}
			var next []S
			for _, s := range states {
				next = append(next, t.Transfer(ins, s)...)
			}
			states = next
			if len(states) == 0 {
				break
			}
		}
		for k, succ := range it.b.Succs {
			for _, s := range states {
				ns, ok := s, true
				if t.Edge != nil {
					ns, ok = t.Edge(it.b, k, s)
				}
				if ok {
					push(succ, ns)
				}
			}
		}
	}
}

// predIndex returns the index of pred among succ.Preds (for phi edge selection).
func predIndex(pred, succ *ssa.BasicBlock) int {
	for i, p := range succ.Preds {
		if p == pred {
			return i
		}
	}
	return -1
}

// inCycle reports whether block b can reach itself.
func inCycle(b *ssa.BasicBlock) bool {
	seen := map[*ssa.BasicBlock]bool{}
	var st []*ssa.BasicBlock
	st = append(st, b.Succs...)
	for len(st) > 0 {
		x := st[len(st)-1]
		st = st[:len(st)-1]
		if x == b {
			return true
		}
		if seen[x] {
			continue
		}
		seen[x] = true
		st = append(st, x.Succs...)
	}
	return false
}
