package main

// C17 — protected endpoints reject callers lacking the right token or certificate.

import (
	"go/constant"
	"go/token"
	"go/types"
	"strings"

	"golang.org/x/tools/go/ssa"
)

func init() {
	register("C17", "protected endpoints: interceptors, overrides, token comparison, TLS server config", checkC17)
}

const authPath = "github.com/grpc-ecosystem/go-grpc-middleware/v2/interceptors/auth"

func checkC17(w *World, r *Report) {
	r.Decides = "C17 is decided in its structural part only: (a) the API server's option list installs the auth interceptor for unary and for stream calls; (b) every value registered for the Maintenance and Tables services implements the middleware's ServiceAuthFuncOverride and its override returns what the server's own auth function returns; (c) the auth function at each registration is built from the token of the service's own configuration key; (d) with a non-empty token a nil error is unreachable unless the bearer token was extracted and compared equal as a whole string, and the rejecting return is Unauthenticated; (e) the TLS server configuration requires and verifies client certificates whenever a trusted CA or client-cert-auth is configured, takes ClientCAs from the trusted CA file, installs a peer verification that inspects the verified chains, fails when there is none and compares the common name exactly (or verifies the hostname), never skips verification, and both server constructions pass CA/CN/hostname from their own configuration keys; (g) the address resolver reports secure=true exactly for the https and unixs schemes, and the server constructions build their TLS configuration on that edge."
	r.NotDecided = []string{"crypto/tls and gRPC behaviour", "'has no effect' beyond 'the handler is not reachable past a failing interceptor' (middleware behaviour; audited in the thorough tier)"}
	r.Assume = []string{"go-grpc-middleware: an interceptor calls the service's AuthFuncOverride when the service implements ServiceAuthFuncOverride and does not invoke the handler when it returns an error"}
	c17Interceptors(w, r)
	c17Overrides(w, r)
	c17Compare(w, r)
	c17TLS(w, r)
	c17Schemes(w, r)
	if w.Tier == "thorough" {
		c17MiddlewareAudit(w, r)
	}
}

func c17Interceptors(w *World, r *Report) {
	ob := r.Ob("C17.a", "a-interceptors-installed", "createAPIServer's option slice contains grpc.ChainUnaryInterceptor(... auth.UnaryServerInterceptor(f) ...) and grpc.ChainStreamInterceptor(... auth.StreamServerInterceptor(f) ...) and that slice is what NewServer receives", "without the stream interceptor every streaming method of a protected service (Backup, Restore) is open")
	fn := w.Func("cmd", "createAPIServer")
	if fn == nil {
		ob.Undecided("anchor", "cmd.createAPIServer not found")
		return
	}
	var unary, stream ssa.Value
	eachInstr(fn, func(in ssa.Instruction) {
		c, ok := in.(*ssa.Call)
		if !ok {
			return
		}
		switch CalleeName(&c.Call) {
		case authPath + ".UnaryServerInterceptor":
			unary = c
		case authPath + ".StreamServerInterceptor":
			stream = c
		}
	})
	inChain := func(v ssa.Value, chain string) bool {
		if v == nil || v.Referrers() == nil {
			return false
		}
		// v stored into a varargs array passed to grpc.Chain…Interceptor whose result is stored into the option array
		for _, ref := range *v.Referrers() {
			st, ok := ref.(*ssa.Store)
			if !ok {
				continue
			}
			ia, ok := st.Addr.(*ssa.IndexAddr)
			if !ok {
				continue
			}
			al, ok := ia.X.(*ssa.Alloc)
			if !ok || al.Referrers() == nil {
				continue
			}
			for _, r2 := range *al.Referrers() {
				sl, ok := r2.(*ssa.Slice)
				if !ok || sl.Referrers() == nil {
					continue
				}
				for _, r3 := range *sl.Referrers() {
					if c, ok := r3.(*ssa.Call); ok && CalleeName(&c.Call) == "google.golang.org/grpc."+chain {
						// the option must reach NewServer's options
						if optionReachesServer(fn, c) {
							return true
						}
					}
				}
			}
		}
		return false
	}
	for _, x := range []struct {
		v     ssa.Value
		chain string
		kind  string
	}{{unary, "ChainUnaryInterceptor", "unary"}, {stream, "ChainStreamInterceptor", "stream"}} {
		if x.v == nil {
			ob.Violate("interceptor-missing/"+x.kind, fn.Pos(), "the API server does not create the "+x.kind+" auth interceptor")
			continue
		}
		ob.Site(x.v.Pos(), x.kind+" auth interceptor")
		if !inChain(x.v, x.chain) {
			ob.Violate("interceptor-not-installed/"+x.kind, x.v.Pos(), "the "+x.kind+" auth interceptor is not part of the option list handed to the server")
		}
	}
	ob.NeedFloor(2)
}

// optionReachesServer: the option value is stored into the array that is sliced and (possibly
// after appends) passed to regattaserver.NewServer.
func optionReachesServer(fn *ssa.Function, opt ssa.Value) bool {
	if opt.Referrers() == nil {
		return false
	}
	for _, ref := range *opt.Referrers() {
		st, ok := ref.(*ssa.Store)
		if !ok {
			continue
		}
		ia, ok := st.Addr.(*ssa.IndexAddr)
		if !ok {
			continue
		}
		base := Expr(ia.X)
		found := false
		eachInstr(fn, func(in ssa.Instruction) {
			if c := plainCall(in); c != nil && strings.HasSuffix(CalleeName(c), "regattaserver.NewServer") {
				e := Expr(c.Args[len(c.Args)-1])
				if strings.Contains(e, strings.TrimPrefix(base, "&")) || strings.Contains(e, "local:opts") || strings.Contains(e, "phi(") {
					found = true
				}
			}
		})
		if found {
			return true
		}
	}
	return false
}

func c17Overrides(w *World, r *Report) {
	ob := r.Ob("C17.b", "b-override-and-token", "for every call of RegisterMaintenanceServer / RegisterTablesServer in package cmd: the registered value's dynamic type implements auth.ServiceAuthFuncOverride (taken from the middleware package) and its AuthFuncOverride returns the result of calling the server's AuthFunc field; the AuthFunc field of the registered literal is authFunc(viper.GetString(K)) with K = maintenance.token / tables.token respectively", "a protected service without the override falls back to the default (allow all) auth function; a swapped key protects a service with the other service's token")
	ap := w.ByPath[authPath]
	if ap == nil {
		ob.Undecided("anchor", "auth middleware package not loaded")
		return
	}
	iface, _ := ap.Types.Scope().Lookup("ServiceAuthFuncOverride").Type().Underlying().(*types.Interface)
	if iface == nil {
		ob.Undecided("anchor/iface", "auth.ServiceAuthFuncOverride not found")
		return
	}
	wantKey := map[string]string{"RegisterMaintenanceServer": "maintenance.token", "RegisterTablesServer": "tables.token"}
	n := 0
	for _, fn := range w.ModFuncs() {
		top := fn
		for top.Parent() != nil {
			top = top.Parent()
		}
		if top.Package() == nil || top.Package().Pkg.Path() != modPath+"/cmd" {
			continue
		}
		eachInstr(fn, func(in ssa.Instruction) {
			c := plainCall(in)
			if c == nil {
				return
			}
			name := strings.TrimPrefix(CalleeName(c), pbPkg+".")
			key, ok := wantKey[name]
			if !ok {
				return
			}
			n++
			mi, ok := c.Args[1].(*ssa.MakeInterface)
			if !ok {
				ob.Violate("registered-value/"+name+"@"+FnName(fn), in.Pos(), "cannot determine the dynamic type registered with "+name)
				return
			}
			dyn := mi.X.Type()
			ob.Site(in.Pos(), name+"("+typeString(dyn)+") in "+FnName(fn))
			if !types.Implements(dyn, iface) {
				ob.Violate("override-missing/"+typeString(dyn), in.Pos(), typeString(dyn)+" is registered with "+name+" but does not implement auth.ServiceAuthFuncOverride: its methods are served with the default (allow-all) auth function")
				return
			}
			// the override's body
			ov := w.MethodOf(dyn, "AuthFuncOverride")
			if ov != nil {
				ov = unwrapPromoted(ov)
			}
			if ov == nil || ov.Blocks == nil {
				ob.Violate("override-body/"+typeString(dyn), in.Pos(), "AuthFuncOverride of "+typeString(dyn)+" has no body")
			} else {
				eachInstr(ov, func(x ssa.Instruction) {
					ret, ok := x.(*ssa.Return)
					if !ok {
						return
					}
					e := Expr(retVal(ret, 1))
					if !strings.Contains(e, ".AuthFunc(") || !strings.HasSuffix(e, "#1") {
						ob.Violate("override-drops-result/"+typeString(dyn), ret.Pos(), "AuthFuncOverride of "+typeString(dyn)+" returns error `"+e+"`, not the result of the server's auth function")
					}
				})
			}
			// token key at this registration
			tok := authFuncKeyOf(mi.X)
			ob.Site(in.Pos(), name+" token key "+tok)
			if tok != key {
				ob.Violate("token-key/"+name+"@"+FnName(fn), in.Pos(), name+" is protected with the token of `"+tok+"`, expected `"+key+"`")
			}
		})
	}
	if n < 4 {
		ob.Undecided("registrations", "expected the Maintenance and Tables services to be registered by leader and follower (4 sites), found "+itoa(n))
	}
	ob.NeedFloor(8)
}

// authFuncKeyOf: for a registered server literal, the viper key its AuthFunc field is built from.
func authFuncKeyOf(v ssa.Value) string {
	al, ok := v.(*ssa.Alloc)
	if !ok || al.Referrers() == nil {
		return "?"
	}
	res := "?"
	var visit func(base ssa.Value)
	visit = func(base ssa.Value) {
		if base.Referrers() == nil {
			return
		}
		for _, ref := range *base.Referrers() {
			fa, ok := ref.(*ssa.FieldAddr)
			if !ok {
				continue
			}
			if fieldAddrName(fa) == "AuthFunc" {
				for _, st := range storesTo(al.Parent(), fa) {
					e := Expr(st.Val)
					if i := strings.Index(e, `viper.GetString("`); i >= 0 && strings.Contains(e, "cmd.authFunc(") {
						rest := e[i+len(`viper.GetString("`):]
						if j := strings.Index(rest, `"`); j >= 0 {
							res = rest[:j]
						}
					} else {
						res = "`" + e + "`"
					}
				}
			} else {
				visit(fa) // embedded server struct
			}
		}
	}
	visit(al)
	return res
}

func c17Compare(w *World, r *Report) {
	ob := r.Ob("C17.d", "d-token-comparison", "authFunc: the empty-token edge returns a function that always returns nil; otherwise the returned closure's nil-error return is unreachable unless the configured token and the token extracted by AuthFromMD were found equal by ==/!= on the two whole strings (or subtle.ConstantTimeCompare(...) == 1); the rejecting return is status code Unauthenticated", "a prefix, case-folding or substring comparison accepts wrong tokens")
	fn := w.Func("cmd", "authFunc")
	if fn == nil {
		ob.Undecided("anchor", "cmd.authFunc not found")
		return
	}
	unauth := grpcCode(w, "Unauthenticated")
	var checking *ssa.Function
	for _, cl := range fn.AnonFuncs {
		calls := false
		eachInstr(cl, func(in ssa.Instruction) {
			if c := plainCall(in); c != nil && CalleeName(c) == authPath+".AuthFromMD" {
				calls = true
			}
		})
		if calls {
			checking = cl
		}
	}
	if checking == nil {
		ob.Violate("no-token-check", fn.Pos(), "authFunc no longer returns a closure that extracts the bearer token")
		return
	}
	// the checking closure is returned only when token != ""
	ctx := &ExprCtx{}
	eachInstr(fn, func(in ssa.Instruction) {
		ret, ok := in.(*ssa.Return)
		if !ok {
			return
		}
		v := retVal(ret, 0)
		isChecking := false
		if mc, ok := v.(*ssa.MakeClosure); ok && mc.Fn == ssa.Value(checking) {
			isChecking = true
		}
		ob.Site(ret.Pos(), "authFunc returns "+Expr(v))
		if !isChecking {
			// the allow-all function: only on the token == "" edge
			wk := &Walk{Target: func(x ssa.Instruction) bool { return x == in }, EdgeOK: func(b *ssa.BasicBlock, k int) bool {
				for _, l := range ctx.EdgeLits(b, k) {
					if l.Kind == "eq" && !l.Neg && (l.A == `""` || l.B == `""`) && (l.A == "$0" || l.B == "$0") {
						return false
					}
					if l.Kind == "int" && l.Terms == "len($0)" && l.Lo == 0 && l.Hi == 0 {
						return false
					}
				}
				return true
			}}
			if p := wk.Find(entry(fn)); p != nil {
				ob.Violate("allow-all-with-token", ret.Pos(), "authFunc can return the allow-all function although a token is configured", w.PathString(p)...)
			}
		}
	})
	// inside the checking closure
	cctx := &ExprCtx{}
	var md ssa.Value
	eachInstr(checking, func(in ssa.Instruction) {
		if c := plainCall(in); c != nil && CalleeName(c) == authPath+".AuthFromMD" {
			md = in.(ssa.Value)
			if s, ok := c.Args[1].(*ssa.Const); !ok || s.Value == nil || strings.ToLower(constant.StringVal(s.Value)) != "bearer" {
				ob.Violate("scheme", in.Pos(), "the token is not taken from the bearer scheme")
			}
		}
	})
	cctx.Alias = map[ssa.Value]string{md: "md"}
	tokensEqual := func(l Lit) bool {
		if l.Kind == "eq" && !l.Neg {
			a, b := l.A, l.B
			// the configured token as a whole (the captured parameter itself, not a slice of it)
			whole := func(x string) bool { return strings.HasPrefix(x, "^") && !strings.ContainsAny(x, "[(+") }
			return (a == "md#0" && whole(b)) || (b == "md#0" && whole(a))
		}
		if l.Kind == "int" && !l.IsNE && l.Lo == 1 && l.Hi == 1 && strings.HasPrefix(l.Terms, "crypto/subtle.ConstantTimeCompare(") && strings.Contains(l.Terms, "md#0") {
			// both operands whole: a sliced or indexed operand compares a prefix / part only
			return !strings.Contains(l.Terms, "[")
		}
		return false
	}
	mdOK := func(l Lit) bool { return l.Kind == "eq" && !l.Neg && l.B == "nil" && l.A == "md#1" }
	eachInstr(checking, func(in ssa.Instruction) {
		ret, ok := in.(*ssa.Return)
		if !ok {
			return
		}
		if isErrorReturn(ret) {
			// rejecting returns: the one on the mismatch edge must be Unauthenticated
			if code := statusCodeOf(retVal(ret, 1)); code >= 0 {
				ob.Site(ret.Pos(), "rejecting return with status code "+itoa(int(code)))
				if code != unauth {
					ob.Violate("reject-code", ret.Pos(), "a wrong token is rejected with status code "+itoa(int(code))+", not Unauthenticated")
				}
			}
			return
		}
		ob.Site(ret.Pos(), "accepting return")
		tgt := func(x ssa.Instruction) bool { return x == in }
		// (a failed extraction yields the empty string, which never equals a non-empty configured
		// token: testing the extraction error separately is not required)
		_ = mdOK
		unreachableUnlessAny(w, ob, cctx, entry(checking), tgt, "accept-without-equal-token", "a call can be accepted without the presented token having been found equal to the configured one as a whole string", tokensEqual)
	})
	ob.NeedFloor(4)
}

func c17TLS(w *World, r *Report) {
	ob := r.Ob("C17.e", "e-tls-server-config", "TLSInfo.ServerConfig: ClientAuth is set to RequireAndVerifyClientCert on the edge TrustedCAFile != \"\" or ClientCertAuth and never to a weaker constant afterwards; ClientCAs comes from the CA file list, which contains TrustedCAFile; baseConfig installs VerifyPeerCertificate whenever AllowedCN or AllowedHostname is set; that function reads only its verified-chains parameter, returns an error when no chain exists, and the per-certificate check returns an error on AllowedCN != Subject.CommonName / on a VerifyHostname error; InsecureSkipVerify is never stored on the server path; createAPIServer and createReplicationServer fill TrustedCAFile, ClientCertAuth, AllowedCN and AllowedHostname from their own configuration keys", "any weakening accepts clients without a certificate, with a certificate of another CA, or with another common name")
	sc := w.Func("security", "TLSInfo.ServerConfig")
	bc := w.Func("security", "TLSInfo.baseConfig")
	if sc == nil || bc == nil {
		ob.Undecided("anchor", "security.TLSInfo.ServerConfig/baseConfig not found")
		return
	}
	tlsC := func(n string) int64 {
		p := w.ByPath["crypto/tls"]
		if p == nil {
			return -1
		}
		c, ok := p.Types.Scope().Lookup(n).(*types.Const)
		if !ok {
			return -1
		}
		v, _ := constant.Int64Val(c.Val())
		return v
	}
	require := tlsC("RequireAndVerifyClientCert")
	ctx := &ExprCtx{}
	// ClientAuth stores
	var strong []ssa.Instruction
	eachInstr(sc, func(in ssa.Instruction) {
		st, ok := in.(*ssa.Store)
		if !ok {
			return
		}
		fa, ok := st.Addr.(*ssa.FieldAddr)
		if !ok || !typeIs(fa.X.Type(), "crypto/tls", "Config") {
			return
		}
		switch fieldAddrName(fa) {
		case "ClientAuth":
			v, isC := constInt(st.Val)
			ob.Site(in.Pos(), "ClientAuth = "+Expr(st.Val))
			if isC && v == require {
				strong = append(strong, in)
			} else if !isC {
				ob.Violate("clientauth-dynamic", in.Pos(), "ClientAuth is set to `"+Expr(st.Val)+"`")
			}
		case "InsecureSkipVerify":
			ob.Violate("server-skips-verify", in.Pos(), "the server configuration stores InsecureSkipVerify")
		case "ClientCAs":
			e := Expr(st.Val)
			ob.Site(in.Pos(), "ClientCAs = "+e)
			// the pool of the CA file list: the list helper's result, or a list that is written
			// out and holds the trusted CA file
			okSrc := strings.Contains(e, "NewCertPool(") && strings.Contains(e, "cafiles(")
			if !okSrc && strings.Contains(e, "NewCertPool(") {
				if ex, ok := st.Val.(*ssa.Extract); ok {
					if call, ok := ex.Tuple.(*ssa.Call); ok && len(call.Call.Args) == 1 {
						for _, v := range sliceLiteralValues(call.Call.Args[0]) {
							if strings.HasSuffix(Expr(v), ".TrustedCAFile") {
								okSrc = true
							}
						}
					}
				}
			}
			if !okSrc {
				ob.Violate("clientcas-source", in.Pos(), "ClientCAs is `"+e+"`, not the pool of the configured CA files")
			}
		}
	})
	if len(strong) == 0 {
		ob.Violate("clientauth-never-required", sc.Pos(), "ServerConfig never requires and verifies client certificates")
	}
	// the server's session tickets are its own: with ticket keys that several endpoints share
	// (derived from the key file) a client accepted by one endpoint resumes its session on another,
	// and crypto/tls runs neither VerifyPeerCertificate nor the client-CA check on a resumed session
	for _, f := range []*ssa.Function{sc, w.Func("security", "TLSInfo.baseConfig")} {
		if f == nil {
			continue
		}
		for _, g := range withClosures(f) {
			eachInstr(g, func(in ssa.Instruction) {
				if c := callOf(in); c != nil && strings.HasSuffix(CalleeName(c), "tls.Config).SetSessionTicketKeys") {
					ob.Violate("shared-session-tickets", in.Pos(), FnName(g)+" installs session ticket keys: endpoints that share them (API and replication, two nodes with one certificate) resume each other's sessions without re-checking the client certificate against their own CA and allowed name")
				}
				if st, ok := in.(*ssa.Store); ok {
					if fa, ok := st.Addr.(*ssa.FieldAddr); ok && typeIs(deref(fa.X.Type()), "crypto/tls", "Config") && fieldAddrName(fa) == "SessionTicketKey" {
						ob.Violate("shared-session-tickets", in.Pos(), FnName(g)+" sets a fixed session ticket key")
					}
				}
			})
		}
	}
	// the pool handed out for the CA files is never nil: a nil ClientCAs makes crypto/tls verify
	// client certificates against the host's system roots
	if np := w.Func("security", "NewCertPool"); np != nil {
		ei := errorResultIndex(np)
		eachInstr(np, func(in ssa.Instruction) {
			ret, ok := in.(*ssa.Return)
			if !ok || isErrorReturn(ret) || len(ret.Results) < 2 || ei != 1 {
				return
			}
			v := retVal(ret, 0)
			ob.Site(ret.Pos(), "NewCertPool returns "+Expr(v))
			var nonNil func(v ssa.Value, d int) bool
			nonNil = func(v ssa.Value, d int) bool {
				if d > 6 {
					return false
				}
				switch x := v.(type) {
				case *ssa.Call:
					return CalleeName(&x.Call) == "crypto/x509.NewCertPool" || freshNonNil(x, 0)
				case *ssa.Phi:
					for _, e := range x.Edges {
						if e != ssa.Value(x) && !nonNil(e, d+1) {
							return false
						}
					}
					return true
				case *ssa.UnOp:
					if al, ok := x.X.(*ssa.Alloc); ok && x.Op == token.MUL && al.Parent() != nil {
						sts := storesTo(al.Parent(), al)
						if len(sts) == 0 {
							return false
						}
						for _, st := range sts {
							if !nonNil(st.Val, d+1) {
								return false
							}
						}
						return true
					}
				}
				return freshNonNil(v, 0)
			}
			if !nonNil(v, 0) {
				ob.Violate("ca-pool-may-be-nil", ret.Pos(), "NewCertPool can succeed with a pool that is not provably non-nil (`"+Expr(v)+"`): with a nil ClientCAs the server verifies client certificates against the system roots - any certificate of a public CA is accepted")
			}
		})
	} else {
		ob.Violate("ca-pool-anchor", sc.Pos(), "security.NewCertPool not found")
	}
	// on every path where TrustedCAFile != "" or ClientCertAuth holds, a success return must be preceded by the strong store
	// and no weaker store may follow the strong one
	for _, s := range strong {
		eachInstr(sc, func(in ssa.Instruction) {
			st, ok := in.(*ssa.Store)
			if !ok || in == s {
				return
			}
			if fa, ok := st.Addr.(*ssa.FieldAddr); ok && fieldAddrName(fa) == "ClientAuth" {
				if p := (&Walk{Target: func(x ssa.Instruction) bool { return x == in }}).Find(after(s)); p != nil {
					ob.Violate("clientauth-weakened", in.Pos(), "ClientAuth is overwritten after it was set to RequireAndVerifyClientCert")
				}
			}
		})
	}
	for _, b := range sc.Blocks {
		for k := range b.Succs {
			for _, l := range ctx.EdgeLits(b, k) {
				isCA := l.Kind == "eq" && l.Neg && (l.A == `""` || l.B == `""`) && strings.HasSuffix(l.A+l.B, ".TrustedCAFile") || (l.Kind == "eq" && l.Neg && strings.Contains(l.A+"|"+l.B, ".TrustedCAFile") && strings.Contains(l.A+"|"+l.B, `""`))
				isAuth := l.Kind == "bool" && !l.Neg && strings.HasSuffix(l.A, ".ClientCertAuth")
				if !isCA && !isAuth {
					continue
				}
				ob.Site(blockPos(b.Succs[k]), "edge "+l.String())
				isStrong := func(x ssa.Instruction) bool { return containsInstr(strong, x) }
				// the requirement may also have been set on every way to this edge already
				succ := b.Succs[k]
				bb, kk := b, k
				before := (&Walk{Barrier: isStrong, Target: func(x ssa.Instruction) bool { return x == succ.Instrs[0] },
					EdgeOK: func(pb *ssa.BasicBlock, pk int) bool { return pb.Succs[pk] != succ || (pb == bb && pk == kk) }}).Find(entry(sc)) == nil
				if before {
					continue
				}
				if p := (&Walk{Barrier: isStrong, Target: isSuccessReturn, SeedB: b, SeedK: k}).Find(Loc{b.Succs[k], 0}); p != nil {
					ob.Violate("clientauth-not-required", blockPos(b.Succs[k]), "with `"+l.String()+"` ServerConfig can succeed without requiring a verified client certificate", w.PathString(p)...)
				}
			}
		}
	}
	// cafiles contains TrustedCAFile
	if cf := w.Func("security", "TLSInfo.cafiles"); cf != nil {
		okCA := false
		eachInstr(cf, func(in ssa.Instruction) {
			if c := plainCall(in); c != nil && CalleeName(c) == "builtin.append" {
				for _, v := range appendedValues(c) {
					if strings.HasSuffix(Expr(v), ".TrustedCAFile") {
						okCA = true
					}
				}
			}
		})
		if !okCA {
			ob.Violate("cafiles", cf.Pos(), "the CA file list does not contain TrustedCAFile")
		}
	}
	// VerifyPeerCertificate installed whenever CN/hostname configured. The per-certificate check may
	// be chosen in baseConfig itself or in a helper of the package that returns it.
	scope := []*ssa.Function{bc}
	eachInstr(bc, func(in ssa.Instruction) {
		if c := plainCall(in); c != nil {
			if cal := StaticCallee(c); cal != nil && cal.Blocks != nil && cal.Pkg == bc.Pkg && cal != sc {
				dup := false
				for _, f := range scope {
					dup = dup || f == cal
				}
				if !dup {
					scope = append(scope, cal)
				}
			}
		}
	})
	var perCert []*ssa.Function
	for _, f := range scope {
		for _, cl := range f.AnonFuncs {
			if len(cl.Params) == 1 && typeIs(cl.Params[0].Type(), "crypto/x509", "Certificate") {
				perCert = append(perCert, cl)
			}
		}
	}
	// a check may also be a method used as a value (t.verifyCN): the bound-method wrapper stands
	// for the method it calls
	boundOf := map[*ssa.Function]*ssa.Function{} // wrapper → method
	for _, f := range scope {
		eachInstr(f, func(in ssa.Instruction) {
			mc, ok := in.(*ssa.MakeClosure)
			if !ok {
				return
			}
			wf, ok := mc.Fn.(*ssa.Function)
			if !ok || !strings.HasPrefix(wf.Synthetic, "bound method wrapper") {
				return
			}
			var target *ssa.Function
			eachInstr(wf, func(x ssa.Instruction) {
				if c := callOf(x); c != nil {
					if t, ok := c.Value.(*ssa.Function); ok && t.Blocks != nil && inModule(t) {
						target = t
					}
				}
			})
			if target == nil || target.Signature.Params().Len() != 1 || !typeIs(target.Signature.Params().At(0).Type(), "crypto/x509", "Certificate") {
				return
			}
			boundOf[wf] = target
			dup := false
			for _, g := range perCert {
				dup = dup || g == target
			}
			if !dup {
				perCert = append(perCert, target)
			}
		})
	}
	isPerCert := func(v ssa.Value) bool {
		mc, ok := v.(*ssa.MakeClosure)
		if !ok {
			return false
		}
		if wf, ok := mc.Fn.(*ssa.Function); ok && boundOf[wf] != nil {
			return true
		}
		for _, f := range perCert {
			if mc.Fn == ssa.Value(f) {
				return true
			}
		}
		return false
	}
	var vpcStore ssa.Instruction
	var vpcFn *ssa.Function
	eachInstr(bc, func(in ssa.Instruction) {
		st, ok := in.(*ssa.Store)
		if !ok {
			return
		}
		if fa, ok := st.Addr.(*ssa.FieldAddr); ok && fieldAddrName(fa) == "VerifyPeerCertificate" {
			vpcStore = in
			if mc, ok := st.Val.(*ssa.MakeClosure); ok {
				vpcFn, _ = mc.Fn.(*ssa.Function)
			}
		}
		if fa, ok := st.Addr.(*ssa.FieldAddr); ok && fieldAddrName(fa) == "InsecureSkipVerify" {
			ob.Violate("base-skips-verify", in.Pos(), "the base configuration stores InsecureSkipVerify")
		}
	})
	if vpcStore == nil || vpcFn == nil {
		ob.Violate("no-peer-verification", bc.Pos(), "baseConfig does not install VerifyPeerCertificate")
	} else {
		ob.Site(vpcStore.Pos(), "VerifyPeerCertificate installed")
		// the installation may be guarded by `check != nil`, check being a function variable assigned
		// on the AllowedCN / AllowedHostname edges, or the function a helper returned
		var guardIf *ssa.If
		var guardVar *ssa.Alloc
		var guardCall *ssa.Call
		var guardPhi *ssa.Phi
		for _, b := range bc.Blocks {
			iff, ok := b.Instrs[len(b.Instrs)-1].(*ssa.If)
			if !ok {
				continue
			}
			bo, ok := iff.Cond.(*ssa.BinOp)
			if !ok || !isNilConst(bo.Y) || bo.Op != token.NEQ {
				continue
			}
			if _, isSig := bo.X.Type().Underlying().(*types.Signature); !isSig || !b.Succs[0].Dominates(vpcStore.Block()) {
				continue
			}
			if u, ok := bo.X.(*ssa.UnOp); ok {
				if al, ok := u.X.(*ssa.Alloc); ok {
					guardIf, guardVar = iff, al
					// a captured variable that holds what a helper returned
					for _, st := range storesTo(bc, al) {
						sv := st.Val
						if ex, ok := sv.(*ssa.Extract); ok {
							sv = ex.Tuple
						}
						if call, ok := sv.(*ssa.Call); ok && StaticCallee(&call.Call) != nil {
							guardCall = call
						}
					}
				}
			}
			v := bo.X
			if ex, ok := v.(*ssa.Extract); ok {
				v = ex.Tuple
			}
			if call, ok := v.(*ssa.Call); ok && StaticCallee(&call.Call) != nil {
				guardIf, guardCall = iff, call
			}
			if phi, ok := bo.X.(*ssa.Phi); ok {
				// a value merged from the configuration branches (a helper inlined by the normaliser)
				guardIf, guardPhi = iff, phi
			}
		}
		if guardIf != nil {
			ob.Site(guardIf.Pos(), "peer verification installed when the certificate check is non-nil")
			// nothing else stands between a non-nil check and the installation
			isV := func(x ssa.Instruction) bool { return x == vpcStore }
			if p := (&Walk{Barrier: isV, Target: isSuccessReturn}).Find(Loc{guardIf.Block().Succs[0], 0}); p != nil {
				ob.Violate("peer-verification-skipped/guard", guardIf.Pos(), "with a certificate check configured baseConfig can still succeed without installing the peer verification (a further condition stands between them)", w.PathString(p)...)
			}
			// and no success return avoids the test
			if p := (&Walk{Barrier: func(x ssa.Instruction) bool { return x == ssa.Instruction(guardIf) }, Target: isSuccessReturn}).Find(entry(bc)); p != nil {
				ob.Violate("peer-verification-skipped/bypass", instrPos(p.Hit), "baseConfig can succeed without reaching the test that installs the peer verification", w.PathString(p)...)
			}
		}
		for _, fld := range []string{"AllowedCN", "AllowedHostname"} {
			nEdges := 0
			for _, g := range scope {
				for _, b := range g.Blocks {
					for k := range b.Succs {
						for _, l := range ctx.EdgeLits(b, k) {
							if !(l.Kind == "eq" && l.Neg && strings.Contains(l.A+"|"+l.B, "."+fld) && strings.Contains(l.A+"|"+l.B, `""`)) {
								continue
							}
							nEdges++
							switch {
							case guardIf != nil && guardVar != nil && g == bc && singleNonClosureStore(bc, guardVar) != nil:
								// the tested variable is assigned once, from a value merged from the
								// configuration branches (a helper's result after inlining): on every path
								// from this edge to the test that value is one of the per-certificate checks
								v := singleNonClosureStore(bc, guardVar).Val
								for _, path := range enumPathsTo(b.Succs[k], guardIf.Block(), 4000) {
									if !pathFeasible(path) {
										continue
									}
									rv := resolveAlong(v, path, len(path)-1)
									for d := 0; d < 4; d++ {
										// looked through single-assignment locals
										u, ok := rv.(*ssa.UnOp)
										if !ok {
											break
										}
										al, ok := u.X.(*ssa.Alloc)
										if !ok {
											break
										}
										sts := storesTo(bc, al)
										if len(sts) != 1 {
											break
										}
										rv = resolveAlong(sts[0].Val, path, len(path)-1)
									}
									if !isPerCert(rv) {
										ob.Violate("peer-verification-skipped/"+fld, blockPos(b.Succs[k]), "with "+fld+" configured the value tested before installing the peer verification can be `"+Expr(rv)+"`, not a certificate check")
										break
									}
								}
							case guardIf != nil && guardPhi != nil && g == bc:
								// on every path from this edge to the test the merged value is one of
								// the per-certificate checks
								n := 0
								for _, path := range enumPathsTo(b.Succs[k], guardIf.Block(), 4000) {
									if !pathFeasible(path) {
										continue
									}
									n++
									rv := resolveAlong(guardPhi, path, len(path)-1)
									for d := 0; d < 4; d++ {
										u, ok := rv.(*ssa.UnOp)
										if !ok {
											break
										}
										al, ok := u.X.(*ssa.Alloc)
										if !ok {
											break
										}
										sts := storesTo(bc, al)
										if len(sts) != 1 {
											break
										}
										rv = resolveAlong(sts[0].Val, path, len(path)-1)
									}
									if !isPerCert(rv) {
										ob.Violate("peer-verification-skipped/"+fld, blockPos(b.Succs[k]), "with "+fld+" configured the value tested before installing the peer verification can be `"+Expr(rv)+"`, not a certificate check")
										break
									}
								}
								if n == 0 {
									// the edge only leads to error returns (the two options exclude each other)
									if p := (&Walk{Target: isSuccessReturn}).Find(Loc{b.Succs[k], 0}); p != nil {
										ob.Violate("peer-verification-skipped/"+fld, blockPos(b.Succs[k]), "with "+fld+" configured baseConfig can succeed without reaching the test that installs the peer verification")
									}
								}
							case guardIf != nil && guardVar != nil && g == bc:
								isAssign := func(x ssa.Instruction) bool {
									st, ok := x.(*ssa.Store)
									if !ok || st.Addr != ssa.Value(guardVar) {
										return false
									}
									return isPerCert(st.Val)
								}
								if p := (&Walk{Barrier: isAssign, Target: func(x ssa.Instruction) bool { return x == ssa.Instruction(guardIf) }}).Find(Loc{b.Succs[k], 0}); p != nil {
									ob.Violate("peer-verification-skipped/"+fld, blockPos(b.Succs[k]), "with "+fld+" configured the certificate check is not assigned before the test that installs the peer verification", w.PathString(p)...)
								}
							case guardIf != nil && guardCall != nil && g == StaticCallee(&guardCall.Call):
								// the helper returns the check: on every path from this edge to a success
								// return the value returned is one of the per-certificate checks
								idx := 0
								if ex, ok := guardIf.Cond.(*ssa.BinOp).X.(*ssa.Extract); ok {
									idx = ex.Index
								}
								if guardVar != nil {
									for _, st := range storesTo(bc, guardVar) {
										if ex, ok := st.Val.(*ssa.Extract); ok {
											idx = ex.Index
										}
									}
								}
								for _, path := range enumPaths(b.Succs[k], 4000) {
									if !pathFeasible(path) {
										continue
									}
									last := path[len(path)-1]
									ret, ok := last.Instrs[len(last.Instrs)-1].(*ssa.Return)
									if !ok || isErrorReturn(ret) || idx >= len(ret.Results) {
										continue
									}
									rv := resolveAlong(retVal(ret, idx), path, len(path)-1)
									if !isPerCert(rv) {
										ob.Violate("peer-verification-skipped/"+fld, ret.Pos(), "with "+fld+" configured "+FnName(g)+" can return `"+Expr(rv)+"` instead of a certificate check: the peer verification is not installed")
										break
									}
								}
							case g == bc:
								isV := func(x ssa.Instruction) bool { return x == vpcStore }
								if p := (&Walk{Barrier: isV, Target: isSuccessReturn}).Find(Loc{b.Succs[k], 0}); p != nil {
									ob.Violate("peer-verification-skipped/"+fld, blockPos(b.Succs[k]), "with "+fld+" configured baseConfig can succeed without installing the peer verification", w.PathString(p)...)
								}
							default:
								ob.Undecided("peer-verification-shape/"+fld, "the "+fld+" test sits in "+FnName(g)+", whose result is not what guards the installation")
							}
						}
					}
				}
			}
			if nEdges == 0 {
				ob.Violate("peer-verification-skipped/"+fld, bc.Pos(), "no test of "+fld+" decides about the peer verification")
			}
		}
		// the verification function: uses only verified chains (param 1), errors when none
		if len(vpcFn.Params) == 2 {
			raw := vpcFn.Params[0]
			if raw.Referrers() != nil {
				for _, ref := range *raw.Referrers() {
					if _, isDbg := ref.(*ssa.DebugRef); isDbg {
						continue
					}
					// counting them (for a log line) looks at none of them
					if c, isCall := ref.(*ssa.Call); isCall && CalleeName(&c.Call) == "builtin.len" {
						continue
					}
					ob.Violate("verifies-raw-certs", ref.Pos(), "the peer verification inspects the raw (unverified) certificates")
				}
			}
			eachInstr(vpcFn, func(in ssa.Instruction) {
				ret, ok := in.(*ssa.Return)
				if !ok {
					return
				}
				v := retVal(ret, 0)
				if isNilConst(v) {
					ob.Violate("verification-accepts-unconditionally", ret.Pos(), "the peer verification can return nil without having checked a verified certificate")
					return
				}
				ob.Site(ret.Pos(), "peer verification returns "+Expr(v))
			})
		}
		// per-certificate checks
		ncn, nhost := 0, 0
		for _, cl := range perCert {
			cctx := &ExprCtx{}
			for _, b := range cl.Blocks {
				for k := range b.Succs {
					for _, l := range cctx.EdgeLits(b, k) {
						if l.Kind == "eq" && strings.Contains(l.A+"|"+l.B, ".AllowedCN") && strings.Contains(l.A+"|"+l.B, ".Subject.CommonName") {
							ncn++
							ob.Site(blockPos(b.Succs[k]), "CN comparison "+l.String())
							if l.Neg {
								// on the unequal edge only error returns
								for _, in := range (&Walk{}).ReachableInstrs(Loc{b.Succs[k], 0}) {
									if ret, ok := in.(*ssa.Return); ok && isNilConst(retVal(ret, 0)) {
										ob.Violate("cn-mismatch-accepted", ret.Pos(), "a certificate whose common name differs is accepted")
									}
								}
							}
						}
					}
				}
			}
			eachInstr(cl, func(in ssa.Instruction) {
				if c := plainCall(in); c != nil && strings.HasSuffix(CalleeName(c), "x509.Certificate).VerifyHostname") {
					nhost++
					ob.Site(in.Pos(), "hostname verification "+Expr(c.Args[1]))
					if !strings.HasSuffix(Expr(c.Args[1]), ".AllowedHostname") {
						ob.Violate("hostname-arg", in.Pos(), "the hostname verified is `"+Expr(c.Args[1])+"`")
					}
					hv := in.(ssa.Value)
					hctx := &ExprCtx{Alias: map[ssa.Value]string{hv: "vh"}}
					for _, b := range cl.Blocks {
						for k := range b.Succs {
							for _, l := range hctx.EdgeLits(b, k) {
								if l.Kind == "eq" && l.Neg && l.B == "nil" && l.A == "vh" {
									for _, x := range (&Walk{}).ReachableInstrs(Loc{b.Succs[k], 0}) {
										if ret, ok := x.(*ssa.Return); ok && isNilConst(retVal(ret, 0)) {
											ob.Violate("hostname-mismatch-accepted", ret.Pos(), "a certificate failing hostname verification is accepted")
										}
									}
								}
							}
						}
					}
				}
			})
			// a CN check via prefix/fold is not equality
			eachInstr(cl, func(in ssa.Instruction) {
				if c := plainCall(in); c != nil {
					n := CalleeName(c)
					if n == "strings.HasPrefix" || n == "strings.EqualFold" || n == "strings.Contains" || n == "strings.HasSuffix" {
						ob.Violate("cn-not-exact", in.Pos(), "the certificate check uses "+n+": not an exact comparison")
					}
				}
			})
		}
		if ncn == 0 {
			ob.Violate("cn-check-missing", bc.Pos(), "no exact comparison of AllowedCN with the certificate's common name")
		}
		if nhost == 0 {
			ob.Violate("hostname-check-missing", bc.Pos(), "no VerifyHostname check for AllowedHostname")
		}
	}
	// constructions in cmd
	wantKeys := map[string]map[string]string{
		"createAPIServer":         {"TrustedCAFile": "api.ca-filename", "ClientCertAuth": "api.client-cert-auth", "AllowedCN": "api.allowed-cn", "AllowedHostname": "api.allowed-hostname"},
		"createReplicationServer": {"TrustedCAFile": "replication.ca-filename", "ClientCertAuth": "replication.client-cert-auth", "AllowedCN": "replication.allowed-cn", "AllowedHostname": "replication.allowed-hostname"},
	}
	for fname, keys := range wantKeys {
		fn := w.Func("cmd", fname)
		if fn == nil {
			ob.Undecided("anchor/"+fname, "cmd."+fname+" not found")
			continue
		}
		got := map[string]string{}
		eachInstr(fn, func(in ssa.Instruction) {
			st, ok := in.(*ssa.Store)
			if !ok {
				return
			}
			fa, ok := st.Addr.(*ssa.FieldAddr)
			if !ok || !typeIs(fa.X.Type(), modPath+"/security", "TLSInfo") {
				return
			}
			got[fieldAddrName(fa)] = Expr(st.Val)
		})
		usesServerConfig := false
		eachInstr(fn, func(in ssa.Instruction) {
			if c := plainCall(in); c != nil && strings.HasSuffix(CalleeName(c), "TLSInfo).ServerConfig") {
				usesServerConfig = true
			}
		})
		if !usesServerConfig {
			ob.Violate("server-config-not-used@"+fname, fn.Pos(), fname+" does not build its TLS configuration with ServerConfig")
		}
		for fld, key := range keys {
			e := got[fld]
			ob.SiteS(fname + ": TLSInfo." + fld + " = " + e)
			if !strings.Contains(e, `"`+key+`"`) {
				ob.Violate("tls-option/"+fld+"@"+fname, fn.Pos(), fname+" sets TLSInfo."+fld+" from `"+e+"`, expected configuration key "+key)
			}
		}
	}
	ob.NeedFloor(14)
}

// c17MiddlewareAudit (thorough): the pinned go-grpc-middleware interceptors type-assert the
// override interface and return before the handler when the auth function fails.
func c17MiddlewareAudit(w *World, r *Report) {
	ob := r.Ob("C17.f", "f-middleware-audit", "assumption audit on the pinned dependency source: auth.UnaryServerInterceptor and auth.StreamServerInterceptor type-assert info.Server / srv to ServiceAuthFuncOverride, call its AuthFuncOverride, and from the error edge of the auth call the handler invocation is unreachable", "this is the dependency fact C17.b rests on")
	ob.Tier = "thorough"
	ap := w.ByPath[authPath]
	if ap == nil {
		ob.Undecided("anchor", "auth middleware not loaded")
		return
	}
	sp := w.Prog.Package(ap.Types)
	for _, name := range []string{"UnaryServerInterceptor", "StreamServerInterceptor"} {
		fn := sp.Func(name)
		if fn == nil || len(fn.AnonFuncs) == 0 {
			ob.Undecided("shape/"+name, name+" has no closure")
			continue
		}
		cl := fn.AnonFuncs[0]
		asserts, override := false, false
		var authCalls []ssa.Value
		var handler ssa.Instruction
		eachInstr(cl, func(in ssa.Instruction) {
			if ta, ok := in.(*ssa.TypeAssert); ok && strings.HasSuffix(typeString(ta.AssertedType), "ServiceAuthFuncOverride") {
				asserts = true
			}
			if c := plainCall(in); c != nil {
				if c.IsInvoke() && c.Method.Name() == "AuthFuncOverride" {
					override = true
					authCalls = append(authCalls, in.(ssa.Value))
				} else if !c.IsInvoke() && StaticCallee(c) == nil && CalleeName(c) == "" {
					// dynamic call: either authFunc(ctx) or handler(...)
					sig := c.Signature()
					if sig.Results().Len() == 2 && sig.Params().Len() == 1 {
						authCalls = append(authCalls, in.(ssa.Value))
					} else {
						handler = in
					}
				}
			}
		})
		ob.Site(cl.Pos(), name+": asserts override="+map[bool]string{true: "yes", false: "no"}[asserts]+" calls override="+map[bool]string{true: "yes", false: "no"}[override])
		if !asserts || !override {
			ob.Violate("middleware-no-override/"+name, cl.Pos(), name+" of the pinned middleware does not dispatch to ServiceAuthFuncOverride")
		}
		if handler == nil {
			ob.Undecided("middleware-handler/"+name, "handler invocation not recognised in "+name)
			continue
		}
		// from the error edge of the (phi of) auth results the handler is unreachable
		ctx := &ExprCtx{}
		for _, b := range cl.Blocks {
			for k := range b.Succs {
				for _, l := range ctx.EdgeLits(b, k) {
					if l.Kind == "eq" && l.Neg && l.B == "nil" && (strings.Contains(l.A, "AuthFuncOverride(") || strings.Contains(l.A, "#1")) {
						if p := (&Walk{Target: func(x ssa.Instruction) bool { return x == handler }}).Find(Loc{b.Succs[k], 0}); p != nil {
							ob.Violate("middleware-handler-after-error/"+name, instrPos(handler), "the handler is reachable from the auth error edge in "+name)
						}
					}
				}
			}
		}
	}
	ob.NeedFloor(2)
}

// singleNonClosureStore: the variable has exactly one store and it is not a closure literal.
func singleNonClosureStore(fn *ssa.Function, al *ssa.Alloc) *ssa.Store {
	sts := storesTo(fn, al)
	if len(sts) != 1 {
		return nil
	}
	if _, isCl := sts[0].Val.(*ssa.MakeClosure); isCl {
		return nil
	}
	return sts[0]
}

// sliceLiteralValues: the elements of a slice literal `[]T{a, b}` (a slice of a fresh array with
// element stores), or what was appended to a fresh slice.
func sliceLiteralValues(v ssa.Value) []ssa.Value {
	var out []ssa.Value
	if sl, ok := v.(*ssa.Slice); ok {
		if al, ok := sl.X.(*ssa.Alloc); ok && al.Referrers() != nil {
			for _, ref := range *al.Referrers() {
				if ia, ok := ref.(*ssa.IndexAddr); ok && ia.Referrers() != nil {
					for _, r2 := range *ia.Referrers() {
						if st, ok := r2.(*ssa.Store); ok && st.Addr == ssa.Value(ia) {
							out = append(out, st.Val)
						}
					}
				}
			}
		}
	}
	if c, ok := v.(*ssa.Call); ok && CalleeName(&c.Call) == "builtin.append" {
		out = append(out, appendedValues(&c.Call)...)
	}
	if phi, ok := v.(*ssa.Phi); ok {
		for _, e := range phi.Edges {
			out = append(out, sliceLiteralValues(e)...)
		}
	}
	return out
}

// c17Schemes: C17.g — which endpoints get TLS at all.
func c17Schemes(w *World, r *Report) {
	ob := r.Ob("C17.g", "g-secure-schemes", "cmd.resolveURL, evaluated on every path for each of the four schemes: the `secure` result is true for https and unixs and false for http and unix (the function is loop free and branches only on comparisons of the URL scheme with constants and on the parse error); createAPIServer and createReplicationServer build their TLS configuration on the secure==true edge", "an endpoint whose scheme promises TLS but is served in plaintext accepts every caller whatever certificate options are configured")
	fn := w.Func("cmd", "resolveURL")
	if fn == nil {
		ob.Undecided("anchor", "cmd.resolveURL not found")
		return
	}
	si := -1
	for i := 0; i < fn.Signature.Results().Len(); i++ {
		if b, ok := fn.Signature.Results().At(i).Type().Underlying().(*types.Basic); ok && b.Kind() == types.Bool {
			si = i
		}
	}
	if si < 0 {
		ob.Undecided("shape", "resolveURL has no boolean result")
		return
	}
	for _, b := range fn.Blocks {
		if inCycle(b) {
			ob.Undecided("shape", "resolveURL has a loop")
			return
		}
	}
	var eval func(v ssa.Value, path []*ssa.BasicBlock, pos int, scheme string, d int) (bool, bool)
	eval = func(v ssa.Value, path []*ssa.BasicBlock, pos int, scheme string, d int) (bool, bool) {
		if d > 10 {
			return false, false
		}
		v = resolveAlong(v, path, pos)
		switch x := v.(type) {
		case *ssa.Const:
			if x.Value != nil && x.Value.Kind() == constant.Bool {
				return constant.BoolVal(x.Value), true
			}
		case *ssa.UnOp:
			if x.Op == token.NOT {
				b, ok := eval(x.X, path, pos, scheme, d+1)
				return !b, ok
			}
			if al, ok := x.X.(*ssa.Alloc); ok {
				// a named result / local: the last store on the path
				for j := pos; j >= 0; j-- {
					for k := len(path[j].Instrs) - 1; k >= 0; k-- {
						if st, ok := path[j].Instrs[k].(*ssa.Store); ok && st.Addr == ssa.Value(al) {
							return eval(st.Val, path, j, scheme, d+1)
						}
					}
				}
			}
		case *ssa.BinOp:
			if x.Op == token.EQL || x.Op == token.NEQ {
				var k *ssa.Const
				var other ssa.Value
				if c, ok := x.X.(*ssa.Const); ok {
					k, other = c, x.Y
				} else if c, ok := x.Y.(*ssa.Const); ok {
					k, other = c, x.X
				}
				if k != nil && k.Value != nil && k.Value.Kind() == constant.String && strings.HasSuffix(Expr(other), ".Scheme") {
					eq := constant.StringVal(k.Value) == scheme
					return eq == (x.Op == token.EQL), true
				}
			}
		}
		return false, false
	}
	for _, sc := range []struct {
		scheme string
		want   bool
	}{{"https", true}, {"unixs", true}, {"http", false}, {"unix", false}} {
		n := 0
		for _, path := range enumPaths(fn.Blocks[0], 4000) {
			last := path[len(path)-1]
			ret, ok := last.Instrs[len(last.Instrs)-1].(*ssa.Return)
			if !ok {
				continue
			}
			// consistent with the scheme?
			feasible := true
			for i := 0; i+1 < len(path) && feasible; i++ {
				iff, ok := path[i].Instrs[len(path[i].Instrs)-1].(*ssa.If)
				if !ok {
					continue
				}
				if b, known := eval(iff.Cond, path, i, sc.scheme, 0); known {
					taken := path[i].Succs[0] == path[i+1]
					if b != taken {
						feasible = false
					}
				}
			}
			if !feasible {
				continue
			}
			n++
			got, known := eval(retVal(ret, si), path, len(path)-1, sc.scheme, 0)
			if !known {
				ob.Undecided("shape/"+sc.scheme, "the secure result `"+Expr(retVal(ret, si))+"` of resolveURL is not a function of the scheme the rule can evaluate")
				break
			}
			if got != sc.want {
				ob.Violate("scheme/"+sc.scheme, ret.Pos(), "for a "+sc.scheme+":// address resolveURL reports secure="+map[bool]string{true: "true", false: "false"}[got]+": "+map[bool]string{true: "the endpoint is served in plaintext although its scheme promises TLS and certificate options are configured", false: "a plaintext scheme is treated as TLS"}[sc.want])
				break
			}
		}
		ob.SiteS("scheme " + sc.scheme + ": " + itoa(n) + " path(s), secure=" + map[bool]string{true: "true", false: "false"}[sc.want])
		if n == 0 {
			ob.Undecided("shape/"+sc.scheme, "no path through resolveURL for scheme "+sc.scheme)
		}
	}
	// the constructions use the flag
	for _, name := range []string{"createAPIServer", "createReplicationServer"} {
		f := w.Func("cmd", name)
		if f == nil {
			continue
		}
		var secure ssa.Value
		eachInstr(f, func(in ssa.Instruction) {
			if ex, ok := in.(*ssa.Extract); ok && ex.Index == si {
				if call, ok := ex.Tuple.(*ssa.Call); ok && StaticCallee(&call.Call) == fn {
					secure = ex
				}
			}
		})
		if secure == nil {
			ob.Violate("secure-flag-unused@"+name, f.Pos(), name+" does not use resolveURL's secure result")
			continue
		}
		ctx := &ExprCtx{Alias: map[ssa.Value]string{secure: "secure"}}
		isTLS := func(in ssa.Instruction) bool {
			c := plainCall(in)
			return c != nil && strings.HasSuffix(CalleeName(c), "TLSInfo).ServerConfig")
		}
		nTLS := 0
		eachInstr(f, func(in ssa.Instruction) {
			if isTLS(in) {
				nTLS++
			}
		})
		ob.Site(f.Pos(), name+": TLS configuration behind the secure flag")
		if nTLS == 0 {
			continue // reported by C17.e
		}
		// every success return on the secure edge crosses the TLS configuration
		for _, b := range f.Blocks {
			for k := range b.Succs {
				for _, l := range ctx.EdgeLits(b, k) {
					if l.Kind == "bool" && !l.Neg && l.A == "secure" {
						if p := (&Walk{Barrier: isTLS, Target: isSuccessReturn}).Find(Loc{b.Succs[k], 0}); p != nil {
							ob.Violate("secure-without-tls@"+name, blockPos(b.Succs[k]), name+" can finish on the secure edge without building the TLS configuration", w.PathString(p)...)
						}
					}
				}
			}
		}
	}
	ob.NeedFloor(4)
}
