package main

// Canonical expressions (access paths, linear integer forms) and branch literals.
// A literal is what is known to hold on one outgoing edge of an `If`.

import (
	"fmt"
	"go/constant"
	"go/token"
	"go/types"
	"math"
	"sort"
	"strconv"
	"strings"

	"golang.org/x/tools/go/ssa"
)

// ---------- expressions ----------

// ExprCtx controls rendering of values as canonical access-path strings.
type ExprCtx struct {
	// Alias lets a rule give names to SSA values (e.g. a particular call result → "stored").
	Alias map[ssa.Value]string
	depth int
	phis  map[*ssa.Phi]bool
	// sumDepth: nesting of guard summaries (EdgeLits looks into validators it meets)
	sumDepth int
}

func Expr(v ssa.Value) string { return (&ExprCtx{}).Expr(v) }

func (c *ExprCtx) Expr(v ssa.Value) string {
	if v == nil {
		return "<nil>"
	}
	if c.Alias != nil {
		if a, ok := c.Alias[v]; ok {
			return a
		}
	}
	if c.depth > 24 {
		return "…"
	}
	c.depth++
	defer func() { c.depth-- }()
	switch x := v.(type) {
	case *ssa.Parameter:
		for i, p := range x.Parent().Params {
			if p == x {
				return "$" + strconv.Itoa(i)
			}
		}
		return "$?"
	case *ssa.FreeVar:
		if b := closureBinding(x.Parent(), x); b != nil {
			return "^" + c.Expr(b)
		}
		return "^" + x.Name()
	case *ssa.Const:
		if x.IsNil() {
			return "nil"
		}
		if x.Value == nil {
			return "zero"
		}
		if x.Value.Kind() == constant.String {
			return strconv.Quote(constant.StringVal(x.Value))
		}
		return x.Value.ExactString()
	case *ssa.Global:
		return "&" + globalName(x)
	case *ssa.Function:
		return "func:" + funcFullName(x)
	case *ssa.Alloc:
		return "&" + c.allocName(x)
	case *ssa.FieldAddr:
		return "&" + c.place(x)
	case *ssa.IndexAddr:
		return "&" + c.place(x)
	case *ssa.UnOp:
		switch x.Op {
		case token.MUL:
			return c.load(x.X)
		case token.NOT:
			return "!" + c.Expr(x.X)
		case token.SUB:
			return "-" + c.Expr(x.X)
		case token.ARROW:
			return "<-" + c.Expr(x.X)
		}
		return x.Op.String() + c.Expr(x.X)
	case *ssa.Field:
		return c.Expr(x.X) + "." + fieldValName(x)
	case *ssa.Convert:
		return c.Expr(x.X)
	case *ssa.ChangeType:
		return c.Expr(x.X)
	case *ssa.ChangeInterface:
		return c.Expr(x.X)
	case *ssa.MakeInterface:
		return c.Expr(x.X)
	case *ssa.SliceToArrayPointer:
		return c.Expr(x.X)
	case *ssa.BinOp:
		if lf, ok := c.linear(v); ok {
			return lf.String()
		}
		return "(" + c.Expr(x.X) + " " + x.Op.String() + " " + c.Expr(x.Y) + ")"
	case *ssa.Call:
		return c.callExpr(&x.Call)
	case *ssa.Extract:
		return c.Expr(x.Tuple) + "#" + strconv.Itoa(x.Index)
	case *ssa.Phi:
		if c.phis == nil {
			c.phis = map[*ssa.Phi]bool{}
		}
		if c.phis[x] {
			return "φ" // the enclosing loop-carried value itself
		}
		c.phis[x] = true
		defer delete(c.phis, x)
		var parts []string
		seen := map[string]bool{}
		for _, e := range x.Edges {
			s := c.Expr(e)
			if !seen[s] {
				seen[s] = true
				parts = append(parts, s)
			}
		}
		sort.Strings(parts)
		if len(parts) == 1 {
			return parts[0]
		}
		return "phi(" + strings.Join(parts, "|") + ")"
	case *ssa.Index:
		return c.Expr(x.X) + "[" + c.Expr(x.Index) + "]"
	case *ssa.Lookup:
		return c.Expr(x.X) + "[" + c.Expr(x.Index) + "]"
	case *ssa.Slice:
		if al, ok := x.X.(*ssa.Alloc); ok && al.Comment == "varargs" && x.Low == nil && x.High == nil {
			return c.varargs(al)
		}
		s := c.Expr(x.X)
		if strings.HasPrefix(s, "&") {
			s = s[1:]
		}
		lo, hi := "", ""
		if x.Low != nil {
			lo = c.Expr(x.Low)
		}
		if x.High != nil {
			hi = c.Expr(x.High)
		}
		if lo == "" && hi == "" {
			return s
		}
		return s + "[" + lo + ":" + hi + "]"
	case *ssa.TypeAssert:
		return c.Expr(x.X) + ".(" + typeString(x.AssertedType) + ")"
	case *ssa.MakeClosure:
		if f, ok := x.Fn.(*ssa.Function); ok {
			return "closure:" + f.Name()
		}
	case *ssa.MakeSlice:
		return "make[]"
	case *ssa.MakeMap:
		return "makemap"
	case *ssa.MakeChan:
		return "makechan"
	case *ssa.Next:
		return "next(" + c.Expr(x.Iter) + ")"
	case *ssa.Range:
		return "range(" + c.Expr(x.X) + ")"
	case *ssa.Select:
		return "select"
	}
	return fmt.Sprintf("?%T", v)
}

// varargs renders the elements of a variadic argument list `f(a, b, c)`.
func (c *ExprCtx) varargs(al *ssa.Alloc) string {
	elems := map[int64]string{}
	max := int64(-1)
	if al.Referrers() != nil {
		for _, r := range *al.Referrers() {
			ia, ok := r.(*ssa.IndexAddr)
			if !ok || ia.Referrers() == nil {
				continue
			}
			k, ok := ia.Index.(*ssa.Const)
			if !ok || k.Value == nil {
				continue
			}
			for _, rr := range *ia.Referrers() {
				if st, ok := rr.(*ssa.Store); ok && st.Addr == ssa.Value(ia) {
					elems[k.Int64()] = c.Expr(st.Val)
					if k.Int64() > max {
						max = k.Int64()
					}
				}
			}
		}
	}
	var parts []string
	for i := int64(0); i <= max; i++ {
		parts = append(parts, elems[i])
	}
	return strings.Join(parts, ",")
}

func globalName(g *ssa.Global) string {
	p := ""
	if g.Pkg != nil {
		p = strings.TrimPrefix(strings.TrimPrefix(g.Pkg.Pkg.Path(), modPath), "/")
		if g.Pkg.Pkg.Path() == modPath {
			p = "regatta"
		}
	}
	return p + "." + g.Name()
}

func (c *ExprCtx) allocName(a *ssa.Alloc) string {
	if a.Comment != "" {
		return "local:" + a.Comment
	}
	return "local"
}

// place renders an address expression as the place it denotes.
func (c *ExprCtx) place(addr ssa.Value) string {
	switch x := addr.(type) {
	case *ssa.FieldAddr:
		// a field reached through an embedded struct is rendered as the promoted field (x.f, not
		// x.E.f): grouping fields into an embedded struct, or flattening one, changes nothing
		if inner, ok := x.X.(*ssa.FieldAddr); ok && embeddedStructField(inner) {
			b := c.place(inner)
			if i := strings.LastIndexByte(b, '.'); i >= 0 {
				return b[:i] + "." + fieldAddrName(x)
			}
		}
		base := c.Expr(x.X)
		if al, ok := x.X.(*ssa.Alloc); ok && al.Parent() != nil {
			// a struct variable assigned exactly once as a whole (e.g. a call result kept in a local)
			if sts := storesTo(al.Parent(), al); len(sts) == 1 && !escapesToClosureWrite(al) {
				base = c.Expr(sts[0].Val)
			}
		}
		if strings.HasPrefix(base, "&") {
			base = base[1:]
		}
		return base + "." + fieldAddrName(x)
	case *ssa.IndexAddr:
		base := c.Expr(x.X)
		if strings.HasPrefix(base, "&") {
			base = base[1:]
		}
		return base + "[" + c.Expr(x.Index) + "]"
	case *ssa.Global:
		return globalName(x)
	case *ssa.Alloc:
		return c.allocName(x)
	}
	return "*" + c.Expr(addr)
}

// load renders *addr. Loads of single-assignment locals are looked through.
func (c *ExprCtx) load(addr ssa.Value) string {
	switch x := addr.(type) {
	case *ssa.Alloc:
		if x.Parent() != nil {
			sts := storesTo(x.Parent(), x)
			if len(sts) == 1 && !escapesToClosureWrite(x) {
				return c.Expr(sts[0].Val)
			}
		}
		return c.allocName(x)
	case *ssa.FreeVar:
		// captured variable: *freevar is the variable's value
		if b := closureBinding(x.Parent(), x); b != nil {
			return "^" + c.load(b)
		}
		return "^" + x.Name()
	case *ssa.FieldAddr:
		// a field of a struct type that did not exist on the reviewed tree (a refactoring moved
		// locals into a struct) and that is stored exactly once in the module reads as what is
		// stored there
		if v := newTypeFieldValue(x); v != nil && c.depth < 20 {
			c.depth++
			s := c.Expr(v)
			c.depth--
			return s
		}
	}
	return c.place(addr)
}

// embeddedStructField: the selected field is an embedded struct (held by value).
func embeddedStructField(fa *ssa.FieldAddr) bool {
	st, ok := deref(fa.X.Type()).Underlying().(*types.Struct)
	if !ok {
		return false
	}
	f := st.Field(fa.Field)
	if !f.Embedded() {
		return false
	}
	_, isStruct := f.Type().Underlying().(*types.Struct)
	return isStruct
}

// resolveObj looks through loads of single-store fields of struct types that did not exist on
// the reviewed tree (locals a refactoring moved into a struct): the value stored there. Used
// where a rule identifies an object by its SSA value.
func resolveObj(v ssa.Value) ssa.Value {
	for d := 0; d < 6; d++ {
		u, ok := v.(*ssa.UnOp)
		if !ok || u.Op != token.MUL {
			return v
		}
		fa, ok := u.X.(*ssa.FieldAddr)
		if !ok {
			return v
		}
		nv := newTypeFieldValue(fa)
		if nv == nil {
			return v
		}
		v = nv
	}
	return v
}

// theWorld: the program under analysis (set by the driver; used by value resolution that needs
// to look beyond one function).
var theWorld *World

var newFieldCache = map[string]ssa.Value{}

// newTypeFieldValue: for a field of a module struct type that is not on the reviewed list, the
// value of its only store in the module (nil if the type is known, or the field is stored more
// than once or never).
func newTypeFieldValue(fa *ssa.FieldAddr) ssa.Value {
	w := theWorld
	if w == nil || !w.Normalized && !w.HasNewTypes {
		return nil
	}
	n, ok := deref(fa.X.Type()).(*types.Named)
	if !ok || n.Obj().Pkg() == nil || !strings.HasPrefix(n.Obj().Pkg().Path(), modPath) {
		return nil
	}
	if !w.NewTypes[n.Obj().Pkg().Path()+"."+n.Obj().Name()] {
		return nil
	}
	key := n.Obj().Pkg().Path() + "." + n.Obj().Name() + "." + fieldAddrName(fa)
	if v, ok := newFieldCache[key]; ok {
		return v
	}
	var val ssa.Value
	cnt := 0
	for _, fn := range w.ModFuncs() {
		eachInstr(fn, func(in ssa.Instruction) {
			st, ok := in.(*ssa.Store)
			if !ok {
				return
			}
			f2, ok := st.Addr.(*ssa.FieldAddr)
			if !ok || fieldAddrName(f2) != fieldAddrName(fa) {
				return
			}
			if n2, ok := deref(f2.X.Type()).(*types.Named); ok && n2 == n {
				cnt++
				val = st.Val
			}
		})
	}
	if cnt != 1 {
		val = nil
	}
	newFieldCache[key] = val
	return val
}

// escapesToClosureWrite: the alloc is captured by a closure that stores to it.
func escapesToClosureWrite(a *ssa.Alloc) bool {
	if a.Referrers() == nil {
		return false
	}
	for _, r := range *a.Referrers() {
		mc, ok := r.(*ssa.MakeClosure)
		if !ok {
			continue
		}
		f, ok := mc.Fn.(*ssa.Function)
		if !ok {
			return true
		}
		for i, b := range mc.Bindings {
			if b != a {
				continue
			}
			fv := f.FreeVars[i]
			if fv.Referrers() == nil {
				continue
			}
			for _, rr := range *fv.Referrers() {
				if st, ok := rr.(*ssa.Store); ok && st.Addr == fv {
					return true
				}
			}
		}
	}
	return false
}

func (c *ExprCtx) callExpr(call *ssa.CallCommon) string {
	name := CalleeName(call)
	switch name {
	case "builtin.len", "builtin.cap", "builtin.min", "builtin.max":
		var args []string
		for _, a := range call.Args {
			s := c.Expr(a)
			if strings.HasPrefix(s, "&") && (name == "builtin.len" || name == "builtin.cap") {
				s = s[1:]
			}
			args = append(args, s)
		}
		if name == "builtin.min" || name == "builtin.max" {
			sort.Strings(args)
		}
		return strings.TrimPrefix(name, "builtin.") + "(" + strings.Join(args, ",") + ")"
	}
	// generated protobuf getter: X.GetF() ≡ X.F
	if !call.IsInvoke() {
		if f := StaticCallee(call); f != nil && isGenerated(f) && strings.HasPrefix(f.Name(), "Get") && len(call.Args) == 1 {
			if fld := getterField(f); fld != "" {
				return c.Expr(call.Args[0]) + "." + fld
			}
		}
	}
	var args []string
	if call.IsInvoke() {
		args = append(args, c.Expr(call.Value))
	}
	for _, a := range call.Args {
		args = append(args, c.Expr(a))
	}
	if name == "" {
		name = "dyn:" + c.Expr(call.Value)
	}
	return shortName(name) + "(" + strings.Join(args, ",") + ")"
}

// getterField recognises the body `if m != nil { return m.F }; return zero` of generated getters.
func getterField(f *ssa.Function) string {
	if len(f.Params) != 1 {
		return ""
	}
	field := ""
	n := 0
	eachInstr(f, func(in ssa.Instruction) {
		if fa, ok := in.(*ssa.FieldAddr); ok && fa.X == f.Params[0] {
			field = fieldAddrName(fa)
			n++
		}
	})
	if n == 1 && "Get"+field == f.Name() {
		return field
	}
	return ""
}

func shortName(full string) string {
	s := strings.ReplaceAll(full, modPath+"/", "")
	return s
}

// ---------- linear forms ----------

type Lin struct {
	T map[string]int64 // term → coefficient
	C int64
	// nonneg: every term is known non-negative (len, unsigned)
	nn map[string]bool
}

func (l Lin) String() string {
	var ks []string
	for k := range l.T {
		ks = append(ks, k)
	}
	sort.Strings(ks)
	var sb strings.Builder
	for i, k := range ks {
		co := l.T[k]
		switch {
		case co == 1 && i == 0:
			sb.WriteString(k)
		case co == 1:
			sb.WriteString("+" + k)
		case co == -1:
			sb.WriteString("-" + k)
		case co > 0 && i > 0:
			sb.WriteString("+" + strconv.FormatInt(co, 10) + "*" + k)
		default:
			sb.WriteString(strconv.FormatInt(co, 10) + "*" + k)
		}
	}
	if l.C != 0 || len(ks) == 0 {
		if l.C >= 0 && len(ks) > 0 {
			sb.WriteString("+")
		}
		sb.WriteString(strconv.FormatInt(l.C, 10))
	}
	return sb.String()
}

func isIntegerType(t types.Type) bool {
	b, ok := t.Underlying().(*types.Basic)
	return ok && b.Info()&types.IsInteger != 0
}

func isUnsigned(t types.Type) bool {
	b, ok := t.Underlying().(*types.Basic)
	return ok && b.Info()&types.IsUnsigned != 0
}

func (c *ExprCtx) linear(v ssa.Value) (Lin, bool) {
	if !isIntegerType(v.Type()) {
		return Lin{}, false
	}
	l := Lin{T: map[string]int64{}, nn: map[string]bool{}}
	if !c.addLin(&l, v, 1, 0) {
		return Lin{}, false
	}
	for k, co := range l.T {
		if co == 0 {
			delete(l.T, k)
		}
	}
	return l, true
}

func (c *ExprCtx) addLin(l *Lin, v ssa.Value, co int64, depth int) bool {
	if depth > 12 {
		return false
	}
	switch x := v.(type) {
	case *ssa.Const:
		if x.Value == nil {
			return true
		}
		if i, ok := constant.Int64Val(constant.ToInt(x.Value)); ok {
			l.C += co * i
			return true
		}
		if u, ok := constant.Uint64Val(constant.ToInt(x.Value)); ok && u <= math.MaxInt64 {
			l.C += co * int64(u)
			return true
		}
		return false
	case *ssa.Convert:
		if isIntegerType(x.X.Type()) {
			return c.addLin(l, x.X, co, depth+1)
		}
	case *ssa.ChangeType:
		return c.addLin(l, x.X, co, depth+1)
	case *ssa.BinOp:
		switch x.Op {
		case token.ADD:
			return c.addLin(l, x.X, co, depth+1) && c.addLin(l, x.Y, co, depth+1)
		case token.SUB:
			// an unsigned difference of two variables wraps when the subtrahend is larger: it is
			// not the integer difference (`size >= max - used` is not `size + used >= max`), so it
			// stays an opaque term; subtracting a constant (index-1) is kept, as the rules that
			// use it speak about indices >= 1
			if isUnsigned(x.Type()) {
				if _, isC := x.Y.(*ssa.Const); !isC {
					return false
				}
			}
			return c.addLin(l, x.X, co, depth+1) && c.addLin(l, x.Y, -co, depth+1)
		case token.MUL:
			if k, ok := x.X.(*ssa.Const); ok && k.Value != nil {
				if i, ok := constant.Int64Val(constant.ToInt(k.Value)); ok {
					return c.addLin(l, x.Y, co*i, depth+1)
				}
			}
			if k, ok := x.Y.(*ssa.Const); ok && k.Value != nil {
				if i, ok := constant.Int64Val(constant.ToInt(k.Value)); ok {
					return c.addLin(l, x.X, co*i, depth+1)
				}
			}
		}
	case *ssa.UnOp:
		if x.Op == token.MUL {
			if a, ok := x.X.(*ssa.Alloc); ok && a.Parent() != nil {
				sts := storesTo(a.Parent(), a)
				if len(sts) == 1 && !escapesToClosureWrite(a) {
					return c.addLin(l, sts[0].Val, co, depth+1)
				}
			}
		}
	}
	s := c.Expr(v)
	l.T[s] += co
	if strings.HasPrefix(s, "len(") || strings.HasPrefix(s, "cap(") || isUnsigned(v.Type()) || nonNegative(v, 0) {
		l.nn[s] = true
	}
	return true
}

// ---------- literals ----------

// Lit is a fact that holds on a CFG edge. Kinds:
//
//	"int":  Terms (sign-normalised) ∈ [Lo,Hi], or ≠ NE when IsNE
//	"eq":   A == B (Neg: A != B) for non-integers; nil tests are A == "nil"
//	"bool": expression A is true (Neg: false)
type Lit struct {
	Kind   string
	Terms  string
	Lo, Hi int64
	IsNE   bool
	NE     int64
	A, B   string
	Neg    bool
	NN     bool // Terms is a single non-negative quantity (len, unsigned)
}

const (
	negInf = math.MinInt64 / 4
	posInf = math.MaxInt64 / 4
)

func (l Lit) String() string {
	switch l.Kind {
	case "int":
		if l.IsNE {
			return fmt.Sprintf("%s != %d", l.Terms, l.NE)
		}
		switch {
		case l.Lo == l.Hi:
			return fmt.Sprintf("%s == %d", l.Terms, l.Lo)
		case l.Lo <= negInf:
			return fmt.Sprintf("%s <= %d", l.Terms, l.Hi)
		case l.Hi >= posInf:
			return fmt.Sprintf("%s >= %d", l.Terms, l.Lo)
		}
		return fmt.Sprintf("%s in [%d,%d]", l.Terms, l.Lo, l.Hi)
	case "eq":
		if l.Neg {
			return l.A + " != " + l.B
		}
		return l.A + " == " + l.B
	case "bool":
		if l.Neg {
			return "!" + l.A
		}
		return l.A
	}
	return "?"
}

func (l Lit) Not() []Lit {
	switch l.Kind {
	case "eq", "bool":
		l.Neg = !l.Neg
		return []Lit{l}
	case "int":
		var n Lit
		switch {
		case l.IsNE:
			n = Lit{Kind: "int", Terms: l.Terms, Lo: l.NE, Hi: l.NE, NN: l.NN}
		case l.Lo == l.Hi:
			n = Lit{Kind: "int", Terms: l.Terms, IsNE: true, NE: l.Lo, NN: l.NN}
		case l.Lo <= negInf || (l.NN && l.Lo <= 0):
			n = Lit{Kind: "int", Terms: l.Terms, Lo: l.Hi + 1, Hi: posInf, NN: l.NN}
		case l.Hi >= posInf:
			n = Lit{Kind: "int", Terms: l.Terms, Lo: negInf, Hi: l.Lo - 1, NN: l.NN}
		default:
			return nil
		}
		return []Lit{n.clampNN()}
	}
	return nil
}

// clampNN intersects with [0,∞) when the quantity is known non-negative.
func (l Lit) clampNN() Lit {
	if !l.NN || l.Kind != "int" {
		return l
	}
	if l.IsNE {
		if l.NE == 0 {
			return Lit{Kind: "int", Terms: l.Terms, Lo: 1, Hi: posInf, NN: true}
		}
		return l
	}
	if l.Lo < 0 {
		l.Lo = 0
	}
	return l
}

// Implies: whenever l holds, r holds.
func (l Lit) Implies(r Lit) bool {
	if l.Kind != r.Kind {
		return false
	}
	switch l.Kind {
	case "bool":
		return l.A == r.A && l.Neg == r.Neg
	case "eq":
		same := (l.A == r.A && l.B == r.B) || (l.A == r.B && l.B == r.A)
		return same && l.Neg == r.Neg
	case "int":
		if l.Terms != r.Terms {
			return false
		}
		switch {
		case !l.IsNE && !r.IsNE:
			return l.Lo >= r.Lo && l.Hi <= r.Hi
		case !l.IsNE && r.IsNE:
			return r.NE < l.Lo || r.NE > l.Hi
		case l.IsNE && r.IsNE:
			return l.NE == r.NE
		}
	}
	return false
}

// intLit builds the normalised literal `lin ⋈ 0`.
func intLit(lin Lin, op token.Token) (Lit, bool) {
	if len(lin.T) == 0 {
		return Lit{}, false
	}
	var ks []string
	for k := range lin.T {
		ks = append(ks, k)
	}
	sort.Strings(ks)
	// sign-normalise: first term positive
	flip := lin.T[ks[0]] < 0
	t := Lin{T: map[string]int64{}}
	for k, v := range lin.T {
		if flip {
			v = -v
		}
		t.T[k] = v
	}
	cst := lin.C
	if flip {
		cst = -cst
		switch op {
		case token.LSS:
			op = token.GTR
		case token.LEQ:
			op = token.GEQ
		case token.GTR:
			op = token.LSS
		case token.GEQ:
			op = token.LEQ
		}
	}
	// T + cst op 0  ⇔  T op -cst
	terms := t.String()
	k := -cst
	l := Lit{Kind: "int", Terms: terms, Lo: negInf, Hi: posInf}
	switch op {
	case token.EQL:
		l.Lo, l.Hi = k, k
	case token.NEQ:
		l.IsNE, l.NE = true, k
	case token.LSS:
		l.Hi = k - 1
	case token.LEQ:
		l.Hi = k
	case token.GTR:
		l.Lo = k + 1
	case token.GEQ:
		l.Lo = k
	default:
		return Lit{}, false
	}
	// single non-negative term with coefficient 1: intersect with [0,∞)
	if len(ks) == 1 && t.T[ks[0]] == 1 && lin.nn[ks[0]] {
		l.NN = true
		l = l.clampNN()
	}
	return l, true
}

// CondLits returns the literals known on the true edge of cond (and via Not() on the false edge).
// ok=false for opaque conditions.
func (c *ExprCtx) CondLit(cond ssa.Value) (Lit, bool) {
	if c.Alias != nil {
		if a, ok := c.Alias[cond]; ok {
			return Lit{Kind: "bool", A: a}, true
		}
	}
	switch x := cond.(type) {
	case *ssa.UnOp:
		if x.Op == token.NOT {
			l, ok := c.CondLit(x.X)
			if !ok {
				return Lit{}, false
			}
			n := l.Not()
			if len(n) != 1 {
				return Lit{}, false
			}
			return n[0], true
		}
		if x.Op == token.MUL {
			return Lit{Kind: "bool", A: c.Expr(x)}, true
		}
	case *ssa.BinOp:
		switch x.Op {
		case token.EQL, token.NEQ, token.LSS, token.LEQ, token.GTR, token.GEQ:
			if isIntegerType(x.X.Type()) {
				lx, ok1 := c.linear(x.X)
				ly, ok2 := c.linear(x.Y)
				if ok1 && ok2 {
					d := Lin{T: map[string]int64{}, nn: map[string]bool{}}
					for k, v := range lx.T {
						d.T[k] += v
						d.nn[k] = d.nn[k] || lx.nn[k]
					}
					for k, v := range ly.T {
						d.T[k] -= v
						d.nn[k] = d.nn[k] || ly.nn[k]
					}
					for k, v := range d.T {
						if v == 0 {
							delete(d.T, k)
						}
					}
					d.C = lx.C - ly.C
					if l, ok := intLit(d, x.Op); ok {
						return l, true
					}
				}
			}
			if x.Op == token.EQL || x.Op == token.NEQ {
				a, b := c.Expr(x.X), c.Expr(x.Y)
				if a > b {
					a, b = b, a
				}
				if a == "nil" {
					a, b = b, a
				}
				return Lit{Kind: "eq", A: a, B: b, Neg: x.Op == token.NEQ}, true
			}
			return Lit{Kind: "bool", A: c.Expr(x)}, true
		}
	case *ssa.Call:
		name := CalleeName(&x.Call)
		switch name {
		case "bytes.Equal":
			a, b := c.Expr(x.Call.Args[0]), c.Expr(x.Call.Args[1])
			if a > b {
				a, b = b, a
			}
			return Lit{Kind: "eq", A: a, B: b}, true
		case "errors.Is":
			return Lit{Kind: "eq", A: c.Expr(x.Call.Args[0]), B: "is:" + c.Expr(x.Call.Args[1])}, true
		}
		return Lit{Kind: "bool", A: c.Expr(x)}, true
	case *ssa.Extract:
		// comma-ok of a type assertion: dyn(X) == T
		if ta, ok := x.Tuple.(*ssa.TypeAssert); ok && x.Index == 1 {
			return Lit{Kind: "eq", A: "dyn(" + c.Expr(ta.X) + ")", B: typeString(ta.AssertedType)}, true
		}
		return Lit{Kind: "bool", A: c.Expr(x)}, true
	case *ssa.Const:
		return Lit{}, false
	case *ssa.Phi, *ssa.Parameter, *ssa.Field, *ssa.FreeVar, *ssa.Lookup, *ssa.Index:
		return Lit{Kind: "bool", A: c.Expr(cond)}, true
	}
	return Lit{}, false
}

// EdgeLits returns the literals that hold when control flows from b to its k-th successor.
func (c *ExprCtx) EdgeLits(b *ssa.BasicBlock, k int) []Lit {
	if len(b.Instrs) == 0 {
		return nil
	}
	iff, ok := b.Instrs[len(b.Instrs)-1].(*ssa.If)
	if !ok {
		return nil
	}
	if conj, _, isSC := c.shortCircuit(iff.Cond, k == 0); isSC {
		return conj
	}
	l, ok := c.CondLit(iff.Cond)
	if !ok {
		return nil
	}
	var out []Lit
	if k == 0 {
		out = []Lit{l}
	} else {
		out = l.Not()
	}
	return append(out, c.guardSummary(iff.Cond, k == 0)...)
}

// shortCircuit handles a condition that is the value of `a && b` / `a || b` (go/ssa builds a phi
// for these outside plain if-conditions, e.g. in `switch { case a && b: }`). On the edge where all
// operands are decided (&& true, || false) it returns the conjunction of their literals; on the
// other edge the alternatives, one of which holds.
func (c *ExprCtx) shortCircuit(cond ssa.Value, truth bool) (conj []Lit, disj [][]Lit, ok bool) {
	for {
		u, isU := cond.(*ssa.UnOp)
		if !isU || u.Op != token.NOT {
			break
		}
		cond, truth = u.X, !truth
	}
	phi, isPhi := cond.(*ssa.Phi)
	if !isPhi || (phi.Comment != "&&" && phi.Comment != "||") || c.sumDepth > 3 {
		return nil, nil, false
	}
	isAnd := phi.Comment == "&&"
	blk := phi.Block()
	type operand struct {
		onEdge  []Lit // literals that hold when this operand decided the result early (edge into the phi)
		other   []Lit // literals that hold when it did not
		last    bool
		lastVal ssa.Value
	}
	var ops []operand
	for i, e := range phi.Edges {
		pred := blk.Preds[i]
		if k, isC := e.(*ssa.Const); isC && k.Value != nil && isConstBool(e, !isAnd) {
			// decided early in pred: pred ends with an If one of whose edges enters the phi block
			if len(pred.Instrs) == 0 {
				return nil, nil, false
			}
			if _, isIf := pred.Instrs[len(pred.Instrs)-1].(*ssa.If); !isIf || len(pred.Succs) != 2 {
				return nil, nil, false
			}
			into := 0
			if pred.Succs[1] == blk {
				into = 1
			}
			ops = append(ops, operand{onEdge: c.EdgeLits(pred, into), other: c.EdgeLits(pred, 1-into)})
			continue
		}
		ops = append(ops, operand{last: true, lastVal: e})
	}
	decidedAll := truth == isAnd // && true / || false: every operand has the value `truth`
	for _, o := range ops {
		if o.last {
			l, okL := c.CondLit(o.lastVal)
			var pos, neg []Lit
			if okL {
				pos, neg = []Lit{l}, l.Not()
			}
			if !isAnd {
				pos, neg = neg, pos // for ||: "all decided" means the operand is false
			}
			// pos: literals when the last operand has the value that keeps the chain going to the end
			if decidedAll {
				conj = append(conj, pos...)
			} else {
				disj = append(disj, neg)
			}
			continue
		}
		if decidedAll {
			conj = append(conj, o.other...)
		} else {
			disj = append(disj, o.onEdge)
		}
	}
	return conj, disj, true
}

// guardSummary: the condition tests the outcome of a module helper - `validate(req) == nil`,
// `if !allowed(x)` - : the literals the helper itself establishes on every path to that outcome
// (over its parameters, rendered as the caller's arguments) hold on this edge as well. A guard
// moved from a handler into a validation helper thus still counts as that guard.
func (c *ExprCtx) guardSummary(cond ssa.Value, truth bool) []Lit {
	cal, cc, isOutcome, key, ok := c.outcomeCall(cond, truth)
	if !ok {
		return nil
	}
	if v, ok := guardSummaryCache[key]; ok {
		return v
	}
	guardSummaryCache[key] = nil // recursion guard
	// candidates: every literal some edge of the helper establishes
	var cands []Lit
	seen := map[string]bool{}
	edge := map[*ssa.BasicBlock][][]Lit{}
	for _, b := range cal.Blocks {
		if b == cal.Recover {
			continue
		}
		ls := make([][]Lit, len(b.Succs))
		for k := range b.Succs {
			ls[k] = cc.EdgeLits(b, k)
			for _, l := range ls[k] {
				if s := l.String(); !seen[s] {
					seen[s] = true
					cands = append(cands, l)
				}
			}
		}
		edge[b] = ls
	}
	var out []Lit
	for _, l := range cands {
		if len(cands) > 64 {
			break
		}
		wk := &Walk{Target: isOutcome, EdgeOK: func(b *ssa.BasicBlock, k int) bool {
			for _, e := range edge[b][k] {
				if e.Implies(l) {
					return false
				}
			}
			return true
		}}
		if wk.Find(entry(cal)) == nil {
			out = append(out, l)
		}
	}
	guardSummaryCache[key] = out
	return out
}

// EdgeEstablishes: the edge b→b.Succs[k] establishes the disjunction `clause`: one of its own
// literals implies one of the clause's, or the edge is the outcome edge of a module helper in
// which that outcome is unreachable without an edge that establishes the clause.
func (c *ExprCtx) EdgeEstablishes(b *ssa.BasicBlock, k int, clause []Lit) bool {
	for _, l := range c.EdgeLits(b, k) {
		for _, need := range clause {
			if l.Implies(need) {
				return true
			}
		}
	}
	if len(b.Instrs) == 0 {
		return false
	}
	iff, ok := b.Instrs[len(b.Instrs)-1].(*ssa.If)
	if !ok {
		return false
	}
	if _, disj, isSC := c.shortCircuit(iff.Cond, k == 0); isSC && len(disj) > 0 {
		// one of the alternatives holds: each must establish the clause
		all := true
		for _, alt := range disj {
			okAlt := false
			for _, l := range alt {
				for _, need := range clause {
					if l.Implies(need) {
						okAlt = true
					}
				}
			}
			if !okAlt {
				all = false
			}
		}
		return all
	}
	cal, cc, isOutcome, _, ok := c.outcomeCall(iff.Cond, k == 0)
	if !ok {
		return false
	}
	wk := &Walk{Target: isOutcome, EdgeOK: func(bb *ssa.BasicBlock, kk int) bool { return !cc.EdgeEstablishes(bb, kk, clause) }}
	return wk.Find(entry(cal)) == nil
}

// outcomeCall recognises a condition that tests the outcome of a statically resolved module
// helper: `h(args) == nil` / `!= nil` on an error result (outcome: nil error) or a boolean h(args).
// It returns the helper, a context that renders the helper's parameters as the caller's
// arguments, and the predicate "this return may produce the outcome".
func (c *ExprCtx) outcomeCall(cond ssa.Value, truth bool) (cal *ssa.Function, cc *ExprCtx, isOutcome func(ssa.Instruction) bool, key string, ok bool) {
	if c.sumDepth >= 2 {
		return
	}
	for {
		u, isU := cond.(*ssa.UnOp)
		if !isU || u.Op != token.NOT {
			break
		}
		cond, truth = u.X, !truth
	}
	var call *ssa.Call
	idx := 0
	outcome := "" // "nil" | "true" | "false"
	switch x := cond.(type) {
	case *ssa.BinOp:
		if x.Op != token.EQL && x.Op != token.NEQ {
			return
		}
		v := x.X
		if isNilConst(x.X) {
			v = x.Y
		} else if !isNilConst(x.Y) {
			return
		}
		if !isErrorType(v.Type()) {
			return
		}
		if (x.Op == token.EQL) != truth {
			return // the error-present edge: nothing is known
		}
		outcome = "nil"
		if ex, isE := v.(*ssa.Extract); isE {
			v, idx = ex.Tuple, ex.Index
		}
		call, _ = v.(*ssa.Call)
	case *ssa.Call:
		call = x
		if truth {
			outcome = "true"
		} else {
			outcome = "false"
		}
		if b, isB := x.Type().Underlying().(*types.Basic); !isB || b.Kind() != types.Bool {
			return
		}
	}
	if call == nil || call.Call.IsInvoke() {
		return
	}
	cal = StaticCallee(&call.Call)
	if cal == nil || cal.Blocks == nil || !inModule(cal) || len(cal.Params) != len(call.Call.Args) || len(cal.Blocks) > 200 {
		return
	}
	args := make([]string, len(call.Call.Args))
	for i, a := range call.Call.Args {
		args[i] = c.Expr(a)
	}
	key = cal.String() + "|" + outcome + "|" + itoa(idx) + "|" + strings.Join(args, ",")
	cc = &ExprCtx{Alias: map[ssa.Value]string{}, sumDepth: c.sumDepth + 1}
	for i, p := range cal.Params {
		cc.Alias[p] = args[i]
	}
	isOutcome = func(in ssa.Instruction) bool {
		ret, isR := in.(*ssa.Return)
		if !isR || idx >= len(ret.Results) {
			return false
		}
		rv := retVal(ret, idx)
		switch outcome {
		case "nil":
			return !provablyNonNilError(rv, ret.Block(), 0)
		case "true":
			return !isConstBool(rv, false)
		default:
			return !isConstBool(rv, true)
		}
	}
	return cal, cc, isOutcome, key, true
}

var guardSummaryCache = map[string][]Lit{}

// ---------- literal constructors for rules ----------

func LBool(a string) Lit           { return Lit{Kind: "bool", A: a} }
func LNotBool(a string) Lit        { return Lit{Kind: "bool", A: a, Neg: true} }
func LEq(a, b string) Lit          { return normEq(a, b, false) }
func LNe(a, b string) Lit          { return normEq(a, b, true) }
func LNil(a string) Lit            { return Lit{Kind: "eq", A: a, B: "nil"} }
func LNotNil(a string) Lit         { return Lit{Kind: "eq", A: a, B: "nil", Neg: true} }
func LIntEq(t string, k int64) Lit { return Lit{Kind: "int", Terms: t, Lo: k, Hi: k} }
func LIntNe(t string, k int64) Lit { return Lit{Kind: "int", Terms: t, IsNE: true, NE: k} }
func LIntLe(t string, k int64) Lit { return Lit{Kind: "int", Terms: t, Lo: negInf, Hi: k} }
func LIntGe(t string, k int64) Lit { return Lit{Kind: "int", Terms: t, Lo: k, Hi: posInf} }

func normEq(a, b string, neg bool) Lit {
	if a > b {
		a, b = b, a
	}
	if a == "nil" {
		a, b = b, a
	}
	return Lit{Kind: "eq", A: a, B: b, Neg: neg}
}
