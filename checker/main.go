package main

import (
	"fmt"
	"os"
	"os/exec"
	"path/filepath"
	"runtime/debug"
	"sort"
	"strconv"
	"strings"
	"time"
)

type propDef struct {
	id    string
	title string
	run   func(w *World, r *Report)
}

var registry = map[string]*propDef{}

func register(id, title string, run func(w *World, r *Report)) {
	registry[id] = &propDef{id: id, title: title, run: run}
}

func usage() {
	fmt.Fprintln(os.Stderr, `usage:
  rvet check <Cxx> [--tier quick|thorough] [--repo /repo] [--only C09.a] [-v] [--edit 'rel/file.go::old::new']...
  rvet list  [--repo /repo]
  rvet selftest [--jobs N] [--filter substr] [--variants file]`)
	os.Exit(2)
}

func verifDir() string {
	if d := os.Getenv("RVET_VERIF"); d != "" {
		return d
	}
	if exe, err := os.Executable(); err == nil {
		d := filepath.Dir(filepath.Dir(exe))
		if _, err := os.Stat(filepath.Join(d, "properties.jsonl")); err == nil {
			return d
		}
	}
	wd, _ := os.Getwd()
	return wd
}

type opts struct {
	tier   string
	repo   string
	only   string
	verb   bool
	edits  []string
	patch  []string
	noEmit bool
}

func parseOpts(args []string) (pos []string, o opts) {
	o.tier = os.Getenv("VERIF_TIER")
	if o.tier != "quick" && o.tier != "thorough" {
		o.tier = "quick"
	}
	o.repo = "/repo"
	for i := 0; i < len(args); i++ {
		a := args[i]
		next := func() string {
			if i+1 >= len(args) {
				usage()
			}
			i++
			return args[i]
		}
		switch a {
		case "--tier":
			o.tier = next()
		case "--repo":
			o.repo = next()
		case "--only":
			o.only = next()
		case "-v":
			o.verb = true
		case "--edit":
			o.edits = append(o.edits, next())
		case "--patch":
			o.patch = append(o.patch, next())
		case "--no-emit":
			o.noEmit = true
		default:
			pos = append(pos, a)
		}
	}
	return
}

// buildOverlay applies 'rel::old::new' substitutions; old must occur exactly once.
func buildOverlay(repo string, edits []string) (map[string][]byte, error) {
	if len(edits) == 0 {
		return nil, nil
	}
	ov := map[string][]byte{}
	for _, e := range edits {
		parts := strings.SplitN(e, "::", 3)
		if len(parts) != 3 {
			return nil, fmt.Errorf("bad --edit %q", e)
		}
		fn := filepath.Join(repo, parts[0])
		cur, ok := ov[fn]
		if !ok {
			b, err := os.ReadFile(fn)
			if err != nil {
				return nil, err
			}
			cur = b
		}
		if n := strings.Count(string(cur), parts[1]); n != 1 {
			return nil, fmt.Errorf("variant does not apply: %q occurs %d times in %s", parts[1], n, parts[0])
		}
		ov[fn] = []byte(strings.Replace(string(cur), parts[1], parts[2], 1))
	}
	return ov, nil
}

// patchOverlay applies a unified diff (git format, -p1) to a private copy of the files it names
// and adds the results to the overlay; /repo itself is not touched.
func patchOverlay(repo string, patches []string, ov map[string][]byte) (map[string][]byte, error) {
	if len(patches) == 0 {
		return ov, nil
	}
	if ov == nil {
		ov = map[string][]byte{}
	}
	for _, pf := range patches {
		if !filepath.IsAbs(pf) {
			pf = filepath.Join(verifDir(), pf)
		}
		b, err := os.ReadFile(pf)
		if err != nil {
			return nil, err
		}
		var rels []string
		for _, l := range strings.Split(string(b), "\n") {
			if strings.HasPrefix(l, "+++ b/") {
				rels = append(rels, strings.TrimSpace(strings.TrimPrefix(l, "+++ b/")))
			}
		}
		tmp, err := os.MkdirTemp("", "rvet-patch-")
		if err != nil {
			return nil, err
		}
		defer os.RemoveAll(tmp)
		for _, rel := range rels {
			src := filepath.Join(repo, rel)
			cur, ok := ov[src]
			if !ok {
				cur, _ = os.ReadFile(src) // a file the patch creates does not exist yet
			}
			_ = os.MkdirAll(filepath.Dir(filepath.Join(tmp, rel)), 0o755)
			if cur != nil {
				if err := os.WriteFile(filepath.Join(tmp, rel), cur, 0o644); err != nil {
					return nil, err
				}
			}
		}
		cmd := exec.Command("patch", "-p1", "-s", "-F0", "-d", tmp, "-i", pf)
		if out, err := cmd.CombinedOutput(); err != nil {
			return nil, fmt.Errorf("variant does not apply: %s: %s", pf, strings.TrimSpace(string(out)))
		}
		for _, rel := range rels {
			nb, err := os.ReadFile(filepath.Join(tmp, rel))
			if err != nil {
				return nil, err
			}
			ov[filepath.Join(repo, rel)] = nb
		}
	}
	return ov, nil
}

func main() {
	if len(os.Args) < 2 {
		usage()
	}
	switch os.Args[1] {
	case "check":
		pos, o := parseOpts(os.Args[2:])
		if len(pos) != 1 {
			usage()
		}
		os.Exit(runCheck(pos[0], o))
	case "funcs":
		_, o := parseOpts(os.Args[2:])
		os.Setenv("RVET_NO_NORMALIZE", "1")
		w, err := LoadWorld(o.repo, nil, "quick", "")
		if err != nil {
			fmt.Fprintln(os.Stderr, err)
			os.Exit(2)
		}
		fmt.Println("# functions of jamf/regatta on the reviewed tree (rvet funcs); a module function not listed here is a")
		fmt.Println("# new helper: its calls are inlined into the callers before the rules run (checker/normalize.go)")
		for _, k := range listFuncs(w.Mod) {
			fmt.Println(k)
		}
		os.Exit(0)
	case "list":
		_, o := parseOpts(os.Args[2:])
		os.Exit(runList(o))
	case "selftest":
		os.Exit(runSelftest(os.Args[2:]))
	default:
		usage()
	}
}

func runCheck(id string, o opts) (code int) {
	pd := registry[id]
	t0 := time.Now()
	vd := verifDir()
	seed, _ := strconv.Atoi(os.Getenv("VERIF_SEED"))
	failClosed := func(msg string) int {
		if o.noEmit {
			fmt.Printf("FINDING %s.load undecided %s/load - :: %s\n", id, id, msg)
			return 1
		}
		_ = os.MkdirAll(filepath.Join(vd, "evidence", "replay"), 0o755)
		path := filepath.Join(vd, "evidence", "replay", id+"-checker-failure.json")
		_ = os.WriteFile(path, []byte(fmt.Sprintf("{\n \"property\": %q,\n \"status\": \"undecided\",\n \"message\": %q\n}\n", id, msg)), 0o644)
		fmt.Printf("VIOLATION property=%s replay=%s\n  undecided: %s\n", id, path, msg)
		return 1
	}
	if pd == nil {
		return failClosed("no check registered for this property")
	}
	before := gitStatus(o.repo)
	ov, err := buildOverlay(o.repo, o.edits)
	if err == nil {
		ov, err = patchOverlay(o.repo, o.patch, ov)
	}
	if err != nil {
		fmt.Fprintln(os.Stderr, err)
		return 3
	}
	w, err := LoadWorld(o.repo, ov, o.tier, "")
	if err != nil {
		return failClosed("cannot load /repo: " + err.Error())
	}
	theWorld = w
	r := NewReport(id, w)
	for _, n := range w.Notes {
		fmt.Fprintln(os.Stderr, "note:", n)
	}
	if len(w.Notes) > 0 {
		r.Info["loader_notes"] = w.Notes
	}
	func() {
		defer func() {
			if p := recover(); p != nil {
				ob := r.Ob(id+".panic", "checker-panic", "the analyser must not crash", "")
				ob.Undecided("panic", fmt.Sprintf("analyser panic: %v\n%s", p, debug.Stack()))
			}
		}()
		pd.run(w, r)
	}()
	if o.tier == "thorough" && len(o.edits) == 0 && len(o.patch) == 0 && !o.noEmit {
		thoroughSelftest(id, o.repo, r)
	}
	if o.only != "" {
		var keep []*Ob
		for _, ob := range r.Obs {
			if ob.ID == o.only || strings.HasPrefix(ob.ID, o.only) {
				keep = append(keep, ob)
			}
		}
		r.Obs = keep
	}
	if after := gitStatus(o.repo); after != before {
		ob := r.Ob(id+".repo", "repo-touched", "the checker must not modify /repo", "")
		ob.Undecided("git-status", "git status of the repository changed during the run")
	}
	if o.verb {
		for _, ob := range r.Obs {
			fmt.Printf("%-8s %-11s %s\n", ob.ID, ob.Status, ob.Rule)
			for _, s := range ob.Sites {
				fmt.Printf("           . %s\n", s)
			}
		}
	}
	if o.noEmit {
		// self-test mode: print findings only, never touch evidence
		bad := 0
		known, _ := loadKnown(filepath.Join(vd, "known_findings.json"))
		for _, ob := range r.Obs {
			for _, f := range ob.Findings {
				isKnown := false
				for _, k := range known {
					if k.Status == "known" && k.Property == id && k.Key == f.Key && f.Status == Violated {
						isKnown = true
					}
				}
				if isKnown {
					fmt.Printf("KNOWN %s %s %s\n", ob.ID, f.Key, f.Where)
					continue
				}
				fmt.Printf("FINDING %s %s %s %s :: %s\n", ob.ID, f.Status, f.Key, f.Where, f.Message)
				bad++
			}
		}
		if bad > 0 {
			return 1
		}
		return 0
	}
	cmdline := "./bin/rvet " + strings.Join(os.Args[1:], " ")
	return r.Emit(vd, o.tier, seed, time.Since(t0).Seconds(), cmdline)
}

func runList(o opts) int {
	w, err := LoadWorld(o.repo, nil, "quick", "")
	if err != nil {
		fmt.Fprintln(os.Stderr, err)
		return 1
	}
	var ids []string
	for id := range registry {
		ids = append(ids, id)
	}
	sort.Strings(ids)
	fmt.Printf("loaded %d packages (%d module), %d module functions, load %.1fs ssa %.1fs\n", len(w.All), len(w.Mod), len(w.ModFuncs()), w.LoadS, w.SSAS)
	for _, id := range ids {
		r := NewReport(id, w)
		func() {
			defer func() {
				if p := recover(); p != nil {
					fmt.Printf("%s: PANIC %v\n", id, p)
				}
			}()
			registry[id].run(w, r)
		}()
		fmt.Printf("%s %s\n", id, registry[id].title)
		for _, ob := range r.Obs {
			fmt.Printf("  %-7s %-10s sites=%d floor=%d  %s\n", ob.ID, ob.Status, len(ob.Sites), ob.Floor, ob.Rule)
		}
	}
	return 0
}
