package main

// Small helpers over go/ssa shared by all rules: callee naming, instruction enumeration,
// closure resolution.

import (
	"go/token"
	"go/types"
	"strings"

	"golang.org/x/tools/go/ssa"
	"golang.org/x/tools/go/ssa/ssautil"
)

// CalleeName is the fully qualified name of what a call invokes: "(*pkg.T).M" for methods,
// "(pkg.I).M" for interface (invoke-mode) calls, "pkg.F" for functions, "builtin.len" for
// builtins, "" for calls of function values that cannot be named.
func CalleeName(c *ssa.CallCommon) string {
	if c.IsInvoke() {
		return c.Method.FullName()
	}
	switch v := c.Value.(type) {
	case *ssa.Builtin:
		return "builtin." + v.Name()
	case *ssa.Function:
		return funcFullName(v)
	case *ssa.MakeClosure:
		if f, ok := v.Fn.(*ssa.Function); ok {
			return funcFullName(f)
		}
	}
	return ""
}

// singleImplNewIfaces: interface types of the module that did not exist on the reviewed tree (a
// refactoring put a dependency behind a small interface) and to which every conversion in the
// module is from one and the same concrete type: the normaliser declares them as an alias of that
// type again, so that the calls are static calls as on the reviewed tree.
func singleImplNewIfaces(w *World) map[*types.TypeName]types.Type {
	out := map[*types.TypeName]types.Type{}
	cands := map[*types.Named]bool{}
	for path, p := range w.Mod {
		if p.Types == nil {
			continue
		}
		for _, name := range p.Types.Scope().Names() {
			tn, ok := p.Types.Scope().Lookup(name).(*types.TypeName)
			if !ok || tn.IsAlias() || !w.NewTypes[path+"."+name] {
				continue
			}
			n, ok := tn.Type().(*types.Named)
			if !ok || n.TypeParams().Len() > 0 {
				continue
			}
			if it, isI := n.Underlying().(*types.Interface); isI && it.NumMethods() > 0 {
				cands[n] = true
			}
		}
	}
	if len(cands) == 0 {
		return out
	}
	only := map[*types.Named]types.Type{}
	bad := map[*types.Named]bool{}
	for fn := range ssautil.AllFunctions(w.Prog) {
		if fn.Blocks == nil || !inModule(fn) {
			continue
		}
		eachInstr(fn, func(in ssa.Instruction) {
			switch x := in.(type) {
			case *ssa.MakeInterface:
				if n, ok := x.Type().(*types.Named); ok && cands[n] {
					if only[n] == nil {
						only[n] = x.X.Type()
					} else if !types.Identical(only[n], x.X.Type()) {
						bad[n] = true
					}
				}
			case *ssa.ChangeInterface:
				if n, ok := x.Type().(*types.Named); ok && cands[n] {
					bad[n] = true
				}
			case *ssa.TypeAssert:
				if n, ok := x.AssertedType.(*types.Named); ok && cands[n] {
					bad[n] = true
				}
			}
		})
	}
	for n := range cands {
		if !bad[n] && only[n] != nil {
			out[n.Obj()] = only[n]
		}
	}
	return out
}

func funcFullName(f *ssa.Function) string {
	if f.Origin() != nil { // instantiation of a generic: name the origin
		f = f.Origin()
	}
	if obj, ok := f.Object().(*types.Func); ok && obj != nil {
		return obj.FullName()
	}
	return f.String()
}

// StaticCallee returns the function a call statically resolves to (closures included).
func StaticCallee(c *ssa.CallCommon) *ssa.Function {
	if c.IsInvoke() {
		return nil
	}
	switch v := c.Value.(type) {
	case *ssa.Function:
		return unwrapPromoted(v)
	case *ssa.MakeClosure:
		f, _ := v.Fn.(*ssa.Function)
		return f
	}
	return nil
}

// unwrapPromoted looks through the synthetic wrapper go/ssa creates for a method promoted
// through an embedded field (e.g. (*shard).put → (*cache).put).
func unwrapPromoted(f *ssa.Function) *ssa.Function {
	for i := 0; i < 3 && f != nil && strings.HasPrefix(f.Synthetic, "wrapper for") && f.Blocks != nil; i++ {
		var target *ssa.Function
		n := 0
		for _, b := range f.Blocks {
			for _, in := range b.Instrs {
				if call, ok := in.(*ssa.Call); ok {
					if t, ok := call.Call.Value.(*ssa.Function); ok && t.Name() == f.Name() {
						target = t
						n++
					}
				}
			}
		}
		if n != 1 {
			return f
		}
		f = target
	}
	return f
}

// callOf returns the CallCommon of an instruction that is a call, go or defer.
func callOf(in ssa.Instruction) *ssa.CallCommon {
	if ci, ok := in.(ssa.CallInstruction); ok {
		return ci.Common()
	}
	return nil
}

// plainCall is callOf restricted to synchronous calls (no go / defer).
func plainCall(in ssa.Instruction) *ssa.CallCommon {
	if c, ok := in.(*ssa.Call); ok {
		return &c.Call
	}
	return nil
}

// isCallTo reports whether in is a (synchronous or deferred) call of one of the named callees.
func isCallTo(in ssa.Instruction, names ...string) bool {
	c := callOf(in)
	if c == nil {
		return false
	}
	n := CalleeName(c)
	for _, x := range names {
		if n == x {
			return true
		}
	}
	return false
}

// eachInstr visits every instruction of fn (not of its closures).
func eachInstr(fn *ssa.Function, f func(ssa.Instruction)) {
	for _, b := range fn.Blocks {
		if b == fn.Recover {
			continue // synthetic block returning the named results after a recovered panic
		}
		for _, in := range b.Instrs {
			f(in)
		}
	}
}

// withClosures returns fn followed by all functions nested in it, transitively.
func withClosures(fn *ssa.Function) []*ssa.Function {
	out := []*ssa.Function{fn}
	for _, a := range fn.AnonFuncs {
		out = append(out, withClosures(a)...)
	}
	return out
}

// callsIn lists call instructions of fn (optionally with closures) whose callee has one of the names.
func callsIn(fn *ssa.Function, closures bool, names ...string) []ssa.CallInstruction {
	var out []ssa.CallInstruction
	fns := []*ssa.Function{fn}
	if closures {
		fns = withClosures(fn)
	}
	for _, f := range fns {
		eachInstr(f, func(in ssa.Instruction) {
			if ci, ok := in.(ssa.CallInstruction); ok && isCallTo(in, names...) {
				out = append(out, ci)
			}
		})
	}
	return out
}

// deref strips pointers.
func deref(t types.Type) types.Type {
	for {
		t = types.Unalias(t) // dragonboat.ShardView = registry.ShardView etc.
		p, ok := t.Underlying().(*types.Pointer)
		if !ok {
			return t
		}
		t = p.Elem()
	}
}

// typeIs reports whether t (after stripping pointers) is the named type pkgpath.name.
func typeIs(t types.Type, pkgpath, name string) bool {
	n, ok := deref(t).(*types.Named)
	if !ok || n.Obj() == nil || n.Obj().Pkg() == nil {
		return false
	}
	return n.Obj().Pkg().Path() == pkgpath && n.Obj().Name() == name
}

func typeString(t types.Type) string {
	return types.TypeString(t, func(p *types.Package) string {
		s := p.Path()
		if strings.HasPrefix(s, modPath) {
			s = strings.TrimPrefix(strings.TrimPrefix(s, modPath), "/")
			if s == "" {
				s = "regatta"
			}
		}
		return s
	})
}

// fieldName of a FieldAddr / Field instruction.
func fieldAddrName(fa *ssa.FieldAddr) string {
	st, ok := deref(fa.X.Type()).Underlying().(*types.Struct)
	if !ok {
		return "?"
	}
	return st.Field(fa.Field).Name()
}

func fieldValName(f *ssa.Field) string {
	st, ok := f.X.Type().Underlying().(*types.Struct)
	if !ok {
		return "?"
	}
	return st.Field(f.Field).Name()
}

// instrPos finds a usable position for an instruction (some SSA instructions carry NoPos).
func instrPos(in ssa.Instruction) token.Pos {
	if in == nil {
		return token.NoPos
	}
	if p := in.Pos(); p.IsValid() {
		return p
	}
	if v, ok := in.(ssa.Value); ok {
		_ = v
	}
	// operands
	var ops []*ssa.Value
	ops = in.Operands(ops)
	for _, o := range ops {
		if o != nil && *o != nil {
			if p := (*o).Pos(); p.IsValid() {
				return p
			}
		}
	}
	// neighbours in the block
	b := in.Block()
	if b != nil {
		idx := -1
		for i, x := range b.Instrs {
			if x == in {
				idx = i
			}
		}
		for d := 1; d < len(b.Instrs); d++ {
			for _, j := range []int{idx - d, idx + d} {
				if j >= 0 && j < len(b.Instrs) {
					if p := b.Instrs[j].Pos(); p.IsValid() {
						return p
					}
				}
			}
		}
	}
	return token.NoPos
}

// blockPos finds a position for a block.
func blockPos(b *ssa.BasicBlock) token.Pos {
	for _, in := range b.Instrs {
		if p := in.Pos(); p.IsValid() {
			return p
		}
	}
	for _, in := range b.Instrs {
		if p := instrPos(in); p.IsValid() {
			return p
		}
	}
	return token.NoPos
}

// closureParentBinding resolves the i-th free variable of closure fn to the value bound in its
// parent at the (unique) MakeClosure site. Returns nil when not unique.
func closureBinding(fn *ssa.Function, fv *ssa.FreeVar) ssa.Value {
	par := fn.Parent()
	if par == nil {
		return nil
	}
	idx := -1
	for i, f := range fn.FreeVars {
		if f == fv {
			idx = i
		}
	}
	if idx < 0 {
		return nil
	}
	var found ssa.Value
	n := 0
	eachInstr(par, func(in ssa.Instruction) {
		if mc, ok := in.(*ssa.MakeClosure); ok && mc.Fn == fn {
			n++
			found = mc.Bindings[idx]
		}
	})
	if n != 1 {
		return nil
	}
	return found
}

// makeClosureSites returns the MakeClosure instructions in parent creating fn.
func makeClosureSite(fn *ssa.Function) *ssa.MakeClosure {
	par := fn.Parent()
	if par == nil {
		return nil
	}
	var found *ssa.MakeClosure
	eachInstr(par, func(in ssa.Instruction) {
		if mc, ok := in.(*ssa.MakeClosure); ok && mc.Fn == fn {
			found = mc
		}
	})
	return found
}

// storesTo lists the values stored to an address value within fn and its closures
// (flow-insensitive).
func storesTo(fn *ssa.Function, addr ssa.Value) []*ssa.Store {
	var out []*ssa.Store
	if addr.Referrers() == nil {
		return nil
	}
	for _, r := range *addr.Referrers() {
		if st, ok := r.(*ssa.Store); ok && st.Addr == addr {
			out = append(out, st)
		}
	}
	return out
}

// isNilConst reports whether v is the nil constant.
func isNilConst(v ssa.Value) bool {
	c, ok := v.(*ssa.Const)
	return ok && c.IsNil()
}

func isErrorType(t types.Type) bool {
	return types.Identical(t, types.Universe.Lookup("error").Type())
}

// fieldRead recognises a read of a struct field, either of a struct value (Field) or through
// an address (load of FieldAddr; covers parameters spilled to locals).
func fieldRead(v ssa.Value) (baseType types.Type, field string, ok bool) {
	switch x := v.(type) {
	case *ssa.Field:
		return x.X.Type(), fieldValName(x), true
	case *ssa.UnOp:
		if x.Op == token.MUL {
			if fa, ok := x.X.(*ssa.FieldAddr); ok {
				return deref(fa.X.Type()), fieldAddrName(fa), true
			}
		}
	}
	return nil, "", false
}

// isFieldReadOf: v reads field `field` of a value of named type pkg.name.
func isFieldReadOf(v ssa.Value, pkg, name, field string) bool {
	t, f, ok := fieldRead(v)
	return ok && f == field && typeIs(t, pkg, name)
}

// sameValue: identical SSA value, or two reads of the same place (same canonical access path).
func sameValue(a, b ssa.Value) bool {
	if a == b {
		return true
	}
	ea, eb := Expr(a), Expr(b)
	return ea == eb && !strings.Contains(ea, "?")
}
