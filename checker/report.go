package main

// Obligations, verdicts, evidence files, replay files and the known-findings list.

import (
	"encoding/json"
	"fmt"
	"os"
	"path/filepath"
	"regexp"
	"sort"
	"strings"

	"go/token"
)

type Status string

const (
	Discharged Status = "discharged"
	Violated   Status = "violated"
	Undecided  Status = "undecided"
)

// Finding is one violated/undecided construct of an obligation.
type Finding struct {
	Key     string   `json:"key"` // Cxx/<obligation>/<construct> — by resolved object, never by line
	Status  Status   `json:"status"`
	Message string   `json:"message"`
	Where   string   `json:"where,omitempty"`
	Witness []string `json:"witness,omitempty"`
	Known   bool     `json:"known_finding,omitempty"`
}

type Ob struct {
	ID    string `json:"id"`   // e.g. "C09.a"
	Slug  string `json:"slug"` // e.g. "a-iterator-protocol"
	Rule  string `json:"rule"`
	Why   string `json:"why_necessary,omitempty"`
	Floor int    `json:"floor"`
	// Sites are the constructs the rule matched and examined (file:line description).
	Sites    []string  `json:"sites"`
	Findings []Finding `json:"findings,omitempty"`
	Status   Status    `json:"status"`
	Tier     string    `json:"tier_only,omitempty"`

	rep *Report
}

type Report struct {
	Prop string
	W    *World
	Obs  []*Ob
	// Undecided explains what the property's statement covers that no obligation decides.
	NotDecided []string
	Assume     []string
	Decides    string
	Info       map[string]any
}

func NewReport(prop string, w *World) *Report {
	return &Report{Prop: prop, W: w, Info: map[string]any{}}
}

func (r *Report) Ob(id, slug, rule, why string) *Ob {
	o := &Ob{ID: id, Slug: slug, Rule: rule, Why: why, rep: r, Status: Discharged}
	r.Obs = append(r.Obs, o)
	return o
}

func (o *Ob) key(construct string) string {
	return o.rep.Prop + "/" + o.Slug + "/" + construct
}

// Site records a construct the rule examined.
func (o *Ob) Site(p token.Pos, desc string) {
	o.Sites = append(o.Sites, o.rep.W.Pos(p)+" "+desc)
}

func (o *Ob) SiteS(desc string) { o.Sites = append(o.Sites, desc) }

func (o *Ob) Violate(construct string, p token.Pos, msg string, witness ...string) {
	o.Findings = append(o.Findings, Finding{Key: o.key(construct), Status: Violated, Message: msg, Where: o.rep.W.Pos(p), Witness: witness})
	o.Status = Violated
}

func (o *Ob) Undecided(construct string, msg string) {
	o.Findings = append(o.Findings, Finding{Key: o.key(construct), Status: Undecided, Message: msg})
	if o.Status != Violated {
		o.Status = Undecided
	}
}

// NeedFloor fails the obligation when clearly fewer constructs were matched than were confirmed
// by hand on the reviewed tree (n): a rule that matches nothing would pass vacuously for ever.
// The threshold leaves room for behaviour-preserving edits that merge sites (two handlers sharing
// one mapping helper, two loops merged into one): about a third of the confirmed count, at least
// one site, may disappear before the rule is considered to have lost its anchors. Each rule
// reports the loss of an individual anchor it depends on by itself ("shape"/"anchor" findings).
func (o *Ob) NeedFloor(n int) {
	t := n
	switch {
	case n >= 3:
		slack := n / 3
		if slack < 1 {
			slack = 1
		}
		t = n - slack
	case n == 2:
		t = 1
	}
	o.Floor = t
	if len(o.Sites) < t {
		o.Undecided("floor", fmt.Sprintf("rule matched %d construct(s), at least %d expected (%d confirmed on the reviewed tree): the anchored code changed shape and the rule would pass vacuously", len(o.Sites), t, n))
	}
}

// ---------- known findings ----------

type KnownFinding struct {
	Property string `json:"property"`
	Key      string `json:"key"`
	Status   string `json:"status"`
	Commit   string `json:"commit,omitempty"`
	What     string `json:"what"`
}

func loadKnown(path string) ([]KnownFinding, error) {
	b, err := os.ReadFile(path)
	if err != nil {
		if os.IsNotExist(err) {
			return nil, nil
		}
		return nil, err
	}
	var f struct {
		Findings []KnownFinding `json:"findings"`
	}
	if err := json.Unmarshal(b, &f); err != nil {
		return nil, err
	}
	return f.Findings, nil
}

// ---------- output ----------

var unsafeKey = regexp.MustCompile(`[^A-Za-z0-9_.$-]+`)

type Evidence struct {
	PropertyID  string         `json:"property_id"`
	Tier        string         `json:"tier"`
	Seed        int            `json:"seed"`
	Level       string         `json:"level"`
	Coverage    map[string]any `json:"coverage"`
	Assumptions []string       `json:"assumptions"`
	WallS       float64        `json:"wall_s"`
	Violations  int            `json:"violations"`
}

// Emit prints the verdict lines, writes evidence + replay files and returns the exit code.
func (r *Report) Emit(verifDir string, tier string, seed int, wall float64, cmdline string) int {
	known, kerr := loadKnown(filepath.Join(verifDir, "known_findings.json"))
	replayDir := filepath.Join(verifDir, "evidence", "replay")
	_ = os.MkdirAll(replayDir, 0o755)
	// remove stale replay files of this property
	if old, _ := filepath.Glob(filepath.Join(replayDir, r.Prop+"-*.json")); old != nil {
		for _, f := range old {
			_ = os.Remove(f)
		}
	}
	exit := 0
	nviol := 0
	nknown := 0
	discharged := 0
	nontrivial := 0
	var samples []any
	if kerr != nil {
		fmt.Printf("VIOLATION property=%s replay=%s\n", r.Prop, filepath.Join(verifDir, "known_findings.json"))
		fmt.Printf("  known_findings.json unreadable: %v\n", kerr)
		exit = 1
		nviol++
	}
	for _, o := range r.Obs {
		sort.Strings(o.Sites)
		if len(o.Sites) > 0 {
			nontrivial++
		}
		allKnown := len(o.Findings) > 0
		for i := range o.Findings {
			f := &o.Findings[i]
			for _, k := range known {
				if k.Status == "known" && k.Property == r.Prop && k.Key == f.Key && f.Status == Violated {
					f.Known = true
					fmt.Printf("KNOWN-FINDING: property=%s %s [%s] %s\n", r.Prop, k.What, f.Key, f.Where)
					nknown++
				}
			}
			if f.Known {
				continue
			}
			allKnown = false
			name := r.Prop + "-" + unsafeKey.ReplaceAllString(strings.TrimPrefix(f.Key, r.Prop+"/"), "_") + ".json"
			path := filepath.Join(replayDir, name)
			rp := map[string]any{
				"property": r.Prop, "obligation": o.ID, "key": f.Key, "status": f.Status,
				"rule": o.Rule, "why_necessary": o.Why, "message": f.Message, "where": f.Where,
				"witness": f.Witness, "repo": r.W.RepoDir,
				"explain_cmd": fmt.Sprintf("./bin/rvet check %s --tier %s --only %s -v", r.Prop, tier, o.ID),
			}
			b, _ := json.MarshalIndent(rp, "", " ")
			_ = os.WriteFile(path, b, 0o644)
			fmt.Printf("VIOLATION property=%s replay=%s\n", r.Prop, path)
			fmt.Printf("  %s [%s] %s: %s\n", o.ID, f.Status, f.Where, f.Message)
			for _, wline := range f.Witness {
				fmt.Printf("      %s\n", wline)
			}
			exit = 1
			nviol++
		}
		if len(o.Findings) == 0 || allKnown {
			if len(o.Findings) == 0 {
				discharged++
			}
		}
		s := map[string]any{"obligation": o.ID, "rule": o.Rule, "status": o.Status, "matched_constructs": len(o.Sites), "floor": o.Floor}
		if len(o.Sites) > 0 {
			n := len(o.Sites)
			if n > 6 {
				n = 6
			}
			s["sites"] = o.Sites[:n]
		}
		if len(o.Findings) > 0 {
			s["findings"] = o.Findings
		}
		samples = append(samples, s)
	}
	nsites := 0
	for _, o := range r.Obs {
		nsites += len(o.Sites)
	}
	expl := r.Decides + " DOES NOT DECIDE: " + strings.Join(r.NotDecided, "; ") +
		". Each obligation is a structural necessary condition of the property decided on the type-checked SSA form of /repo's current sources; the behaviour itself is not decided."
	analysed := map[string]any{
		"repo": r.W.RepoDir, "module_packages": len(r.W.Mod), "all_packages": len(r.W.All),
		"module_functions_with_bodies": len(r.W.ModFuncs()), "load_s": r.W.LoadS, "ssa_s": r.W.SSAS,
		"callgraph": r.W.cgKind, "constructs_examined": nsites,
	}
	for k, v := range r.Info {
		analysed[k] = v
	}
	ev := Evidence{
		PropertyID: r.Prop, Tier: tier, Seed: seed, Level: "other",
		Coverage: map[string]any{
			"explanation":         expl,
			"obligations":         len(r.Obs),
			"discharged":          discharged,
			"evaluations":         len(r.Obs),
			"distinct_nontrivial": nontrivial,
			"rule":                "one evaluation per obligation; an obligation is non-trivial when its rule matched at least one construct of the current tree (counted on this run)",
			"samples":             samples,
			"analysed":            analysed,
			"checker_cmd":         cmdline,
			"trusted_base":        []string{"go/types and go/ssa of golang.org/x/tools v0.29.0", "the rvet atom normaliser and path engine", "names and documented behaviour of the dependency APIs used as anchors (pebble, dragonboat, grpc, vfs)"},
			"known_findings":      nknown,
			"exhaustive":          false,
		},
		Assumptions: r.Assume,
		WallS:       wall,
		Violations:  nviol,
	}
	b, _ := json.MarshalIndent(ev, "", " ")
	_ = os.MkdirAll(filepath.Join(verifDir, "evidence"), 0o755)
	if err := os.WriteFile(filepath.Join(verifDir, "evidence", r.Prop+".json"), b, 0o644); err != nil {
		fmt.Printf("VIOLATION property=%s replay=%s\n  cannot write evidence: %v\n", r.Prop, "-", err)
		return 1
	}
	fmt.Printf("%s: %d obligations, %d discharged, %d violation(s), %d known finding(s), %d constructs examined, %.1fs\n",
		r.Prop, len(r.Obs), discharged, nviol, nknown, nsites, wall)
	return exit
}
