package main

// C06 — replication log stream is exact: consecutive applied entries, no gap or repeat.

import (
	"go/constant"
	"go/token"
	"go/types"
	"strings"

	"golang.org/x/tools/go/ssa"
)

func init() {
	register("C06", "replication log stream is exact", checkC06)
}

const raftpbPath = "github.com/lni/dragonboat/v4/raftpb"

// onlyUnder: target instructions must be unreachable from start once every edge that
// establishes `need` is cut - for each need separately (conjunction of guards).
func onlyUnder(w *World, ob *Ob, fn *ssa.Function, ctx *ExprCtx, start Loc, isTarget func(ssa.Instruction) bool, key, what string, needs ...Lit) {
	for _, need := range needs {
		wk := &Walk{Target: isTarget, EdgeOK: func(b *ssa.BasicBlock, k int) bool {
			for _, l := range ctx.EdgeLits(b, k) {
				if l.Implies(need) {
					return false
				}
			}
			return true
		}}
		if p := wk.Find(start); p != nil {
			ob.Violate(key, instrPos(p.Hit), what+" is reachable without `"+need.String()+"` having been established", w.PathString(p)...)
		}
	}
}

// queryBlock: the block of the (first) log query call; code not reachable from it is "before the loop".
func queryBlock(fn *ssa.Function) *ssa.BasicBlock {
	var b *ssa.BasicBlock
	eachInstr(fn, func(in ssa.Instruction) {
		if c := plainCall(in); c != nil && c.IsInvoke() && c.Method.Name() == "QueryRaftLog" && b == nil {
			b = in.Block()
		}
	})
	if b == nil {
		return fn.Blocks[0]
	}
	return b
}

func linLit(terms map[string]int64, c int64, op token.Token) Lit {
	l, _ := intLit(Lin{T: terms, C: c, nn: map[string]bool{}}, op)
	return l
}

func checkC06(w *World, r *Report) {
	r.Decides = "C06 is decided in its structural part only: (a) the range arithmetic of the stream handler: first index = requested index, last = applied+1 from a linearizable read, 'leader behind' exactly under applied+1 < requested, the next first index is min(last returned index+1, last), the empty answer carries the applied index; (b) the three-way decision of the log read: empty under rLast+1 == first, 'behind' only under rLast < first and not the former, 'ahead' only under first < rFirst, entries only under none of them, and the handler maps the two errors to the two error responses; (c) one command per entry per iteration, in slice order, a non-encoded entry becomes a no-op command (never skipped), the labels are the entry's own index; (d) cache hygiene: only the cache's own append path writes its buffer, every put from the cached reader is guarded by one of: cache empty / served cached run non-empty / first new index-1 == largest cached, and log compaction and node deletion events of this replica invalidate the shard's cache; (e) a size cut keeps at least one entry."
	r.NotDecided = []string{"that cached and uncached readers return the same entries for every cache state (value-level reasoning over index arithmetic and slices - the central clause of the cache sentence)", "density of what dragonboat's log reader returns", "that the cache lookup requests the missing run from largest+1 (its contract)"}
	r.Assume = []string{"ReadonlyLogReader.Entries(first,last,max) returns consecutive entries starting at first", "the applied index only grows"}
	c06Handler(w, r, "C06.a", "a-range-arithmetic")
	c06ReadLog(w, r, "C06.b", "b-three-way-decision")
	c06Dense(w, r, "C06.c", "c-dense-ordered-labelled")
	c06Cache(w, r, "C06.d", "d-cache-hygiene")
	c06SizeCut(w, r)
}

func c06Handler(w *World, r *Report, id, slug string) {
	ob := r.Ob(id, slug, "stream handler: LogRange.FirstIndex is initialised from the request's LeaderIndex and LastIndex from (applied index read with linearizable=true)+1; the pre-loop 'leader behind' answer is sent only under request.LeaderIndex - applied >= 2 and the log is queried only under its negation; inside the loop FirstIndex is advanced to min(last returned entry's Index+1, LastIndex); the empty answer's LeaderIndex is an applied index read", "any other arithmetic repeats or skips entries at batch boundaries or answers 'behind' to an up-to-date follower")
	fn := w.Func("regattaserver", "LogServer.Replicate")
	if fn == nil {
		ob.Undecided("anchor", "LogServer.Replicate not found")
		return
	}
	rp := reqParam(fn)
	var applied ssa.Value
	eachInstr(fn, func(in ssa.Instruction) {
		c := plainCall(in)
		if c != nil && strings.HasSuffix(CalleeName(c), "ActiveTable).LocalIndex") && !inCycle(in.Block()) && applied == nil {
			applied = in.(ssa.Value)
		}
	})
	if rp == nil || applied == nil {
		ob.Undecided("shape", "request parameter or the applied-index read before the loop not found")
		return
	}
	ctx := &ExprCtx{Alias: map[ssa.Value]string{rp: "req", applied: "applied"}}
	// LogRange stores
	var rangeAlloc ssa.Value
	nFirst := 0
	eachInstr(fn, func(in ssa.Instruction) {
		st, ok := in.(*ssa.Store)
		if !ok {
			return
		}
		fa, ok := st.Addr.(*ssa.FieldAddr)
		if !ok || !typeIs(fa.X.Type(), "github.com/lni/dragonboat/v4", "LogRange") {
			return
		}
		rangeAlloc = fa.X
		e := ctx.Expr(st.Val)
		fld := fieldAddrName(fa)
		ob.Site(in.Pos(), "LogRange."+fld+" = "+e)
		switch {
		case fld == "FirstIndex" && !inCycle(in.Block()):
			if e != "req.LeaderIndex" {
				ob.Violate("first-index-init", in.Pos(), "the stream starts at `"+e+"`, not at the requested index")
			}
		case fld == "LastIndex":
			if e != "applied#0.Index+1" {
				ob.Violate("last-index", in.Pos(), "the stream's end is `"+e+"`, not applied index + 1")
			}
		case fld == "FirstIndex":
			nFirst++
			// min(entries[len-1].Index+1, LastIndex)
			ok := strings.HasPrefix(e, "min(") && strings.Contains(e, ".LastIndex") && strings.Contains(e, "].Index+1") && strings.Contains(e, "QueryRaftLog(") && strings.Contains(e, "-1].Index+1")
			if !ok {
				ob.Violate("first-index-advance", in.Pos(), "the next batch starts at `"+e+"`, expected min(last returned index + 1, last index)")
			}
		}
	})
	_ = rangeAlloc
	if nFirst == 0 {
		ob.Violate("first-index-not-advanced", fn.Pos(), "the handler never advances the first index after sending a batch: entries are repeated")
	}
	// leader-behind guard
	behind := linLit(map[string]int64{"req.LeaderIndex": 1, "applied#0.Index": -1}, -2, token.GEQ)
	notBehind := behind.Not()[0]
	isSendGlobal := func(name string) func(ssa.Instruction) bool {
		return func(in ssa.Instruction) bool {
			c := plainCall(in)
			if c == nil || !c.IsInvoke() || c.Method.Name() != "Send" {
				return false
			}
			return strings.HasSuffix(Expr(c.Args[0]), "."+name)
		}
	}
	isQuery := func(in ssa.Instruction) bool {
		c := plainCall(in)
		return c != nil && c.IsInvoke() && c.Method.Name() == "QueryRaftLog"
	}
	nb := 0
	eachInstr(fn, func(in ssa.Instruction) {
		if isSendGlobal("repErrLeaderBehind")(in) && (&Walk{Target: func(x ssa.Instruction) bool { return x == in }}).Find(Loc{queryBlock(fn), 0}) == nil {
			nb++
			ob.Site(in.Pos(), "pre-loop 'leader behind' answer")
			onlyUnder(w, ob, fn, ctx, entry(fn), func(x ssa.Instruction) bool { return x == in }, "behind-unguarded", "the pre-loop 'leader behind' answer", behind)
		}
	})
	if nb == 0 {
		ob.Violate("behind-missing", fn.Pos(), "the handler has no 'leader behind' answer for a request beyond applied+1")
	}
	onlyUnder(w, ob, fn, ctx, entry(fn), isQuery, "query-when-behind", "the log query", notBehind)
	// the applied read that bounds the stream is linearizable
	if c := plainCall(applied.(ssa.Instruction)); c != nil && !isConstBool(c.Args[2], true) {
		ob.Violate("applied-read-stale", applied.Pos(), "the applied index that bounds the stream is read with linearizable=`"+Expr(c.Args[2])+"`")
	}
	// empty answer
	eachInstr(fn, func(in ssa.Instruction) {
		st, ok := in.(*ssa.Store)
		if !ok {
			return
		}
		fa, ok := st.Addr.(*ssa.FieldAddr)
		if !ok || !typeIs(fa.X.Type(), pbPkg, "ReplicateResponse") || fieldAddrName(fa) != "LeaderIndex" {
			return
		}
		e := ctx.Expr(st.Val)
		ob.Site(in.Pos(), "ReplicateResponse.LeaderIndex = "+e)
		if !(strings.HasSuffix(e, "#0.Index") && (strings.HasPrefix(e, "applied") || strings.Contains(e, "ActiveTable).LocalIndex("))) {
			ob.Violate("response-leader-index", in.Pos(), "a replication response carries `"+e+"` as leader index, not an applied index")
		}
	})
	ob.NeedFloor(6)
}

func c06ReadLog(w *World, r *Report, id, slug string) {
	ob := r.Ob(id, slug, "log read: with (rFirst, rLast) = reader.GetRange(): `return nil, nil` only under first - rLast == 1; ErrLogBehind only under first - rLast >= 1 and first - rLast != 1; ErrLogAhead only under first - rFirst <= -1; reader.Entries only under first - rLast <= 0 and first - rFirst >= 0; the handler answers errors.Is(err, ErrLogBehind) with the 'leader behind' response and ErrLogAhead with 'use snapshot'", "a shifted comparison turns 'up to date' into 'behind', serves compacted indices, or answers 'use snapshot' to a follower that could be served from the log")
	fn := w.Func("storage/logreader", "readLog")
	if fn == nil {
		ob.Undecided("anchor", "storage/logreader.readLog not found")
		return
	}
	ctx := &ExprCtx{Alias: map[ssa.Value]string{}}
	var rangeParam *ssa.Parameter
	for _, p := range fn.Params {
		if typeIs(p.Type(), "github.com/lni/dragonboat/v4", "LogRange") {
			rangeParam = p
		}
	}
	eachInstr(fn, func(in ssa.Instruction) {
		ex, ok := in.(*ssa.Extract)
		if !ok {
			return
		}
		if call, ok := ex.Tuple.(*ssa.Call); ok && call.Call.IsInvoke() && call.Call.Method.Name() == "GetRange" {
			if ex.Index == 0 {
				ctx.Alias[ex] = "rFirst"
			} else {
				ctx.Alias[ex] = "rLast"
			}
		}
	})
	if rangeParam == nil || len(ctx.Alias) != 2 {
		ob.Undecided("shape", "log range parameter or GetRange() results not found")
		return
	}
	ctx.Alias[rangeParam] = "rng"
	first := "rng.FirstIndex"
	upToDate := linLit(map[string]int64{first: 1, "rLast": -1}, -1, token.EQL)
	notUpToDate := linLit(map[string]int64{first: 1, "rLast": -1}, -1, token.NEQ)
	behind := linLit(map[string]int64{first: 1, "rLast": -1}, -1, token.GEQ)
	notBehind := linLit(map[string]int64{first: 1, "rLast": -1}, 0, token.LEQ)
	ahead := linLit(map[string]int64{first: 1, "rFirst": -1}, 1, token.LEQ)
	notAhead := linLit(map[string]int64{first: 1, "rFirst": -1}, 0, token.GEQ)
	// only edges after GetRange matter: start there
	var start Loc
	eachInstr(fn, func(in ssa.Instruction) {
		if c := plainCall(in); c != nil && c.IsInvoke() && c.Method.Name() == "GetRange" {
			start = after(in)
		}
	})
	errName := func(ret *ssa.Return) string {
		e := Expr(retVal(ret, 1))
		switch {
		case strings.HasSuffix(e, ".ErrLogBehind"):
			return "behind"
		case strings.HasSuffix(e, ".ErrLogAhead"):
			return "ahead"
		case isNilConst(retVal(ret, 1)) && isNilConst(retVal(ret, 0)):
			return "empty"
		}
		return ""
	}
	seen := map[string]bool{}
	for _, in := range (&Walk{}).ReachableInstrs(start) {
		ret, ok := in.(*ssa.Return)
		if !ok {
			if c := plainCall(in); c != nil && c.IsInvoke() && c.Method.Name() == "Entries" {
				seen["entries"] = true
				ob.Site(in.Pos(), "reader.Entries("+ctx.Expr(c.Args[0])+", "+ctx.Expr(c.Args[1])+", …)")
				onlyUnder(w, ob, fn, ctx, start, func(x ssa.Instruction) bool { return x == in }, "entries-unguarded", "the read of log entries", notBehind, notAhead)
				if ctx.Expr(c.Args[0]) != first || ctx.Expr(c.Args[1]) != "rng.LastIndex" {
					ob.Violate("entries-range", in.Pos(), "entries are read for ["+ctx.Expr(c.Args[0])+", "+ctx.Expr(c.Args[1])+"), not for the requested range")
				}
			}
			continue
		}
		k := errName(ret)
		if k == "" {
			continue
		}
		seen[k] = true
		ob.Site(ret.Pos(), "log read returns "+k)
		tgt := func(x ssa.Instruction) bool { return x == in }
		switch k {
		case "empty":
			onlyUnder(w, ob, fn, ctx, start, tgt, "empty-unguarded", "the empty answer", upToDate)
		case "behind":
			onlyUnder(w, ob, fn, ctx, start, tgt, "behind-unguarded", "ErrLogBehind", behind, notUpToDate)
		case "ahead":
			onlyUnder(w, ob, fn, ctx, start, tgt, "ahead-unguarded", "ErrLogAhead", ahead)
		}
	}
	for _, k := range []string{"empty", "behind", "ahead", "entries"} {
		if !seen[k] {
			ob.Violate("decision-missing/"+k, fn.Pos(), "the log read has no `"+k+"` outcome any more")
		}
	}
	// handler mapping
	if h := w.Func("regattaserver", "LogServer.Replicate"); h != nil {
		hctx := &ExprCtx{}
		for _, b := range h.Blocks {
			for k := range b.Succs {
				for _, l := range hctx.EdgeLits(b, k) {
					if l.Kind != "eq" || l.Neg || !strings.HasPrefix(l.B, "is:") {
						continue
					}
					var want string
					switch {
					case strings.HasSuffix(l.B, "ErrLogBehind"):
						want = "repErrLeaderBehind"
					case strings.HasSuffix(l.B, "ErrLogAhead"):
						want = "repErrUseSnapshot"
					default:
						continue
					}
					okSend := false
					for _, in := range b.Succs[k].Instrs {
						if c := plainCall(in); c != nil && c.IsInvoke() && c.Method.Name() == "Send" {
							e := Expr(c.Args[0])
							ob.Site(in.Pos(), "handler answers "+l.B+" with "+e)
							if strings.HasSuffix(e, "."+want) {
								okSend = true
							}
						}
					}
					if !okSend {
						ob.Violate("handler-mapping/"+want, blockPos(b.Succs[k]), "the handler does not answer "+l.B+" with "+want)
					}
				}
			}
		}
	}
	ob.NeedFloor(6)
}

func c06Dense(w *World, r *Report, id, slug string) {
	ob := r.Ob(id, slug, "handler: in the loop over the returned entries every iteration appends exactly one ReplicateCommand (or returns an error), whose LeaderIndex is the entry's Index; entry conversion: every success return hands back a command, the non-encoded edge sets the no-op type instead of decoding, the command's LeaderIndex points at the entry's Index", "a skipped entry is a gap in the follower's log; a wrong label makes the follower record a wrong leader index")
	fn := w.Func("regattaserver", "LogServer.Replicate")
	conv := w.Func("regattaserver", "entryToCommand")
	if fn == nil || conv == nil {
		ob.Undecided("anchor", "handler or entry conversion not found")
		return
	}
	// the loop may sit in the handler or in a helper the handler hands the returned entries to
	// (single call site): the helper's parameters then read as the handler's arguments
	host := fn
	hctx := &ExprCtx{}
	hasEmit := func(f *ssa.Function) bool {
		found := false
		eachInstr(f, func(in ssa.Instruction) {
			if c := plainCall(in); c != nil && CalleeName(c) == "builtin.append" {
				if s, ok := c.Args[0].Type().Underlying().(*types.Slice); ok && typeIs(s.Elem(), pbPkg, "ReplicateCommand") {
					found = true
				}
			}
			if st, ok := in.(*ssa.Store); ok {
				if ia, ok := st.Addr.(*ssa.IndexAddr); ok {
					if sl, ok := ia.X.Type().Underlying().(*types.Slice); ok && typeIs(sl.Elem(), pbPkg, "ReplicateCommand") {
						found = true
					}
				}
			}
		})
		return found
	}
	if !hasEmit(fn) {
		eachInstr(fn, func(in ssa.Instruction) {
			c := plainCall(in)
			if c == nil {
				return
			}
			cal := StaticCallee(c)
			if cal == nil || cal.Blocks == nil || !inModule(cal) || !hasEmit(cal) || len(w.CallersOf(cal)) != 1 || len(c.Args) != len(cal.Params) {
				return
			}
			host = cal
			hctx = &ExprCtx{Alias: map[ssa.Value]string{}}
			for i, p := range cal.Params {
				hctx.Alias[p] = Expr(c.Args[i])
			}
			// what the helper returns is what the handler ships
			okShip := false
			if cv, isV := in.(ssa.Value); isV && cv.Referrers() != nil {
				for _, ref := range *cv.Referrers() {
					if ex, isE := ref.(*ssa.Extract); isE && ex.Index == 0 && ex.Referrers() != nil {
						for _, r2 := range *ex.Referrers() {
							if st, isS := r2.(*ssa.Store); isS {
								if fa, isF := st.Addr.(*ssa.FieldAddr); isF && fieldAddrName(fa) == "Commands" && typeIs(fa.X.Type(), pbPkg, "ReplicateCommandsResponse") {
									okShip = true
								}
							}
						}
					}
				}
			}
			ob.Site(in.Pos(), "command loop in helper "+FnName(cal))
			if !okShip {
				ob.Violate("helper-result-not-shipped", in.Pos(), "the commands built by "+FnName(cal)+" are not what the handler puts into its response")
			}
		})
	}
	hx := func(v ssa.Value) string { return hctx.Expr(v) }
	// the command of an entry is emitted by append(commands, cmd) or by commands[i] = cmd (with
	// commands made len(entries) long and i the index of the entry)
	var appends []ssa.Instruction
	emitted := func(in ssa.Instruction) []ssa.Value {
		if c := plainCall(in); c != nil {
			return appendedValues(c)
		}
		if st, ok := in.(*ssa.Store); ok {
			return []ssa.Value{st.Val}
		}
		return nil
	}
	eachInstr(host, func(in ssa.Instruction) {
		if c := plainCall(in); c != nil && CalleeName(c) == "builtin.append" {
			if s, ok := c.Args[0].Type().Underlying().(*types.Slice); ok && typeIs(s.Elem(), pbPkg, "ReplicateCommand") {
				appends = append(appends, in)
			}
		}
		if st, ok := in.(*ssa.Store); ok {
			if ia, ok := st.Addr.(*ssa.IndexAddr); ok {
				if sl, ok := ia.X.Type().Underlying().(*types.Slice); ok && typeIs(sl.Elem(), pbPkg, "ReplicateCommand") {
					appends = append(appends, in)
					idx := hx(ia.Index)
					ob.Site(in.Pos(), "commands["+idx+"] assigned")
					// the slot is the entry's own position and the slice has one slot per entry
					okIdx := false
					for _, v := range emitted(in) {
						if al, ok := v.(*ssa.Alloc); ok {
							for _, lst := range storesToField(host, al, "LeaderIndex") {
								if strings.Contains(hx(lst.Val), "["+idx+"].Index") {
									okIdx = true
								}
							}
						}
					}
					if !okIdx {
						ob.Violate("slot-index", in.Pos(), "the command is stored at position `"+idx+"`, which is not the position of its entry")
					}
					if mk, ok := ia.X.(*ssa.MakeSlice); !ok || !strings.Contains(hx(mk.Len), "len(") || !strings.Contains(hx(mk.Len), "QueryRaftLog(") {
						ob.Violate("slot-count", in.Pos(), "the command slice assigned by position is not made with one slot per returned entry")
					}
				}
			}
		}
	})
	if len(appends) != 1 {
		ob.Violate("append-shape", host.Pos(), "expected exactly one append of a ReplicateCommand in the handler")
	} else {
		ap := appends[0]
		ob.Site(ap.Pos(), "ReplicateCommand appended")
		h, scc := loopOf(ap.Block())
		if h == nil {
			ob.Violate("append-not-in-loop", ap.Pos(), "the command is not appended inside the loop over the entries")
		} else {
			isAp := func(x ssa.Instruction) bool { return x == ap }
			for _, s := range h.Succs {
				if !scc[s] {
					continue
				}
				if p := (&Walk{Barrier: isAp, Target: func(x ssa.Instruction) bool { return x.Block() == h }, EdgeOK: func(b *ssa.BasicBlock, k int) bool { return scc[b.Succs[k]] }}).Find(Loc{s, 0}); p != nil {
					ob.Violate("entry-skipped", ap.Pos(), "an entry can be passed over without a command being appended for it: the follower sees a gap", w.PathString(p)...)
				}
			}
			for _, l := range sliceLoops(host) {
				if l.Head == h {
					checkFullTraversal(w, ob, l, "the returned entries", nil)
					if !strings.Contains(hx(l.Slice), "QueryRaftLog(") {
						ob.Violate("loop-range", ap.Pos(), "the command loop ranges over `"+hx(l.Slice)+"`, not over the entries returned by the log query")
					}
				}
			}
			// the loop ranges over the query result in order (rangeindex over the QueryRaftLog result)
			okRange := false
			for _, in := range h.Instrs {
				if bo, ok := in.(*ssa.BinOp); ok && strings.Contains(hx(bo), "len(") && strings.Contains(hx(bo), "QueryRaftLog(") {
					okRange = true
				}
			}
			if !okRange {
				ob.Violate("loop-range", ap.Pos(), "the command loop does not range over the entries returned by the log query")
			}
		}
		// label
		for _, v := range emitted(ap) {
			al, ok := v.(*ssa.Alloc)
			if !ok {
				continue
			}
			for _, st := range storesToField(host, al, "LeaderIndex") {
				e := hx(st.Val)
				ob.Site(st.Pos(), "ReplicateCommand.LeaderIndex = "+e)
				if !strings.HasSuffix(e, ".Index") || !strings.Contains(e, "QueryRaftLog(") {
					ob.Violate("label-source", st.Pos(), "a command is labelled with `"+e+"`, not with its entry's index")
				}
			}
			for _, st := range storesToField(host, al, "Command") {
				if !strings.Contains(hx(st.Val), "entryToCommand(") {
					ob.Violate("command-source", st.Pos(), "the shipped command is `"+hx(st.Val)+"`")
				}
			}
		}
	}
	// conversion
	ctx := &ExprCtx{}
	var cmdAlloc *ssa.Alloc
	eachInstr(conv, func(in ssa.Instruction) {
		if al, ok := in.(*ssa.Alloc); ok && typeIs(al.Type(), pbPkg, "Command") && al.Heap {
			cmdAlloc = al
		}
	})
	if cmdAlloc == nil {
		ob.Undecided("conversion-shape", "the entry conversion does not build a command")
		return
	}
	eachInstr(conv, func(in ssa.Instruction) {
		ret, ok := in.(*ssa.Return)
		if !ok || isErrorReturn(ret) {
			return
		}
		ob.Site(ret.Pos(), "entry conversion returns "+Expr(retVal(ret, 0)))
		if retVal(ret, 0) != ssa.Value(cmdAlloc) {
			ob.Violate("conversion-drops-entry", ret.Pos(), "the entry conversion can succeed without a command")
		}
	})
	// LeaderIndex = &e.Index on every success path
	isLabel := func(in ssa.Instruction) bool {
		st, ok := in.(*ssa.Store)
		if !ok {
			return false
		}
		fa, ok := st.Addr.(*ssa.FieldAddr)
		if !ok || fa.X != ssa.Value(cmdAlloc) || fieldAddrName(fa) != "LeaderIndex" {
			return false
		}
		src, ok := st.Val.(*ssa.FieldAddr)
		return ok && fieldAddrName(src) == "Index" && typeIs(src.X.Type(), raftpbPath, "Entry")
	}
	if p := (&Walk{Barrier: isLabel, Target: isSuccessReturn}).Find(entry(conv)); p != nil {
		ob.Violate("conversion-label", instrPos(p.Hit), "the entry conversion can return a command whose LeaderIndex is not the entry's index", w.PathString(p)...)
	}
	// the non-encoded edge sets DUMMY
	dummy := int64(-1)
	if pb := w.ByPath[pbPkg]; pb != nil {
		if c, ok := pb.Types.Scope().Lookup("Command_DUMMY").(*types.Const); ok {
			dummy, _ = constant.Int64Val(c.Val())
		}
	}
	foundEdge := false
	for _, b := range conv.Blocks {
		for k := range b.Succs {
			for _, l := range ctx.EdgeLits(b, k) {
				if l.Kind == "int" && strings.HasSuffix(l.Terms, ".Type") && l.IsNE {
					foundEdge = true
					okDummy := false
					for _, in := range b.Succs[k].Instrs {
						if st, ok := in.(*ssa.Store); ok {
							if fa, ok := st.Addr.(*ssa.FieldAddr); ok && fa.X == ssa.Value(cmdAlloc) && fieldAddrName(fa) == "Type" {
								if c, ok := st.Val.(*ssa.Const); ok && c.Value != nil && c.Int64() == dummy {
									okDummy = true
								}
							}
						}
					}
					ob.Site(blockPos(b.Succs[k]), "non-encoded entry edge ("+l.String()+")")
					if !okDummy {
						ob.Violate("non-encoded-not-dummy", blockPos(b.Succs[k]), "a non-encoded entry is not turned into a no-op command")
					}
				}
			}
		}
	}
	if !foundEdge {
		ob.Violate("non-encoded-test-missing", conv.Pos(), "the entry conversion does not distinguish encoded from other entries")
	}
	ob.NeedFloor(4)
}

func c06Cache(w *World, r *Report, id, slug string) {
	ob := r.Ob(id, slug, "stores to the cache's buffer field occur only in its constructor and its append helper, which is called only by put; every call of put in the cached reader is reachable only over an edge establishing one of: cache len()==0, len(served cached run) >= 1, first new entry's Index - largestIndex() == 1; the event dispatcher reaches LogCache.LogCompacted / NodeDeleted on the log-compacted / node-deleted arm and those delete the shard's cache", "a gap inside the cache is served as if the log were dense; a cache that survives compaction serves indices the log no longer has")

	// a failed log read is reported: from the error edge of a read no nil-error return is reachable
	if q := w.Func("storage/logreader", "Cached.QueryRaftLog"); q != nil {
		eachInstr(q, func(in ssa.Instruction) {
			c := plainCall(in)
			if c == nil || StaticCallee(c) == nil || StaticCallee(c).Name() != "readLog" {
				return
			}
			rv := in.(ssa.Value)
			rctx := &ExprCtx{Alias: map[ssa.Value]string{rv: "read"}}
			wk := &Walk{Target: func(x ssa.Instruction) bool {
				ret, ok := x.(*ssa.Return)
				return ok && !isErrorReturn(ret)
			}, EdgeOK: func(b *ssa.BasicBlock, k int) bool {
				for _, l := range rctx.EdgeLits(b, k) {
					if l.Kind == "eq" && !l.Neg && l.B == "nil" && l.A == "read#1" {
						return false
					}
				}
				return true
			}}
			if p := wk.Find(after(in)); p != nil {
				ob.Violate("read-error-swallowed", instrPos(p.Hit), "the cached reader can answer successfully although a log read failed (the requested start was compacted: the follower is streamed the cached tail instead of being told to use a snapshot)", w.PathString(p)...)
			}
		})
	}
	cacheT := w.NamedType("storage/logreader", "cache")
	if cacheT == nil {
		ob.Undecided("anchor", "storage/logreader.cache not found")
		return
	}
	for _, fn := range w.ModFuncs() {
		eachInstr(fn, func(in ssa.Instruction) {
			st, ok := in.(*ssa.Store)
			if !ok {
				return
			}
			fa, ok := st.Addr.(*ssa.FieldAddr)
			if !ok || !types.Identical(deref(fa.X.Type()), cacheT) || fieldAddrName(fa) != "buffer" {
				return
			}
			ob.Site(in.Pos(), "writer of cache.buffer: "+FnName(fn))
			// the constructor and the cache's own put path (put and its append helper)
			isOwn := fn.Name() == "newCache" || fn.Name() == "makeRoomAndAppend" || (fn.Name() == "put" && fn.Signature.Recv() != nil && types.Identical(deref(fn.Signature.Recv().Type()), cacheT))
			if !isOwn {
				ob.Violate("buffer-writer@"+FnName(fn), in.Pos(), "the cache buffer is written outside its constructor and its put path")
			}
		})
	}
	if mk := w.Func("storage/logreader", "cache.makeRoomAndAppend"); mk != nil {
		for _, ci := range w.CallersOf(mk) {
			if ci.Parent().Name() != "put" {
				ob.Violate("append-helper-caller@"+FnName(ci.Parent()), ci.Pos(), "the cache's append helper is called from "+FnName(ci.Parent())+", bypassing put's index filter")
			}
		}
	}
	// the buffer's elements are never overwritten in place: get hands out sub-slices of it, and
	// the cached reader holds one across the put that follows
	for _, fn := range w.ModFuncs() {
		if fn.Pkg == nil || fn.Pkg.Pkg.Path() != modPath+"/storage/logreader" {
			continue
		}
		eachInstr(fn, func(in ssa.Instruction) {
			isBuf := func(v ssa.Value) bool {
				for d := 0; d < 4; d++ {
					switch x := v.(type) {
					case *ssa.Slice:
						v = x.X
						continue
					case *ssa.UnOp:
						if fa, ok := x.X.(*ssa.FieldAddr); ok && types.Identical(deref(fa.X.Type()), cacheT) && fieldAddrName(fa) == "buffer" {
							return true
						}
					}
					break
				}
				return false
			}
			if c := plainCall(in); c != nil && CalleeName(c) == "builtin.copy" && isBuf(c.Args[0]) {
				ob.Violate("buffer-overwritten@"+FnName(fn), in.Pos(), "the cache copies into its buffer in place: sub-slices of the buffer handed out by get (the cached reader holds one across the put that follows) change under their holder")
			}
			if st, ok := in.(*ssa.Store); ok {
				if ia, ok := st.Addr.(*ssa.IndexAddr); ok && isBuf(ia.X) {
					ob.Violate("buffer-overwritten@"+FnName(fn), in.Pos(), "the cache stores into an element of its buffer in place: sub-slices handed out by get change under their holder")
				}
			}
		})
	}
	put := w.Func("storage/logreader", "cache.put")
	cq := w.Func("storage/logreader", "Cached.QueryRaftLog")
	if put == nil || cq == nil {
		ob.Undecided("anchor/put", "cache.put or Cached.QueryRaftLog not found")
	} else {
		ctx := &ExprCtx{}
		servedRun := "?"
		eachInstr(cq, func(in ssa.Instruction) {
			if ex, ok := in.(*ssa.Extract); ok && ex.Index == 0 {
				if call, ok := ex.Tuple.(*ssa.Call); ok && StaticCallee(&call.Call) != nil && StaticCallee(&call.Call).Name() == "get" {
					servedRun = "len(" + ctx.Expr(ex) + ")"
				}
			}
		})
		// a log read glued in front of the served cached run: only when its last entry is the
		// predecessor of the run's first (the read may have been cut short by the size limit)
		{
			actx := &ExprCtx{Alias: map[ssa.Value]string{}}
			var cachedV ssa.Value
			eachInstr(cq, func(in ssa.Instruction) {
				ex, ok := in.(*ssa.Extract)
				if !ok || ex.Index != 0 {
					return
				}
				call, ok := ex.Tuple.(*ssa.Call)
				if !ok || StaticCallee(&call.Call) == nil {
					return
				}
				switch StaticCallee(&call.Call).Name() {
				case "get":
					actx.Alias[ex] = "cached"
					cachedV = ex
				case "readLog":
					actx.Alias[ex] = "read"
				}
			})
			eachInstr(cq, func(in ssa.Instruction) {
				c := plainCall(in)
				if c == nil || CalleeName(c) != "builtin.append" || len(c.Args) != 2 || cachedV == nil {
					return
				}
				if actx.Expr(c.Args[0]) != "read" || c.Args[1] != cachedV {
					return
				}
				ob.Site(in.Pos(), "log read glued in front of the cached run")
				wk := &Walk{Target: func(x ssa.Instruction) bool { return x == in }, EdgeOK: func(b *ssa.BasicBlock, k int) bool {
					for _, l := range actx.EdgeLits(b, k) {
						if l.Kind == "int" && !l.IsNE && l.Lo == l.Hi && (l.Lo == 1 || l.Lo == -1) && strings.Contains(l.Terms, "cached[0].Index") && strings.Contains(l.Terms, "read[len(read)") {
							return false
						}
					}
					return true
				}}
				if p := wk.Find(entry(cq)); p != nil {
					ob.Violate("prepend-unguarded", in.Pos(), "a log read is put in front of the cached entries without its last index having been found to be the predecessor of the first cached one: a read cut short by the size limit leaves a hole in what is served", w.PathString(p)...)
				}
			})
		}
		contiguous := func(c *ExprCtx) func(b *ssa.BasicBlock, k int) bool {
			return func(b *ssa.BasicBlock, k int) bool {
				for _, l := range c.EdgeLits(b, k) {
					if l.Kind != "int" || l.IsNE {
						continue
					}
					switch {
					case strings.Contains(l.Terms, "cache).len(") && l.Lo == 0 && l.Hi == 0:
						return false
					case l.Terms == servedRun && l.Lo >= 1 && l.Hi >= posInf:
						return false
					case strings.Contains(l.Terms, "largestIndex(") && strings.Contains(l.Terms, "[0].Index") && l.Lo == l.Hi && (l.Lo == 1 || l.Lo == -1):
						return false
					}
				}
				return true
			}
		}
		for _, ci := range w.CallersOf(put) {
			host := ci.Parent()
			hctx := ctx
			var viaCall ssa.CallInstruction
			if host != cq {
				// a helper of the cached reader: a function whose only call site is in the cached reader
				// (a branch of it moved into a method); its parameters read as the reader's arguments
				callers := w.CallersOf(host)
				if len(callers) != 1 || callers[0].Parent() != cq || len(callers[0].Common().Args) != len(host.Params) {
					ob.Violate("put-caller@"+FnName(host), ci.Pos(), "put is called from "+FnName(host))
					continue
				}
				viaCall = callers[0]
				hctx = &ExprCtx{Alias: map[ssa.Value]string{}}
				for i, p := range host.Params {
					hctx.Alias[p] = ctx.Expr(viaCall.Common().Args[i])
				}
			}
			ob.Site(ci.Pos(), "put("+Expr(ci.Common().Args[1])+") in the cached reader")
			wk := &Walk{Target: func(x ssa.Instruction) bool { return x == ssa.Instruction(ci) }, EdgeOK: contiguous(hctx)}
			p := wk.Find(entry(host))
			if p != nil && viaCall != nil {
				// unguarded inside the helper: the reader may have established contiguity before calling it
				if (&Walk{Target: func(x ssa.Instruction) bool { return x == ssa.Instruction(viaCall) }, EdgeOK: contiguous(ctx)}).Find(entry(cq)) == nil {
					p = nil
				}
			}
			if p != nil {
				ob.Violate("put-unguarded", ci.Pos(), "entries can be put into the cache without contiguity with its content having been established (cache empty, served run non-empty, or first index - 1 == largest cached)", w.PathString(p)...)
			}
		}
	}
	// invalidation
	for _, m := range []string{"LogCompacted", "NodeDeleted"} {
		fn := w.Func("storage/logreader", "ShardCache."+m)
		if fn == nil {
			ob.Violate("invalidate-missing/"+m, 0, "ShardCache."+m+" not found")
			continue
		}
		okDel := false
		eachInstr(fn, func(in ssa.Instruction) {
			if c := plainCall(in); c != nil && strings.Contains(CalleeName(c), "SyncMap") && strings.HasSuffix(CalleeName(c), ").Delete") {
				if Expr(c.Args[1]) == "$1" {
					okDel = true
				}
			}
		})
		ob.Site(fn.Pos(), "ShardCache."+m)
		if !okDel {
			ob.Violate("invalidate-noop/"+m, fn.Pos(), "ShardCache."+m+" does not delete the shard's cache")
		}
	}
	if disp := w.Func("storage", "events.dispatchEvents"); disp != nil {
		ctx := &ExprCtx{}
		for evT, m := range map[string]string{"storage.logCompacted": "LogCompacted", "storage.nodeDeleted": "NodeDeleted"} {
			found := false
			for _, b := range disp.Blocks {
				for k := range b.Succs {
					for _, l := range ctx.EdgeLits(b, k) {
						if l.Kind == "eq" && !l.Neg && strings.HasPrefix(l.A, "dyn(") && l.B == evT {
							for _, in := range (&Walk{EdgeOK: func(bb *ssa.BasicBlock, kk int) bool { return true }}).ReachableInstrs(Loc{b.Succs[k], 0}) {
								if c := plainCall(in); c != nil && strings.HasSuffix(CalleeName(c), "ShardCache)."+m) {
									// reached before the next event is received?
									found = true
									ob.Site(in.Pos(), "dispatcher invalidates on "+evT)
									if !strings.HasSuffix(Expr(c.Args[1]), ".ShardID") {
										ob.Violate("invalidate-wrong-shard/"+m, in.Pos(), "the dispatcher invalidates shard `"+Expr(c.Args[1])+"`")
									}
								}
							}
						}
					}
				}
			}
			if !found {
				ob.Violate("dispatcher-no-invalidate/"+m, disp.Pos(), "the event dispatcher does not invalidate the log cache on "+evT)
			}
		}
	} else {
		ob.Undecided("anchor/dispatch", "storage.events.dispatchEvents not found")
	}
	// the events are produced
	for _, m := range []string{"LogCompacted", "NodeDeleted"} {
		fn := w.Func("storage", "events."+m)
		if fn == nil {
			ob.Violate("event-producer-missing/"+m, 0, "events."+m+" (raft event listener) not found")
			continue
		}
		sends := 0
		eachInstr(fn, func(in ssa.Instruction) {
			if sel, ok := in.(*ssa.Select); ok {
				for _, s := range sel.States {
					if s.Dir == types.SendOnly && s.Send != nil {
						sends++
					}
				}
			}
			if _, ok := in.(*ssa.Send); ok {
				sends++
			}
		})
		ob.Site(fn.Pos(), "events."+m+" forwards the raft event")
		// the send waits for the dispatcher: a non-blocking select (a `default` arm) drops the
		// event whenever the dispatcher is busy with another one
		eachInstr(fn, func(in ssa.Instruction) {
			if sel, ok := in.(*ssa.Select); ok && !sel.Blocking {
				for _, s := range sel.States {
					if s.Dir == types.SendOnly && s.Send != nil {
						ob.Violate("event-droppable/"+m, in.Pos(), "events."+m+" sends the event in a select with a default arm: when the dispatcher is busy the event is dropped and the log cache keeps entries the log no longer has")
					}
				}
			}
		})
		if sends == 0 {
			ob.Violate("event-not-forwarded/"+m, fn.Pos(), "events."+m+" does not forward the event to the dispatcher")
		}
		// what is sent has the type whose arm of the dispatcher invalidates the cache
		wantT := map[string]string{"LogCompacted": "storage.logCompacted", "NodeDeleted": "storage.nodeDeleted"}[m]
		sentOK := false
		var sent []string
		eachInstr(fn, func(in ssa.Instruction) {
			var vals []ssa.Value
			if sel, ok := in.(*ssa.Select); ok {
				for _, st := range sel.States {
					if st.Dir == types.SendOnly && st.Send != nil {
						vals = append(vals, st.Send)
					}
				}
			}
			if sd, ok := in.(*ssa.Send); ok {
				vals = append(vals, sd.X)
			}
			for _, v := range vals {
				t := dynTypeOf(v)
				sent = append(sent, t)
				if t == wantT {
					sentOK = true
				}
			}
		})
		if sends > 0 && !sentOK {
			ob.Violate("event-type/"+m, fn.Pos(), "events."+m+" sends "+strings.Join(sent, ", ")+", but the dispatcher invalidates the log cache on "+wantT+": the cache keeps serving what the log no longer has")
		}
	}
	ob.NeedFloor(9)
}

func c06SizeCut(w *World, r *Report) {
	ob := r.Ob("C06.e", "e-size-cut-keeps-one", "in the size-cut helper every returned sub-slice entries[:h] has h provably >= 1 (a constant >= 1, max(.., >=1), x+1 with x >= 0, or a dominating guard)", "a cut to zero entries answers a non-empty range with nothing: the follower is told it is up to date and stalls for ever")
	fn := w.Func("storage/logreader", "fixSize")
	if fn == nil {
		// fallback by role
		if sp := w.SSAPkg("storage/logreader"); sp != nil {
			for _, m := range sp.Members {
				f, ok := m.(*ssa.Function)
				if !ok || len(f.Params) != 2 || f.Signature.Results().Len() != 1 {
					continue
				}
				if s, ok := f.Params[0].Type().Underlying().(*types.Slice); ok && typeIs(s.Elem(), raftpbPath, "Entry") && types.Identical(f.Signature.Results().At(0).Type(), f.Params[0].Type()) {
					fn = f
				}
			}
		}
	}
	if fn == nil {
		ob.Undecided("anchor", "size-cut helper not found")
		return
	}
	n := 0
	eachInstr(fn, func(in ssa.Instruction) {
		ret, ok := in.(*ssa.Return)
		if !ok {
			return
		}
		sl, ok := retVal(ret, 0).(*ssa.Slice)
		if !ok {
			return
		}
		n++
		if sl.High == nil {
			return
		}
		ob.Site(ret.Pos(), "size cut returns entries[:"+Expr(sl.High)+"]")
		if atLeastOne(sl.High, 0) {
			return
		}
		// guard
		ctx := &ExprCtx{}
		if lin, ok := ctx.linear(sl.High); ok {
			lin.C -= 1
			if need, ok := intLit(lin, token.GEQ); ok {
				wk := &Walk{Target: func(x ssa.Instruction) bool { return x == in }, EdgeOK: func(b *ssa.BasicBlock, k int) bool {
					for _, l := range ctx.EdgeLits(b, k) {
						if l.Implies(need) {
							return false
						}
					}
					return true
				}}
				if wk.Find(entry(fn)) == nil {
					return
				}
			}
		}
		ob.Violate("cut-to-zero", ret.Pos(), "the size cut can return entries[:"+Expr(sl.High)+"] with an upper bound of 0: no entry for a non-empty range")
	})
	if n == 0 {
		ob.Undecided("shape", "the size-cut helper returns no sub-slice")
	}
	// the cached reader's results all go through it or are fresh log reads
	ob.NeedFloor(1)
}

// atLeastOne: syntactic proof that an integer value is >= 1.
func atLeastOne(v ssa.Value, depth int) bool {
	if depth > 5 {
		return false
	}
	switch x := v.(type) {
	case *ssa.Const:
		return x.Value != nil && constant.Compare(constant.ToInt(x.Value), token.GEQ, constant.MakeInt64(1))
	case *ssa.Convert:
		return atLeastOne(x.X, depth+1)
	case *ssa.Call:
		switch CalleeName(&x.Call) {
		case "builtin.max":
			for _, a := range x.Call.Args {
				if atLeastOne(a, depth+1) {
					return true
				}
			}
		case "builtin.min":
			for _, a := range x.Call.Args {
				if !atLeastOne(a, depth+1) {
					return false
				}
			}
			return true
		}
	case *ssa.BinOp:
		if x.Op == token.ADD {
			return (atLeastOne(x.X, depth+1) && nonNegative(x.Y, depth+1)) || (atLeastOne(x.Y, depth+1) && nonNegative(x.X, depth+1))
		}
	case *ssa.Phi:
		for _, e := range x.Edges {
			if !atLeastOne(e, depth+1) {
				return false
			}
		}
		return len(x.Edges) > 0
	}
	return false
}
