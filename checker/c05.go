package main

// C05 — a follower table always equals the leader table at its recorded leader index.

import (
	"go/types"
	"strings"

	"golang.org/x/tools/go/ssa"
)

func init() {
	register("C05", "follower equals leader at its recorded index: request, batching, atomic leader index, reconciliation", checkC05)
}

const replPath = modPath + "/replication"

func checkC05(w *World, r *Report) {
	r.Decides = "C05 is decided in its structural part only: (a) the worker asks for (recorded leader index)+1, read from the table's leader-index lookup; (b) in the batching loop every received command is appended exactly once, the sequence is tagged with the index of the same loop element between the append and the proposal, the last element cannot leave the loop without a proposal, the sequence is cleared only after the proposal and always before the next command is appended, a failed proposal returns, and what is proposed is the marshalled sequence; (c) the leader index is written into the same batch as the data before the commit whenever one is present, and entries without one do not erase it (C03.b); (d) each shipped command carries its own index and the stream is dense, also when served from the leader's log cache (the obligations C06.a-d); (e) only the lease holder replicates (C15.c); (f) snapshot recovery loads into a fresh shard, forwards the stream's index and switches only after a successful load (C07.a, C07.c, C07.e); (g) table-set reconciliation deletes exactly follower tables absent from the leader's list and creates exactly leader tables absent from the follower's. Also: the recovery image is read from one Pebble snapshot (h); every entry of an apply batch and every sub-command of a SEQUENCE / batch command is visited - no loop over them is left early with success (i = C01.i)."
	r.NotDecided = []string{"content equality at every moment, monotonicity of the recorded index, convergence and behaviour across restarts - all schedule- and history-dependent", "that dragonboat applies each proposed sequence exactly once"}
	r.Assume = []string{"a SEQUENCE command is applied atomically with its leader index (C01.a-c)"}
	a := w.FsmAnchors()
	c05Request(w, r)
	c05Batching(w, r, "C05.b", "b-batching-loop")
	if len(a.Problems) == 0 && a.Update != nil {
		c05LeaderIndexAtomic(w, r, a)
		c03Carry(w, r, a, "C05.c2", "c2-no-carry-across-entries")
		// a replicated batch arrives as one SEQUENCE command: every sub-command of it has to be applied
		applyLoopComplete(w, r, a, "C05.i", "i-every-entry-applied")
	} else {
		ob := r.Ob("C05.c1", "c1-leader-index-atomic", "state machine anchors resolve", "")
		ob.Undecided("anchors", strings.Join(a.Problems, "; "))
	}
	c06Handler(w, r, "C05.d1", "d1-stream-range-arithmetic")
	c06ReadLog(w, r, "C05.d2", "d2-log-read-decision")
	c06Dense(w, r, "C05.d3", "d3-dense-ordered-labelled")
	c06Cache(w, r, "C05.d4", "d4-leader-cache-dense")
	c15Worker(w, r, "C05.e", "e-only-lease-holder")
	c07Loader(w, r, "C05.f1", "f1-restore-no-record-lost")
	c07Terminator(w, r, "C05.f2", "f2-restore-index-travels")
	c07Switch(w, r, "C05.f3", "f3-switch-after-load")
	c05Reconcile(w, r, "C05.g", "g-table-set-reconciliation")
	c07PointInTime(w, r, "C05.h", "h-recovery-image-point-in-time")
}

func c05Request(w *World, r *Report) {
	ob := r.Ob("C05.a", "a-ask-for-next-index", "worker.do builds ReplicateRequest.LeaderIndex = (its leaderIndex argument)+1 for its own table; its caller passes the first result of the table-state read, which returns the Index of the table's LeaderIndex lookup together with the table's ClusterID, and the session handed to do is the no-op session of that same shard id", "asking for the recorded index itself re-applies the last command; asking further ahead skips one")
	do := w.Func("replication", "worker.do")
	ts := w.Func("replication", "worker.tableState")
	if do == nil || ts == nil {
		ob.Undecided("anchor", "worker.do / worker.tableState not found")
		return
	}
	n := 0
	eachInstr(do, func(in ssa.Instruction) {
		st, ok := in.(*ssa.Store)
		if !ok {
			return
		}
		fa, ok := st.Addr.(*ssa.FieldAddr)
		if !ok || !typeIs(fa.X.Type(), pbPkg, "ReplicateRequest") {
			return
		}
		e := Expr(st.Val)
		switch fieldAddrName(fa) {
		case "LeaderIndex":
			n++
			ob.Site(in.Pos(), "request LeaderIndex = "+e)
			if e != "$1+1" {
				ob.Violate("request-index", in.Pos(), "the worker asks for `"+e+"`, not for the recorded leader index + 1")
			}
		case "Table":
			ob.Site(in.Pos(), "request Table = "+e)
			if !strings.HasSuffix(e, "$0.table") {
				ob.Violate("request-table", in.Pos(), "the worker asks for table `"+e+"`")
			}
		}
	})
	if n == 0 {
		ob.Violate("request-shape", do.Pos(), "worker.do does not build a replicate request")
	}
	// tableState returns (LeaderIndex(...).Index, t.ClusterID)
	eachInstr(ts, func(in ssa.Instruction) {
		ret, ok := in.(*ssa.Return)
		if !ok || isErrorReturn(ret) {
			return
		}
		i, id := Expr(retVal(ret, 0)), Expr(retVal(ret, 1))
		ob.Site(ret.Pos(), "table state = ("+i+", "+id+")")
		if !strings.Contains(i, "ActiveTable).LeaderIndex(") || !strings.HasSuffix(i, "#0.Index") {
			ob.Violate("state-index", ret.Pos(), "the table state's index is `"+i+"`, not the table's recorded leader index")
		}
		if !strings.HasSuffix(id, ".ClusterID") {
			ob.Violate("state-shard", ret.Pos(), "the table state's shard is `"+id+"`")
		}
	})
	// call site of do
	for _, ci := range w.CallersOf(do) {
		f := ci.Parent()
		var st ssa.Value
		eachInstr(f, func(in ssa.Instruction) {
			if c := plainCall(in); c != nil && StaticCallee(c) == ts {
				st = in.(ssa.Value)
			}
		})
		if st == nil {
			ob.Violate("do-without-state@"+FnName(f), ci.Pos(), "worker.do is called without a table-state read in "+FnName(f))
			continue
		}
		ctx := &ExprCtx{Alias: map[ssa.Value]string{st: "state"}}
		idx, sess := ctx.Expr(ci.Common().Args[1]), ctx.Expr(ci.Common().Args[2])
		ob.Site(ci.Pos(), "do("+idx+", "+sess+")")
		if idx != "state#0" {
			ob.Violate("do-index@"+FnName(f), ci.Pos(), "worker.do is given `"+idx+"` as recorded index, not the table state's")
		}
		if !strings.Contains(sess, "GetNoOPSession(") || !strings.Contains(sess, "state#1") {
			ob.Violate("do-session@"+FnName(f), ci.Pos(), "worker.do proposes through `"+sess+"`, not the session of the table's own shard")
		}
	}
	ob.NeedFloor(4)
}

func c05Batching(w *World, r *Report, id, slug string) {
	ob := r.Ob(id, slug, "worker.proposeBatch: in the loop over the received commands every iteration appends commands[i].Command to the sequence exactly once; between the append and the proposal the sequence's LeaderIndex is set to &commands[i].LeaderIndex of the same element; from the edge 'i is the last index' the loop cannot be left without the proposal; the sequence is truncated / its leader index cleared only in a call deferred inside the proposing closure or after the proposal; from the proposal's error edge only error returns are reachable; the proposal sends the buffer filled by marshalling the sequence; worker.do returns an error when proposeBatch fails", "a dropped tail, a command proposed twice, or a sequence tagged with another command's index makes the follower diverge from the leader at its recorded index")
	fn := w.Func("replication", "worker.proposeBatch")
	if fn == nil {
		ob.Undecided("anchor", "worker.proposeBatch not found")
		return
	}
	// the proposing closure: the closure (or the function itself) that calls SyncPropose
	var proposer *ssa.Function
	for _, f := range withClosures(fn) {
		eachInstr(f, func(in ssa.Instruction) {
			if isSyncProposeCall(in) {
				proposer = f
			}
		})
	}
	if proposer == nil {
		ob.Violate("no-proposal", fn.Pos(), "proposeBatch never proposes")
		return
	}
	isPropose := func(in ssa.Instruction) bool {
		if isSyncProposeCall(in) {
			return true
		}
		c := plainCall(in)
		if c == nil {
			return false
		}
		if mc, ok := c.Value.(*ssa.MakeClosure); ok && mc.Fn == ssa.Value(proposer) {
			return true
		}
		return StaticCallee(c) == proposer && proposer != fn
	}
	// append of the element's Command
	var app ssa.Instruction
	var elem ssa.Value
	eachInstr(fn, func(in ssa.Instruction) {
		c := plainCall(in)
		if c == nil || CalleeName(c) != "builtin.append" {
			return
		}
		t, f, ok := fieldRead(c.Args[0])
		if !ok || f != "Sequence" || !typeIs(t, pbPkg, "Command") {
			return
		}
		for _, v := range appendedValues(c) {
			if isFieldReadOf(v, pbPkg, "ReplicateCommand", "Command") {
				app = in
				elem = v.(*ssa.UnOp).X.(*ssa.FieldAddr).X
			}
		}
	})
	if app == nil {
		ob.Violate("no-append", fn.Pos(), "proposeBatch does not append the received commands to the sequence")
		return
	}
	ob.Site(app.Pos(), "append of "+Expr(elem)+".Command")
	if !strings.HasPrefix(Expr(elem), "$2[") {
		ob.Violate("append-source", app.Pos(), "the appended command comes from `"+Expr(elem)+"`, not from the received list")
	}
	h, body := loopOf(app.Block())
	if h == nil {
		ob.Violate("append-not-in-loop", app.Pos(), "the append is not inside the loop over the received commands")
		return
	}
	// the loop visits every received command
	nTrav := 0
	for _, l := range sliceLoops(fn) {
		if l.Head == h {
			nTrav++
			if l.Slice != ssa.Value(fn.Params[2]) {
				if s, isSub := l.Slice.(*ssa.Slice); !isSub || s.X != ssa.Value(fn.Params[2]) {
					ob.Violate("loop-source", blockPos(h), "the batching loop ranges over `"+Expr(l.Slice)+"`, not over the received commands")
				}
			}
			checkFullTraversal(w, ob, l, "the received commands", nil)
		}
	}
	if nTrav == 0 {
		ob.Undecided("shape/traversal", "the batching loop is not a counted loop over the received commands")
	}
	isApp := func(x ssa.Instruction) bool { return x == app }
	inBody := func(b *ssa.BasicBlock, k int) bool { return body[b.Succs[k]] }
	for _, s := range h.Succs {
		if !body[s] {
			continue
		}
		if p := (&Walk{Barrier: isApp, Target: func(x ssa.Instruction) bool { return x.Block() == h }, EdgeOK: inBody}).Find(Loc{s, 0}); p != nil {
			ob.Violate("command-skipped", app.Pos(), "an iteration can pass without appending its command: the command is lost", w.PathString(p)...)
		}
	}
	if p := (&Walk{Target: isApp, EdgeOK: func(b *ssa.BasicBlock, k int) bool { return body[b.Succs[k]] && b.Succs[k] != h }}).Find(after(app)); p != nil {
		ob.Violate("command-appended-twice", app.Pos(), "a command can be appended twice in one iteration")
	}
	// tag between append and propose
	isTag := func(x ssa.Instruction) bool {
		st, ok := x.(*ssa.Store)
		if !ok {
			return false
		}
		fa, ok := st.Addr.(*ssa.FieldAddr)
		if !ok || fieldAddrName(fa) != "LeaderIndex" || !typeIs(fa.X.Type(), pbPkg, "Command") {
			return false
		}
		src, ok := st.Val.(*ssa.FieldAddr)
		return ok && fieldAddrName(src) == "LeaderIndex" && src.X == elem
	}
	ntag := 0
	eachInstr(fn, func(in ssa.Instruction) {
		if st, ok := in.(*ssa.Store); ok {
			if fa, ok := st.Addr.(*ssa.FieldAddr); ok && fieldAddrName(fa) == "LeaderIndex" && typeIs(fa.X.Type(), pbPkg, "Command") && !isNilConst(st.Val) {
				ntag++
				ob.Site(in.Pos(), "sequence LeaderIndex = "+Expr(st.Val))
				if !isTag(in) {
					ob.Violate("tag-source", in.Pos(), "the sequence is tagged with `"+Expr(st.Val)+"`, not with the index of the command just appended")
				}
			}
		}
	})
	if ntag == 0 {
		ob.Violate("no-tag", fn.Pos(), "the sequence is never tagged with a leader index")
	}
	if p := (&Walk{Barrier: isTag, Target: isPropose, EdgeOK: func(b *ssa.BasicBlock, k int) bool { return body[b.Succs[k]] && b.Succs[k] != h }}).Find(after(app)); p != nil {
		ob.Violate("propose-untagged", instrPos(p.Hit), "the sequence can be proposed without having been tagged with the index of its last command", w.PathString(p)...)
	}
	// a proposal is tagged with a command it contains: a tag taken from this iteration's element
	// before that element was appended must not reach a proposal before the append
	eachInstr(fn, func(in ssa.Instruction) {
		if !isTag(in) || !body[in.Block()] {
			return
		}
		// is the tag set before the append of its own element?
		noBack := func(b *ssa.BasicBlock, k int) bool { return body[b.Succs[k]] && b.Succs[k] != h }
		if (&Walk{Barrier: isApp, Target: func(x ssa.Instruction) bool { return x == in }, EdgeOK: noBack}).Find(Loc{h, 0}) == nil {
			return // always after the append
		}
		if p := (&Walk{Barrier: isApp, Target: isPropose, EdgeOK: noBack}).Find(after(in)); p != nil {
			ob.Violate("propose-tag-ahead", instrPos(p.Hit), "a sequence can be proposed tagged with the index of a command that was not appended to it yet: the follower records (and announces to waiting writers) a leader index one command ahead of its data", w.PathString(p)...)
		}
	})
	// last element cannot leave the loop without a proposal
	ctx := &ExprCtx{}
	nlast := 0
	for b := range body {
		for k := range b.Succs {
			for _, l := range ctx.EdgeLits(b, k) {
				if l.Kind == "int" && !l.IsNE && l.Lo == l.Hi && strings.HasPrefix(l.Terms, "len($2)-phi(") {
					nlast++
					ob.Site(blockPos(b.Succs[k]), "last-element edge ("+l.String()+")")
					p := (&Walk{Barrier: isPropose, Target: func(x ssa.Instruction) bool { return !body[x.Block()] || x.Block() == h }}).Find(Loc{b.Succs[k], 0})
					if p != nil {
						ob.Violate("tail-dropped", blockPos(b.Succs[k]), "after the last received command the loop can be left without proposing the pending sequence", w.PathString(p)...)
					}
				}
			}
		}
	}
	if nlast == 0 {
		ob.Violate("no-last-element-test", fn.Pos(), "proposeBatch does not test for the last received command: a tail below the size threshold is never proposed")
	}
	// clearing only after the proposal
	seqClearedOnEveryProposal := false
	var seqClears []ssa.Instruction
	for _, f := range withClosures(fn) {
		eachInstr(f, func(in ssa.Instruction) {
			st, ok := in.(*ssa.Store)
			if !ok {
				return
			}
			fa, ok := st.Addr.(*ssa.FieldAddr)
			if !ok || !typeIs(fa.X.Type(), pbPkg, "Command") {
				return
			}
			clear := false
			defer func() {
				if !clear || fieldAddrName(fa) != "Sequence" {
					return
				}
				seqClears = append(seqClears, in)
				// deferred by the proposer: runs on every exit of every proposal
				if f.Parent() == proposer {
					eachInstr(proposer, func(x ssa.Instruction) {
						if d, ok := x.(*ssa.Defer); ok {
							if mc, ok := d.Call.Value.(*ssa.MakeClosure); ok && mc.Fn == ssa.Value(f) {
								seqClearedOnEveryProposal = true
							}
						}
					})
				}
			}()
			if fieldAddrName(fa) == "Sequence" {
				if sl, ok := st.Val.(*ssa.Slice); ok {
					if hi, isC := constInt(sl.High); isC && hi == 0 {
						clear = true
					}
				}
				if isNilConst(st.Val) {
					clear = true
				}
			}
			if fieldAddrName(fa) == "LeaderIndex" && isNilConst(st.Val) {
				clear = true
			}
			if !clear {
				return
			}
			ob.Site(in.Pos(), "sequence cleared in "+FnName(f))
			okPlace := false
			// (a) inside a closure deferred by the proposer
			if f.Parent() == proposer {
				eachInstr(proposer, func(x ssa.Instruction) {
					if d, ok := x.(*ssa.Defer); ok {
						if mc, ok := d.Call.Value.(*ssa.MakeClosure); ok && mc.Fn == ssa.Value(f) {
							okPlace = true
						}
					}
				})
			}
			// (b) in a function where every path to it crosses the proposal
			if !okPlace {
				okPlace = (&Walk{Barrier: isPropose, Target: func(x ssa.Instruction) bool { return x == in }}).Find(entry(f)) == nil
			}
			if !okPlace {
				ob.Violate("cleared-before-propose@"+FnName(f), in.Pos(), "the pending sequence can be cleared before it was proposed")
			}
		})
	}
	// the proposed commands leave the sequence before the next command is appended
	if !seqClearedOnEveryProposal {
		isClear := func(x ssa.Instruction) bool { return containsInstr(seqClears, x) }
		okClear := false
		if proposer != fn {
			// cleared inside the proposing closure on every way from the proposal to a success return
			n := 0
			okClear = true
			eachInstr(proposer, func(x ssa.Instruction) {
				if isSyncProposeCall(x) {
					n++
					if (&Walk{Barrier: isClear, Target: isSuccessReturn}).Find(after(x)) != nil {
						okClear = false
					}
				}
			})
			okClear = okClear && n > 0
		}
		if !okClear {
			// or in the batching loop between the proposal and the next append
			okClear = true
			eachInstr(fn, func(x ssa.Instruction) {
				if isPropose(x) && (&Walk{Barrier: isClear, Target: isApp}).Find(after(x)) != nil {
					okClear = false
				}
			})
		}
		if !okClear {
			ob.Violate("proposed-commands-kept", app.Pos(), "after a proposal the next command can be appended to a sequence that still holds the commands already proposed: they are proposed - and applied - again")
		}
	}
	// proposal error edge
	eachInstr(fn, func(in ssa.Instruction) {
		if !isPropose(in) {
			return
		}
		pv, ok := in.(ssa.Value)
		if !ok || !isErrorType(pv.Type()) {
			return
		}
		pctx := &ExprCtx{Alias: map[ssa.Value]string{pv: "propose"}}
		wk := &Walk{Target: func(x ssa.Instruction) bool { return x.Block() == h || isSuccessReturn(x) }, EdgeOK: func(b *ssa.BasicBlock, k int) bool {
			for _, l := range pctx.EdgeLits(b, k) {
				if l.Kind == "eq" && !l.Neg && l.B == "nil" && l.A == "propose" {
					return false
				}
			}
			return true
		}}
		if p := wk.Find(after(in)); p != nil {
			ob.Violate("propose-error-ignored", in.Pos(), "proposeBatch goes on after a failed proposal: the commands of that sequence are skipped", w.PathString(p)...)
		}
	})
	// payload
	eachInstr(proposer, func(in ssa.Instruction) {
		if !isSyncProposeCall(in) {
			return
		}
		c := callOf(in)
		e := Expr(c.Args[len(c.Args)-1])
		ob.Site(in.Pos(), "proposal payload "+e)
		okMarshal := false
		eachInstr(proposer, func(x ssa.Instruction) {
			if cc := plainCall(x); cc != nil && strings.Contains(CalleeName(cc), "regattapb.Command).Marshal") {
				// marshal of the sequence precedes the proposal
				if (&Walk{Barrier: func(y ssa.Instruction) bool { return y == x }, Target: func(y ssa.Instruction) bool { return y == in }}).Find(entry(proposer)) == nil {
					okMarshal = true
				}
			}
		})
		if !okMarshal {
			ob.Violate("payload-not-marshalled", in.Pos(), "the proposal is not preceded by marshalling the sequence")
		}
	})
	// worker.do propagates the failure
	if do := w.Func("replication", "worker.do"); do != nil {
		eachInstr(do, func(in ssa.Instruction) {
			c := plainCall(in)
			if c == nil || StaticCallee(c) != fn {
				return
			}
			pv := in.(ssa.Value)
			dctx := &ExprCtx{Alias: map[ssa.Value]string{pv: "batch"}}
			for _, b := range do.Blocks {
				for k := range b.Succs {
					for _, l := range dctx.EdgeLits(b, k) {
						if l.Kind == "eq" && l.Neg && l.B == "nil" && l.A == "batch#1" {
							for _, x := range (&Walk{}).ReachableInstrs(Loc{b.Succs[k], 0}) {
								if ret, ok := x.(*ssa.Return); ok && !isErrorReturn(ret) {
									ob.Violate("do-ignores-batch-error", ret.Pos(), "worker.do can go on after proposeBatch failed")
								}
								if cc := plainCall(x); cc != nil && cc.IsInvoke() && cc.Method.Name() == "Recv" {
									ob.Violate("do-continues-after-batch-error", x.Pos(), "worker.do keeps receiving after proposeBatch failed: the failed commands are skipped")
								}
							}
						}
					}
				}
			}
		})
	}
	ob.NeedFloor(5)
}

func c05LeaderIndexAtomic(w *World, r *Report, a *FsmA) {
	ob := r.Ob("C05.c1", "c1-leader-index-atomic", "in the commit function, from the edge context.leaderIndex != nil every path to Batch.Commit crosses a Set on the context's batch whose key is the leader-index bookkeeping key and whose value was filled (PutUint64) from *context.leaderIndex", "a leader index committed apart from the data lets a crash expose follower data whose recorded leader index is older (commands are applied twice) or newer (commands are skipped)")
	fn := a.CommitFn
	lf := a.ctxLeaderField()
	gl := findBookkeepingGlobals(w)
	if fn == nil || lf == "" || gl["leader"] == nil {
		ob.Undecided("anchor", "commit function, leader field or leader-index key not found")
		return
	}
	var good []ssa.Instruction
	for _, s := range a.bookkeepingSets() {
		if s.KeyG != gl["leader"] {
			continue
		}
		ob.Site(s.At.Pos(), "Set(leader index key, …)")
		// *ctx.leaderIndex
		u, ok := s.Val.(*ssa.UnOp)
		if s.Val == nil || !ok || !a.isCtxFieldLoad(u.X, lf) {
			ob.Violate("leader-index-value", s.At.Pos(), "the value written under the leader-index key is not filled from the context's leader index")
			continue
		}
		good = append(good, s.At)
	}
	if len(good) == 0 {
		ob.Violate("leader-index-not-written", fn.Pos(), "the commit function never writes the leader index into the batch")
		return
	}
	ctx := &ExprCtx{}
	n := 0
	for _, b := range fn.Blocks {
		for k := range b.Succs {
			for _, l := range ctx.EdgeLits(b, k) {
				if l.Kind == "eq" && l.Neg && l.B == "nil" && strings.HasSuffix(l.A, "."+lf) {
					n++
					ob.Site(blockPos(b.Succs[k]), "leader-index-present edge")
					isGood := func(x ssa.Instruction) bool { return containsInstr(good, x) }
					isCommit := func(x ssa.Instruction) bool { return isCallTo(x, batchCommit) }
					if p := (&Walk{Barrier: isGood, Target: isCommit}).Find(Loc{b.Succs[k], 0}); p != nil {
						ob.Violate("commit-without-leader-index", instrPos(p.Hit), "with a leader index present the batch can be committed without it", w.PathString(p)...)
					}
				}
			}
		}
	}
	if n == 0 {
		ob.Violate("no-presence-test", fn.Pos(), "the commit function does not test whether a leader index is present")
	}
	ob.NeedFloor(2)
}

func c05Reconcile(w *World, r *Report, id, slug string) {
	ob := r.Ob(id, slug, "reconcileTables: a name is collected for deletion only over the false edge of slices.ContainsFunc(leader list, …) and comes from the follower list element; a name is collected for creation only over the false edge of ContainsFunc(follower list, …) and comes from the leader list element; both membership closures compare Name with Name; DeleteTable/CreateTable are called with the collected names; ErrTableNotFound/ErrTableExists are the only tolerated errors", "swapped lists delete every replicated table or never create new ones")
	fn := w.Func("replication", "Manager.reconcileTables")
	if fn == nil {
		ob.Undecided("anchor", "replication.Manager.reconcileTables not found")
		return
	}
	var leaderList, followerList string
	eachInstr(fn, func(in ssa.Instruction) {
		c := plainCall(in)
		if c == nil {
			return
		}
		if strings.HasSuffix(CalleeName(c), "MetadataResponse).GetTables") {
			leaderList = Expr(in.(ssa.Value))
		}
		if cal := StaticCallee(c); cal != nil && cal.Name() == "GetTables" && !strings.Contains(CalleeName(c), "regattapb") {
			followerList = Expr(in.(ssa.Value)) + "#0"
		}
	})
	// the getter may be inlined to the field
	if leaderList == "" {
		eachInstr(fn, func(in ssa.Instruction) {
			if v, ok := in.(ssa.Value); ok && strings.HasSuffix(Expr(v), ".Tables") && strings.Contains(Expr(v), "MetadataClient).Get(") {
				leaderList = Expr(v)
			}
		})
	}
	if leaderList == "" || followerList == "" {
		ob.Undecided("shape", "leader or follower table list not found")
		return
	}
	ob.SiteS("leader list " + leaderList + "; follower list " + followerList)
	ctx := &ExprCtx{}
	// ContainsFunc calls
	type member struct {
		call ssa.Value
		over string
	}
	var members []member
	eachInstr(fn, func(in ssa.Instruction) {
		c := plainCall(in)
		if c == nil {
			return
		}
		cal := StaticCallee(c)
		if cal == nil || cal.Origin() == nil || cal.Origin().Name() != "ContainsFunc" {
			return
		}
		over := Expr(c.Args[0])
		members = append(members, member{in.(ssa.Value), over})
		ob.Site(in.Pos(), "membership test over "+over)
		// closure compares names
		if mc, ok := c.Args[1].(*ssa.MakeClosure); ok {
			if f, ok := mc.Fn.(*ssa.Function); ok {
				okCmp := false
				eachInstr(f, func(x ssa.Instruction) {
					if bo, ok := x.(*ssa.BinOp); ok && bo.Op.String() == "==" {
						if strings.HasSuffix(Expr(bo.X), ".Name") && strings.HasSuffix(Expr(bo.Y), ".Name") {
							okCmp = true
						}
					}
				})
				if !okCmp {
					ob.Violate("membership-compare", in.Pos(), "the membership closure does not compare table names")
				}
			}
		}
	})
	if len(members) < 2 {
		ob.Violate("membership-shape", fn.Pos(), "reconcileTables no longer has two membership tests")
		return
	}
	sameList := func(a, b string) bool { return a == b || strings.HasPrefix(a, b) || strings.HasPrefix(b, a) }
	// appends
	eachInstr(fn, func(in ssa.Instruction) {
		c := plainCall(in)
		if c == nil || CalleeName(c) != "builtin.append" {
			return
		}
		vals := appendedValues(c)
		if len(vals) != 1 || !strings.HasSuffix(Expr(vals[0]), ".Name") {
			return
		}
		src := Expr(vals[0])
		// which list does the name come from
		fromLeader := sameList(strings.SplitN(src, "[", 2)[0], leaderList)
		fromFollower := sameList(strings.SplitN(src, "[", 2)[0], followerList)
		// which sink: find the call the slice flows to
		dst := Expr(c.Args[0])
		kind := ""
		eachInstr(fn, func(x ssa.Instruction) {
			cc := plainCall(x)
			if cc == nil {
				return
			}
			cal := StaticCallee(cc)
			if cal == nil {
				return
			}
			if cal.Name() == "DeleteTable" || cal.Name() == "CreateTable" {
				arg := Expr(cc.Args[len(cc.Args)-1])
				if strings.Contains(arg, strings.TrimPrefix(dst, "phi(")) || strings.Contains(dst, strings.SplitN(arg, "[", 2)[0]) {
					kind = cal.Name()
				}
			}
		})
		ob.Site(in.Pos(), "collects "+src+" for "+kind)
		var wantOver string
		switch kind {
		case "DeleteTable":
			if !fromFollower {
				ob.Violate("delete-name-source", in.Pos(), "a name collected for deletion comes from `"+src+"`, not from the follower's list")
			}
			wantOver = leaderList
		case "CreateTable":
			if !fromLeader {
				ob.Violate("create-name-source", in.Pos(), "a name collected for creation comes from `"+src+"`, not from the leader's list")
			}
			wantOver = followerList
		default:
			ob.Undecided("collect-sink", "cannot tell whether `"+dst+"` feeds DeleteTable or CreateTable")
			return
		}
		// guarded by the false edge of the membership test over wantOver
		var guardVal ssa.Value
		for _, m := range members {
			if sameList(m.over, wantOver) {
				guardVal = m.call
			}
		}
		if guardVal == nil {
			ob.Violate("membership-over/"+kind, in.Pos(), "no membership test over `"+wantOver+"` guards the collection for "+kind)
			return
		}
		gctx := &ExprCtx{Alias: map[ssa.Value]string{guardVal: "member"}}
		unreachableUnlessAny(w, ob, gctx, entry(fn), func(x ssa.Instruction) bool { return x == in }, "collect-unguarded/"+kind, "a table can be collected for "+kind+" without having been found absent from the other cluster's list",
			func(l Lit) bool { return l.Kind == "bool" && l.Neg && l.A == "member" })
	})
	_ = ctx
	// tolerated errors
	for _, x := range []struct{ call, tolerated string }{{"DeleteTable", "ErrTableNotFound"}, {"CreateTable", "ErrTableExists"}} {
		eachInstr(fn, func(in ssa.Instruction) {
			c := plainCall(in)
			if c == nil || StaticCallee(c) == nil || StaticCallee(c).Name() != x.call {
				return
			}
			ob.Site(in.Pos(), x.call+" called")
		})
	}
	// completeness: every list is walked in full and no success return is reachable before the
	// deletions and creations were carried out (an empty leader list is a list: its tables are gone)
	loops := sliceLoops(fn)
	for _, l := range loops {
		checkFullTraversal(w, ob, l, "`"+Expr(l.Slice)+"`", nil)
		head := l.Head
		if p := (&Walk{Barrier: func(x ssa.Instruction) bool { return x.Block() == head }, Target: isSuccessReturn}).Find(entry(fn)); p != nil {
			ob.Violate("returns-before-loop", instrPos(p.Hit), "reconcileTables can return successfully without having gone through the loop over `"+Expr(l.Slice)+"`: the tables it would delete or create stay as they are", w.PathString(p)...)
		}
	}
	if len(loops) < 4 {
		ob.Violate("loops-missing", fn.Pos(), "reconcileTables no longer has the four loops (two membership passes, deletions, creations)")
	}
	ob.NeedFloor(6)
}

var _ = types.Typ
