package main

// C19 — the gossiped shard view converges and never regresses to an older leader.

import (
	"fmt"
	"go/token"
	"go/types"
	"sort"
	"strings"

	"golang.org/x/tools/go/ssa"
)

func init() {
	register("C19", "gossiped shard view: guarded merge, keyed and locked updates", checkC19)
}

const (
	clusterPath = modPath + "/storage/cluster"
	dbPath      = "github.com/lni/dragonboat/v4"
)

// isShardView: dragonboat.ShardView (an alias of an internal registry type).
func isShardView(t types.Type) bool {
	n, ok := deref(t).(*types.Named)
	return ok && n.Obj().Name() == "ShardView" && n.Obj().Pkg() != nil && strings.HasPrefix(n.Obj().Pkg().Path(), dbPath)
}

// findMerge: function (ShardView, ShardView) → ShardView of package storage/cluster.
func findMerge(w *World) *ssa.Function {
	sp := w.SSAPkg("storage/cluster")
	if sp == nil {
		return nil
	}
	for _, m := range sp.Members {
		fn, ok := m.(*ssa.Function)
		if !ok || len(fn.Params) != 2 || fn.Signature.Results().Len() != 1 {
			continue
		}
		if isShardView(fn.Params[0].Type()) && isShardView(fn.Params[1].Type()) && isShardView(fn.Signature.Results().At(0).Type()) {
			return fn
		}
	}
	return nil
}

func checkC19(w *World, r *Report) {
	r.Decides = "C19 is decided in its structural part only: (a) in the merge function the leader id and term of the result are overwritten from the update only under update.leader != none and (current.leader == none or update.term > current.term), always together and from the update's own fields; replicas and config-change index only under current.cci < update.cci, together; nothing else of the current view is overwritten and the current view is what is returned; (b) the update method stores merge(entry for u.ShardID, u) under the same key, with the default entry carrying that shard id, under the write lock; the lookup reads under the read lock; the response header copies term and leader from the view of the requested shard; (c) the view map is written only by the update method and every feeder (local events, membership notifications, remote state merge) calls it; (d, thorough tier) on the finite quotient of orderings the extracted merge is order independent, idempotent and never lowers the term, assuming equal terms name equal leaders. Also: every feeder feeds on every path, into a value decoded for that message; read-merge-write is one critical section."
	r.NotDecided = []string{"convergence of the gossip protocol itself and memberlist delivery", "that equal terms name equal leaders (Raft election safety)"}
	r.Assume = []string{"Raft election safety for (d)"}
	merge := findMerge(w)
	if merge == nil {
		ob := r.Ob("C19.anchors", "anchors", "merge function resolves by signature", "")
		ob.Undecided("anchors", "no function (ShardView, ShardView) ShardView in storage/cluster")
		return
	}
	c19Merge(w, r, merge)
	c19Keyed(w, r, merge)
	c19Feeders(w, r)
	if w.Tier == "thorough" {
		c19Quotient(w, r, merge)
	}
}

// spilledParam: the local a struct parameter is spilled to.
func spilledParam(fn *ssa.Function, p *ssa.Parameter) *ssa.Alloc {
	if p.Referrers() == nil {
		return nil
	}
	for _, r := range *p.Referrers() {
		if st, ok := r.(*ssa.Store); ok && st.Val == ssa.Value(p) {
			if al, ok := st.Addr.(*ssa.Alloc); ok {
				return al
			}
		}
	}
	return nil
}

func c19Merge(w *World, r *Report, fn *ssa.Function) {
	ob := r.Ob("C19.a", "a-guarded-merge", "merge(current, update): stores into current.LeaderID / current.Term take update.LeaderID / update.Term and are reachable only over an edge establishing update.LeaderID != 0 and over an edge establishing current.LeaderID == 0 or update.Term - current.Term >= 1; a LeaderID store is always followed by the Term store and vice versa; stores into current.Replicas / ConfigChangeIndex take the update's fields, only over update.cci - current.cci >= 1, together; no other field of current is stored; the function returns current", "an unguarded or split overwrite lets an update with no leader or an older term replace a newer leader, or pairs a leader with another leader's term")
	cur := spilledParam(fn, fn.Params[0])
	upd := spilledParam(fn, fn.Params[1])
	if cur == nil || upd == nil {
		ob.Undecided("shape", "the merge function does not keep its parameters in locals (unrecognised shape)")
		return
	}
	ctx := &ExprCtx{Alias: map[ssa.Value]string{fn.Params[0]: "cur", fn.Params[1]: "upd"}}
	stores := map[string][]*ssa.Store{}
	eachInstr(fn, func(in ssa.Instruction) {
		st, ok := in.(*ssa.Store)
		if !ok {
			return
		}
		fa, ok := st.Addr.(*ssa.FieldAddr)
		if !ok {
			return
		}
		switch fa.X {
		case ssa.Value(cur):
			f := fieldAddrName(fa)
			stores[f] = append(stores[f], st)
			e := ctx.Expr(st.Val)
			ob.Site(in.Pos(), "current."+f+" = "+e)
			if e != "upd."+f {
				ob.Violate("merge-source/"+f, in.Pos(), "current."+f+" is overwritten with `"+e+"`, not with the update's "+f)
			}
		case ssa.Value(upd):
			ob.Violate("merge-writes-update", in.Pos(), "the merge modifies its update argument")
		}
	})
	for f := range stores {
		switch f {
		case "LeaderID", "Term", "Replicas", "ConfigChangeIndex":
		default:
			ob.Violate("merge-extra-field/"+f, stores[f][0].Pos(), "the merge overwrites current."+f)
		}
	}
	hasLeader := func(l Lit) bool {
		return l.Kind == "int" && !l.IsNE && l.Terms == "upd.LeaderID" && l.Lo >= 1 && l.Hi >= posInf
	}
	curNone := func(l Lit) bool {
		return l.Kind == "int" && !l.IsNE && l.Terms == "cur.LeaderID" && l.Lo == 0 && l.Hi == 0
	}
	newer := linLit(map[string]int64{"upd.Term": 1, "cur.Term": -1}, -1, token.GEQ)
	newerTerm := func(l Lit) bool { return l.Implies(newer) }
	newerCci := linLit(map[string]int64{"upd.ConfigChangeIndex": 1, "cur.ConfigChangeIndex": -1}, -1, token.GEQ)
	for _, f := range []string{"LeaderID", "Term"} {
		if len(stores[f]) == 0 {
			ob.Violate("merge-never-takes/"+f, fn.Pos(), "the merge never takes the update's "+f)
		}
		for _, st := range stores[f] {
			tgt := func(x ssa.Instruction) bool { return x == ssa.Instruction(st) }
			unreachableUnlessAny(w, ob, ctx, entry(fn), tgt, "leader-without-update-leader/"+f, "current."+f+" can be overwritten by an update that names no leader", hasLeader)
			unreachableUnlessAny(w, ob, ctx, entry(fn), tgt, "leader-regression/"+f, "current."+f+" can be overwritten although the current view has a leader and the update's term is not larger", curNone, newerTerm)
		}
	}
	for _, f := range []string{"Replicas", "ConfigChangeIndex"} {
		if len(stores[f]) == 0 {
			ob.Violate("merge-never-takes/"+f, fn.Pos(), "the merge never takes the update's "+f)
		}
		for _, st := range stores[f] {
			tgt := func(x ssa.Instruction) bool { return x == ssa.Instruction(st) }
			unreachableUnlessAny(w, ob, ctx, entry(fn), tgt, "membership-regression/"+f, "current."+f+" can be overwritten although the update's config-change index is not larger", func(l Lit) bool { return l.Implies(newerCci) })
		}
	}
	// completeness: the function cannot return without having taken the update's leader unless the
	// update names none, or the current view has a leader and the update's term is not larger;
	// nor without its membership unless the update's config-change index is not larger
	noLeaderUpd := func(l Lit) bool {
		return l.Kind == "int" && !l.IsNE && l.Terms == "upd.LeaderID" && l.Lo == 0 && l.Hi == 0
	}
	curHas := func(l Lit) bool {
		return l.Kind == "int" && l.Terms == "cur.LeaderID" && ((!l.IsNE && l.Lo >= 1) || (l.IsNE && l.NE == 0))
	}
	notNewer := linLit(map[string]int64{"upd.Term": 1, "cur.Term": -1}, 0, token.LEQ)
	notNewerCci := linLit(map[string]int64{"upd.ConfigChangeIndex": 1, "cur.ConfigChangeIndex": -1}, 0, token.LEQ)
	isStoreOf := func(f string) func(ssa.Instruction) bool {
		return func(x ssa.Instruction) bool {
			for _, s := range stores[f] {
				if ssa.Instruction(s) == x {
					return true
				}
			}
			return false
		}
	}
	skipWalk := func(f string, preds ...func(Lit) bool) *Path {
		return (&Walk{Barrier: isStoreOf(f), Target: isAnyReturn, EdgeOK: func(b *ssa.BasicBlock, k int) bool {
			for _, l := range ctx.EdgeLits(b, k) {
				for _, p := range preds {
					if p(l) {
						return false
					}
				}
			}
			return true
		}}).Find(entry(fn))
	}
	if len(stores["LeaderID"]) > 0 {
		if p := skipWalk("LeaderID", noLeaderUpd, func(l Lit) bool { return l.Implies(notNewer) }); p != nil {
			ob.Violate("leader-not-taken", instrPos(p.Hit), "the merge can return without taking the update's leader although the update names one and its term is larger", w.PathString(p)...)
		} else if p := skipWalk("LeaderID", noLeaderUpd, curHas); p != nil {
			ob.Violate("leader-not-taken", instrPos(p.Hit), "the merge can return without taking the update's leader although the update names one and the current view has none", w.PathString(p)...)
		}
	}
	if len(stores["ConfigChangeIndex"]) > 0 {
		if p := skipWalk("ConfigChangeIndex", func(l Lit) bool { return l.Implies(notNewerCci) }); p != nil {
			ob.Violate("membership-not-taken", instrPos(p.Hit), "the merge can return without taking the update's membership although its config-change index is larger", w.PathString(p)...)
		}
	}
	// pairs travel together
	pair := func(a, b string) {
		isB := func(x ssa.Instruction) bool {
			for _, s := range stores[b] {
				if ssa.Instruction(s) == x {
					return true
				}
			}
			return false
		}
		for _, st := range stores[a] {
			// b must be stored on every path through a: either before (no path entry→a avoiding b … ) or after
			before := (&Walk{Barrier: isB, Target: func(x ssa.Instruction) bool { return x == ssa.Instruction(st) }}).Find(entry(fn)) == nil
			afterOK := (&Walk{Barrier: isB, Target: isAnyReturn}).Find(after(st)) == nil
			if !before && !afterOK {
				ob.Violate("split-pair/"+a+"-"+b, st.Pos(), "current."+a+" can be overwritten without current."+b+" being overwritten on the same path")
			}
		}
	}
	pair("LeaderID", "Term")
	pair("Term", "LeaderID")
	pair("Replicas", "ConfigChangeIndex")
	pair("ConfigChangeIndex", "Replicas")
	// returns current
	eachInstr(fn, func(in ssa.Instruction) {
		if ret, ok := in.(*ssa.Return); ok {
			u, ok := retVal(ret, 0).(*ssa.UnOp)
			if !ok || u.X != ssa.Value(cur) {
				ob.Violate("merge-returns-other", ret.Pos(), "the merge returns `"+ctx.Expr(retVal(ret, 0))+"`, not the merged current view")
			}
		}
	})
	ob.NeedFloor(4)
}

func c19Keyed(w *World, r *Report, merge *ssa.Function) {
	ob := r.Ob("C19.b", "b-keyed-and-locked", "update method: the map entry written is keyed by the update's ShardID, its value is merge(entry looked up under the same key - or a default entry whose ShardID is that key -, the update), under the write lock held until return; shardInfo reads under the read lock; Engine.getHeader copies RaftTerm and RaftLeaderId from the view of its shard argument", "an entry merged under another shard's key mixes the leaders of two shards; an unlocked write races with the gossip goroutines")
	sv := w.NamedType("storage/cluster", "shardView")
	if sv == nil {
		ob.Undecided("anchor", "shardView not found")
		return
	}
	up := w.MethodOf(types.NewPointer(sv), "update")
	si := w.MethodOf(types.NewPointer(sv), "shardInfo")
	if up == nil || si == nil {
		ob.Undecided("anchor/methods", "shardView.update / shardInfo not found")
		return
	}
	n, nLookupTotal := 0, 0
	eachInstr(up, func(in ssa.Instruction) {
		mu, ok := in.(*ssa.MapUpdate)
		if !ok {
			return
		}
		n++
		key := Expr(mu.Key)
		ob.Site(in.Pos(), "view["+key+"] = "+Expr(mu.Value))
		if !strings.HasSuffix(key, ".ShardID") {
			ob.Violate("update-key", in.Pos(), "the merged entry is stored under `"+key+"`, not under the update's shard id")
		}
		call, ok := mu.Value.(*ssa.Call)
		if !ok || StaticCallee(&call.Call) != merge {
			ob.Violate("update-bypasses-merge", in.Pos(), "the view entry is set to `"+Expr(mu.Value)+"` without going through the merge")
			return
		}
		// second argument: the update whose ShardID is the key
		updE := Expr(call.Call.Args[1])
		if updE+".ShardID" != key {
			ob.Violate("update-merge-arg", in.Pos(), "the merge is given `"+updE+"` but the entry is keyed by `"+key+"`")
		}
		// first argument: phi(lookup[key], default{ShardID: key})
		curE := Expr(call.Call.Args[0])
		okCur := strings.Contains(curE, "["+key+"]")
		if okCur {
			nLookupTotal++
		}
		if u, ok := call.Call.Args[0].(*ssa.UnOp); ok && !okCur {
			if al, ok := u.X.(*ssa.Alloc); ok {
				// a local that holds the looked-up entry or the default entry (whose ShardID is
				// checked below) - or, with one write per case, the default entry alone
				okCur = true
				for _, st := range storesTo(up, al) {
					e := Expr(st.Val)
					switch {
					case strings.Contains(e, "["+key+"]"):
						nLookupTotal++
					case strings.HasPrefix(e, "local") || e == "zero":
					default:
						okCur = false
						curE = e
					}
				}
			}
		}
		if !okCur {
			ob.Violate("update-current-key", in.Pos(), "the entry merged into (`"+curE+"`) is not the one stored under `"+key+"`")
		}
	})
	if n == 0 {
		ob.Violate("update-no-write", up.Pos(), "the update method never writes the view")
	} else if nLookupTotal == 0 {
		ob.Violate("update-current-key", up.Pos(), "no write of the view merges into the entry already stored under the update's shard id: what was known about the shard is forgotten on every update")
	}
	// default entry's ShardID
	okDefault := false
	eachInstr(up, func(in ssa.Instruction) {
		st, ok := in.(*ssa.Store)
		if !ok {
			return
		}
		fa, ok := st.Addr.(*ssa.FieldAddr)
		if ok && fieldAddrName(fa) == "ShardID" && isShardView(fa.X.Type()) {
			e := Expr(st.Val)
			ob.Site(in.Pos(), "default entry ShardID = "+e)
			if strings.HasSuffix(e, ".ShardID") {
				okDefault = true
			} else {
				ob.Violate("default-shard-id", in.Pos(), "the default entry carries shard id `"+e+"`")
			}
		}
	})
	if !okDefault {
		ob.Violate("default-entry", up.Pos(), "a shard seen for the first time is not given an entry carrying its shard id")
	}
	lockRule := func(fn *ssa.Function, lock string) {
		isLock := func(in ssa.Instruction) bool { return isCallTo(in, "(*sync.RWMutex)."+lock, "(*sync.RWMutex).Lock") }
		var unlocks []ssa.Instruction
		eachInstr(fn, func(in ssa.Instruction) {
			if isExplicitUnlock(in) {
				unlocks = append(unlocks, in)
			}
		})
		eachInstr(fn, func(in ssa.Instruction) {
			touch := false
			switch x := in.(type) {
			case *ssa.MapUpdate:
				touch = true
			case *ssa.Lookup:
				_, touch = x.X.Type().Underlying().(*types.Map)
			}
			if !touch {
				return
			}
			isThis := func(y ssa.Instruction) bool { return y == in }
			p := (&Walk{Barrier: isLock, Target: isThis}).Find(entry(fn))
			for _, u := range unlocks {
				if p == nil {
					// released explicitly and touched afterwards without taking the lock again
					p = (&Walk{Barrier: isLock, Target: isThis}).Find(after(u))
				}
			}
			if p != nil {
				ob.Violate("unlocked@"+FnName(fn), in.Pos(), FnName(fn)+" touches the view map without holding "+lock+" until it returns")
			}
		})
		ob.Site(fn.Pos(), FnName(fn)+" under "+lock)
		// read-merge-write is one critical section: no explicit unlock between a lookup of the
		// view and a later write of it
		for _, u := range unlocks {
			var lookups, updates []ssa.Instruction
			eachInstr(fn, func(in ssa.Instruction) {
				switch x := in.(type) {
				case *ssa.MapUpdate:
					updates = append(updates, in)
				case *ssa.Lookup:
					if _, isMap := x.X.Type().Underlying().(*types.Map); isMap {
						lookups = append(lookups, in)
					}
				}
			})
			for _, l := range lookups {
				if (&Walk{Target: func(y ssa.Instruction) bool { return y == u }}).Find(after(l)) == nil {
					continue
				}
				for _, m := range updates {
					if (&Walk{Target: func(y ssa.Instruction) bool { return y == m }}).Find(after(u)) != nil && l.Block() != nil {
						// the same iteration: the write is reachable from the unlock without passing the lookup again
						if (&Walk{Barrier: func(y ssa.Instruction) bool { return y == l }, Target: func(y ssa.Instruction) bool { return y == m }}).Find(after(u)) != nil {
							ob.Violate("lookup-update-split@"+FnName(fn), u.Pos(), FnName(fn)+" releases the lock between reading an entry of the view and writing the merged entry back: an update merged in between is lost")
						}
					}
				}
			}
		}
	}
	lockRule(up, "Lock")
	lockRule(si, "RLock")
	// header
	if gh := w.Func("storage", "Engine.getHeader"); gh != nil {
		for _, f := range [][2]string{{"RaftTerm", "Term"}, {"RaftLeaderId", "LeaderID"}} {
			found := false
			eachInstr(gh, func(in ssa.Instruction) {
				st, ok := in.(*ssa.Store)
				if !ok {
					return
				}
				fa, ok := st.Addr.(*ssa.FieldAddr)
				if !ok || fieldAddrName(fa) != f[0] {
					return
				}
				found = true
				e := Expr(st.Val)
				ob.Site(in.Pos(), "header."+f[0]+" = "+e)
				if !(strings.Contains(e, "ShardInfo(") && strings.Contains(e, ",$2)") && strings.HasSuffix(e, "."+f[1])) {
					ob.Violate("header/"+f[0], in.Pos(), "the response header's "+f[0]+" is `"+e+"`, not the "+f[1]+" of the requested shard's view")
				}
			})
			if !found {
				ob.Violate("header-missing/"+f[0], gh.Pos(), "the response header does not carry "+f[0])
			}
		}
	} else {
		ob.Undecided("anchor/getHeader", "Engine.getHeader not found")
	}
	// every response gets a header read from the view when the response is built: the Header of a
	// response literal (or the Header assigned to a response) is a getHeader call of the same
	// function activation, not a value computed once and captured
	if gh := w.Func("storage", "Engine.getHeader"); gh != nil {
		for _, fn := range w.ModFuncs() {
			top := fn
			for top.Parent() != nil {
				top = top.Parent()
			}
			if top.Package() == nil || top.Package().Pkg.Path() != modPath+"/storage" || top.Signature.Recv() == nil || !typeIs(top.Signature.Recv().Type(), modPath+"/storage", "Engine") {
				continue
			}
			eachInstr(fn, func(in ssa.Instruction) {
				st, ok := in.(*ssa.Store)
				if !ok {
					return
				}
				fa, ok := st.Addr.(*ssa.FieldAddr)
				if !ok || fieldAddrName(fa) != "Header" || !strings.HasSuffix(typeString(deref(fa.X.Type())), "Response") {
					return
				}
				call, isCall := st.Val.(*ssa.Call)
				ob.Site(in.Pos(), "response header in "+FnName(fn)+" = "+Expr(st.Val))
				if !isCall || StaticCallee(&call.Call) != gh {
					ob.Violate("header-not-fresh@"+FnName(fn), in.Pos(), "the response header in "+FnName(fn)+" is `"+Expr(st.Val)+"`, not read from the view when the response is built: later messages of a stream report a leader and term frozen at its start")
				}
			})
		}
	}
	ob.NeedFloor(6)
}

func c19Feeders(w *World, r *Report) {
	ob := r.Ob("C19.c", "c-all-feeders-merge", "the view map is written only inside shardView.update (and created in its constructor); the cluster's event notification, the memberlist join/leave/update hooks, the local-state snapshot and the remote-state merge all call shardView.update", "a second writer bypasses the merge guards")
	sv := w.NamedType("storage/cluster", "shardView")
	if sv == nil {
		ob.Undecided("anchor", "shardView not found")
		return
	}
	for _, fn := range w.ModFuncs() {
		eachInstr(fn, func(in ssa.Instruction) {
			switch x := in.(type) {
			case *ssa.MapUpdate:
				if strings.HasSuffix(Expr(x.Map), ".shards") && fn.Package() != nil && fn.Package().Pkg.Path() == clusterPath {
					ob.Site(in.Pos(), "view map written in "+FnName(fn))
					if fn.Name() != "update" {
						ob.Violate("view-writer@"+FnName(fn), in.Pos(), "the view map is written in "+FnName(fn)+", outside the update method")
					}
				}
			case *ssa.Store:
				if fa, ok := x.Addr.(*ssa.FieldAddr); ok && types.Identical(deref(fa.X.Type()), sv) && fieldAddrName(fa) == "shards" {
					ob.Site(in.Pos(), "view map replaced in "+FnName(fn))
					if fn.Name() != "newView" {
						ob.Violate("view-replaced@"+FnName(fn), in.Pos(), "the view map is replaced in "+FnName(fn))
					}
				}
			}
		})
	}
	up := w.MethodOf(types.NewPointer(sv), "update")
	callers := map[string]bool{}
	for _, ci := range w.CallersOf(up) {
		callers[FnName(ci.Parent())] = true
		arg := Expr(ci.Common().Args[1])
		ob.Site(ci.Pos(), "view update called from "+FnName(ci.Parent())+" with "+arg)
		// the feeder hands over everything it learnt: the whole converted shard list of the node
		// host, or the whole shard view of the decoded remote state - not a filtered copy
		// the feeder feeds on every path: an update that is only made when a channel has room is
		// lost for the last event of a burst
		if ci.Parent().Parent() == nil {
			if p := (&Walk{Barrier: func(x ssa.Instruction) bool { return x == ssa.Instruction(ci) }, Target: isAnyReturn}).Find(entry(ci.Parent())); p != nil {
				ob.Violate("feeder-conditional@"+FnName(ci.Parent()), ci.Pos(), FnName(ci.Parent())+" can return without having fed the view (the update sits on one branch only): the event it was called for is lost for the view until something else refreshes it", w.PathString(p)...)
			}
		}
		whole := (strings.Contains(arg, "toShardViewList(") && strings.HasSuffix(arg, ".ShardInfoList)")) || strings.HasSuffix(arg, ".ShardView")
		// a feeder that decodes what it feeds decodes into a value of its own: encoding/json
		// decodes into existing slice elements and maps without emptying them, and the merge
		// keeps the update's membership map by reference
		eachInstr(ci.Parent(), func(in ssa.Instruction) {
			c := plainCall(in)
			if c == nil || len(c.Args) != 2 || !(CalleeName(c) == "encoding/json.Unmarshal" || strings.HasSuffix(CalleeName(c), ".Unmarshal")) {
				return
			}
			t := c.Args[1]
			for d := 0; d < 4; d++ {
				switch x := t.(type) {
				case *ssa.MakeInterface:
					t = x.X
				case *ssa.ChangeInterface:
					t = x.X
				}
			}
			ob.Site(in.Pos(), FnName(ci.Parent())+" decodes into "+Expr(t))
			al, isAlloc := t.(*ssa.Alloc)
			if !isAlloc || al.Parent() != ci.Parent() {
				ob.Violate("feeder-decodes-into-reused@"+FnName(ci.Parent()), in.Pos(), FnName(ci.Parent())+" decodes the remote state into `"+Expr(t)+"`, not into a value allocated for this message: what an earlier message left there (slice elements, the membership maps the view kept by reference) is merged into the next one")
			} else if h, body := loopOf(in.Block()); h != nil && !body[al.Block()] {
				ob.Violate("feeder-decodes-into-reused@"+FnName(ci.Parent()), in.Pos(), FnName(ci.Parent())+" decodes every message of its loop into the same value")
			}
		})
		if !whole {
			ob.Violate("feeder-filters@"+FnName(ci.Parent()), ci.Pos(), FnName(ci.Parent())+" feeds the view with `"+arg+"`, not with the complete list it received: what it leaves out never reaches this node's view, and nodes exchanging state do not converge")
		}
	}
	// one view: every field of type *shardView that is stored in the package (the cluster's and the
	// gossip delegate's) holds the same object - the view the response headers are read from
	{
		type stSite struct {
			in  *ssa.Store
			src string
		}
		var sites []stSite
		for _, fn := range w.ModFuncs() {
			if fn.Package() == nil || fn.Package().Pkg.Path() != clusterPath {
				continue
			}
			eachInstr(fn, func(in ssa.Instruction) {
				st, ok := in.(*ssa.Store)
				if !ok {
					return
				}
				fa, ok := st.Addr.(*ssa.FieldAddr)
				if !ok || !types.Identical(deref(st.Val.Type()), sv) {
					return
				}
				if _, isPtr := st.Val.Type().(*types.Pointer); !isPtr {
					return
				}
				sites = append(sites, stSite{st, Expr(st.Val)})
				ob.Site(in.Pos(), "view held by "+typeString(deref(fa.X.Type()))+"."+fieldAddrName(fa)+" = "+Expr(st.Val))
			})
		}
		fresh := 0
		for _, s := range sites {
			if strings.Contains(s.src, "newView(") && !strings.Contains(s.src, ".shardView") {
				fresh++
			}
		}
		if fresh > 1 {
			ob.Violate("second-view", sites[len(sites)-1].in.Pos(), itoa(fresh)+" holders are given a view of their own (newView()): what gossip merges into one is never seen by the readers of the other")
		}
	}
	var names []string
	for k := range callers {
		names = append(names, k)
	}
	sort.Strings(names)
	r.Info["C19.c_update_callers"] = names
	// feeders by role: the memberlist delegate hooks and the notify path
	need := map[string]string{"MergeRemoteState": "remote state merge", "LocalState": "local state snapshot", "Notify": "raft event notification"}
	for suffix, what := range need {
		found := false
		for _, n := range names {
			if strings.HasSuffix(n, ")."+suffix) || strings.Contains(n, ")."+suffix+"$") {
				found = true
			}
		}
		if !found {
			ob.Violate("feeder-missing/"+suffix, 0, "the "+what+" ("+suffix+") no longer feeds the view through update")
		}
	}
	ob.NeedFloor(5)
}

// ---------- (d) order independence on the finite quotient (thorough tier) ----------

type svState struct{ cci, leader, term, repl int }

// c19Quotient reads the merge function's SSA as a guarded assignment over (cci, leader, term,
// replicas-tag) and evaluates it on every assignment from a domain large enough to realise
// every ordering of the compared quantities of one state and two updates. This is an
// exhaustive enumeration of an extracted finite abstraction, not a run of regatta.
func c19Quotient(w *World, r *Report, fn *ssa.Function) {
	ob := r.Ob("C19.d", "d-order-independence-quotient", "shape: the merge is loop-free and touches ConfigChangeIndex, LeaderID, Term only through comparisons and copies; then for all states s and updates u, v over cci,term in {0..3}, leader in {0,1,2} with equal terms naming equal leaders: merge(merge(s,u),v) == merge(merge(s,v),u), merge(merge(s,u),u) == merge(s,u), and term(merge(s,u)) >= term(s)", "order dependence makes two nodes that received the same gossip in different order disagree for ever")
	ob.Tier = "thorough"
	for _, b := range fn.Blocks {
		if inCycle(b) {
			ob.Undecided("shape-loop", "the merge function has a loop")
			return
		}
	}
	cur := spilledParam(fn, fn.Params[0])
	upd := spilledParam(fn, fn.Params[1])
	if cur == nil || upd == nil {
		ob.Undecided("shape", "unrecognised shape of the merge function")
		return
	}
	fieldIdx := map[string]int{"ConfigChangeIndex": 0, "LeaderID": 1, "Term": 2, "Replicas": 3}
	bad := ""
	eval := func(s, u svState) (svState, bool) {
		mem := map[*ssa.Alloc]*[4]int{cur: {s.cci, s.leader, s.term, s.repl}, upd: {u.cci, u.leader, u.term, u.repl}}
		vals := map[ssa.Value]int{}
		get := func(v ssa.Value) (int, bool) {
			switch x := v.(type) {
			case *ssa.Const:
				if x.Value == nil {
					return 0, true
				}
				return int(x.Int64()), true
			}
			n, ok := vals[v]
			return n, ok
		}
		b := fn.Blocks[0]
		var prev *ssa.BasicBlock
		for steps := 0; steps < 200; steps++ {
			var next *ssa.BasicBlock
			for _, in := range b.Instrs {
				switch x := in.(type) {
				case *ssa.Alloc, *ssa.DebugRef:
				case *ssa.Store:
					if al, ok := x.Addr.(*ssa.Alloc); ok {
						if _, isP := x.Val.(*ssa.Parameter); isP && (al == cur || al == upd) {
							continue // parameter spill
						}
					}
					fa, ok := x.Addr.(*ssa.FieldAddr)
					if !ok {
						bad = "store to " + x.Addr.String()
						return svState{}, false
					}
					al, _ := fa.X.(*ssa.Alloc)
					idx, okF := fieldIdx[fieldAddrName(fa)]
					if mem[al] == nil || !okF {
						bad = "store to field " + fieldAddrName(fa)
						return svState{}, false
					}
					n, ok := get(x.Val)
					if !ok {
						bad = "store of unknown value"
						return svState{}, false
					}
					mem[al][idx] = n
				case *ssa.FieldAddr:
				case *ssa.UnOp:
					if x.Op == token.MUL {
						if fa, ok := x.X.(*ssa.FieldAddr); ok {
							al, _ := fa.X.(*ssa.Alloc)
							idx, okF := fieldIdx[fieldAddrName(fa)]
							if mem[al] != nil && okF {
								vals[x] = mem[al][idx]
								continue
							}
						}
						if al, ok := x.X.(*ssa.Alloc); ok && mem[al] != nil {
							continue // whole-struct load for the return
						}
					}
					if x.Op == token.NOT {
						n, ok := get(x.X)
						if ok {
							vals[x] = 1 - n
							continue
						}
					}
					bad = "unsupported " + x.String()
					return svState{}, false
				case *ssa.BinOp:
					a, ok1 := get(x.X)
					c, ok2 := get(x.Y)
					if !ok1 || !ok2 {
						bad = "comparison of unknown values"
						return svState{}, false
					}
					res := false
					switch x.Op {
					case token.LSS:
						res = a < c
					case token.LEQ:
						res = a <= c
					case token.GTR:
						res = a > c
					case token.GEQ:
						res = a >= c
					case token.EQL:
						res = a == c
					case token.NEQ:
						res = a != c
					default:
						bad = "arithmetic on compared quantities (" + x.Op.String() + ")"
						return svState{}, false
					}
					if res {
						vals[x] = 1
					} else {
						vals[x] = 0
					}
				case *ssa.Phi:
					for i, p := range b.Preds {
						if p == prev {
							n, ok := get(x.Edges[i])
							if !ok {
								bad = "phi of unknown"
								return svState{}, false
							}
							vals[x] = n
						}
					}
				case *ssa.If:
					n, ok := get(x.Cond)
					if !ok {
						bad = "branch on unknown"
						return svState{}, false
					}
					if n != 0 {
						next = b.Succs[0]
					} else {
						next = b.Succs[1]
					}
				case *ssa.Jump:
					next = b.Succs[0]
				case *ssa.Return:
					m := mem[cur]
					return svState{m[0], m[1], m[2], m[3]}, true
				default:
					bad = fmt.Sprintf("unsupported instruction %T", in)
					return svState{}, false
				}
			}
			if next == nil {
				bad = "fell off a block"
				return svState{}, false
			}
			prev, b = b, next
		}
		bad = "too many steps"
		return svState{}, false
	}
	cases, viol := 0, 0
	var states []svState
	for cci := 0; cci <= 3; cci++ {
		for leader := 0; leader <= 2; leader++ {
			for term := 0; term <= 3; term++ {
				// invariant of reachable states: leader none ⇔ term 0 is not required for updates
				states = append(states, svState{cci, leader, term, cci}) // replicas tag = cci of its origin
			}
		}
	}
	compatible := func(a, b svState) bool {
		// equal terms name equal leaders (among those that name a leader)
		if a.leader != 0 && b.leader != 0 && a.term == b.term && a.leader != b.leader {
			return false
		}
		return true
	}
	for _, s := range states {
		if (s.leader == 0) != (s.term == 0) {
			continue // reachable views: a leader and its term are set together
		}
		for _, u := range states {
			if !compatible(s, u) {
				continue
			}
			su, ok := eval(s, u)
			if !ok {
				ob.Undecided("extract", "the merge function cannot be read as a guarded assignment: "+bad)
				return
			}
			cases++
			if su.term < s.term {
				viol++
				ob.Violate("term-regression", fn.Pos(), fmt.Sprintf("merge(%v, %v) = %v lowers the term", s, u, su))
			}
			if suu, _ := eval(su, u); suu != su {
				viol++
				ob.Violate("not-idempotent", fn.Pos(), fmt.Sprintf("merge(merge(s,u),u) = %v differs from merge(s,u) = %v for s=%v u=%v", suu, su, s, u))
			}
			for _, v := range states {
				if !compatible(s, v) || !compatible(u, v) {
					continue
				}
				sv, _ := eval(s, v)
				a, _ := eval(su, v)
				b, _ := eval(sv, u)
				cases++
				if a != b && viol < 5 {
					viol++
					ob.Violate("order-dependent", fn.Pos(), fmt.Sprintf("s=%v u=%v v=%v: merge(merge(s,u),v)=%v but merge(merge(s,v),u)=%v (fields: cci, leader, term, replicas-of-cci)", s, u, v, a, b))
				}
			}
		}
	}
	ob.SiteS(fmt.Sprintf("finite quotient: %d merge evaluations over %d abstract views, exhaustive", cases, len(states)))
	r.Info["C19.d_quotient_evaluations"] = cases
	ob.NeedFloor(1)
}
