package main

// C09 — range reads: sorted, bounded, truthful about 'more', lossless paging.
// Decides the iterator/response protocol of the range generator, the limit guard, the size cut,
// count bookkeeping of the fill functions and the field-for-field hand-over to the API.

import (
	"fmt"
	"go/constant"
	"go/token"
	"go/types"
	"regexp"
	"sort"
	"strings"

	"golang.org/x/tools/go/ssa"
)

const (
	pbPkg      = modPath + "/regattapb"
	fsmRel     = "storage/table/fsm"
	pebblePath = "github.com/cockroachdb/pebble"
)

func init() {
	register("C09", "range reads sorted, bounded, truthful about more, lossless paging", checkC09)
}

var pebbleNewIter = []string{
	"(github.com/cockroachdb/pebble.Reader).NewIter",
	"(*github.com/cockroachdb/pebble.DB).NewIter",
	"(*github.com/cockroachdb/pebble.Batch).NewIter",
	"(*github.com/cockroachdb/pebble.Snapshot).NewIter",
}

var iterAdvance = map[string]bool{}

func init() {
	for _, m := range []string{"First", "Next", "Last", "Prev", "SeekGE", "SeekLT", "SeekPrefixGE", "NextPrefix", "SeekGEWithLimit", "NextWithLimit"} {
		iterAdvance["(*github.com/cockroachdb/pebble.Iterator)."+m] = true
	}
}

// findRangeGenerators: functions of the fsm package that take a yield callback and open a
// Pebble iterator: the lazy range generator. Today that is the closure iterate returns; a named
// function the closure hands its yield to is recognised the same way.
func findRangeGenerators(w *World) (outer []*ssa.Function, gens []*ssa.Function) {
	sp := w.SSAPkg(fsmRel)
	if sp == nil {
		return
	}
	for _, fn := range w.ModFuncs() {
		if !isFsmFunc(fn) || fn.Blocks == nil || isGenerated(fn) {
			continue
		}
		if yieldParamOf(fn) == nil {
			continue
		}
		if len(callsIn(fn, false, pebbleNewIter...)) == 0 {
			continue
		}
		gens = append(gens, fn)
		if fn.Parent() != nil {
			outer = append(outer, fn.Parent())
		} else {
			outer = append(outer, fn)
		}
	}
	return
}

// yieldParamOf: the parameter of type func(*ResponseOp_Range) bool.
func yieldParamOf(fn *ssa.Function) *ssa.Parameter {
	for _, p := range fn.Params {
		sig, ok := p.Type().Underlying().(*types.Signature)
		if !ok || sig.Results().Len() != 1 || sig.Params().Len() != 1 || !types.Identical(sig.Results().At(0).Type(), types.Typ[types.Bool]) {
			continue
		}
		if isRangeResp(sig.Params().At(0).Type()) {
			return p
		}
	}
	return nil
}

// paramAliases: for a named function with exactly one (static, synchronous) call site in the
// module, its parameters rendered as the arguments of that call site - so that a rule about
// "the request's Limit" or "the bounds builder's result" reads the same whether the code sits
// in the closure or in a helper the closure calls.
func paramAliases(w *World, fn *ssa.Function) map[ssa.Value]string {
	out := map[ssa.Value]string{}
	if fn.Parent() != nil {
		// a function literal invoked where it stands: its parameters are the arguments
		if mc := makeClosureOf(fn); mc != nil && mc.Referrers() != nil {
			var call *ssa.Call
			n := 0
			for _, ref := range *mc.Referrers() {
				if _, isDbg := ref.(*ssa.DebugRef); isDbg {
					continue
				}
				n++
				if c, ok := ref.(*ssa.Call); ok && c.Call.Value == ssa.Value(mc) {
					call = c
				}
			}
			if n == 1 && call != nil && len(call.Call.Args) == len(fn.Params) {
				for i, p := range fn.Params {
					out[p] = Expr(call.Call.Args[i])
				}
			}
			return out
		}
		// without captured variables the literal is called like a plain function
		var calls []*ssa.Call
		eachInstr(fn.Parent(), func(in ssa.Instruction) {
			if c, ok := in.(*ssa.Call); ok && c.Call.StaticCallee() == fn {
				calls = append(calls, c)
			}
		})
		if len(calls) == 1 && len(calls[0].Call.Args) == len(fn.Params) {
			for i, p := range fn.Params {
				out[p] = Expr(calls[0].Call.Args[i])
			}
		}
		return out
	}
	callers := w.CallersOf(fn)
	if len(callers) != 1 {
		return out
	}
	c, ok := callers[0].(*ssa.Call)
	if !ok || StaticCallee(&c.Call) != fn || len(c.Call.Args) != len(fn.Params) {
		return out
	}
	for i, p := range fn.Params {
		out[p] = Expr(c.Call.Args[i])
	}
	return out
}

type itPos uint8

const (
	posNone itPos = iota // before the first positioning call
	posV                 // valid, current pair not consumed
	posC                 // current pair consumed
	posE                 // exhausted
	posS                 // decided by the boolean SSA value sym (true ⇒ V, false ⇒ E)
)

func (p itPos) String() string {
	return [...]string{"unpositioned", "valid-unconsumed", "consumed", "exhausted", "result-of-advance"}[p]
}

type moreVal uint8

const (
	moreUnset moreVal = iota // never stored since the response was allocated (false)
	moreTrue
	moreFalse
	moreSym   // equals the boolean value msym
	moreOther // something else
)

type c09State struct {
	pos  itPos
	sym  ssa.Value
	more moreVal
	msym ssa.Value
	sent bool // the current response object was already yielded
}

func isRangeResp(t types.Type) bool { return typeIs(t, pbPkg, "ResponseOp_Range") }

func checkC09(w *World, r *Report) {
	r.Decides = "C09 is decided in its structural part only: (a) the Pebble-iterator / response protocol of the lazy range generator as a typestate (no advance over an unconsumed pair, consume only a valid pair, 'more' at the final message agrees with the iterator position, every non-final message is flagged more and followed by a fresh response, one iterator per stream); (b) the limit guard and its counter; (c) the size cut precedes the pair it makes room for and the cut constant is below the transport limit; (d) count bookkeeping of the fill functions; (e) Kvs/Count/More are handed over field for field by table, engine and server and every pulled message is sent; (g) a range read nested in a write transaction reads the apply batch, i.e. the same state a plain read issued right after would see (C01.d). Also: the table layer hands out the state machine's sequence itself; the size cut is the sum form (an unsigned difference is not linear)."
	r.NotDecided = []string{"ascending order and absence of duplicates (Pebble's iterator contract)", "the actual encoded size of a message", "equality of keys-only/count-only answers with the full read at value level"}
	r.Assume = []string{"pebble.Iterator: First/Next return true iff positioned on a pair; Key/Value are valid only then", "a response object is only modified through the fill functions and the More field"}

	outer, gens := findRangeGenerators(w)
	obA := r.Ob("C09.a", "a-iterator-protocol", "typestate over the range generator: no advance from a valid unconsumed pair; consume only when valid; final yield: valid⇒more=true, exhausted⇒more unset, result-of-advance⇒more is that result; non-final yield: valid and more=true and a fresh response follows; exactly one NewIter, outside any loop", "breaking it skips a pair, or reports more=false while pairs remain / more=true when none do, or puts one pair into two messages")
	obB := r.Ob("C09.b", "b-limit-guard", "the consume is reachable from the loop head only over an edge establishing counter != limit (or counter < limit) or limit <= 0 (no limit given); the counter starts at 0 and every path from a consume back to the loop head carries counter+1; limit is the request's Limit", "breaking it returns more than 'limit' pairs")
	obC := r.Ob("C09.c", "c-size-cut", "from the loop head the consume is reachable only over the 'fits' edge of a size test on SizeVT(response)+estimate against a constant below the 4 MiB transport limit, or after a fresh response was allocated", "breaking it lets a message grow beyond the transport limit")
	if len(gens) == 0 {
		obA.Undecided("anchor", "no range generator (closure with yield callback that opens a Pebble iterator) found in "+fsmRel)
	}
	for gi, gen := range gens {
		c09Generator(w, obA, obB, obC, outer[gi], gen)
	}
	obA.NeedFloor(5)
	obB.NeedFloor(2)
	obC.NeedFloor(1)

	c09Fill(w, r, outer)
	c09HandOver(w, r)
	if a := w.FsmAnchors(); len(a.Problems) == 0 && a.Update != nil {
		c01ReadOwnBatch(w, r, a, "C09.g", "g-range-in-txn-reads-batch")
	}
	obF := r.Ob("C09.f", "f-owned-bounds", "no slice of a pooled buffer (bufferPool.Get … defer Put) is returned, stored into an object, captured or sent in the state-machine package: range bounds handed to the lazily opened iterator are owned copies", "the iterator of a streamed read is opened after the bounds builder returned its buffers to the pool: aliased bounds are overwritten by the next request and the stream returns keys outside [key, range_end)")
	checkPooledEscapes(w, obF, fsmRel)
	obF.NeedFloor(4)
}

func c09Generator(w *World, obA, obB, obC *Ob, outer, gen *ssa.Function) {
	gname := FnName(gen)
	yieldParam := ssa.Value(yieldParamOf(gen))
	isYield := func(in ssa.Instruction) bool {
		c := plainCall(in)
		return c != nil && c.Value == yieldParam
	}
	isAdvance := func(in ssa.Instruction) bool {
		c := plainCall(in)
		return c != nil && iterAdvance[CalleeName(c)]
	}
	// consume: a call (not yield) that receives the response and at least one []byte.
	isConsume := func(in ssa.Instruction) bool {
		c := plainCall(in)
		if c == nil || c.Value == yieldParam {
			return false
		}
		hasResp, hasBytes := false, false
		for _, a := range c.Args {
			if isRangeResp(a.Type()) {
				hasResp = true
			}
			if s, ok := a.Type().Underlying().(*types.Slice); ok {
				if b, ok := s.Elem().Underlying().(*types.Basic); ok && b.Kind() == types.Byte {
					hasBytes = true
				}
			}
		}
		return hasResp && hasBytes && len(c.Args) >= 3
	}
	isRespAlloc := func(in ssa.Instruction) bool {
		a, ok := in.(*ssa.Alloc)
		return ok && a.Heap && isRangeResp(a.Type())
	}
	moreStore := func(in ssa.Instruction) (*ssa.Store, bool) {
		st, ok := in.(*ssa.Store)
		if !ok {
			return nil, false
		}
		fa, ok := st.Addr.(*ssa.FieldAddr)
		if !ok || !isRangeResp(fa.X.Type()) || fieldAddrName(fa) != "More" {
			return nil, false
		}
		return st, true
	}

	// rule 5: exactly one NewIter, not in a loop
	nis := callsIn(gen, false, pebbleNewIter...)
	for _, ni := range nis {
		obA.Site(ni.Pos(), "NewIter in "+gname)
		if inCycle(ni.Block()) {
			obA.Violate("newiter-in-loop@"+gname, ni.Pos(), "a Pebble iterator is opened inside the loop: the stream is no longer one point-in-time view")
		}
	}
	if len(nis) != 1 {
		obA.Violate("newiter-count@"+gname, gen.Pos(), fmt.Sprintf("%d NewIter calls in the generator, exactly one expected (one view per stream)", len(nis)))
	}

	// final yield = no consume/advance/yield reachable afterwards
	finalYield := map[ssa.Instruction]bool{}
	nYield, nConsume, nAdvance := 0, 0, 0
	eachInstr(gen, func(in ssa.Instruction) {
		switch {
		case isYield(in):
			nYield++
			wk := &Walk{Target: func(x ssa.Instruction) bool { return isConsume(x) || isYield(x) || isAdvance(x) }}
			if wk.Find(after(in)) == nil {
				finalYield[in] = true
			}
			obA.Site(in.Pos(), fmt.Sprintf("yield in %s (final=%v)", gname, finalYield[in]))
		case isConsume(in):
			nConsume++
			obA.Site(in.Pos(), "consume (fill) in "+gname)
		case isAdvance(in):
			nAdvance++
			obA.Site(in.Pos(), "advance "+CalleeName(plainCall(in))+" in "+gname)
		}
	})
	if nYield == 0 || nConsume == 0 || nAdvance == 0 {
		obA.Undecided("shape@"+gname, fmt.Sprintf("generator shape not recognised: %d yields, %d consumes, %d advances", nYield, nConsume, nAdvance))
		return
	}

	reported := map[string]bool{}
	viol := func(k string, in ssa.Instruction, msg string) {
		key := k + "@" + gname
		if reported[key+w.Pos(instrPos(in))] {
			return
		}
		reported[key+w.Pos(instrPos(in))] = true
		obA.Violate(k, instrPos(in), msg+" ("+gname+")")
	}
	ts := &TS[c09State]{Fn: gen, Init: c09State{}}
	ts.Transfer = func(in ssa.Instruction, s c09State) []c09State {
		switch {
		case isAdvance(in):
			if s.pos == posV {
				viol("advance-from-unconsumed", in, "the iterator is advanced while it points at a pair that was not consumed: that pair is skipped and 'more' is computed from the pair behind it")
			}
			s.pos, s.sym = posS, in.(ssa.Value)
			return []c09State{s}
		case isConsume(in):
			if s.pos != posV {
				viol("consume-not-valid", in, "a pair is consumed while the iterator is "+s.pos.String())
			}
			if s.sent {
				viol("response-reused", in, "a pair is added to a response that was already yielded: it reaches the client twice or never")
			}
			s.pos, s.sym = posC, nil
			return []c09State{s}
		case isRespAlloc(in):
			s.sent = false
			s.more, s.msym = moreUnset, nil
			return []c09State{s}
		case isYield(in):
			if finalYield[in] {
				switch s.pos {
				case posV:
					if s.more != moreTrue {
						viol("final-yield-more", in, "last message of the stream is sent while a pair remains unconsumed but 'more' is not true")
					}
				case posE, posNone:
					if s.more != moreUnset && s.more != moreFalse {
						viol("final-yield-more", in, "last message is sent with the iterator exhausted but 'more' was set")
					}
				case posS:
					if !(s.more == moreSym && s.msym == s.sym) {
						viol("final-yield-more", in, "last message is sent after an advance whose result is neither tested nor what 'more' is set to")
					}
				case posC:
					viol("final-yield-more", in, "last message is sent right after consuming a pair without looking whether another one follows: 'more' is undetermined")
				}
			} else {
				if s.pos != posV || s.more != moreTrue {
					viol("nonfinal-yield-more", in, fmt.Sprintf("a message that is followed by further messages is sent with iterator %s and more=%v; it must be valid-unconsumed and more=true", s.pos, s.more == moreTrue))
				}
			}
			s.sent = true
			return []c09State{s}
		}
		if st, ok := moreStore(in); ok {
			switch v := st.Val.(type) {
			case *ssa.Const:
				if v.Value != nil && constant.BoolVal(v.Value) {
					s.more = moreTrue
				} else {
					s.more = moreFalse
				}
				s.msym = nil
			default:
				if s.sym != nil && st.Val == s.sym {
					s.more, s.msym = moreSym, st.Val
				} else {
					s.more, s.msym = moreOther, nil
				}
			}
			return []c09State{s}
		}
		return []c09State{s}
	}
	ts.Edge = func(b *ssa.BasicBlock, k int, s c09State) (c09State, bool) {
		if iff, ok := b.Instrs[len(b.Instrs)-1].(*ssa.If); ok && s.pos == posS {
			cond := iff.Cond
			neg := false
			if u, ok := cond.(*ssa.UnOp); ok && u.Op == token.NOT {
				cond, neg = u.X, true
			}
			if cond == s.sym {
				val := k == 0
				if neg {
					val = !val
				}
				if val {
					s.pos = posV
				} else {
					s.pos = posE
				}
				if s.more == moreSym && s.msym == s.sym {
					if val {
						s.more = moreTrue
					} else {
						s.more = moreFalse
					}
					s.msym = nil
				}
				s.sym = nil
			}
		}
		// rebind the symbolic boolean through phis of the successor
		succ := b.Succs[k]
		if s.sym != nil {
			pi := predIndex(b, succ)
			for _, in := range succ.Instrs {
				phi, ok := in.(*ssa.Phi)
				if !ok {
					break
				}
				if pi >= 0 && phi.Edges[pi] == s.sym {
					if s.msym == s.sym {
						s.msym = phi
					}
					s.sym = phi
					break
				}
			}
		}
		return s, true
	}
	ts.Run()
	if ts.Overflow {
		obA.Undecided("overflow@"+gname, "typestate exploration exceeded its state bound")
	}

	// ---- C09.b limit guard ----
	var consumes []ssa.Instruction
	eachInstr(gen, func(in ssa.Instruction) {
		if isConsume(in) {
			consumes = append(consumes, in)
		}
	})
	ctx := &ExprCtx{Alias: paramAliases(w, gen)}
	// counter: int phi with edges {0, phi+1}
	var counter *ssa.Phi
	eachInstr(gen, func(in ssa.Instruction) {
		phi, ok := in.(*ssa.Phi)
		if !ok || !isIntegerType(phi.Type()) {
			return
		}
		zero, inc := false, false
		for _, e := range phi.Edges {
			if c, ok := e.(*ssa.Const); ok && c.Value != nil && constant.Sign(constant.ToInt(c.Value)) == 0 {
				zero = true
			}
			if bo, ok := e.(*ssa.BinOp); ok && bo.Op == token.ADD && bo.X == phi {
				if c, ok := bo.Y.(*ssa.Const); ok && c.Value != nil && constant.Compare(constant.ToInt(c.Value), token.EQL, constant.MakeInt64(1)) {
					inc = true
				}
			}
		}
		if zero && inc && counter == nil {
			counter = phi
		}
	})
	if counter == nil {
		obB.Undecided("counter@"+gname, "no loop counter (integer phi of 0 and itself+1) found in the range generator")
	} else {
		ctx.Alias[counter] = "cnt"
		obB.Site(counter.Pos(), "consume counter in "+gname)
		// limit expression: must be the request's Limit
		limExpr := ""
		eachInstr(gen, func(in ssa.Instruction) {
			iff, ok := in.(*ssa.If)
			if !ok {
				return
			}
			if l, ok := ctx.CondLit(iff.Cond); ok && l.Kind == "int" && strings.Contains(l.Terms, "cnt") {
				for _, t := range strings.FieldsFunc(l.Terms, func(r rune) bool { return r == '+' || r == '-' }) {
					if t != "cnt" && strings.HasSuffix(t, ".Limit") {
						limExpr = t
					}
				}
				obB.Site(iff.Cond.Pos(), "limit test "+l.String())
			}
		})
		if limExpr == "" {
			obB.Violate("limit-test-missing@"+gname, gen.Pos(), "no test of the consume counter against the request's Limit in the range generator")
		} else {
			// required on the way from the loop head to a consume: cnt != limit  ∨  limit == 0
			d := Lin{T: map[string]int64{limExpr: 1, "cnt": -1}, nn: map[string]bool{}}
			need1, _ := intLit(d, token.NEQ)
			need2, _ := intLit(Lin{T: map[string]int64{limExpr: 1}, nn: map[string]bool{}}, token.LEQ) // no positive limit given
			wk := &Walk{
				Target: func(in ssa.Instruction) bool { return isConsume(in) },
				EdgeOK: func(b *ssa.BasicBlock, k int) bool {
					for _, l := range ctx.EdgeLits(b, k) {
						if l.Implies(need1) || l.Implies(need2) {
							return false
						}
					}
					return true
				},
			}
			if p := wk.Find(Loc{counter.Block(), 0}); p != nil {
				obB.Violate("consume-unguarded@"+gname, instrPos(p.Hit), "a pair can be consumed without having passed `"+need1.String()+"` or `"+need2.String()+"` in this iteration: more than 'limit' pairs can be returned", w.PathString(p)...)
			}
			// every way from a consume back to the loop head carries cnt+1
			hdr := counter.Block()
			for _, cs := range consumes {
				for pi, pred := range hdr.Preds {
					wk := &Walk{Target: func(in ssa.Instruction) bool { return in.Block() == pred && in == pred.Instrs[len(pred.Instrs)-1] },
						Barrier: func(in ssa.Instruction) bool { return in.Block() == hdr && false }}
					// reachability consume → pred without passing the header
					wk.EdgeOK = func(b *ssa.BasicBlock, k int) bool { return b.Succs[k] != hdr }
					if wk.Find(after(cs)) == nil {
						continue
					}
					e := counter.Edges[pi]
					bo, ok := e.(*ssa.BinOp)
					if !(ok && bo.Op == token.ADD && bo.X == counter) {
						obB.Violate("counter-not-incremented@"+gname, instrPos(cs), "after consuming a pair the loop is re-entered with the counter not incremented by one: the limit is not enforced")
					}
				}
			}
		}
	}

	// ---- C09.c size cut ----
	sizeTests := 0
	wkc := &Walk{
		Target:  func(in ssa.Instruction) bool { return isConsume(in) },
		Barrier: isRespAlloc,
	}
	const grpcDefault = 4 * 1024 * 1024
	fitsEdge := map[*ssa.BasicBlock]int{}
	eachInstr(gen, func(in ssa.Instruction) {
		iff, ok := in.(*ssa.If)
		if !ok {
			return
		}
		bin, ok := iff.Cond.(*ssa.BinOp)
		if !ok {
			return
		}
		l, ok := ctx.CondLit(iff.Cond)
		if !ok || l.Kind != "int" || !strings.Contains(l.Terms, ".SizeVT(") {
			return
		}
		_ = bin
		// l holds on the true edge:  terms >= K  (cut) or terms <= K (fits)
		var bound int64
		var fits int
		switch {
		case !l.IsNE && l.Hi >= posInf: // true edge: size >= Lo → cut; false edge fits
			bound, fits = l.Lo, 1
		case !l.IsNE && l.Lo <= 0: // true edge: size <= Hi → fits
			bound, fits = l.Hi+1, 0
		default:
			return
		}
		sizeTests++
		obC.Site(iff.Cond.Pos(), fmt.Sprintf("size test %s (cut at %d bytes) in %s", l.String(), bound, gname))
		if bound >= grpcDefault {
			obC.Violate("cut-constant@"+gname, iff.Cond.Pos(), fmt.Sprintf("size cut at %d bytes is not below the 4 MiB transport limit", bound))
		}
		// the estimate must look at the current pair: the tested sum has a second term
		if !strings.Contains(l.Terms, "+") {
			obC.Violate("cut-ignores-pair@"+gname, iff.Cond.Pos(), "the size test does not include an estimate for the pair about to be added")
		}
		fitsEdge[iff.Block()] = fits
	})
	if sizeTests == 0 {
		obC.Violate("size-test-missing@"+gname, gen.Pos(), "no size test on SizeVT(response) before a pair is added")
	} else if counter != nil {
		wkc.EdgeOK = func(b *ssa.BasicBlock, k int) bool {
			if f, ok := fitsEdge[b]; ok && k == f {
				return false
			}
			return true
		}
		if p := wkc.Find(Loc{counter.Block(), 0}); p != nil {
			obC.Violate("consume-without-size-test@"+gname, instrPos(p.Hit), "a pair can be added to the response without the size test having said it fits and without a fresh response", w.PathString(p)...)
		}
	}
}

var countExprOK = regexp.MustCompile(`^(len\(\$\d\.Kvs\)|\$\d\.Count\+1)$`)

// c09Fill: C09.d — each fill function updates Count exactly once per call and appends exactly
// one pair when it appends at all.
func c09Fill(w *World, r *Report, outer []*ssa.Function) {
	ob := r.Ob("C09.d", "d-count-agrees", "every fill function (function value with signature (key, value []byte, *ResponseOp_Range) used by the generator) stores Count exactly once on every path, as Count+1 or len(Kvs), and appends exactly one pair to Kvs if it appends; the single-key read answers Count=1", "breaking it makes count disagree with the pairs returned")
	sp := w.SSAPkg(fsmRel)
	if sp == nil {
		ob.Undecided("anchor", "package "+fsmRel+" not loaded")
		return
	}
	var fills []*ssa.Function
	// functions, methods (the receiver aside) and closures of the package with the fill signature
	for _, fn := range w.ModFuncs() {
		top := fn
		for top.Parent() != nil {
			top = top.Parent()
		}
		if top.Package() != sp || fn.Blocks == nil || fn.Synthetic != "" || fn.Signature.Results().Len() != 0 {
			continue
		}
		ps := fn.Params
		if fn.Signature.Recv() != nil && len(ps) > 0 {
			ps = ps[1:]
		}
		if len(ps) != 3 || !isRangeResp(ps[2].Type()) {
			continue
		}
		fills = append(fills, fn)
	}
	sort.Slice(fills, func(i, j int) bool { return fills[i].Pos() < fills[j].Pos() })
	for _, fn := range fills {
		name := FnName(fn)
		isCountStore := func(in ssa.Instruction) bool {
			st, ok := in.(*ssa.Store)
			if !ok {
				return false
			}
			fa, ok := st.Addr.(*ssa.FieldAddr)
			return ok && isRangeResp(fa.X.Type()) && fieldAddrName(fa) == "Count"
		}
		ob.Site(fn.Pos(), "fill function "+name)
		// every path crosses a Count store
		if p := (&Walk{Barrier: isCountStore, Target: isAnyReturn}).Find(entry(fn)); p != nil {
			ob.Violate("count-not-updated@"+name, fn.Pos(), "a path through the fill function does not update Count", w.PathString(p)...)
		}
		nAppend := 0
		eachInstr(fn, func(in ssa.Instruction) {
			if isCountStore(in) {
				st := in.(*ssa.Store)
				// no second store reachable
				if p := (&Walk{Target: isCountStore}).Find(after(in)); p != nil {
					ob.Violate("count-twice@"+name, in.Pos(), "Count is updated twice on one path")
				}
				e := Expr(st.Val)
				if !countExprOK.MatchString(e) {
					ob.Violate("count-value@"+name, in.Pos(), "Count is set to `"+e+"`, expected Count+1 or len(Kvs)")
				}
			}
			if c := plainCall(in); c != nil && CalleeName(c) == "builtin.append" && len(c.Args) == 2 {
				if strings.HasSuffix(Expr(c.Args[0]), ".Kvs") {
					nAppend++
					// appended slice must have exactly one element
					if sl, ok := c.Args[1].(*ssa.Slice); ok {
						if arr, ok := deref(sl.X.Type()).Underlying().(*types.Array); !ok || arr.Len() != 1 {
							ob.Violate("append-count@"+name, in.Pos(), "more than one element appended to Kvs per pair")
						}
					} else {
						ob.Violate("append-count@"+name, in.Pos(), "append to Kvs with a slice of unknown length")
					}
				}
			}
		})
		if nAppend > 1 {
			ob.Violate("append-twice@"+name, fn.Pos(), "the fill function appends to Kvs more than once")
		}
	}
	// the selector returns (fill, size) pairs; every returned fill must be one of the analysed functions
	// single-key read: Count is the constant 1 on the found path
	if sl := w.Func(fsmRel, "singleLookup"); sl != nil {
		n := 0
		eachInstr(sl, func(in ssa.Instruction) {
			st, ok := in.(*ssa.Store)
			if !ok {
				return
			}
			fa, ok := st.Addr.(*ssa.FieldAddr)
			if !ok || !isRangeResp(fa.X.Type()) || fieldAddrName(fa) != "Count" {
				return
			}
			n++
			ob.Site(in.Pos(), "single-key read sets Count")
			if c, ok := st.Val.(*ssa.Const); !ok || c.Value == nil || constant.Compare(constant.ToInt(c.Value), token.NEQ, constant.MakeInt64(1)) {
				ob.Violate("single-count@singleLookup", in.Pos(), "the single-key read answers a found key with Count `"+Expr(st.Val)+"`, expected 1")
			}
		})
	}
	ob.NeedFloor(3)
}

// c09HandOver: C09.e — table, engine and server pass Kvs/Count/More on unchanged.
func c09HandOver(w *World, r *Report) {
	ob := r.Ob("C09.e", "e-hand-over", "every RangeResponse literal built from a state-machine range response copies Kvs, Count and More from the same source, field for field; the streaming handler sends each pulled message before pulling the next", "breaking it drops pairs, the count or the more flag between the state machine and the client")

	// the table layer hands out the state machine's lazy sequence itself, not a wrapper that can
	// end it early (a wrapper bound to the request context stops after the first message when the
	// caller cancels its derived context on return)
	if it := w.Func("storage/table", "ActiveTable.Iterator"); it != nil {
		eachInstr(it, func(in ssa.Instruction) {
			ret, ok := in.(*ssa.Return)
			if !ok || isErrorReturn(ret) || len(ret.Results) < 1 {
				return
			}
			v := retVal(ret, 0)
			ob.Site(ret.Pos(), "ActiveTable.Iterator returns "+Expr(v))
			for d := 0; d < 3; d++ {
				if ct, ok := v.(*ssa.ChangeType); ok {
					v = ct.X
				}
			}
			if _, isClosure := v.(*ssa.MakeClosure); isClosure {
				ob.Violate("iterator-wrapped", ret.Pos(), "ActiveTable.Iterator returns a closure of its own round the state machine's sequence: the stream can end before the sequence does (flagged more=true, nothing follows)")
			}
		})
	} else {
		ob.Undecided("anchor@Iterator", "ActiveTable.Iterator not found")
	}
	type site struct{ rel, fn string }
	for _, s := range []site{{"storage/table", "ActiveTable.Range"}, {"storage", "Engine.IterateRange"}} {
		fn := w.Func(s.rel, s.fn)
		if fn == nil {
			ob.Undecided("anchor@"+s.fn, "function "+s.rel+"."+s.fn+" not found")
			continue
		}
		found := 0
		for _, f := range withClosures(fn) {
			eachInstr(f, func(in ssa.Instruction) {
				a, ok := in.(*ssa.Alloc)
				if !ok || !typeIs(a.Type(), pbPkg, "RangeResponse") {
					return
				}
				found++
				fields := map[string]string{}
				for _, ref := range *a.Referrers() {
					fa, ok := ref.(*ssa.FieldAddr)
					if !ok {
						continue
					}
					for _, st := range storesTo(f, fa) {
						fields[fieldAddrName(fa)] = Expr(st.Val)
					}
				}
				ob.Site(a.Pos(), fmt.Sprintf("RangeResponse literal in %s: Kvs=%s Count=%s More=%s", FnName(f), fields["Kvs"], fields["Count"], fields["More"]))
				base := ""
				for _, fld := range []string{"Kvs", "Count", "More"} {
					e, ok := fields[fld]
					if !ok {
						ob.Violate("field-dropped/"+fld+"@"+s.fn, a.Pos(), "RangeResponse is built without "+fld)
						continue
					}
					if !strings.HasSuffix(e, "."+fld) {
						ob.Violate("field-source/"+fld+"@"+s.fn, a.Pos(), fld+" is set from `"+e+"`, not from the state machine response's "+fld)
						continue
					}
					b := strings.TrimSuffix(e, "."+fld)
					if base == "" {
						base = b
					} else if base != b {
						ob.Violate("field-source-mixed@"+s.fn, a.Pos(), "Kvs/Count/More are taken from different objects: "+base+" vs "+b)
					}
				}
			})
		}
		if found == 0 {
			ob.Undecided("shape@"+s.fn, "no RangeResponse literal found in "+s.fn)
		}
	}
	// Engine.Range returns the table's response, touching only Header.
	if fn := w.Func("storage", "Engine.Range"); fn != nil {
		eachInstr(fn, func(in ssa.Instruction) {
			st, ok := in.(*ssa.Store)
			if !ok {
				return
			}
			fa, ok := st.Addr.(*ssa.FieldAddr)
			if !ok || !typeIs(fa.X.Type(), pbPkg, "RangeResponse") {
				return
			}
			ob.Site(in.Pos(), "Engine.Range stores RangeResponse."+fieldAddrName(fa))
			if n := fieldAddrName(fa); n != "Header" {
				ob.Violate("engine-range-overwrites/"+n, in.Pos(), "Engine.Range overwrites "+n+" of the table's response")
			}
		})
	} else {
		ob.Undecided("anchor@Engine.Range", "storage.Engine.Range not found")
	}
	// streaming handler: every pulled message is sent before the next pull / normal end
	if fn := w.Func("regattaserver", "KVServer.IterateRange"); fn != nil {
		var pulls []ssa.Instruction
		eachInstr(fn, func(in ssa.Instruction) {
			c := plainCall(in)
			if c == nil {
				return
			}
			if ex, ok := c.Value.(*ssa.Extract); ok && ex.Index == 0 {
				if call, ok := ex.Tuple.(*ssa.Call); ok && strings.HasSuffix(CalleeName(&call.Call), "util/iter.Pull") {
					pulls = append(pulls, in)
				}
			}
		})
		isSend := func(in ssa.Instruction) bool {
			c := plainCall(in)
			return c != nil && c.IsInvoke() && c.Method.Name() == "Send"
		}
		for _, p := range pulls {
			ob.Site(p.Pos(), "pull() in KVServer.IterateRange")
			pv := p.(ssa.Value)
			ctx := &ExprCtx{Alias: map[ssa.Value]string{pv: "pull"}}
			wk := &Walk{
				Barrier: func(in ssa.Instruction) bool {
					if !isSend(in) {
						return false
					}
					// must send the pulled element
					c := plainCall(in)
					return len(c.Args) == 1 && ctx.Expr(c.Args[0]) == "pull#0"
				},
				Target: func(in ssa.Instruction) bool {
					if in == p {
						return true
					}
					return isSuccessReturn(in)
				},
				EdgeOK: func(b *ssa.BasicBlock, k int) bool {
					for _, l := range ctx.EdgeLits(b, k) {
						if l.Implies(LNotBool("pull#1")) {
							return false
						}
					}
					return true
				},
			}
			if path := wk.Find(after(p)); path != nil {
				ob.Violate("pulled-not-sent@KVServer.IterateRange", instrPos(path.Hit), "a message pulled from the range stream can be dropped without being sent", w.PathString(path)...)
			}
		}
		if len(pulls) == 0 {
			ob.Undecided("shape@KVServer.IterateRange", "no pull() of an iter.Pull result found in the streaming handler")
		}
	} else {
		ob.Undecided("anchor@KVServer.IterateRange", "regattaserver.KVServer.IterateRange not found")
	}
	ob.NeedFloor(4)
}
