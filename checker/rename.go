package main

// Renames are undone before the rules run. The rules name the functions, types, fields and
// package-level variables of the reviewed tree; a refactoring that renames one of them leaves the
// behaviour alone but makes the rule look for something that is no longer there. The reviewed list
// records, next to each name, what identifies the thing independently of its name (signature,
// underlying type, field position and type, variable type / constant value). A name of the list
// that is missing from the tree and a name of the tree that is missing from the list, of the same
// package and with the same identifying data, are one thing renamed - if that pairing is unique.
// Every identifier of the renamed thing is then set back to the reviewed name in the in-memory
// syntax trees (the overlay is printed from them, /repo is not touched).

import (
	"go/ast"
	"go/types"
	"sort"
	"strings"

	"golang.org/x/tools/go/packages"
)

var reviewedInfo = map[string]string{} // key → identifying data (filled by loadReviewedFuncs)

func pathQualifier(p *types.Package) string { return p.Path() }

func sigString(f *types.Func) string {
	sig := f.Type().(*types.Signature)
	// without receiver and without parameter names
	return tupleString(sig.Params(), sig.Variadic()) + " " + tupleString(sig.Results(), false)
}

func tupleString(t *types.Tuple, variadic bool) string {
	var parts []string
	for i := 0; i < t.Len(); i++ {
		s := types.TypeString(t.At(i).Type(), pathQualifier)
		if variadic && i == t.Len()-1 {
			s = "..." + strings.TrimPrefix(s, "[]")
		}
		parts = append(parts, s)
	}
	return "(" + strings.Join(parts, ", ") + ")"
}

// paramNames: the parameter names of f, comma separated (the permutation of a reordered
// parameter list is read off them).
func paramNames(f *types.Func) string {
	sig := f.Type().(*types.Signature)
	var ns []string
	for i := 0; i < sig.Params().Len(); i++ {
		ns = append(ns, sig.Params().At(i).Name())
	}
	return strings.Join(ns, ",")
}

// recvString: "*T" or "T" of a method's receiver ("" for functions).
func recvString(f *types.Func) string {
	sig := f.Type().(*types.Signature)
	if sig.Recv() == nil {
		return ""
	}
	return types.TypeString(sig.Recv().Type(), pathQualifier)
}

// reviewedLines: what `rvet funcs` prints beyond functions and type names.
func reviewedLines(pkgs map[string]*packages.Package) []string {
	var out []string
	for path, p := range pkgs {
		if p.Types == nil || strings.HasSuffix(path, "/regattapb") {
			continue
		}
		sc := p.Types.Scope()
		for _, name := range sc.Names() {
			switch o := sc.Lookup(name).(type) {
			case *types.TypeName:
				if o.IsAlias() {
					continue
				}
				out = append(out, "type "+path+"."+name+"\t"+types.TypeString(o.Type().Underlying(), pathQualifier))
				if st, ok := o.Type().Underlying().(*types.Struct); ok {
					for i := 0; i < st.NumFields(); i++ {
						f := st.Field(i)
						out = append(out, "field "+path+"."+name+"."+f.Name()+"\t"+itoa(i)+"\t"+types.TypeString(f.Type(), pathQualifier))
					}
				}
				if named, ok := o.Type().(*types.Named); ok {
					for i := 0; i < named.NumMethods(); i++ {
						m := named.Method(i)
						out = append(out, "sig "+path+"."+name+"."+m.Name()+"\t"+sigString(m)+"\t"+paramNames(m)+"\t"+recvString(m))
					}
				}
			case *types.Func:
				out = append(out, "sig "+path+"."+name+"\t"+sigString(o)+"\t"+paramNames(o)+"\t")
			case *types.Var:
				out = append(out, "var "+path+"."+name+"\t"+types.TypeString(o.Type(), pathQualifier))
			case *types.Const:
				out = append(out, "const "+path+"."+name+"\t"+types.TypeString(o.Type(), pathQualifier)+"\t"+o.Val().ExactString())
			}
		}
	}
	sort.Strings(out)
	return out
}

// renameBack sets renamed things back to their reviewed names in the syntax trees. Returns the
// files touched and notes.
// renamedObjs: objects whose identifiers renameBack set back, with their reviewed names (the
// type information is that of the tree as loaded: later steps look objects up through this).
var renamedObjs = map[types.Object]string{}

// splitTop splits a comma-separated list at the commas outside brackets.
func splitTop(s string) []string {
	var out []string
	depth, start := 0, 0
	for i := 0; i < len(s); i++ {
		switch s[i] {
		case '(', '[', '{':
			depth++
		case ')', ']', '}':
			depth--
		case ',':
			if depth == 0 {
				out = append(out, strings.TrimSpace(s[start:i]))
				start = i + 1
			}
		}
	}
	if strings.TrimSpace(s[start:]) != "" {
		out = append(out, strings.TrimSpace(s[start:]))
	}
	return out
}

// permSigKey: a signature with its (named) parameters as a sorted set, so that a function whose
// parameters were reordered still matches: "name type;name type;...→results". "" if unusable.
func permSigKey(sig, names string) string {
	if !strings.HasPrefix(sig, "(") {
		return ""
	}
	depth, end := 0, -1
	for i := 0; i < len(sig); i++ {
		if sig[i] == '(' {
			depth++
		} else if sig[i] == ')' {
			depth--
			if depth == 0 {
				end = i
				break
			}
		}
	}
	if end < 0 {
		return ""
	}
	typs := splitTop(sig[1:end])
	ns := strings.Split(names, ",")
	if names == "" || len(typs) != len(ns) || len(ns) < 2 {
		return ""
	}
	var pairs []string
	seen := map[string]bool{}
	for i := range ns {
		if ns[i] == "" || ns[i] == "_" || seen[ns[i]] || strings.HasPrefix(typs[i], "...") {
			return ""
		}
		seen[ns[i]] = true
		pairs = append(pairs, ns[i]+" "+typs[i])
	}
	sort.Strings(pairs)
	return strings.Join(pairs, ";") + "→" + sig[end+1:]
}

func renameBack(mod map[string]*packages.Package, reviewed map[string]bool) (map[*ast.File]*packages.Package, []string) {
	changed := map[*ast.File]*packages.Package{}
	renamedObjs = map[types.Object]string{}
	var notes []string
	if len(reviewedInfo) == 0 {
		return changed, nil
	}
	type ren struct {
		obj types.Object
		old string
		new string
	}
	var rens []ren
	for path, p := range mod {
		if p.Types == nil || strings.HasSuffix(path, "/regattapb") {
			continue
		}
		sc := p.Types.Scope()
		// ---- types ----
		typeNow := map[string]*types.TypeName{}
		for _, name := range sc.Names() {
			if tn, ok := sc.Lookup(name).(*types.TypeName); ok && !tn.IsAlias() {
				typeNow[name] = tn
			}
		}
		renamedType := map[string]string{} // current name → reviewed name
		{
			missing := map[string][]string{} // identifying data → reviewed names missing
			for k, data := range reviewedInfo {
				if !strings.HasPrefix(k, "type "+path+".") {
					continue
				}
				name := strings.TrimPrefix(k, "type "+path+".")
				if strings.Contains(name, ".") || typeNow[name] != nil {
					continue
				}
				missing[data] = append(missing[data], name)
			}
			fresh := map[string][]*types.TypeName{}
			for name, tn := range typeNow {
				if !reviewed["type "+path+"."+name] {
					d := types.TypeString(tn.Type().Underlying(), pathQualifier)
					fresh[d] = append(fresh[d], tn)
				}
			}
			for d, olds := range missing {
				if len(olds) == 1 && len(fresh[d]) == 1 {
					rens = append(rens, ren{fresh[d][0], olds[0], fresh[d][0].Name()})
					renamedType[fresh[d][0].Name()] = olds[0]
				}
			}
		}
		// embedded fields carry the name of their type
		if len(renamedType) > 0 {
			for _, tn := range typeNow {
				st, ok := tn.Type().Underlying().(*types.Struct)
				if !ok {
					continue
				}
				for i := 0; i < st.NumFields(); i++ {
					f := st.Field(i)
					if !f.Embedded() {
						continue
					}
					if n, ok := deref(f.Type()).(*types.Named); ok && n.Obj().Pkg() == p.Types {
						if old, ok := renamedType[n.Obj().Name()]; ok {
							rens = append(rens, ren{f, old, f.Name()})
						}
					}
				}
			}
		}
		revName := func(cur string) string {
			if o, ok := renamedType[cur]; ok {
				return o
			}
			return cur
		}
		// ---- struct fields (by position and type) ----
		for name, tn := range typeNow {
			st, ok := tn.Type().Underlying().(*types.Struct)
			if !ok {
				continue
			}
			rn := revName(name)
			have := map[string]bool{}
			for i := 0; i < st.NumFields(); i++ {
				have[st.Field(i).Name()] = true
			}
			for k, data := range reviewedInfo {
				pre := "field " + path + "." + rn + "."
				if !strings.HasPrefix(k, pre) {
					continue
				}
				fname := strings.TrimPrefix(k, pre)
				if have[fname] {
					continue
				}
				parts := strings.SplitN(data, "\t", 2)
				if len(parts) != 2 {
					continue
				}
				idx := atoiSafe(parts[0])
				if idx < 0 || idx >= st.NumFields() {
					continue
				}
				f := st.Field(idx)
				if f.Embedded() || types.TypeString(f.Type(), pathQualifier) != parts[1] {
					continue
				}
				if _, wasThere := reviewedInfo["field "+path+"."+rn+"."+f.Name()]; wasThere {
					continue // the field at that position is a reviewed one: something else happened
				}
				rens = append(rens, ren{f, fname, f.Name()})
			}
		}
		// ---- functions and methods (by signature) ----
		type fkey struct{ recv, sig string }
		missingF := map[fkey][]string{}
		missingNames := map[fkey]string{}
		for k, data := range reviewedInfo {
			if !strings.HasPrefix(k, "sig "+path+".") {
				continue
			}
			rest := strings.TrimPrefix(k, "sig "+path+".")
			recv, name := "", rest
			if i := strings.IndexByte(rest, '.'); i >= 0 {
				recv, name = rest[:i], rest[i+1:]
			}
			// present now?
			present := false
			if recv == "" {
				_, present = sc.Lookup(name).(*types.Func)
			} else {
				for cur, tn := range typeNow {
					if revName(cur) != recv {
						continue
					}
					if named, ok := tn.Type().(*types.Named); ok {
						for i := 0; i < named.NumMethods(); i++ {
							if named.Method(i).Name() == name {
								present = true
							}
						}
					}
				}
			}
			if !present {
				parts := strings.SplitN(data, "\t", 3)
				sigOnly := parts[0]
				missingF[fkey{recv, sigOnly}] = append(missingF[fkey{recv, sigOnly}], name)
				if len(parts) > 1 {
					missingNames[fkey{recv, sigOnly}] = parts[1]
				}
			}
		}
		freshF := map[fkey][]*types.Func{}
		freshPerm := map[fkey][]*types.Func{}
		addFresh := func(recvCur string, f *types.Func) {
			key := path + "."
			if recvCur != "" {
				key += revName(recvCur) + "."
			}
			key += f.Name()
			if reviewed[key] || f.Name() == "init" || f.Name() == "main" {
				return
			}
			k := fkey{revName(recvCur), sigString(f)}
			freshF[k] = append(freshF[k], f)
			if pk := permSigKey(sigString(f), paramNames(f)); pk != "" {
				freshPerm[fkey{revName(recvCur), pk}] = append(freshPerm[fkey{revName(recvCur), pk}], f)
			}
		}
		for _, name := range sc.Names() {
			if f, ok := sc.Lookup(name).(*types.Func); ok {
				addFresh("", f)
			}
		}
		for cur, tn := range typeNow {
			if named, ok := tn.Type().(*types.Named); ok {
				for i := 0; i < named.NumMethods(); i++ {
					addFresh(cur, named.Method(i))
				}
			}
		}
		for k, olds := range missingF {
			fr := freshF[k]
			if len(fr) == 0 && len(olds) == 1 {
				// renamed and its parameters reordered: the same named parameters as a set
				// (fixSignatures then puts them back in the reviewed order)
				if pk := permSigKey(k.sig, missingNames[k]); pk != "" {
					fr = freshPerm[fkey{k.recv, pk}]
				}
			}
			if len(olds) == 1 && len(fr) == 1 {
				rens = append(rens, ren{fr[0], olds[0], fr[0].Name()})
				continue
			}
			// several things of one signature renamed at once: pair them by name similarity
			// (Commit→commit, EnsureIndexed→ensureIndexed), each side's best match must agree
			if len(olds) == len(fr) && len(olds) > 1 {
				used := map[int]bool{}
				for _, o := range olds {
					best, bestScore, second := -1, 0.0, 0.0
					for j, f := range fr {
						sc := nameSimilarity(o, f.Name())
						if sc > bestScore {
							best, second, bestScore = j, bestScore, sc
						} else if sc > second {
							second = sc
						}
					}
					if best >= 0 && bestScore >= 0.5 && bestScore > second && !used[best] {
						used[best] = true
						rens = append(rens, ren{fr[best], o, fr[best].Name()})
					}
				}
			}
		}
		// ---- package-level variables and constants ----
		for _, kind := range []string{"var", "const"} {
			missing := map[string][]string{}
			for k, data := range reviewedInfo {
				if !strings.HasPrefix(k, kind+" "+path+".") {
					continue
				}
				name := strings.TrimPrefix(k, kind+" "+path+".")
				if sc.Lookup(name) != nil {
					continue
				}
				missing[data] = append(missing[data], name)
			}
			fresh := map[string][]types.Object{}
			for _, name := range sc.Names() {
				o := sc.Lookup(name)
				var data string
				switch x := o.(type) {
				case *types.Var:
					if kind != "var" {
						continue
					}
					data = types.TypeString(x.Type(), pathQualifier)
				case *types.Const:
					if kind != "const" {
						continue
					}
					data = types.TypeString(x.Type(), pathQualifier) + "\t" + x.Val().ExactString()
				default:
					continue
				}
				if _, was := reviewedInfo[kind+" "+path+"."+name]; !was {
					fresh[data] = append(fresh[data], o)
				}
			}
			for d, olds := range missing {
				if len(olds) == 1 && len(fresh[d]) == 1 {
					rens = append(rens, ren{fresh[d][0], olds[0], fresh[d][0].Name()})
				}
			}
		}
	}
	if len(rens) == 0 {
		return changed, nil
	}
	byObj := map[types.Object]string{}
	var desc []string
	for _, r := range rens {
		byObj[r.obj] = r.old
		renamedObjs[r.obj] = r.old
		desc = append(desc, r.new+"→"+r.old)
	}
	sort.Strings(desc)
	fileOf := func(p *packages.Package, id *ast.Ident) *ast.File {
		for _, f := range p.Syntax {
			if f.Pos() <= id.Pos() && id.Pos() < f.End() {
				return f
			}
		}
		return nil
	}
	for _, p := range mod {
		if p.TypesInfo == nil {
			continue
		}
		apply := func(id *ast.Ident, o types.Object) {
			if o == nil {
				return
			}
			// methods and fields of instantiated/embedded origins
			if old, ok := byObj[o]; ok && id.Name != old {
				id.Name = old
				if f := fileOf(p, id); f != nil {
					changed[f] = p
				}
			}
		}
		for id, o := range p.TypesInfo.Defs {
			apply(id, o)
		}
		for id, o := range p.TypesInfo.Uses {
			apply(id, o)
		}
	}
	notes = append(notes, "normalisation: names set back to those of the reviewed tree: "+strings.Join(desc, ", "))
	return changed, notes
}

func atoiSafe(s string) int {
	n := 0
	if s == "" {
		return -1
	}
	for _, c := range s {
		if c < '0' || c > '9' {
			return -1
		}
		n = n*10 + int(c-'0')
	}
	return n
}

// nameSimilarity: 1 for names equal up to case, otherwise the length of the longest common
// substring (case-insensitive) relative to the longer name.
func nameSimilarity(a, b string) float64 {
	la, lb := strings.ToLower(a), strings.ToLower(b)
	if la == lb {
		return 1
	}
	best := 0
	for i := 0; i < len(la); i++ {
		for j := 0; j < len(lb); j++ {
			k := 0
			for i+k < len(la) && j+k < len(lb) && la[i+k] == lb[j+k] {
				k++
			}
			if k > best {
				best = k
			}
		}
	}
	m := len(la)
	if len(lb) > m {
		m = len(lb)
	}
	if m == 0 {
		return 0
	}
	return float64(best) / float64(m)
}
