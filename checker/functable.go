package main

// Function tables are turned back into switches before the rules run: a package-level
// `var T = map[K]func(...){K1: f1, K2: f2}` (or a keyed array) that is only ever indexed is a
// switch over the key written as data. `if f, ok := T[k]; ok { … f(x) … } else { … }` becomes a
// switch on k with one case per entry, the body copied with the entry's function in place of f;
// `T[k](x)` as a statement, an assignment or a return operand becomes a switch whose cases call
// the entry's function directly and whose default keeps the original statement. The calls are
// then ordinary static calls: new helpers among them are inlined by the next normalisation round.

import (
	"go/ast"
	"go/token"
	"go/types"

	"golang.org/x/tools/go/ast/astutil"
	"golang.org/x/tools/go/packages"
)

type funcTable struct {
	obj  types.Object
	keys []ast.Expr
	fns  []ast.Expr
}

func rewriteFuncTables(mod map[string]*packages.Package, changed map[*ast.File]*packages.Package) []string {
	var notes []string
	for _, p := range mod {
		if p.TypesInfo == nil {
			continue
		}
		tables := map[types.Object]*funcTable{}
		for _, f := range p.Syntax {
			for _, d := range f.Decls {
				gd, ok := d.(*ast.GenDecl)
				if !ok || gd.Tok != token.VAR {
					continue
				}
				for _, sp := range gd.Specs {
					vs, ok := sp.(*ast.ValueSpec)
					if !ok || len(vs.Names) != 1 || len(vs.Values) != 1 {
						continue
					}
					cl, ok := vs.Values[0].(*ast.CompositeLit)
					if !ok || len(cl.Elts) == 0 {
						continue
					}
					obj := p.TypesInfo.Defs[vs.Names[0]]
					if obj == nil {
						continue
					}
					var elem types.Type
					switch t := obj.Type().Underlying().(type) {
					case *types.Map:
						elem = t.Elem()
					case *types.Array:
						elem = t.Elem()
					default:
						continue
					}
					if _, isFn := elem.Underlying().(*types.Signature); !isFn {
						continue
					}
					ft := &funcTable{obj: obj}
					okAll := true
					for _, el := range cl.Elts {
						kv, ok := el.(*ast.KeyValueExpr)
						if !ok {
							okAll = false
							break
						}
						if tv, ok := p.TypesInfo.Types[kv.Key]; !ok || tv.Value == nil {
							okAll = false // not a constant key
							break
						}
						var fobj types.Object
						switch v := kv.Value.(type) {
						case *ast.Ident:
							fobj = p.TypesInfo.Uses[v]
						case *ast.SelectorExpr:
							fobj = p.TypesInfo.Uses[v.Sel]
						}
						if fn, ok := fobj.(*types.Func); !ok || fn.Type().(*types.Signature).Recv() != nil {
							okAll = false
							break
						}
						ft.keys = append(ft.keys, kv.Key)
						ft.fns = append(ft.fns, kv.Value)
					}
					if okAll {
						tables[obj] = ft
					}
				}
			}
		}
		if len(tables) == 0 {
			continue
		}
		// every use of a table is an index expression that is read
		for _, f := range p.Syntax {
			var stack []ast.Node
			ast.Inspect(f, func(n ast.Node) bool {
				if n == nil {
					stack = stack[:len(stack)-1]
					return true
				}
				if id, ok := n.(*ast.Ident); ok {
					if t := tables[p.TypesInfo.Uses[id]]; t != nil {
						good := false
						if len(stack) > 0 {
							if ix, ok := stack[len(stack)-1].(*ast.IndexExpr); ok && ix.X == ast.Expr(id) {
								good = true
								if len(stack) > 1 {
									switch par := stack[len(stack)-2].(type) {
									case *ast.AssignStmt:
										for _, l := range par.Lhs {
											if l == ast.Expr(ix) {
												good = false
											}
										}
									case *ast.UnaryExpr:
										if par.Op == token.AND {
											good = false
										}
									case *ast.IncDecStmt:
										good = false
									}
								}
							}
						}
						if !good {
							delete(tables, p.TypesInfo.Uses[id])
						}
					}
				}
				stack = append(stack, n)
				return true
			})
		}
		if len(tables) == 0 {
			continue
		}
		tableOf := func(e ast.Expr) (*funcTable, ast.Expr) {
			ix, ok := e.(*ast.IndexExpr)
			if !ok {
				return nil, nil
			}
			id, ok := ix.X.(*ast.Ident)
			if !ok {
				return nil, nil
			}
			return tables[p.TypesInfo.Uses[id]], ix.Index
		}
		for _, f := range p.Syntax {
			n := 0
			rewrite := func(s ast.Stmt) ast.Stmt {
				switch x := s.(type) {
				case *ast.IfStmt:
					as, ok := x.Init.(*ast.AssignStmt)
					if !ok || as.Tok != token.DEFINE || len(as.Lhs) != 2 || len(as.Rhs) != 1 {
						return nil
					}
					t, key := tableOf(as.Rhs[0])
					fid, ok1 := as.Lhs[0].(*ast.Ident)
					okid, ok2 := as.Lhs[1].(*ast.Ident)
					if t == nil || !ok1 || !ok2 {
						return nil
					}
					neg := false
					cond := x.Cond
					if u, ok := cond.(*ast.UnaryExpr); ok && u.Op == token.NOT {
						cond, neg = u.X, true
					}
					if cid, ok := cond.(*ast.Ident); !ok || cid.Name != okid.Name {
						return nil
					}
					found, missing := ast.Stmt(x.Body), x.Else
					if neg {
						if x.Else == nil {
							return nil
						}
						eb, ok := x.Else.(*ast.BlockStmt)
						if !ok {
							return nil
						}
						found, missing = eb, x.Body
					}
					fobj := p.TypesInfo.Defs[fid]
					okobj := p.TypesInfo.Defs[okid]
					// f only called or passed, never assigned; ok not used in the bodies
					bad := false
					ast.Inspect(x, func(m ast.Node) bool {
						switch y := m.(type) {
						case *ast.AssignStmt:
							for _, l := range y.Lhs {
								if id, ok := l.(*ast.Ident); ok && fobj != nil && p.TypesInfo.Uses[id] == fobj {
									bad = true
								}
							}
						case *ast.UnaryExpr:
							if id, ok := y.X.(*ast.Ident); ok && y.Op == token.AND && fobj != nil && p.TypesInfo.Uses[id] == fobj {
								bad = true
							}
						case *ast.Ident:
							if okobj != nil && p.TypesInfo.Uses[y] == okobj && y != cond {
								bad = true
							}
						}
						return true
					})
					if bad {
						return nil
					}
					sw := &ast.SwitchStmt{Tag: key, Body: &ast.BlockStmt{}}
					for i := range t.keys {
						body := copyNode(found).(*ast.BlockStmt)
						fnExpr := t.fns[i]
						astutil.Apply(body, func(c *astutil.Cursor) bool {
							if id, ok := c.Node().(*ast.Ident); ok && id.Name == fid.Name {
								// positions are kept by the copy: match the uses of f by position
								if fobj != nil {
									for uid, o := range p.TypesInfo.Uses {
										if o == fobj && uid.Pos() == id.Pos() {
											c.Replace(copyNode(fnExpr))
											return false
										}
									}
								}
							}
							return true
						}, nil)
						sw.Body.List = append(sw.Body.List, &ast.CaseClause{List: []ast.Expr{copyNode(t.keys[i]).(ast.Expr)}, Body: []ast.Stmt{body}})
					}
					def := &ast.CaseClause{}
					if missing != nil {
						def.Body = []ast.Stmt{missing}
					}
					sw.Body.List = append(sw.Body.List, def)
					n++
					return sw
				case *ast.ExprStmt, *ast.ReturnStmt, *ast.AssignStmt:
					var callp *ast.Expr
					switch y := x.(type) {
					case *ast.ExprStmt:
						callp = &y.X
					case *ast.ReturnStmt:
						if len(y.Results) == 1 {
							callp = &y.Results[0]
						}
					case *ast.AssignStmt:
						if len(y.Rhs) == 1 && y.Tok == token.ASSIGN {
							callp = &y.Rhs[0]
						}
					}
					if callp == nil {
						return nil
					}
					call, ok := (*callp).(*ast.CallExpr)
					if !ok {
						return nil
					}
					t, key := tableOf(call.Fun)
					if t == nil {
						return nil
					}
					sw := &ast.SwitchStmt{Tag: key, Body: &ast.BlockStmt{}}
					orig := call.Fun
					for i := range t.keys {
						call.Fun = copyNode(t.fns[i]).(ast.Expr)
						st := copyNode(x).(ast.Stmt)
						sw.Body.List = append(sw.Body.List, &ast.CaseClause{List: []ast.Expr{copyNode(t.keys[i]).(ast.Expr)}, Body: []ast.Stmt{st}})
					}
					call.Fun = orig
					sw.Body.List = append(sw.Body.List, &ast.CaseClause{Body: []ast.Stmt{x}})
					n++
					return sw
				}
				return nil
			}
			astutil.Apply(f, nil, func(c *astutil.Cursor) bool {
				if s, ok := c.Node().(ast.Stmt); ok {
					if _, inList := c.Parent().(*ast.BlockStmt); inList || isClause(c.Parent()) {
						if r := rewrite(s); r != nil {
							c.Replace(r)
						}
					}
				}
				return true
			})
			if n > 0 {
				changed[f] = p
				notes = append(notes, "normalisation: function table(s) indexed in "+p.Fset.Position(f.Package).Filename+" turned back into switches over the key ("+itoa(n)+" use(s))")
			}
		}
	}
	return notes
}

func isClause(n ast.Node) bool {
	switch n.(type) {
	case *ast.CaseClause, *ast.CommClause:
		return true
	}
	return false
}
