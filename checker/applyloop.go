package main

// Every entry of an apply call is applied: the loop in Update visits the indices 0 … len-1 of the
// entries it was given, each iteration crosses the command step, and the loop cannot be left with
// success from inside an iteration. How dragonboat cuts the log into apply calls differs between
// replicas and runs, so an entry skipped "at the end of a call" is skipped on one replica only.

import (
	"go/constant"
	"go/token"
	"go/types"

	"golang.org/x/tools/go/ssa"
)

func applyLoopComplete(w *World, r *Report, up *ssa.Function, isStep func(ssa.Instruction) bool, id, slug string) {
	ob := r.Ob(id, slug, "Update: the command step sits in a loop whose counter starts so that the first entry used is entries[0], advances by one, and stays in the loop exactly while the entry index is below len(entries); every way from the loop head back to it crosses the command step; no success return is reachable from an exit of the loop other than the head's", "an apply call that stops early or skips an entry drops committed commands - and since replicas cut the log into apply calls differently, they drop different ones")
	if up == nil || len(up.Params) < 2 {
		ob.Undecided("anchor", "Update not found")
		return
	}
	entries := up.Params[1]
	var step ssa.Instruction
	eachInstr(up, func(in ssa.Instruction) {
		if isStep(in) && step == nil {
			step = in
		}
	})
	if step == nil {
		ob.Undecided("anchor/step", "no command step in "+FnName(up))
		return
	}
	h, body := loopOf(step.Block())
	if h == nil {
		ob.Violate("no-entry-loop", step.Pos(), "the command step is not inside a loop over the entries")
		return
	}
	ob.Site(blockPos(h), "loop over the entries of an apply call in "+FnName(up))
	// the entry index: index of entries[...] uses inside the loop
	var idxV ssa.Value
	same := true
	eachInstr(up, func(in ssa.Instruction) {
		if !body[in.Block()] {
			return
		}
		var x, i ssa.Value
		switch a := in.(type) {
		case *ssa.IndexAddr:
			x, i = a.X, a.Index
		case *ssa.Index:
			x, i = a.X, a.Index
		default:
			return
		}
		if x != ssa.Value(entries) {
			return
		}
		if idxV == nil {
			idxV = i
		} else if !sameValue(idxV, i) {
			same = false
		}
	})
	if idxV == nil {
		ob.Undecided("shape/index", "the loop does not index the entries")
		return
	}
	if !same {
		ob.Violate("entry-index-varies", step.Pos(), "one iteration uses entries at different positions")
	}
	// the counter: integer phi in the loop head with an edge from outside and one from inside
	var counter *ssa.Phi
	for _, in := range h.Instrs {
		phi, ok := in.(*ssa.Phi)
		if !ok {
			break
		}
		if isIntegerType(phi.Type()) && counter == nil {
			ctx := &ExprCtx{Alias: map[ssa.Value]string{phi: "cnt"}}
			if lin, ok := ctx.linear(idxV); ok && lin.T["cnt"] == 1 && len(lin.T) == 1 {
				counter = phi
			}
		}
	}
	if counter == nil {
		ob.Undecided("shape/counter", "the entry index `"+Expr(idxV)+"` is not a loop counter")
		return
	}
	ctx := &ExprCtx{Alias: map[ssa.Value]string{counter: "cnt"}}
	lin, _ := ctx.linear(idxV)
	c := lin.C // entry index = cnt + c
	for i, e := range counter.Edges {
		pred := h.Preds[i]
		if !body[pred] {
			k, ok := e.(*ssa.Const)
			if !ok || k.Value == nil {
				ob.Violate("first-entry", counter.Pos(), "the loop counter does not start at a constant")
				continue
			}
			v, _ := constant.Int64Val(constant.ToInt(k.Value))
			ob.Site(counter.Pos(), "first entry used: entries["+itoa(int(v+c))+"]")
			if v+c != 0 {
				ob.Violate("first-entry", counter.Pos(), "the first entry applied is entries["+itoa(int(v+c))+"], not entries[0]")
			}
		} else {
			bo, ok := e.(*ssa.BinOp)
			one := false
			if ok && bo.Op == token.ADD && bo.X == ssa.Value(counter) {
				if k, isC := constInt(bo.Y); isC && k == 1 {
					one = true
				}
			}
			if !one {
				ob.Violate("counter-step", counter.Pos(), "the loop counter is advanced by `"+Expr(e)+"`, not by one: entries are skipped or repeated")
			}
		}
	}
	// stay in the loop exactly while cnt + c < len(entries)  ⇔  len(entries) - cnt >= c+1
	lenT := "len($1)"
	want, _ := intLit(Lin{T: map[string]int64{lenT: 1, "cnt": -1}, C: -(c + 1), nn: map[string]bool{}}, token.GEQ)
	okBound := false
	for k, s := range h.Succs {
		if !body[s] || s == h {
			continue
		}
		for _, l := range ctx.EdgeLits(h, k) {
			if l.Kind == "int" && l.Terms == want.Terms {
				ob.Site(blockPos(s), "loop continues while "+l.String())
				if l.Implies(want) && want.Implies(l) {
					okBound = true
				} else {
					ob.Violate("loop-bound", blockPos(h), "the loop continues while `"+l.String()+"`; visiting every entry needs `"+want.String()+"`")
					okBound = true
				}
			}
		}
	}
	if !okBound {
		ob.Undecided("shape/bound", "the loop head does not compare the entry index with len(entries)")
	}
	// each iteration crosses the step
	inBody := func(b *ssa.BasicBlock, k int) bool { return body[b.Succs[k]] }
	for _, s := range h.Succs {
		if !body[s] || s == h {
			continue
		}
		if p := (&Walk{Barrier: isStep, Target: func(x ssa.Instruction) bool { return x.Block() == h }, EdgeOK: inBody}).Find(Loc{s, 0}); p != nil {
			ob.Violate("entry-not-applied", blockPos(s), "an iteration can pass without the command step: that entry is acknowledged without having been applied", w.PathString(p)...)
		}
	}
	// no successful exit from inside an iteration
	for b := range body {
		if b == h {
			continue
		}
		for _, s := range b.Succs {
			if body[s] {
				continue
			}
			for _, in := range (&Walk{}).ReachableInstrs(Loc{s, 0}) {
				if ret, ok := in.(*ssa.Return); ok && !isErrorReturn(ret) {
					ob.Violate("batch-cut-short", blockPos(s), "the loop over the entries can be left with success from inside an iteration: the remaining entries of the apply call are never applied")
				}
			}
		}
	}
	ob.NeedFloor(3)
}

// isHandlerStep: the invoke of a command handler (method of the command interface).
func (a *FsmA) isHandlerStep(in ssa.Instruction) bool {
	c := plainCall(in)
	if c == nil || !c.IsInvoke() {
		return false
	}
	n, ok := c.Value.Type().(*types.Named)
	return ok && n == a.CmdIface
}
