package main

// Full traversal of element loops. Every entry of an apply call is applied: the loop in Update
// visits the indices 0 … len-1 of the entries it was given, each iteration crosses the command
// step, and the loop cannot be left with success from inside an iteration. How dragonboat cuts
// the log into apply calls differs between replicas and runs, so an entry skipped "at the end of
// a call" is skipped on one replica only. The same shape rule is applied to the loops over the
// commands of a sequence, the pairs of a batch and the operations of a transaction branch.

import (
	"go/constant"
	"go/token"
	"go/types"

	"golang.org/x/tools/go/ssa"
)

// sliceLoop describes a counted loop that indexes a slice by its counter.
type sliceLoop struct {
	Fn      *ssa.Function
	Head    *ssa.BasicBlock
	Body    map[*ssa.BasicBlock]bool
	Slice   ssa.Value // the indexed slice
	Idx     ssa.Value // the index value used
	Counter *ssa.Phi
	Off     int64 // index = counter + Off
}

// sliceLoops finds the counted loops of fn that index a slice (or string) by the loop counter.
func sliceLoops(fn *ssa.Function) []*sliceLoop {
	var out []*sliceLoop
	seen := map[*ssa.BasicBlock]bool{}
	for _, b := range fn.Blocks {
		h, body := loopOf(b)
		if h == nil || seen[h] {
			continue
		}
		seen[h] = true
		for _, in := range h.Instrs {
			phi, ok := in.(*ssa.Phi)
			if !ok {
				break
			}
			if !isIntegerType(phi.Type()) {
				continue
			}
			ctx := &ExprCtx{Alias: map[ssa.Value]string{phi: "cnt"}}
			var sl *sliceLoop
			eachInstr(fn, func(x ssa.Instruction) {
				if !body[x.Block()] || sl != nil {
					return
				}
				var xs, i ssa.Value
				switch a := x.(type) {
				case *ssa.IndexAddr:
					xs, i = a.X, a.Index
				case *ssa.Index:
					xs, i = a.X, a.Index
				default:
					return
				}
				if _, isSlice := xs.Type().Underlying().(*types.Slice); !isSlice {
					return
				}
				// the slice must be loop invariant (defined outside the loop)
				if def, isI := xs.(ssa.Instruction); isI && body[def.Block()] {
					return
				}
				lin, ok := ctx.linear(i)
				if !ok || len(lin.T) != 1 || lin.T["cnt"] != 1 {
					return
				}
				sl = &sliceLoop{Fn: fn, Head: h, Body: body, Slice: xs, Idx: i, Counter: phi, Off: lin.C}
			})
			if sl != nil {
				out = append(out, sl)
				break
			}
		}
	}
	return out
}

// checkFullTraversal: the loop visits indices 0 … len(slice)-1 one by one, the slice is not a
// sub-slice, every iteration crosses a step (if given), and no success return is reachable from
// an exit of the loop other than the head's.
func checkFullTraversal(w *World, ob *Ob, l *sliceLoop, what string, isStep func(ssa.Instruction) bool) {
	fn, h, body, counter := l.Fn, l.Head, l.Body, l.Counter
	at := FnName(fn)
	ob.Site(blockPos(h), "loop over "+what+" in "+at)
	if s, isSub := l.Slice.(*ssa.Slice); isSub {
		ob.Violate("partial-range@"+at, s.Pos(), "the loop over "+what+" ranges over the sub-slice `"+Expr(s)+"`: the elements outside it are never looked at")
	}
	ctx := &ExprCtx{Alias: map[ssa.Value]string{counter: "cnt"}}
	c := l.Off
	for i, e := range counter.Edges {
		pred := h.Preds[i]
		if !body[pred] {
			k, ok := e.(*ssa.Const)
			if !ok || k.Value == nil {
				ob.Violate("first-element@"+at, counter.Pos(), "the counter of the loop over "+what+" does not start at a constant")
				continue
			}
			v, _ := constant.Int64Val(constant.ToInt(k.Value))
			if v+c != 0 {
				ob.Violate("first-element@"+at, counter.Pos(), "the first of the "+what+" looked at is number "+itoa(int(v+c))+", not 0")
			}
		} else {
			bo, ok := e.(*ssa.BinOp)
			one := false
			if ok && bo.Op == token.ADD && bo.X == ssa.Value(counter) {
				if k, isC := constInt(bo.Y); isC && k == 1 {
					one = true
				}
			}
			if !one {
				ob.Violate("counter-step@"+at, counter.Pos(), "the counter of the loop over "+what+" is advanced by `"+Expr(e)+"`, not by one: elements are skipped or repeated")
			}
		}
	}
	// stay in the loop exactly while cnt + c < len(slice)  ⇔  len(slice) - cnt >= c+1
	lenT := "len(" + ctx.Expr(l.Slice) + ")"
	want, _ := intLit(Lin{T: map[string]int64{lenT: 1, "cnt": -1}, C: -(c + 1), nn: map[string]bool{}}, token.GEQ)
	okBound := false
	for k, s := range h.Succs {
		if !body[s] || s == h {
			continue
		}
		for _, lt := range ctx.EdgeLits(h, k) {
			if lt.Kind == "int" && lt.Terms == want.Terms {
				okBound = true
				if !(lt.Implies(want) && want.Implies(lt)) {
					ob.Violate("loop-bound@"+at, blockPos(h), "the loop over "+what+" continues while `"+lt.String()+"`; visiting every element needs `"+want.String()+"`")
				}
			}
		}
	}
	if !okBound {
		ob.Undecided("shape/bound@"+at, "the head of the loop over "+what+" does not compare the index with "+lenT)
	}
	inBody := func(b *ssa.BasicBlock, k int) bool { return body[b.Succs[k]] }
	if isStep != nil {
		for _, s := range h.Succs {
			if !body[s] || s == h {
				continue
			}
			if p := (&Walk{Barrier: isStep, Target: func(x ssa.Instruction) bool { return x.Block() == h }, EdgeOK: inBody}).Find(Loc{s, 0}); p != nil {
				ob.Violate("element-not-applied@"+at, blockPos(s), "an iteration of the loop over "+what+" can pass without its step: that element is acknowledged without having been applied", w.PathString(p)...)
			}
		}
	}
	for b := range body {
		if b == h {
			continue
		}
		for _, s := range b.Succs {
			if body[s] {
				continue
			}
			for _, in := range (&Walk{}).ReachableInstrs(Loc{s, 0}) {
				if ret, ok := in.(*ssa.Return); ok && !isErrorReturn(ret) {
					ob.Violate("cut-short@"+at, blockPos(s), "the loop over "+what+" can be left with success from inside an iteration: the remaining elements are never looked at")
				}
			}
		}
	}
}

func applyLoopComplete(w *World, r *Report, a *FsmA, id, slug string) {
	ob := r.Ob(id, slug, "Update: the command step sits in a loop whose counter starts so that the first entry used is entries[0], advances by one, and stays in the loop exactly while the entry index is below len(entries); every way from the loop head back to it crosses the command step; no success return is reachable from an exit of the loop other than the head's. The same for every counted loop of the apply path (state-machine package, compare helper excluded) that indexes a slice of commands, pairs or operations: the whole slice (not a sub-slice) is visited from 0 to len-1 and the loop is not left with success from inside", "an apply call that stops early or skips an entry drops committed commands - and since replicas cut the log into apply calls differently, they drop different ones; a sequence, batch or transaction branch that is only partly applied diverges from the leader's result")
	up := a.Update
	if up == nil || len(up.Params) < 2 {
		ob.Undecided("anchor", "Update not found")
		return
	}
	nUp := 0
	for _, l := range sliceLoops(up) {
		if l.Slice != ssa.Value(up.Params[1]) {
			continue
		}
		nUp++
		checkFullTraversal(w, ob, l, "the entries of an apply call", a.isHandlerStep)
	}
	if nUp == 0 {
		ob.Violate("no-entry-loop", up.Pos(), "Update has no counted loop over the entries it was given")
	}
	// element loops of the handlers
	cmp := a.CompareHelper()
	skip := map[*ssa.Function]bool{}
	if cmp != nil {
		for _, f := range withClosures(cmp) {
			skip[f] = true
		}
	}
	for _, fn := range sortedFuncs(a.applyReach()) {
		if fn == up || skip[fn] || !isFsmFunc(fn) || isGenerated(fn) || fn.Blocks == nil {
			continue
		}
		for _, l := range sliceLoops(fn) {
			et := l.Slice.Type().Underlying().(*types.Slice).Elem()
			if !typeInPkg(et, pbPkg) {
				continue
			}
			checkFullTraversal(w, ob, l, "`"+Expr(l.Slice)+"` ("+typeString(et)+")", nil)
		}
	}
	ob.NeedFloor(4)
}

// typeInPkg: t (or what it points to) is a named type of the package.
func typeInPkg(t types.Type, pkg string) bool {
	n, ok := deref(t).(*types.Named)
	return ok && n.Obj().Pkg() != nil && n.Obj().Pkg().Path() == pkg
}

// isHandlerStep: the invoke of a command handler (method of the command interface).
func (a *FsmA) isHandlerStep(in ssa.Instruction) bool {
	c := plainCall(in)
	if c == nil || !c.IsInvoke() {
		return false
	}
	n, ok := c.Value.Type().(*types.Named)
	return ok && n == a.CmdIface
}
