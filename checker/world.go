package main

// Loading of /repo's current working tree into a type-checked, SSA-converted program.

import (
	"fmt"
	"go/token"
	"go/types"
	"os"
	"os/exec"
	"path/filepath"
	"sort"
	"strings"
	"time"

	"golang.org/x/tools/go/callgraph"
	"golang.org/x/tools/go/callgraph/cha"
	"golang.org/x/tools/go/callgraph/vta"
	"golang.org/x/tools/go/packages"
	"golang.org/x/tools/go/ssa"
	"golang.org/x/tools/go/ssa/ssautil"
)

const modPath = "github.com/jamf/regatta"

// World is the resolved program all rules are written over.
type World struct {
	RepoDir string
	Fset    *token.FileSet
	All     []*packages.Package
	Mod     map[string]*packages.Package // module packages by import path
	ByPath  map[string]*packages.Package // every package by import path
	Prog    *ssa.Program
	Tier    string

	LoadS, SSAS float64
	// Notes of the loader (normalisation of new helpers); Normalized: calls were inlined
	Notes      []string
	Normalized bool
	// NewTypes: named types of the module that are not on the reviewed list
	NewTypes    map[string]bool
	HasNewTypes bool

	modFuncs []*ssa.Function // all source functions (incl. closures, instantiations) of module packages
	cg       *callgraph.Graph
	cgKind   string
}

// LoadWorld type-checks /repo/... (all build-relevant packages with their dependencies from
// source) and builds SSA. overlay maps absolute file names to replacement content (self-test).
func LoadWorld(repo string, overlay map[string][]byte, tier string, goos string) (*World, error) {
	w, err := loadWorld(repo, overlay, tier, goos, false)
	if err != nil {
		return nil, err
	}
	reviewed := loadReviewedFuncs()
	if reviewed == nil || os.Getenv("RVET_NO_NORMALIZE") != "" {
		return w, nil
	}
	markNewTypes := func(x *World) {
		x.NewTypes = map[string]bool{}
		for path, p := range x.Mod {
			if p.Types == nil {
				continue
			}
			for _, name := range p.Types.Scope().Names() {
				if tn, ok := p.Types.Scope().Lookup(name).(*types.TypeName); ok && !tn.IsAlias() && !reviewed["type "+path+"."+name] {
					x.NewTypes[path+"."+name] = true
					x.HasNewTypes = true
				}
			}
		}
	}
	markNewTypes(w)
	// helpers that did not exist on the reviewed tree are inlined back into their callers
	ifaceAliases = nil
	if w.HasNewTypes {
		ifaceAliases = singleImplNewIfaces(w)
	}
	ov2, notes := normalizeNewHelpers(w.Fset, w.Mod, reviewed)
	if len(ov2) == 0 {
		w.Notes = notes
		return w, nil
	}
	merged := map[string][]byte{}
	for k, v := range overlay {
		merged[k] = v
	}
	for k, v := range ov2 {
		merged[k] = v
	}
	if d := os.Getenv("RVET_DUMP_NORMALIZED"); d != "" {
		_ = os.MkdirAll(d, 0o755)
		for k, v := range ov2 {
			_ = os.WriteFile(filepath.Join(d, strings.ReplaceAll(strings.TrimPrefix(k, repo+"/"), "/", "__")), v, 0o644)
		}
	}
	w2, err2 := loadWorld(repo, merged, tier, goos, true)
	if err2 != nil {
		// never fail because of the normalisation: analyse the program as it is
		w3, err3 := loadWorld(repo, overlay, tier, goos, false)
		if err3 != nil {
			return nil, err3
		}
		markNewTypes(w3)
		w3.Notes = append(notes, "normalisation abandoned (the inlined source does not type-check: "+firstLine(err2.Error())+"); the program is analysed as written")
		return w3, nil
	}
	w2.Notes = notes
	w2.Normalized = true
	markNewTypes(w2)
	// a second round: what the first one uncovered (a call through a function table turned into
	// direct calls of new helpers, a helper that called another one) is normalised as well
	if os.Getenv("RVET_ONE_ROUND") == "" {
		ifaceAliases = nil
		ov3, notes3 := normalizeNewHelpers(w2.Fset, w2.Mod, reviewed)
		if len(ov3) > 0 {
			merged3 := map[string][]byte{}
			for k, v := range merged {
				merged3[k] = v
			}
			for k, v := range ov3 {
				merged3[k] = v
			}
			if w3, err3 := loadWorld(repo, merged3, tier, goos, true); err3 == nil {
				w3.Notes = append(notes, notes3...)
				w3.Normalized = true
				markNewTypes(w3)
				if d := os.Getenv("RVET_DUMP_NORMALIZED"); d != "" {
					for k, v := range ov3 {
						_ = os.WriteFile(filepath.Join(d, strings.ReplaceAll(strings.TrimPrefix(k, repo+"/"), "/", "__")), v, 0o644)
					}
				}
				return w3, nil
			}
		}
	}
	return w2, nil
}

func firstLine(s string) string {
	if i := strings.IndexByte(s, '\n'); i >= 0 {
		s = s[:i]
	}
	if len(s) > 300 {
		s = s[:300]
	}
	return s
}

func loadWorld(repo string, overlay map[string][]byte, tier string, goos string, normalized bool) (*World, error) {
	t0 := time.Now()
	tmp, err := os.MkdirTemp("", "rvet-mod-")
	if err != nil {
		return nil, err
	}
	defer os.RemoveAll(tmp)
	// A plain -mod=mod run inside /repo rewrites go.mod; work on a private copy of it.
	for _, f := range []string{"go.mod", "go.sum"} {
		b, err := os.ReadFile(filepath.Join(repo, f))
		if err != nil {
			return nil, fmt.Errorf("read %s: %w", f, err)
		}
		if err := os.WriteFile(filepath.Join(tmp, f), b, 0o644); err != nil {
			return nil, err
		}
	}
	env := []string{}
	for _, e := range os.Environ() {
		if strings.HasPrefix(e, "GOFLAGS=") || strings.HasPrefix(e, "GOWORK=") || strings.HasPrefix(e, "GOOS=") {
			continue
		}
		env = append(env, e)
	}
	env = append(env,
		"GOFLAGS=-mod=mod -modfile="+filepath.Join(tmp, "go.mod"),
		"GOPROXY=off", "GOSUMDB=off", "GOTOOLCHAIN=local", "GOWORK=off", "CGO_ENABLED=0")
	if goos != "" {
		env = append(env, "GOOS="+goos)
	}
	cfg := &packages.Config{
		Mode:    packages.LoadAllSyntax,
		Dir:     repo,
		Env:     env,
		Overlay: overlay,
		Tests:   false,
	}
	pkgs, err := packages.Load(cfg, "./...")
	if err != nil {
		return nil, fmt.Errorf("packages.Load: %w", err)
	}
	w := &World{RepoDir: repo, Mod: map[string]*packages.Package{}, ByPath: map[string]*packages.Package{}, Tier: tier}
	var errs []string
	packages.Visit(pkgs, nil, func(p *packages.Package) {
		w.All = append(w.All, p)
		w.ByPath[p.PkgPath] = p
		if p.PkgPath == modPath || strings.HasPrefix(p.PkgPath, modPath+"/") {
			w.Mod[p.PkgPath] = p
			for _, e := range p.Errors {
				errs = append(errs, e.Error())
			}
			if p.IllTyped {
				errs = append(errs, p.PkgPath+": ill-typed")
			}
		}
	})
	if len(w.Mod) == 0 {
		return nil, fmt.Errorf("no module packages loaded from %s", repo)
	}
	if len(errs) > 0 {
		sort.Strings(errs)
		if len(errs) > 8 {
			errs = errs[:8]
		}
		return nil, fmt.Errorf("type errors in module packages: %s", strings.Join(errs, "; "))
	}
	if len(pkgs) > 0 {
		w.Fset = pkgs[0].Fset
	}
	w.LoadS = time.Since(t0).Seconds()
	t1 := time.Now()
	prog, _ := ssautil.AllPackages(pkgs, ssa.InstantiateGenerics)
	prog.Build()
	w.Prog = prog
	w.SSAS = time.Since(t1).Seconds()
	return w, nil
}

func gitStatus(repo string) string {
	out, err := exec.Command("git", "-C", repo, "status", "--porcelain").Output()
	if err != nil {
		return "git-error:" + err.Error()
	}
	return string(out)
}

// Pkg returns the module package with the given path relative to the module root ("" = root).
func (w *World) Pkg(rel string) *packages.Package {
	p := modPath
	if rel != "" {
		p += "/" + rel
	}
	return w.Mod[p]
}

func (w *World) SSAPkg(rel string) *ssa.Package {
	p := w.Pkg(rel)
	if p == nil || p.Types == nil {
		return nil
	}
	return w.Prog.Package(p.Types)
}

// Func resolves a package-level function or a method by "rel/pkg", "Name" or "Type.Name".
// Methods are looked up on the pointer receiver's method set (covers value methods too).
func (w *World) Func(rel, name string) *ssa.Function {
	sp := w.SSAPkg(rel)
	if sp == nil {
		return nil
	}
	if i := strings.IndexByte(name, '.'); i >= 0 {
		tn, mn := name[:i], name[i+1:]
		obj := sp.Pkg.Scope().Lookup(tn)
		if obj == nil {
			return nil
		}
		named, ok := obj.Type().(*types.Named)
		if !ok {
			return nil
		}
		for _, t := range []types.Type{types.NewPointer(named), named} {
			ms := w.Prog.MethodSets.MethodSet(t)
			for i := 0; i < ms.Len(); i++ {
				if ms.At(i).Obj().Name() == mn {
					fn := w.Prog.MethodValue(ms.At(i))
					if fn != nil && fn.Synthetic != "" && strings.Contains(fn.Synthetic, "wrapper") {
						// promoted through embedding or value->pointer wrapper: resolve the declared one
						if f2 := w.Prog.FuncValue(ms.At(i).Obj().(*types.Func)); f2 != nil {
							return f2
						}
					}
					return fn
				}
			}
		}
		return nil
	}
	return sp.Func(name)
}

// NamedType looks a named type up in a module package.
func (w *World) NamedType(rel, name string) *types.Named {
	p := w.Pkg(rel)
	if p == nil {
		return nil
	}
	obj := p.Types.Scope().Lookup(name)
	if obj == nil {
		return nil
	}
	n, _ := obj.Type().(*types.Named)
	return n
}

// ExtType looks a named type up in any loaded package by full import path.
func (w *World) ExtType(path, name string) *types.Named {
	p := w.ByPath[path]
	if p == nil || p.Types == nil {
		return nil
	}
	obj := p.Types.Scope().Lookup(name)
	if obj == nil {
		return nil
	}
	n, _ := obj.Type().(*types.Named)
	return n
}

func (w *World) Global(rel, name string) *ssa.Global {
	sp := w.SSAPkg(rel)
	if sp == nil {
		return nil
	}
	g, _ := sp.Members[name].(*ssa.Global)
	return g
}

func inModule(fn *ssa.Function) bool {
	if fn == nil {
		return false
	}
	p := fn.Package()
	if p == nil {
		if fn.Origin() != nil {
			p = fn.Origin().Package()
		}
		if p == nil && fn.Parent() != nil {
			return inModule(fn.Parent())
		}
	}
	if p == nil || p.Pkg == nil {
		// synthetic wrappers (bound methods, thunks) have no package: use the wrapped object's
		if obj := fn.Object(); obj != nil && obj.Pkg() != nil {
			pp := obj.Pkg().Path()
			return pp == modPath || strings.HasPrefix(pp, modPath+"/")
		}
		return false
	}
	pp := p.Pkg.Path()
	return pp == modPath || strings.HasPrefix(pp, modPath+"/")
}

// isGenerated reports whether fn lives in the generated protobuf package.
func isGenerated(fn *ssa.Function) bool {
	p := fn.Package()
	if p == nil && fn.Origin() != nil {
		p = fn.Origin().Package()
	}
	return p != nil && p.Pkg != nil && p.Pkg.Path() == modPath+"/regattapb"
}

// ModFuncs lists every function with a body that belongs to the module: declared functions,
// methods, closures and generic instantiations; generated code included.
func (w *World) ModFuncs() []*ssa.Function {
	if w.modFuncs != nil {
		return w.modFuncs
	}
	all := ssautil.AllFunctions(w.Prog)
	// after normalisation a new helper all of whose calls were inlined is dead code: it is left
	// out (with its closures), its body is analysed where it was inlined
	orphan := map[*ssa.Function]bool{}
	if w.Normalized {
		reviewed := loadReviewedFuncs()
		used := map[*ssa.Function]bool{}
		for fn := range all {
			if strings.HasPrefix(fn.Synthetic, "wrapper for") {
				continue // promoted-method wrappers (embedding) are no uses
			}
			for _, b := range fn.Blocks {
				for _, in := range b.Instrs {
					for _, op := range in.Operands(nil) {
						if op != nil && *op != nil {
							if g, ok := (*op).(*ssa.Function); ok {
								used[g] = true
							}
						}
					}
				}
			}
		}
		for fn := range all {
			if os.Getenv("RVET_DEBUG_NORM") != "" && strings.Contains(fn.String(), "appliedIndexListener") {
				fmt.Fprintln(os.Stderr, "cand:", fn.String(), fn.Blocks == nil, !inModule(fn), fn.Parent() != nil, fn.Synthetic, used[fn])
			}
			if fn.Blocks == nil || !inModule(fn) || fn.Parent() != nil || fn.Synthetic != "" || used[fn] {
				continue
			}
			obj, ok := fn.Object().(*types.Func)
			if !ok || obj.Pkg() == nil || obj.Exported() && false {
				continue
			}
			key := obj.Pkg().Path() + "."
			if sig, ok := obj.Type().(*types.Signature); ok && sig.Recv() != nil {
				if n, ok := deref(sig.Recv().Type()).(*types.Named); ok {
					key += n.Obj().Name() + "."
				}
			}
			key += obj.Name()
			if reviewed != nil && !reviewed[key] && obj.Name() != "init" && obj.Name() != "main" {
				// methods may still be reached through interfaces: only plain functions and
				// methods of types that implement no module interface method of that name
				if sig := obj.Type().(*types.Signature); sig.Recv() == nil || !obj.Exported() {
					orphan[fn] = true
					if os.Getenv("RVET_DEBUG_NORM") != "" {
						fmt.Fprintln(os.Stderr, "orphan:", fn.String())
					}
				}
			}
		}
	}
	orphanObj := map[types.Object]bool{}
	for f := range orphan {
		if o := f.Object(); o != nil {
			orphanObj[o] = true
		}
	}
	isOrphan := func(fn *ssa.Function) bool {
		for f := fn; f != nil; f = f.Parent() {
			if orphan[f] || (f.Synthetic != "" && f.Object() != nil && orphanObj[f.Object()]) {
				return true
			}
		}
		return false
	}
	for fn := range all {
		if fn.Blocks == nil || !inModule(fn) || isOrphan(fn) {
			continue
		}
		w.modFuncs = append(w.modFuncs, fn)
	}
	sort.Slice(w.modFuncs, func(i, j int) bool {
		a, b := w.modFuncs[i], w.modFuncs[j]
		if a.Pos() != b.Pos() {
			return a.Pos() < b.Pos()
		}
		return a.String() < b.String()
	})
	return w.modFuncs
}

// CallGraph returns CHA (quick) or VTA-refined (thorough) whole-program call graph.
func (w *World) CallGraph() *callgraph.Graph {
	if w.cg != nil {
		return w.cg
	}
	g := cha.CallGraph(w.Prog)
	w.cgKind = "cha"
	if w.Tier == "thorough" {
		g = vta.CallGraph(ssautil.AllFunctions(w.Prog), g)
		w.cgKind = "vta(cha)"
	}
	w.cg = g
	return g
}

// Pos renders a position relative to the repository root.
func (w *World) Pos(p token.Pos) string {
	if !p.IsValid() {
		return "?"
	}
	pp := w.Fset.Position(p)
	rel, err := filepath.Rel(w.RepoDir, pp.Filename)
	if err != nil || strings.HasPrefix(rel, "..") {
		rel = pp.Filename
		if i := strings.Index(rel, "/pkg/mod/"); i >= 0 {
			rel = rel[i+len("/pkg/mod/"):]
		}
	}
	return fmt.Sprintf("%s:%d", rel, pp.Line)
}

// FnName is a stable printable name of a function: pkg-relative, closures as parent$n.
func FnName(fn *ssa.Function) string {
	if fn == nil {
		return "<nil>"
	}
	s := fn.String()
	s = strings.ReplaceAll(s, modPath+"/", "")
	s = strings.ReplaceAll(s, modPath, "regatta")
	return s
}
