package main

// C10 — revisions follow commit order; linearizable reads see all acknowledged writes.

import (
	"go/types"
	"strings"

	"golang.org/x/tools/go/ssa"
)

func init() {
	register("C10", "revisions follow commit order; read path selection", checkC10)
}

func checkC10(w *World, r *Report) {
	r.Decides = "C10 is decided in its structural part only: (a) provenance of the revision: every command result carries the entry's own index, Update hands the marshalled result back for every command kind except the internal no-op, the table layer copies the decoded revision into the response header, nothing else writes ResponseHeader.Revision and the forwarding server returns the leader's message untouched; (b) the consensus read is taken exactly on the linearizable edge and the local read on the other, and the flag is the request's Linearizable for range reads, the constant true for read-only transactions, table snapshots and the replication handler's first applied-index read; (c) reads nested in logged commands go through the apply batch (they see every write with a smaller revision, also those of the same apply call); (d) a read-only transaction reads one Pebble snapshot (a state that existed). (f) a follower acknowledges a forwarded write only with the notification queue's answer for the leader's revision."
	r.NotDecided = []string{"linearizability / prefix consistency of what dragonboat's SyncRead and StaleRead return", "concurrent client histories"}
	r.Assume = []string{"dragonboat assigns consecutive indices in commit order and SyncRead is a ReadIndex read"}
	a := w.FsmAnchors()
	if len(a.Problems) > 0 || a.Update == nil {
		ob := r.Ob("C10.anchors", "anchors", "roles of the table state machine resolve", "")
		ob.Undecided("anchors", strings.Join(a.Problems, "; "))
		return
	}
	c03Revision(w, r, a, "C10.a1", "a1-result-revision")
	c10ResultReported(w, r, a)
	c10HeaderRevision(w, r, a)
	c10ReadPath(w, r)
	// a logged transaction's nested reads must see every write with a smaller revision: the apply
	// path reads its own (indexed) batch; a read-only transaction must reflect one state that existed
	c01ReadOwnBatch(w, r, a, "C10.c", "c-apply-reads-own-batch")
	c02OneSnapshot(w, r, a, "C10.d", "d-readonly-txn-one-state")
	c05Batching(w, r, "C10.e", "e-follower-index-not-ahead")
	// a streamed read comes from one iterator, hence one state: the generator opens its Pebble
	// iterator once, outside its loop (C09.a checks the full protocol)
	{
		ob := r.Ob("C10.h", "h-streamed-read-one-state", "every range generator of the state machine (the lazy sequence behind Range / IterateRange) calls NewIter exactly once and not inside a loop", "a stream that closes and re-opens its iterator between two messages mixes several states: the old value of one key with the new value of another written by the same transaction - a state that never existed")
		_, gens := findRangeGenerators(w)
		if len(gens) == 0 {
			ob.Undecided("anchor", "no range generator found")
		}
		for _, gen := range gens {
			n := 0
			eachInstr(gen, func(in ssa.Instruction) {
				c := callOf(in)
				if c == nil {
					return
				}
				if (c.IsInvoke() && c.Method.Name() == "NewIter") || strings.HasSuffix(CalleeName(c), ".NewIter") {
					n++
					ob.Site(in.Pos(), "iterator opened in "+FnName(gen))
					if inCycle(in.Block()) {
						ob.Violate("newiter-in-loop@"+FnName(gen), in.Pos(), "the range generator opens a Pebble iterator inside its loop: one stream reads from several states")
					}
				}
			})
			if n != 1 {
				ob.Violate("newiter-count@"+FnName(gen), gen.Pos(), "the range generator opens "+itoa(n)+" Pebble iterators, expected exactly one")
			}
		}
		ob.NeedFloor(1)
	}
	// a transaction with several single-key predicates evaluates each under its own key (the
	// shared key buffer is emptied between them, C12.d3)
	c12BufferReuse(w, r, "C10.g", "g-predicates-under-their-own-keys")
	// on a follower a write is acknowledged only once it is applied locally: otherwise a
	// linearizable read on that node, started after the acknowledgement, misses it
	if q := findQueue(w); q != nil {
		c11Forwarding(w, r, q, "C10.f", "f-forwarded-write-applied-before-ack")
	} else {
		r.Ob("C10.f", "f-forwarded-write-applied-before-ack", "the forwarding handlers wait for the local apply", "").Undecided("anchors", "notification queue not found")
	}
}

func c10ResultReported(w *World, r *Report, a *FsmA) {
	ob := r.Ob("C10.a2", "a2-result-reported", "in Update, from every command handler call each path to the next iteration or to a success return crosses the store of the marshalled handler result into the entry's Result.Data, except over the edge dyn(cmd) == no-op command", "a skipped result makes the client decode revision 0 (transaction whose executed branch is empty)")
	up := a.Update
	ctx := &ExprCtx{}
	isHandle := func(in ssa.Instruction) bool {
		c := plainCall(in)
		if c == nil || !c.IsInvoke() {
			return false
		}
		n, ok := c.Value.Type().(*types.Named)
		return ok && n == a.CmdIface
	}
	// the no-op command type: implementer of the command interface that is an empty struct
	noop := ""
	for _, h := range a.Handlers {
		rt := h.Signature.Recv().Type()
		if st, ok := deref(rt).Underlying().(*types.Struct); ok && st.NumFields() == 0 {
			noop = typeString(rt)
		}
	}
	n := 0
	eachInstr(up, func(in ssa.Instruction) {
		if !isHandle(in) {
			return
		}
		n++
		hv := in.(ssa.Value)
		ob.Site(in.Pos(), "handler call in Update (no-op type "+noop+")")
		var resVal ssa.Value
		if hv.Referrers() != nil {
			for _, rr := range *hv.Referrers() {
				if ex, ok := rr.(*ssa.Extract); ok && typeIs(ex.Type(), pbPkg, "CommandResult") {
					resVal = ex
				}
			}
		}
		isDataStore := func(x ssa.Instruction) bool {
			st, ok := x.(*ssa.Store)
			if !ok {
				return false
			}
			fa, ok := st.Addr.(*ssa.FieldAddr)
			if !ok || !typeIs(fa.X.Type(), smPath, "Result") || fieldAddrName(fa) != "Data" {
				return false
			}
			// the stored bytes are MarshalVT of this handler's result
			e := Expr(st.Val)
			if !strings.Contains(e, "CommandResult).Marshal") {
				return false
			}
			if call := marshalRecv(st.Val); call != nil && resVal != nil && call != resVal {
				return false
			}
			return true
		}
		scc := sccOf(in.Block())
		h := loopHeader(scc)
		wk := &Walk{
			Barrier: isDataStore,
			Target: func(x ssa.Instruction) bool {
				if h != nil && x.Block() == h {
					return true
				}
				return isSuccessReturn(x)
			},
			EdgeOK: func(b *ssa.BasicBlock, k int) bool {
				for _, l := range ctx.EdgeLits(b, k) {
					if l.Kind == "eq" && !l.Neg && strings.HasPrefix(l.A, "dyn(") && noop != "" && l.B == noop {
						return false
					}
				}
				return true
			},
		}
		if p := wk.Find(after(in)); p != nil {
			ob.Violate("skip-edge", instrPos(p.Hit), "after a command was handled Update can go on without storing the marshalled result into Result.Data (other than for the no-op command): the client decodes revision 0", w.PathString(p)...)
		}
	})
	if n == 0 {
		ob.Undecided("shape", "no handler call in Update")
	}
	ob.NeedFloor(1)
}

// marshalRecv: for a value derived from `X.MarshalVT()` returns X.
func marshalRecv(v ssa.Value) ssa.Value {
	for i := 0; i < 4; i++ {
		switch x := v.(type) {
		case *ssa.Extract:
			v = x.Tuple
		case *ssa.Call:
			if len(x.Call.Args) > 0 && strings.Contains(CalleeName(&x.Call), "CommandResult).Marshal") {
				return x.Call.Args[0]
			}
			return nil
		default:
			return nil
		}
	}
	return nil
}

func c10HeaderRevision(w *World, r *Report, a *FsmA) {
	ob := r.Ob("C10.a3", "a3-header-revision", "every store to regattapb.ResponseHeader.Revision in non-generated module code is in the table layer and its value is the Revision decoded from the apply result (CommandResult.Revision, directly or as the proposal helper's second result, which returns it on its success path); the forwarding server's write handlers return the leader's response object itself", "otherwise the revision a client sees is not the log position of its write")
	var prop *ssa.Function
	for _, fn := range w.ModFuncs() {
		if fn.Origin() == nil && fn.Name() == "proposeTable" && fn.Package() != nil && fn.Package().Pkg.Path() == modPath+"/storage/table" {
			prop = fn
		}
	}
	for _, fn := range w.ModFuncs() {
		if isGenerated(fn) {
			continue
		}
		eachInstr(fn, func(in ssa.Instruction) {
			st, ok := in.(*ssa.Store)
			if !ok {
				return
			}
			fa, ok := st.Addr.(*ssa.FieldAddr)
			if !ok || !typeIs(fa.X.Type(), pbPkg, "ResponseHeader") || fieldAddrName(fa) != "Revision" {
				return
			}
			e := Expr(st.Val)
			ob.Site(in.Pos(), "ResponseHeader.Revision = "+e+" in "+FnName(fn))
			inTable := false
			for f := fn; f != nil; f = f.Parent() {
				if f.Package() != nil && f.Package().Pkg.Path() == modPath+"/storage/table" {
					inTable = true
				}
			}
			if !inTable {
				ob.Violate("revision-written-outside-table@"+FnName(fn), in.Pos(), "ResponseHeader.Revision is written outside the table layer, from `"+e+"`")
				return
			}
			okSrc := strings.HasSuffix(e, ".Revision") && strings.Contains(e, "complit")
			if strings.Contains(e, "proposeTable") && strings.HasSuffix(e, "#1") {
				okSrc = true
			}
			if !okSrc {
				ob.Violate("revision-source@"+FnName(fn), in.Pos(), "ResponseHeader.Revision is set from `"+e+"`, not from the revision decoded from the apply result")
			}
		})
	}
	// the proposal helper returns pr.Revision on success, where pr is unmarshalled from res.Data
	if prop == nil {
		ob.Undecided("anchor/proposeTable", "proposal helper not found")
	} else {
		for _, inst := range append([]*ssa.Function{}, instantiations(w, prop)...) {
			eachInstr(inst, func(in ssa.Instruction) {
				ret, ok := in.(*ssa.Return)
				if !ok || isErrorReturn(ret) || len(ret.Results) != 3 {
					return
				}
				e := Expr(retVal(ret, 1))
				ob.Site(ret.Pos(), "proposal helper returns revision "+e+" in "+FnName(inst))
				if !(strings.HasSuffix(e, ".Revision")) {
					ob.Violate("helper-revision@"+FnName(inst), ret.Pos(), "the proposal helper returns `"+e+"` as revision")
				}
			})
			// pr is decoded from res.Data of the SyncPropose result
			found := false
			eachInstr(inst, func(in ssa.Instruction) {
				c := plainCall(in)
				if c != nil && strings.Contains(CalleeName(c), "CommandResult).UnmarshalVT") {
					if strings.Contains(Expr(c.Args[1]), "SyncPropose") && strings.HasSuffix(Expr(c.Args[1]), ".Data") {
						found = true
					}
				}
			})
			if !found {
				ob.Violate("helper-decode@"+FnName(inst), inst.Pos(), "the proposal helper does not decode the result of its own proposal")
			}
		}
	}
	// forwarding server: returned message is the client's response
	for _, m := range []string{"Put", "DeleteRange", "Txn"} {
		fn := w.Func("regattaserver", "ForwardingKVServer."+m)
		if fn == nil {
			ob.Undecided("anchor/forwarding."+m, "ForwardingKVServer."+m+" not found")
			continue
		}
		eachInstr(fn, func(in ssa.Instruction) {
			ret, ok := in.(*ssa.Return)
			if !ok || len(ret.Results) != 2 {
				return
			}
			v := retVal(ret, 0)
			if isNilConst(v) {
				return
			}
			e := Expr(v)
			ob.Site(ret.Pos(), "ForwardingKVServer."+m+" returns "+e)
			if !(strings.Contains(e, "KVClient)."+m+"(") && strings.HasSuffix(e, "#0")) && !strings.Contains(e, "KVServer).Txn(") {
				ob.Violate("forwarding-response@"+m, ret.Pos(), "the forwarding server returns `"+e+"`, not the leader's response")
			}
		})
		// no store into the leader's response
		eachInstr(fn, func(in ssa.Instruction) {
			st, ok := in.(*ssa.Store)
			if !ok {
				return
			}
			if fa, ok := st.Addr.(*ssa.FieldAddr); ok && (typeIs(fa.X.Type(), pbPkg, "ResponseHeader") || strings.HasSuffix(typeString(deref(fa.X.Type())), "Response")) {
				ob.Violate("forwarding-modifies@"+m, in.Pos(), "the forwarding server modifies the leader's response ("+fieldAddrName(fa)+")")
			}
		})
	}
	ob.NeedFloor(8)
}

// instantiations of a generic function (or the function itself when not generic).
func instantiations(w *World, fn *ssa.Function) []*ssa.Function {
	var out []*ssa.Function
	for _, f := range w.ModFuncs() {
		if f.Origin() == fn {
			out = append(out, f)
		}
	}
	if len(out) == 0 && fn.Blocks != nil {
		out = append(out, fn)
	}
	return out
}

func c10ReadPath(w *World, r *Report) {
	ob := r.Ob("C10.b", "b-read-path-selection", "in the read helper SyncRead is reachable only over the linearizable==true edge and StaleRead only over the other; the flag at its call sites is the request's Linearizable (Range, Iterator), the constant true (read-only Txn, Snapshot) or a parameter whose callers pass true where the statement requires it (the replication handler's applied-index read before streaming)", "a linearizable read served from local state misses acknowledged writes on a lagging replica")
	var rt *ssa.Function
	for _, fn := range w.ModFuncs() {
		if fn.Origin() == nil && fn.Name() == "readTable" && fn.Package() != nil && fn.Package().Pkg.Path() == modPath+"/storage/table" {
			rt = fn
		}
	}
	if rt == nil {
		ob.Undecided("anchor", "read helper not found")
		return
	}
	insts := instantiations(w, rt)
	ctx := &ExprCtx{}
	for _, inst := range insts {
		for _, what := range []struct {
			callee string
			lit    Lit
		}{{"SyncRead", LBool("$2")}, {"StaleRead", LNotBool("$2")}} {
			isCall := func(in ssa.Instruction) bool {
				c := plainCall(in)
				return c != nil && c.IsInvoke() && c.Method.Name() == what.callee
			}
			edgeOK := func(b *ssa.BasicBlock, k int) bool {
				for _, l := range ctx.EdgeLits(b, k) {
					if l.Implies(what.lit) {
						return false
					}
				}
				return true
			}
			found := false
			// the call sits in the helper itself, or in a closure the helper creates and runs once
			// (directly, or selected through a phi whose delivering edge carries the flag)
			for _, f := range withClosures(inst) {
				has := false
				eachInstr(f, func(in ssa.Instruction) {
					if isCall(in) {
						has = true
					}
				})
				if !has {
					continue
				}
				found = true
				if f == inst {
					wk := &Walk{Target: isCall, EdgeOK: edgeOK}
					if p := wk.Find(entry(inst)); p != nil {
						ob.Violate("read-path/"+what.callee, instrPos(p.Hit), what.callee+" is reachable without the linearizable flag being "+what.lit.String(), w.PathString(p)...)
					}
					continue
				}
				mc := makeClosureOf(f)
				if mc == nil || f.Parent() != inst {
					ob.Violate("read-path/"+what.callee, f.Pos(), what.callee+" is called in a nested closure whose activation is not resolved")
					continue
				}
				uses, ok := closureActivations(mc)
				if !ok || len(uses) == 0 {
					ob.Violate("read-path/"+what.callee, mc.Pos(), what.callee+" is called in a closure that escapes the read helper (stored or passed on): its activation is not resolved")
					continue
				}
				for _, u := range uses {
					if u.Pred != nil {
						if !edgeOnlyUnder(ctx, u.Pred, u.Phi.Block(), what.lit) {
							ob.Violate("read-path/"+what.callee, u.Call.Pos(), "the closure calling "+what.callee+" is selected without the linearizable flag being "+what.lit.String())
						}
						continue
					}
					tgt := u.Call
					wk := &Walk{Target: func(in ssa.Instruction) bool { return in == tgt.(ssa.Instruction) }, EdgeOK: edgeOK}
					if p := wk.Find(entry(inst)); p != nil {
						ob.Violate("read-path/"+what.callee, instrPos(p.Hit), "the closure calling "+what.callee+" runs without the linearizable flag being "+what.lit.String(), w.PathString(p)...)
					}
				}
			}
			if !found {
				ob.Violate("read-call-missing/"+what.callee, inst.Pos(), "the read helper never calls "+what.callee)
			}
		}
	}
	ob.Site(rt.Pos(), "read helper with "+itoa(len(insts))+" instantiations")
	// call sites
	want := map[string]string{ // enclosing method → required flag
		"Range": "$2.Linearizable", "Iterator": "$2.Linearizable", "Txn": "true", "Snapshot": "true",
		"LocalIndex": "$2", "LeaderIndex": "$2",
	}
	for _, inst := range insts {
		for _, ci := range w.CallersOf(inst) {
			encl := ci.Parent()
			e := Expr(ci.Common().Args[2])
			ob.Site(ci.Pos(), "read helper called from "+FnName(encl)+" with linearizable="+e)
			wv, ok := want[encl.Name()]
			if !ok {
				// a call site that was not there when the table was reviewed: if it reads table
				// data (a range, a transaction, an iterator or a snapshot request) its flag is the
				// request's own or the constant true; a status / index request of another type is
				// not one of the reads the property speaks about
				dyn := ""
				if len(ci.Common().Args) > 3 {
					if mi, isMI := ci.Common().Args[3].(*ssa.MakeInterface); isMI {
						dyn = typeString(mi.X.Type())
					}
				}
				data := strings.HasSuffix(dyn, "RequestOp_Range") || strings.HasSuffix(dyn, "TxnRequest") || strings.HasSuffix(dyn, "fsm.IteratorRequest") || strings.HasSuffix(dyn, "fsm.SnapshotRequest") || dyn == ""
				if data && e != "true" && !strings.HasSuffix(e, ".Linearizable") {
					ob.Violate("read-site-unknown@"+FnName(encl), ci.Pos(), "new call site of the read helper in "+FnName(encl)+" reads table data ("+dyn+") with linearizable="+e+": neither the request's flag nor the constant true")
				}
				continue
			}
			if e != wv {
				ob.Violate("read-flag@"+FnName(encl), ci.Pos(), FnName(encl)+" passes linearizable=`"+e+"`, expected `"+wv+"`")
			}
		}
	}
	// replication handler: the applied index read that bounds the stream is linearizable
	if rep := w.Func("regattaserver", "LogServer.Replicate"); rep != nil {
		var first ssa.CallInstruction
		for _, f := range withClosures(rep) {
			eachInstr(f, func(in ssa.Instruction) {
				c := plainCall(in)
				if c == nil || !strings.HasSuffix(CalleeName(c), "ActiveTable).LocalIndex") {
					return
				}
				ob.Site(in.Pos(), "LocalIndex(linearizable="+Expr(c.Args[2])+") in "+FnName(f))
				if f == rep && !inCycle(in.Block()) && first == nil {
					first = in.(ssa.CallInstruction)
				}
			})
		}
		if first == nil {
			ob.Undecided("replicate-shape", "no applied-index read before the streaming loop of the replication handler")
		} else if !isConstBool(first.Common().Args[2], true) {
			ob.Violate("replicate-first-read", first.Pos(), "the replication handler reads the applied index that bounds the stream with linearizable=`"+Expr(first.Common().Args[2])+"`")
		}
	} else {
		ob.Undecided("anchor/Replicate", "regattaserver.LogServer.Replicate not found")
	}
	ob.NeedFloor(8)
}
